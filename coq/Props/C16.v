(* C16 — the strategy loop walks the whole dataset and records a faithful history. Statements only. The composition strategy + broker + eager client + Uist server + Uist exchange is Model/Strategy.v (sys_update, sys_run); the structural theorems hold for every Num F, the two ledgers at F := R. *)
From Coq Require Import ZArith NArith List Bool String Reals Permutation Floats.
From Flocq Require Import Raux.
From Alator Require Import Model.Num Model.Quirks Model.Cost Model.Exchange Model.Uist Model.Server
  Model.Broker Model.Perf Model.Strategy
  Proofs.ServerProofs Proofs.BrokerLedgerProofs Proofs.BrokerLiqProofs Proofs.UistProofs
  Proofs.ExchangeProofs Proofs.ExchangeCorollaries Proofs.StrategyProofs Proofs.EndToEnd16
  Model.Penelope Proofs.PenelopeProofs Proofs.EndToEndCor Proofs.EndToEndExamples.
Import ListNotations.
Local Existing Instance RNum.

(* One update records exactly one snapshot: dated `now`, valued at the broker's total value at that moment, carrying the current net cash flow. *)
Theorem c16_update_one_snapshot :
  forall (F : Type) (NF : Num F) (qk : quirks) (s : strategy F)
           (resp : option (list (trade F) * list (string * quote F))) 
           (now : Z) (ord : list string) (s' : strategy F) (fw : list (uorder F)),
         st_update qk s resp now ord = Ok (s', fw) ->
         st_history s' =
         (st_history s ++
          [{|
             sn_date := now;
             sn_value := total_value (st_brkr s') ord;
             sn_ncf := st_ncf s;
             sn_infl := fzero
           |}])%list /\ st_ncf s' = st_ncf s /\ st_weights s' = st_weights s.
Proof. exact @st_update_snapshot. Qed.

(* In the composition one update is exactly one tick of the strategy's backtest, and the snapshot is dated with the clock date after that tick. *)
Theorem c16_update_is_one_tick :
  forall (F : Type) (NF : Num F) (y : sys F) (perm : list nat) 
           (ord : list string) (y' : sys F) (b : backtest (uexch F))
           (d : dataset (quotes (quote F))) (k : nat),
         SInv (sy_app y) ->
         nlookup (backtests (sy_app y)) (sy_id y) = Some b ->
         slookup (datasets (sy_app y)) (bt_dataset b) = Some d ->
         clock_ok d b k ->
         sys_update clean y perm ord = Ok y' ->
         sy_id y' = sy_id y /\
         SInv (sy_app y') /\
         datasets (sy_app y') = datasets (sy_app y) /\
         (exists b' : backtest (uexch F),
            nlookup (backtests (sy_app y')) (sy_id y) = Some b' /\
            bt_dataset b' = bt_dataset b /\
            clock_ok d b' (S k) /\
            (exists v : F,
               st_history (sy_strat y') =
               (st_history (sy_strat y) ++
                [{|
                   sn_date := bt_date b';
                   sn_value := v;
                   sn_ncf := st_ncf (sy_strat y);
                   sn_infl := fzero
                 |}])%list)).
Proof. exact @sys_update_clock. Qed.

(* run() on a backtest that has done k <= N ticks: whenever it returns it has performed exactly N - k updates (N from a fresh backtest), recorded exactly that many snapshots, and snapshot m is dated with the clock after tick k+m+1 — d_{min(k+m+2, N)} in the property's numbering, hence non-decreasing for increasing datasets. *)
Theorem c16_run_walks_dataset :
  forall (F : Type) (NF : Num F) (fuel : nat) (y : sys F) (perms : nat -> list nat)
           (ords : nat -> list string) (i : nat) (y' : sys F) (n : nat) 
           (b : backtest (uexch F)) (d : dataset (quotes (quote F))) 
           (k : nat),
         SInv (sy_app y) ->
         nlookup (backtests (sy_app y)) (sy_id y) = Some b ->
         slookup (datasets (sy_app y)) (bt_dataset b) = Some d ->
         clock_ok d b k ->
         k <= Datatypes.length (ds_dates d) ->
         sys_run clean fuel y perms ords i = Ok (y', n) ->
         n = i + (Datatypes.length (ds_dates d) - k) /\
         Datatypes.length (st_history (sy_strat y')) =
         Datatypes.length (st_history (sy_strat y)) + (Datatypes.length (ds_dates d) - k) /\
         (forall m : nat,
          m < Datatypes.length (ds_dates d) - k ->
          exists (sn : snapshot F) (dt : Z),
            nth_error (st_history (sy_strat y')) (Datatypes.length (st_history (sy_strat y)) + m) =
            Some sn /\
            nth_error (ds_dates d) (Nat.min (k + m + 1) (Datatypes.length (ds_dates d) - 1)) =
            Some dt /\ sn_date sn = dt).
Proof. exact @sys_run_count. Qed.

(* The fuel of the model's loop is only a device: any two fuels above N - k give the same result (the loop terminates after N - k updates; the out-of-fuel value is never what a sufficiently fuelled run returns). *)
Theorem c16_run_fuel_irrelevant :
  forall (F : Type) (NF : Num F) (fuel1 fuel2 : nat) (y : sys F) 
           (perms : nat -> list nat) (ords : nat -> list string) (i : nat)
           (b : backtest (uexch F)) (d : dataset (quotes (quote F))) 
           (k : nat),
         SInv (sy_app y) ->
         nlookup (backtests (sy_app y)) (sy_id y) = Some b ->
         slookup (datasets (sy_app y)) (bt_dataset b) = Some d ->
         clock_ok d b k ->
         k <= Datatypes.length (ds_dates d) ->
         Datatypes.length (ds_dates d) - k < fuel1 ->
         Datatypes.length (ds_dates d) - k < fuel2 ->
         sys_run clean fuel1 y perms ords i = sys_run clean fuel2 y perms ords i.
Proof. exact @sys_run_fuel_irrelevant. Qed.

(* init records nothing … *)
Theorem c16_only_updates_record :
  forall (F : Type) (NF : Num F) (qk : quirks) (s : strategy F) 
           (cash : F) (ord : list string) (s' : strategy F) (fw : list (uorder F)),
         st_init qk s cash ord = Ok (s', fw) ->
         st_history s' = st_history s /\ st_weights s' = st_weights s.
Proof. exact @st_init_history. Qed.

(* … nor do withdrawals. *)
Theorem c16_withdraw_records_nothing :
  forall (F : Type) (NF : Num F) (s : strategy F) (cash : F),
         st_history (fst (st_withdraw s cash)) = st_history s.
Proof. exact @st_withdraw_history. Qed.

(* A deposit adds its amount to net_cash_flow exactly when the broker accepts it. *)
Theorem c16_deposit_ncf :
  forall (F : Type) (NF : Num F) (s : strategy F) (cash : F),
         st_ncf (st_deposit clean s cash) =
         (if b_failed (st_brkr s) then st_ncf s else (st_ncf s + cash)%num).
Proof. exact @st_deposit_ncf. Qed.

(* A withdrawal subtracts its amount exactly when it succeeds. *)
Theorem c16_withdraw_ncf :
  forall (F : Type) (NF : Num F) (s : strategy F) (cash : F),
         st_ncf (fst (st_withdraw s cash)) =
         (if snd (st_withdraw s cash) then (st_ncf s - cash)%num else st_ncf s).
Proof. exact @st_withdraw_ncf. Qed.

(* [R] Over ALL histories of init / update / withdraw / withdraw-with-liquidation: net_cash_flow = cumulative successful deposits - successful withdrawals; every snapshot carries that figure as of its update (c16_update_one_snapshot). *)
Theorem c16_cash_flow :
  forall (s : strategy R) (ops : list stop) (s' : strategy R),
         st_run s ops = Ok s' -> st_ncf s' = (st_ncf s + ncf_ledger s ops)%R.
Proof. exact @ncf_reconcile. Qed.

(* [R] With every held symbol priced at price(s) by its last seen bid, the broker's total value (any iteration order) is cash + sum of price x holding. *)
Theorem c16_total_value_is_worth :
  forall (price : string -> R) (b : broker R) (ord : list string),
         keys_nodup (b_holdings b) ->
         is_order_of ord (b_holdings b) = true ->
         priced price b [] -> total_value b ord = worth price b.
Proof. exact @total_value_worth. Qed.

(* [R] With ask = bid = price(symbol) on every quote of the row, every trade a Uist tick returns is valued price x quantity. *)
Theorem c16_fills_at_constant_price :
  forall (price : string -> R) (x : uexch R) (row : quotes (quote R)) 
           (perm : list nat) (x' : uexch R) (fl : list (N * trade R)) 
           (adm : list (N * uorder R)) (trig : list N),
         Inv x ->
         (forall (k : string) (q : quote R),
          In (k, q) row -> q_ask q = price k /\ q_bid q = price k) ->
         (forall e : entry (uorder R), In e (book x) -> True) ->
         uist_tick x row perm = (x', OutTick fl adm trig) ->
         forall (i : N) (t : trade R),
         In (i, t) fl -> t_value t = (price (t_symbol t) * t_quantity t)%R.
Proof. exact @uist_fills_at_price. Qed.

(* [R] Trading alone creates no value: an update whose executed trades are valued at price x quantity leaves cash + sum of price x holding unchanged — whatever the weights, costs and orders (costs are used for sizing only, never charged to cash). *)
Theorem c16_trading_creates_no_value :
  forall (price : string -> R) (s : strategy R) (ts : list (trade R))
           (row : list (string * quote R)) (now : Z) (ord : list string) 
           (s' : strategy R) (fw : list (uorder R)),
         keys_nodup (b_holdings (st_brkr s)) ->
         (forall t : trade R, In t ts -> t_value t = (price (t_symbol t) * t_quantity t)%R) ->
         st_update clean s (Some (ts, row)) now ord = Ok (s', fw) ->
         worth price (st_brkr s') = worth price (st_brkr s) /\
         keys_nodup (b_holdings (st_brkr s')).
Proof. exact @st_update_worth. Qed.

(* [R] … because booking such trades does. *)
Theorem c16_booking_creates_no_value :
  forall (price : string -> R) (b : broker R) (ts : list (trade R)),
         keys_nodup (b_holdings b) ->
         (forall t : trade R, In t ts -> t_value t = (price (t_symbol t) * t_quantity t)%R) ->
         worth price (fold_left book_trade ts b) = worth price b /\
         keys_nodup (b_holdings (fold_left book_trade ts b)).
Proof. exact @book_trades_worth. Qed.

(* [R] init moves that worth by exactly the deposit (when accepted) … *)
Theorem c16_init_value :
  forall (price : string -> R) (s : strategy R) (c : R) (ord : list string)
           (s' : strategy R) (fw : list (uorder R)),
         st_init clean s c ord = Ok (s', fw) ->
         worth price (st_brkr s') =
         (worth price (st_brkr s) + (if b_failed (st_brkr s) then 0 else c))%R.
Proof. exact @st_init_worth. Qed.

(* [R] … and a plain withdrawal by exactly its amount when it succeeds: with constant prices and zero spread every snapshot's value equals the cash deposited minus successful plain withdrawals. *)
Theorem c16_withdraw_value :
  forall (price : string -> R) (s : strategy R) (c : R),
         worth price (st_brkr (fst (st_withdraw s c))) =
         (worth price (st_brkr s) - (if snd (st_withdraw s c) then c else 0))%R.
Proof. exact @st_withdraw_worth. Qed.

(* [R] END TO END, one update of the full composition (strategy + broker + eager client + Uist server + Uist exchange) on a dataset with constant zero-spread prices: the system invariant (the broker stores only such quotes, holds only quoted symbols, every order of its backtest still in the exchange is for a quoted symbol) is preserved, cash + sum of price x holding is unchanged, and the one snapshot recorded shows exactly that figure — whatever the weights, costs, hash orders and sort oracle; gaps (dates without a row, symbols coming and going) included. *)
Theorem c16_update_keeps_worth :
  forall (price : string -> R) (y : sys R) (perm : list nat) (ord : list string)
           (y' : sys R),
         sys_inv price y ->
         sys_update clean y perm ord = Ok y' ->
         sys_inv price y' /\
         worth price (st_brkr (sy_strat y')) = worth price (st_brkr (sy_strat y)) /\
         (exists sn : snapshot R,
            st_history (sy_strat y') = (st_history (sy_strat y) ++ [sn])%list /\
            sn_value sn = worth price (st_brkr (sy_strat y))).
Proof. exact @sys_update_const. Qed.

(* [R] … hence for the whole run(): every snapshot it records shows the worth the system had when it started. *)
Theorem c16_run_keeps_worth :
  forall (price : string -> R) (fuel : nat) (y : sys R) (perms : nat -> list nat)
           (ords : nat -> list string) (i : nat) (y' : sys R) (n : nat),
         sys_inv price y ->
         sys_run clean fuel y perms ords i = Ok (y', n) ->
         sys_inv price y' /\
         (exists new : list (snapshot R),
            st_history (sy_strat y') = (st_history (sy_strat y) ++ new)%list /\
            Forall (fun sn : snapshot R => sn_value sn = worth price (st_brkr (sy_strat y))) new).
Proof. exact @sys_run_const. Qed.

(* [R] END TO END from a fresh start: a strategy over a broker that has seen the first date's quotes, init(c), run() on an N-date dataset with constant zero-spread prices: exactly N updates, N snapshots, EVERY snapshot's portfolio value equals the cash deposited c. *)
Theorem c16_constant_prices_end_to_end :
  forall (price : string -> R) (a : uapp) (id : N) (b : backtest (uexch R))
           (d : dataset (quotes (quote R))) (costs : list (cost R)) (q0 : smap (quote R))
           (ws : list (string * R)) (c : R) (ord0 : list string) (s1 : strategy R)
           (fw : list (uorder R)) (fuel : nat) (perms : nat -> list nat)
           (ords : nat -> list string) (y' : sys R) (n : nat),
         SInv a ->
         nlookup (backtests a) id = Some b ->
         slookup (datasets a) (bt_dataset b) = Some d ->
         clock_ok d b 0 ->
         bt_exch b = exch_init ->
         dataset_const price d ->
         quotes_const price q0 ->
         let s0 :=
           {|
             st_brkr := broker_init costs q0; st_weights := ws; st_ncf := 0%R; st_history := []
           |} in
         st_init clean s0 c ord0 = Ok (s1, fw) ->
         sys_run clean fuel {| sy_strat := s1; sy_app := forward clean a id fw; sy_id := id |}
           perms ords 0 = Ok (y', n) ->
         n = Datatypes.length (ds_dates d) /\
         Datatypes.length (st_history (sy_strat y')) = Datatypes.length (ds_dates d) /\
         Forall (fun sn : snapshot R => sn_value sn = c) (st_history (sy_strat y')).
Proof. exact @c16_constant_prices_end_to_end. Qed.

(* [R] … and with plain withdrawals interleaved between updates every snapshot shows the deposit minus the successful withdrawals so far. *)
Theorem c16_constant_prices_with_withdrawals :
  forall (price : string -> R) (a : uapp) (id : N) (b : backtest (uexch R))
           (d : dataset (quotes (quote R))) (costs : list (cost R)) (q0 : smap (quote R))
           (ws : list (string * R)) (c : R) (ord0 : list string) (s1 : strategy R)
           (fw : list (uorder R)) (pre : list yop) (y1 : sys R) (perm : list nat)
           (ord : list string) (y2 : sys R),
         SInv a ->
         nlookup (backtests a) id = Some b ->
         slookup (datasets a) (bt_dataset b) = Some d ->
         clock_ok d b 0 ->
         bt_exch b = exch_init ->
         dataset_const price d ->
         quotes_const price q0 ->
         let s0 :=
           {|
             st_brkr := broker_init costs q0; st_weights := ws; st_ncf := 0%R; st_history := []
           |} in
         let y0 := {| sy_strat := s1; sy_app := forward clean a id fw; sy_id := id |} in
         st_init clean s0 c ord0 = Ok (s1, fw) ->
         yrun y0 pre = Ok y1 ->
         sys_update clean y1 perm ord = Ok y2 ->
         exists sn : snapshot R,
           st_history (sy_strat y2) = (st_history (sy_strat y1) ++ [sn])%list /\
           sn_value sn = (c - ywithdrawn y0 pre)%R.
Proof. exact @c16_constant_prices_with_withdrawals. Qed.

(* Non-vacuity, kernel-evaluated at the IEEE instance: a 3-date constant zero-spread dataset with a gap, 1 % costs, two weights, deposit 1000: three updates, three snapshots each worth exactly 1000, positions opened along the way. *)
Theorem c16_end_to_end_example :
  @bind (sys float) (list string * list (Z * float) * option bool) ex_start
           (fun y0 : sys float =>
            @bind (sys float) (list string * list (Z * float) * option bool) 
              (try_update y0)
              (fun y1 : sys float =>
               @bind (sys float) (list string * list (Z * float) * option bool) 
                 (try_update y1)
                 (fun y2 : sys float =>
                  @bind (sys float) (list string * list (Z * float) * option bool)
                    (try_update y2)
                    (fun y3 : sys float =>
                     @Ok (list string * list (Z * float) * option bool) (show y3))))) =
         @Ok (list string * list (Z * float) * option bool)
           (["BCD"; "ABC"], [(2%Z, 1000%float); (3%Z, 1000%float); (3%Z, 1000%float)],
            @Some bool false).
Proof. exact @c16_end_to_end_observed_at_floats. Qed.

(* [R] The dataset premise holds of every Penelope loaded with bid = ask = price(symbol) on every add_quote call. *)
Theorem c16_dataset_constant_when_loaded_so :
  forall (price : string -> R) (calls : list (R * R * Z * string)),
         (forall (b a : R) (d : Z) (s : string),
          In (b, a, d, s) calls -> a = price s /\ b = price s) ->
         dataset_const price (load calls).
Proof. exact @load_dataset_const. Qed.

(* Refuted for the code as it was: deposit_cash did net_cash_flow += net_cash_flow, so the figure stayed 0 whatever was deposited. *)
Theorem c16_refuted_q_strategy_ncf_self_add :
  forall (F : Type) (NF : Num F) (s : strategy F) (cash : F) (qk : quirks),
         q_strategy_ncf_self_add qk = true ->
         st_ncf (st_deposit qk s cash) = (st_ncf s + st_ncf s)%num.
Proof. exact @st_deposit_ncf_defect. Qed.

Print Assumptions c16_update_one_snapshot.
Print Assumptions c16_update_is_one_tick.
Print Assumptions c16_run_walks_dataset.
Print Assumptions c16_run_fuel_irrelevant.
Print Assumptions c16_only_updates_record.
Print Assumptions c16_withdraw_records_nothing.
Print Assumptions c16_deposit_ncf.
Print Assumptions c16_withdraw_ncf.
Print Assumptions c16_cash_flow.
Print Assumptions c16_total_value_is_worth.
Print Assumptions c16_fills_at_constant_price.
Print Assumptions c16_trading_creates_no_value.
Print Assumptions c16_booking_creates_no_value.
Print Assumptions c16_init_value.
Print Assumptions c16_withdraw_value.
Print Assumptions c16_update_keeps_worth.
Print Assumptions c16_run_keeps_worth.
Print Assumptions c16_constant_prices_end_to_end.
Print Assumptions c16_constant_prices_with_withdrawals.
Print Assumptions c16_end_to_end_example.
Print Assumptions c16_dataset_constant_when_loaded_so.
Print Assumptions c16_refuted_q_strategy_ncf_self_add.
