(* C01 — no look-ahead: an order never fills on the tick that admits it. Statements only; the skeleton theorems hold for EVERY decision function (hence for both exchanges and all order types) and every number type; the server theorems for every exchange. The property's last sentence is ONE theorem about the composition server + exchange (c01_end_to_end and its instances for the two services over Penelope-built datasets): orders carry a ghost tag — the clock date their backtest showed when the client submitted them (Model/Tagged.v) — through the very same polymorphic skeleton, erasing the tags gives back the model that is tied to the code (c01_tagged_run_erases), and every fill's date is strictly later than its order's tag. Proofs in Proofs/. *)
From Coq Require Import ZArith NArith List Bool String Permutation Sorted Floats.
From Alator Require Import Model.Num Model.Quirks Model.Exchange Model.Uist Model.Jura Model.Server Model.Tagged Model.Penelope Model.Strategy Check.ServerCheck
  Proofs.ListAux Proofs.ExchangeProofs Proofs.UistProofs Proofs.JuraProofs Proofs.ExchangeCorollaries
  Proofs.ServerProofs Proofs.PenelopeProofs Proofs.EndToEnd Proofs.EndToEndCor.
Import ListNotations.

(* Every fill of a tick belongs to an order that was resting BEFORE the tick (its id is below the id counter at tick entry), whose symbol is quoted on this tick, and is the value the decision function computes from that order and that tick's quote for that symbol — nothing else. Orders admitted by the tick, and trigger children created by it, get ids at or above the counter, so none of them can be among the fills. Fills are in book order. *)
Theorem c01_fills_only_from_resting_book :
  forall (Ord Qt T : Type) (asset_of : Ord -> N) (sym_of : Ord -> string)
           (is_sell : Ord -> bool) (decide : entry Ord -> Qt -> action Ord T) 
           (s : exch Ord T) (qs : quotes Qt) (perm : list nat) (s' : exch Ord T)
           (fl : list (N * T)) (adm : list (N * Ord)) (trig : list N),
         Inv s ->
         tick asset_of sym_of is_sell decide s qs perm = (s', OutTick fl adm trig) ->
         StronglySorted N.lt (map fst fl) /\
         (forall (i : N) (t : T),
          In (i, t) fl ->
          (i < next_id s)%N /\
          (exists (e : entry Ord) (q : Qt),
             In e (book s) /\
             e_id e = i /\ lookup qs (sym_of (e_ord e)) = Some q /\ decide e q = AFill t)) /\
         (forall (j : N) (o : Ord), In (j, o) adm -> (next_id s <= j)%N) /\
         (forall j : N, In j trig -> (next_id s <= j)%N).
Proof. exact @tick_fills_old. Qed.

(* The fills of a tick do not depend on what is in the buffer (the orders submitted since the last tick). *)
Theorem c01_fills_independent_of_buffer :
  forall (Ord Qt T : Type) (asset_of : Ord -> N) (sym_of : Ord -> string)
           (is_sell : Ord -> bool) (decide : entry Ord -> Qt -> action Ord T) 
           (s : exch Ord T) (qs : quotes Qt) (perm perm' : list nat) 
           (buf' : list Ord) (s1 s2 : exch Ord T) (fl1 : list (N * T)) 
           (adm1 : list (N * Ord)) (trig1 : list N) (fl2 : list (N * T)) 
           (adm2 : list (N * Ord)) (trig2 : list N),
         tick asset_of sym_of is_sell decide s qs perm = (s1, OutTick fl1 adm1 trig1) ->
         tick asset_of sym_of is_sell decide
           {| book := book s; buffer := buf'; next_id := next_id s; xlog := xlog s |} qs perm' =
         (s2, OutTick fl2 adm2 trig2) -> fl1 = fl2 /\ trig1 = trig2.
Proof. exact @tick_fills_indep_buffer. Qed.

(* An order admitted by a tick is resting, untried, after it — it was in the buffer, has no fill on this tick. *)
Theorem c01_admitted_rest_after_tick :
  forall (Ord Qt T : Type) (asset_of : Ord -> N) (sym_of : Ord -> string)
           (is_sell : Ord -> bool) (decide : entry Ord -> Qt -> action Ord T) 
           (s : exch Ord T) (qs : quotes Qt) (perm : list nat) (s' : exch Ord T)
           (fl : list (N * T)) (adm : list (N * Ord)) (trig : list N) 
           (j : N) (o : Ord),
         Inv s ->
         tick asset_of sym_of is_sell decide s qs perm = (s', OutTick fl adm trig) ->
         In (j, o) adm ->
         In {| e_id := j; e_ord := o; e_flag := false |} (book s') /\
         In o (buffer s) /\ ~ In j (map fst fl) /\ (next_id s <= j < next_id s')%N.
Proof. exact @tick_admitted_rest. Qed.

(* A resting order whose symbol has no quote on a tick keeps resting unchanged and has no fill: its earliest possible fill is the next tick that carries a quote for its symbol. *)
Theorem c01_unquoted_keeps_resting :
  forall (Ord Qt T : Type) (asset_of : Ord -> N) (sym_of : Ord -> string)
           (is_sell : Ord -> bool) (decide : entry Ord -> Qt -> action Ord T) 
           (s : exch Ord T) (qs : quotes Qt) (perm : list nat) (s' : exch Ord T)
           (fl : list (N * T)) (adm : list (N * Ord)) (trig : list N) 
           (e : entry Ord),
         Inv s ->
         tick asset_of sym_of is_sell decide s qs perm = (s', OutTick fl adm trig) ->
         In e (book s) ->
         lookup qs (sym_of (e_ord e)) = None -> In e (book s') /\ ~ In (e_id e) (map fst fl).
Proof. exact @tick_unquoted_rests. Qed.

(* The invariant the above needs (book sorted by id, all ids below the counter) holds in every state reachable by any interleaving of insert / delete / tick. *)
Theorem c01_every_reachable_state_invariant :
  forall (Ord Qt T : Type) (asset_of : Ord -> N) (sym_of : Ord -> string)
           (is_sell : Ord -> bool) (decide : entry Ord -> Qt -> action Ord T)
           (ops : list (op Ord Qt)), Inv (fst (run asset_of sym_of is_sell decide exch_init ops)).
Proof. exact @reachable_inv. Qed.

(* Server: a tick of a backtest that has done k ticks matches orders against exactly the row of the date the clock shows, then advances the clock by one position (has_next iff k+1 < N). *)
Theorem c01_server_tick_uses_row_of_clock_date :
  forall (X Row TOut : Type) (x_tick : X -> Row -> list nat -> option (X * TOut))
           (empty_out : TOut) (is_jura : bool) (d : dataset Row) (b : backtest X)
           (perm : list nat) (b' : backtest X) (hn : bool) (out : TOut) 
           (k : nat),
         clock_ok d b k ->
         bt_tick x_tick empty_out clean is_jura d b perm = Some (b', (hn, out)) ->
         clock_ok d b' (S k) /\
         hn = (S k <? Datatypes.length (ds_dates d)) /\
         bt_dataset b' = bt_dataset b /\
         match get_quotes d (bt_date b) with
         | Some row => x_tick (bt_exch b) row perm = Some (bt_exch b', out)
         | None => bt_exch b' = bt_exch b /\ out = empty_out
         end.
Proof. exact @tick1_spec. Qed.

(* Server: after any history the clock of a backtest has advanced by exactly the number of its successful ticks. *)
Theorem c01_server_clock_after_history :
  forall (X Row Ordr Key TOut : Type) (x_init : X)
           (x_tick : X -> Row -> list nat -> option (X * TOut)) (x_insert : X -> Ordr -> X)
           (x_delete : X -> Key -> X) (empty_out : TOut) (is_jura : bool) 
           (s : app X Row) (j : N) (b : backtest X) (d : dataset Row) 
           (k : nat) (ops : list (sop Ordr Key)),
         SInv s ->
         nlookup (backtests s) j = Some b ->
         slookup (datasets s) (bt_dataset b) = Some d ->
         clock_ok d b k ->
         exists b' : backtest X,
           nlookup
             (backtests
                (fst (srun x_init x_tick x_insert x_delete empty_out clean is_jura s ops))) j =
           Some b' /\
           bt_dataset b' = bt_dataset b /\
           clock_ok d b' (k + ticks_on x_init x_tick x_insert x_delete empty_out is_jura j s ops).
Proof. exact @clock_run. Qed.

(* With strictly increasing dates a later clock position shows a strictly later date: an order submitted while the clock shows position k is admitted by the tick matching row k and can fill at the earliest on the tick matching row k+1, whose quotes (carrying their row's date) are dated strictly later. *)
Theorem c01_increasing_dates :
  forall (l : list Z) (i j : nat) (di dj : Z),
         StronglySorted Z.lt l ->
         i < j -> nth_error l i = Some di -> nth_error l j = Some dj -> (di < dj)%Z.
Proof. exact @increasing_nth. Qed.

(* Ghost tags are inert (exchange): one step of the tagged exchange, tags erased, is the step of the untagged one. *)
Theorem c01_tagged_step_erases :
  forall (Ord Qt T : Type) (asset_of : Ord -> N) (sym_of : Ord -> string)
           (is_sell : Ord -> bool) (decide : entry Ord -> Qt -> action Ord T) 
           (x : exch tOrd tT) (o : op tOrd Qt),
         let
         '(x', r) :=
          step (t_asset asset_of) (t_sym sym_of) (t_is_sell is_sell) (t_decide decide) x o in
          step asset_of sym_of is_sell decide (erase_exch x) (erase_op o) =
          (erase_exch x', erase_xout r).
Proof. exact @erase_step. Qed.

(* Ghost tags are inert (server): for every history the tagged run, tags erased, is the run of the skeleton-level server — states and responses. *)
Theorem c01_tagged_run_erases :
  forall (Ord Qt T : Type) (asset_of : Ord -> N) (sym_of : Ord -> string)
           (is_sell : Ord -> bool) (decide : entry Ord -> Qt -> action Ord T) 
           (is_jura : bool) (s : tapp) (ops : list (sop Ord key)),
         let
         '(s', rs) := t_run asset_of sym_of is_sell decide clean is_jura s ops in
          sk_srun asset_of sym_of is_sell decide clean is_jura (erase_app s) ops =
          (erase_app s', map erase_res rs).
Proof. exact @t_run_erases. Qed.

(* The Uist service of the model (the one compared with http/uist.rs) is the skeleton-level server with the fill ids and triggered ids dropped from the tick response … *)
Theorem c01_uist_service_is_projection :
  forall (F : Type) (NF : Num F) (qk : quirks) (s : uapp) (o : sop (uorder F) N),
         Strategy.usstep qk s o =
         (let
          '(s', r) :=
           sk_sstep uist_asset uo_symbol uist_is_sell uist_decide qk false s (ukey_op o) in
           (s', uproj_res r)).
Proof. exact @u_sstep_is_projection. Qed.

(* … and the Jura service is it with the ids kept (jg_sstep is Check/ServerCheck.v's j_sstep, the one compared with http/jura.rs, stated for every number type; Proofs/EndToEnd.v j_sstep_is_projection is its IEEE instance). *)
Theorem c01_jura_service_is_projection :
  forall (F : Type) (NF : Num F) (qk : quirks) (s : app (jexch F) (quotes (quote F)))
           (o : sop (jorder F) key),
         jg_sstep qk s o =
         (let
          '(s', r) := sk_sstep jo_asset jura_sym jura_is_sell (jura_decide qk) qk true s o in
           (s', jproj_res r)).
Proof. exact @jg_sstep_is_projection. Qed.

(* END TO END, every exchange whose decision dates a fill with its quote, every history of init / new_backtest / insert / delete / tick / fetch / info / now over any number of backtests and datasets whose dates increase and whose rows carry their own date: if no tick is issued on a backtest after one of its ticks answered has_next = false, every fill reported by any tick is dated STRICTLY LATER than the clock date the server showed for that backtest when the client submitted the order (for a trigger child: its parent). *)
Theorem c01_end_to_end :
  forall (Ord Qt T : Type) (asset_of : Ord -> N) (sym_of : Ord -> string)
           (is_sell : Ord -> bool) (decide : entry Ord -> Qt -> action Ord T) 
           (qdate : Qt -> Z) (tdate : T -> Z) (is_jura : bool),
         decide_dates_fills decide qdate tdate ->
         forall (ds : list (string * dataset (quotes Qt))) (ops : list (sop Ord key)) 
           (s' : tapp) (rs : list (sres (quotes Qt) t_out)),
         datasets_ok qdate ds ->
         t_run asset_of sym_of is_sell decide clean is_jura (app_create ds) ops = (s', rs) ->
         polite [] (combine ops rs) = true ->
         forall (id : N) (p : list nat) (hn : bool) (fl : list (N * tT)) 
           (adm : list (N * tOrd)) (trig : list N) (i : N) (t : T) (z : Z),
         In (STick id p, RTick (Some (hn, (fl, adm, trig)))) (combine ops rs) ->
         In (i, (t, z)) fl -> (z < tdate t)%Z.
Proof. exact @c01_end_to_end. Qed.

(* The same from AppState::single. *)
Theorem c01_end_to_end_single :
  forall (Ord Qt T : Type) (asset_of : Ord -> N) (sym_of : Ord -> string)
           (is_sell : Ord -> bool) (decide : entry Ord -> Qt -> action Ord T) 
           (qdate : Qt -> Z) (tdate : T -> Z) (is_jura : bool),
         decide_dates_fills decide qdate tdate ->
         forall (name : string) (d : dataset (quotes Qt)) (s0 : app (exch tOrd tT) (quotes Qt))
           (ops : list (sop Ord key)) (s' : tapp) (rs : list (sres (quotes Qt) t_out)),
         dataset_ok qdate d ->
         app_single exch_init name d = Some s0 ->
         t_run asset_of sym_of is_sell decide clean is_jura s0 ops = (s', rs) ->
         polite [] (combine ops rs) = true ->
         forall (id : N) (p : list nat) (hn : bool) (fl : list (N * tT)) 
           (adm : list (N * tOrd)) (trig : list N) (i : N) (t : T) (z : Z),
         In (STick id p, RTick (Some (hn, (fl, adm, trig)))) (combine ops rs) ->
         In (i, (t, z)) fl -> (z < tdate t)%Z.
Proof. exact @c01_end_to_end_single. Qed.

(* Instance: the Uist service over datasets loaded by Penelope::add_quote with dates that never go back (all other premises discharged: c07_dataset_*, uist_decide dates a trade with its quote). *)
Theorem c01_uist_end_to_end :
  forall (F : Type) (NF : Num F) (ds : list (string * dataset (quotes (quote F))))
           (ops : list (sop (uorder F) key)) (s' : tapp)
           (rs : list (sres (quotes (quote F)) t_out)),
         loaded_in_order ds ->
         t_run uist_asset uo_symbol uist_is_sell uist_decide clean false (app_create ds) ops =
         (s', rs) ->
         polite [] (combine ops rs) = true ->
         forall (id : N) (p : list nat) (hn : bool) (fl : list (N * tT)) 
           (adm : list (N * tOrd)) (trig : list N) (i : N) (t : trade F) 
           (z : Z),
         In (STick id p, RTick (Some (hn, (fl, adm, trig)))) (combine ops rs) ->
         In (i, (t, z)) fl -> (z < t_date t)%Z.
Proof. exact @c01_uist_end_to_end. Qed.

(* Instance: the Jura service, likewise. *)
Theorem c01_jura_end_to_end :
  forall (F : Type) (NF : Num F) (ds : list (string * dataset (quotes (quote F))))
           (ops : list (sop (jorder F) key)) (s' : tapp)
           (rs : list (sres (quotes (quote F)) t_out)),
         loaded_in_order ds ->
         t_run jo_asset jura_sym jura_is_sell (jura_decide clean) clean true (app_create ds) ops =
         (s', rs) ->
         polite [] (combine ops rs) = true ->
         forall (id : N) (p : list nat) (hn : bool) (fl : list (N * tT)) 
           (adm : list (N * tOrd)) (trig : list N) (i : N) (t : fill F) 
           (z : Z),
         In (STick id p, RTick (Some (hn, (fl, adm, trig)))) (combine ops rs) ->
         In (i, (t, z)) fl -> (z < f_time t)%Z.
Proof. exact @c01_jura_end_to_end. Qed.

(* The caveat is necessary: a client that ticks after has_next = false gets a fill dated exactly the submission clock date (kernel-evaluated history; every other premise of c01_end_to_end holds for it). *)
Theorem c01_after_end_not_strict :
  let
         '(_, rs) :=
          t_run toy_asset toy_sym toy_sell toy_decide clean false (app_create toy_ds) toy_ops in
          polite [] (combine toy_ops rs) = false /\
          (exists
             (id : N) (p : list nat) (hn : bool) (fl : list (N * tT)) 
           (adm : list (N * tOrd)) (trig : list N) (i : N) (t z : Z),
             In (STick id p, RTick (Some (hn, (fl, adm, trig)))) (combine toy_ops rs) /\
             In (i, (t, z)) fl /\ z = toy_date t).
Proof. exact @c01_after_end_not_strict. Qed.

(* With the Jura clock defect (pos never stored) the clock parks on the second date: ticks keep matching the same row, so an order submitted there fills dated that same date. *)
Theorem c01_refuted_q_jura_pos_stuck :
  let qk :=
           {|
             q_init_no_bump := false;
             q_jura_pos_stuck := true;
             q_jura_sell_triggers_inverted := false;
             q_send_dropped_future := false;
             q_limit_panics := false;
             q_liq_ceil_precedence := false;
             q_diff_break := false;
             q_diff_direction_flip := false;
             q_strategy_ncf_self_add := false;
             q_maxdd_last_positions := false;
             q_liq_fail_debit := false;
             q_jura_http_drops_triggered := false
           |} in
         let ds :=
           [("A"%string,
             {| ds_dates := [1%Z; 2%Z; 3%Z]; ds_rows := [(1%Z, tt); (2%Z, tt); (3%Z, tt)] |})] in
         let st :=
           sstep tt (fun (x _ : unit) (_ : list nat) => Some (x, tt)) 
             (fun x _ : unit => x) (fun x _ : unit => x) tt qk true in
         let s0 := app_create ds in
         let
         '(s1, _) := st s0 (SNew "A") in
          let
          '(s2, _) := st s1 (STick 1 []) in
           let
           '(s4, _) := st s2 (STick 1 []) in
            let
            '(s6, r4) := st s4 (STick 1 []) in
             let
             '(s7, r5) := st s6 (STick 1 []) in
              r4 = RTick (Some (true, tt)) /\
              r5 = RTick (Some (true, tt)) /\
              option_map (fun b : backtest unit => (bt_date b, bt_pos b))
                (nlookup (backtests s7) 1) = Some (2%Z, 0).
Proof. exact @c07_refuted_q_jura_pos_stuck. Qed.

Print Assumptions c01_fills_only_from_resting_book.
Print Assumptions c01_fills_independent_of_buffer.
Print Assumptions c01_admitted_rest_after_tick.
Print Assumptions c01_unquoted_keeps_resting.
Print Assumptions c01_every_reachable_state_invariant.
Print Assumptions c01_server_tick_uses_row_of_clock_date.
Print Assumptions c01_server_clock_after_history.
Print Assumptions c01_increasing_dates.
Print Assumptions c01_tagged_step_erases.
Print Assumptions c01_tagged_run_erases.
Print Assumptions c01_uist_service_is_projection.
Print Assumptions c01_jura_service_is_projection.
Print Assumptions c01_end_to_end.
Print Assumptions c01_end_to_end_single.
Print Assumptions c01_uist_end_to_end.
Print Assumptions c01_jura_end_to_end.
Print Assumptions c01_after_end_not_strict.
Print Assumptions c01_refuted_q_jura_pos_stuck.
