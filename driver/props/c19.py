"""C19 — last-business-day schedule. Theorems: Props/C19.v, all for EVERY timestamp in Z (the spec equivalence by
a complete sweep of one 400-year period of the Gregorian calendar, lifted to Z by periodicity).
Correspondence (exhaustive in both tiers): the model's calendar (day, month, weekday) and both
schedules against the `time` crate / schedule/mod.rs on every day of one full period (1970-01-01 …
2369-12-31) at several times of day, plus blocks of days spread over the whole range the `time` crate accepts
(years -9999 … 9999), negative timestamps at non-midnight times included — this is also what ties the model's
calendar to the crate's."""
from common import *

IMPORTS = "From Alator Require Import Model.Schedule Check.SchedCheck.\nOpen Scope Z_scope."
DAYS = 146097          # one full period of the Gregorian calendar
PY_MIN, PY_MAX = -719162, 2932896      # 0001-01-01 … 9999-12-31: what Python's own calendar can speak about


def spec_py(day):
    """independent reading of the property with Python's own calendar"""
    import datetime
    d = datetime.date(1970, 1, 1) + datetime.timedelta(days=day)
    if d.weekday() >= 5:
        return False
    k = d + datetime.timedelta(days=1)
    while k.month == d.month:
        if k.weekday() < 5:
            return False
        k += datetime.timedelta(days=1)
    return True


def run(res, tier, seed, replay):
    ob = obligations_or_violation(res, ["C19"])
    wd = workdir("C19")
    times = [0, 32400, 86399] if tier == "quick" else [0, 1, 32400, 43200, 61200, 86399]
    block = 600
    scs = [dict(from_day=a, to_day=min(DAYS, a + block), times=times) for a in range(0, DAYS, block)]
    # a few blocks outside the range the theorem covers (before 1970, after 2200): the date-only
    # theorem is unbounded, the calendar model is compared there too
    far = [-4371000, -3000000, -1500000, -719200, -700000, -400000, -150000, -30000, -1100, -800, -400, -200,
           146097, 200000, 500000, 1000000, 2000000, 2900000, 2932600]
    far += [rng_day for rng_day in __import__("random").Random(seed).sample(range(-4371000, 2932000), 12)]
    extra = [dict(from_day=a, to_day=a + 200, times=times) for a in far]
    scs += extra
    trs = run_harness_sharded("sched", scs, wd)
    terms = [gt(gl([gz(t) for t in sc["times"]]), gz(sc["from_day"]), gl([gz(c) for c in tr["codes"]]))
             for sc, tr in zip(scs, trs)]
    failing = eval_cases(wd, "sched", IMPORTS, terms, "sched_case_ok", per_shard_min=2)
    # the property read directly on the implementation's answers
    direct = None
    nt = len(times)
    n_true = 0
    for sc, tr in zip(scs, trs):
        if not (PY_MIN <= sc["from_day"] and sc["to_day"] + 40 < PY_MAX):
            continue
        for k, day in enumerate(range(sc["from_day"], sc["to_day"])):
            want = spec_py(day)
            n_true += want
            for j in range(nt):
                code = tr["codes"][k * nt + j]
                lbd, dflt, unstable = bool(code & 4096), bool(code & 8192), bool(code & 16384)
                if (lbd != want or not dflt or unstable) and direct is None:
                    direct = dict(day=day, time_of_day=times[j], timestamp=day * 86400 + times[j],
                                  implementation_answers=lbd, property_demands=want, default_schedule=dflt,
                                  answer_changes_with_call_history=unstable,
                                  note="asked again after should_trade was called for the same calendar day of the "
                                       "neighbouring years and months, the schedule answered differently: the answer "
                                       "does not depend only on the calendar date" if unstable else None)
    if direct:
        res.violation(dict(kind="property-fails-on-implementation", **direct), "direct")
    elif failing:
        i = failing[0]
        res.violation(dict(kind="correspondence", component="sched",
                           broken="Model/Schedule.v no longer matches schedule/mod.rs + time crate on "
                                  "block starting at day %d" % scs[i]["from_day"],
                           block=scs[i]), "corr", no_input=True)
    evals = sum(len(t["codes"]) for t in trs)
    res.coverage.update(
        evaluations=evals, distinct_nontrivial=n_true, exhaustive=True,
        rule="every day 1970-01-01 … 2369-12-31 (146 097 days = one full Gregorian period) x times of day %s, plus "
             "%d blocks of 200 days spread over years -9999 … 9999 (negative timestamps at non-midnight times "
             "included); compared with the model: day-of-month, month, weekday, both schedules; the property is "
             "also read directly with Python's calendar on every compared day of years 1 … 9999. "
             "distinct_nontrivial = days on which the property demands `true` (last business days)" % (times, len(extra)),
        samples=[dict(day=10957, timestamp=10957 * 86400 + 32400, code=trs[18]["codes"][(10957 - 10800) * nt + 1])],
        traces_validated_against_impl=len(scs), correspondence_mismatches=len(failing))
    res.assumptions += ["all C19 theorems are unbounded in Z; timestamps outside the `time` crate's range (years beyond "
                        "+-9999) make DateTime panic in the code — outside the property's 'supported range'",
                        "time crate's calendar is not modelled beyond being compared exhaustively on one full period "
                        "and on blocks across its range"]
    return ob
