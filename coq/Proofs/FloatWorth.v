(* FloatWorth.v — C16's flagship clause at the IEEE binary64 instance, part 1 (floats and the broker):
   "trading alone creates no value", bit for bit, for whole-unit prices and whole-share quantities.
   Layout: (W1) float_floor is the mathematical floor of every finite binary64 number (the 2^52 trick),
   float_ceil the ceiling, zeros / NaN / infinities are returned as they are; [fint x]: x is integer-valued
   or not finite — what every quantity the strategy orders satisfies; [fmag]: a computable integer
   magnitude of a float. (W2) [zworth], [zgross] over the integer readings and the relation [wrel].
   (W3) one fill at the constant price: [book_trade_wrel]; lists of fills: [book_trades_wrel].
   (W4) [total_value_wrel]: the valuation, for any iteration order, is the float of [zworth]; deposits and
   plain withdrawals. (W5c) [check_wrel]: booking a tick's trades and rebalancing.
   The system level is in FloatWorthSys.v. *)
From Coq Require Import ZArith NArith List Bool String Floats Reals Lra Lia Permutation.
From Flocq Require Import Core.Raux Core.Generic_fmt Core.FLT Core.Round_NE.
From Flocq Require Import IEEE754.BinarySingleNaN IEEE754.PrimFloat.
From Alator Require Import Model.Num Model.Quirks Model.Cost Model.Exchange Model.Uist Model.Broker.
From Alator Require Import Proofs.BrokerLedgerProofs Proofs.BrokerLiqProofs Proofs.FloatExact Proofs.FloatCash.
Import ListNotations.

Local Existing Instance PrimFloat.Hprec.
Local Existing Instance PrimFloat.Hmax.

(* ------------------------------------------------------------------------------------------- *)
(* (W1) float_floor                                                                              *)

Definition FR (x : float) : R := B2R (Prim2B x).
Definition ffin (x : float) : Prop := is_finite (Prim2B x) = true.

Lemma int_float_two52 : int_float two52 (2 ^ 52).
Proof. exact (int_float_ofZ (2 ^ 52) eq_refl). Qed.

Lemma IZR_pow2 (e : Z) : (0 <= e)%Z -> IZR (2 ^ e) = bpow Zaux.radix2 e.
Proof. intros H. rewrite <- (IZR_Zpower Zaux.radix2 e H). reflexivity. Qed.

(* a binary64 number of magnitude at least 2^52 is an integer *)
Lemma generic_large_int (x : R) :
  generic_format Zaux.radix2 (SpecFloat.fexp prec emax) x -> (bpow Zaux.radix2 52 <= Rabs x)%R ->
  exists n : Z, x = IZR n.
Proof.
  intros G L. unfold generic_format in G.
  set (e := cexp Zaux.radix2 (SpecFloat.fexp prec emax) x) in *.
  set (m := Ztrunc (scaled_mantissa Zaux.radix2 (SpecFloat.fexp prec emax) x)) in *.
  assert (He : (0 <= e)%Z).
  { unfold e, cexp. pose proof (mag_ge_bpow Zaux.radix2 x 53 L) as Hm.
    unfold SpecFloat.fexp, SpecFloat.emin, prec, emax. lia. }
  exists (m * 2 ^ e)%Z. rewrite G at 1. unfold Defs.F2R. cbn [Defs.Fnum Defs.Fexp].
  rewrite mult_IZR, (IZR_pow2 e He). reflexivity.
Qed.

(* on [2^52, 2^53) the binary64 grid is the integers: rounding is rounding to the nearest integer *)
Lemma round_grid_int (y : R) : (bpow Zaux.radix2 52 <= Rabs y < bpow Zaux.radix2 53)%R ->
  round Zaux.radix2 (SpecFloat.fexp prec emax) (round_mode mode_NE) y = IZR (ZnearestE y).
Proof.
  intros H. unfold round, scaled_mantissa, cexp.
  rewrite (mag_unique Zaux.radix2 y 53 H).
  change (SpecFloat.fexp prec emax 53) with 0%Z.
  unfold Defs.F2R. cbn [Defs.Fnum Defs.Fexp Z.opp bpow round_mode]. rewrite !Rmult_1_r. reflexivity.
Qed.

Lemma ZnearestE_half (y : R) : (Rabs (y - IZR (ZnearestE y)) <= / 2)%R.
Proof. apply Znearest_half. Qed.

Lemma ZnearestE_mono_le (y : R) (n : Z) : (IZR n <= y)%R -> (n <= ZnearestE y)%Z.
Proof.
  intros H. pose proof (ZnearestE_half y) as Hh. apply Rabs_le_inv in Hh.
  destruct (Z_lt_le_dec (ZnearestE y) n) as [L | L]; [| exact L]. exfalso.
  assert (ZnearestE y <= n - 1)%Z as L' by lia. apply IZR_le in L'. rewrite minus_IZR in L'.
  (* y - k <= 1/2, k <= n - 1, n <= y  ->  y - k >= 1: contradiction *)
  lra.
Qed.

Lemma ZnearestE_mono_ge (y : R) (n : Z) : (y <= IZR n)%R -> (ZnearestE y <= n)%Z.
Proof.
  intros H. pose proof (ZnearestE_half y) as Hh. apply Rabs_le_inv in Hh.
  destruct (Z_lt_le_dec n (ZnearestE y)) as [L | L]; [| exact L]. exfalso.
  assert (n + 1 <= ZnearestE y)%Z as L' by lia. apply IZR_le in L'. rewrite plus_IZR in L'.
  lra.
Qed.

(* the last step of float_floor: r is the nearest integer m of x; subtract 1 when it lies above x *)
Lemma floor_fix (x r : float) (m : Z) :
  ffin x -> int_float r m -> (Z.abs m <= 2 ^ 52)%Z -> (Rabs (FR x - IZR m) <= / 2)%R ->
  int_float (if PrimFloat.ltb x r then PrimFloat.sub r 1 else r) (Zfloor (FR x)).
Proof.
  intros Fx Hr Hm Hh. apply Rabs_le_inv in Hh.
  rewrite ltb_equiv, (Bltb_correct _ _ _ _ Fx (proj1 Hr)), (proj2 Hr). fold (FR x).
  destruct (Rlt_bool_spec (FR x) (IZR m)) as [L | L].
  - replace (Zfloor (FR x)) with (m - 1)%Z.
    + apply sub_int_exact_strong; [exact Hr | exact int_float_one | lia].
    + symmetry. apply Zfloor_imp. rewrite plus_IZR, minus_IZR. lra.
  - replace (Zfloor (FR x)) with m; [exact Hr |].
    symmetry. apply Zfloor_imp. rewrite plus_IZR. lra.
Qed.

Lemma bpow52 : bpow Zaux.radix2 52 = IZR (2 ^ 52).
Proof. symmetry. apply IZR_pow2. lia. Qed.
Lemma bpow53 : bpow Zaux.radix2 53 = IZR (2 ^ 53).
Proof. symmetry. apply IZR_pow2. lia. Qed.

(* x + 2^52 (x > 0) and x - 2^52 (x < 0), for |x| < 2^52: the float result is the nearest integer *)
Lemma shift_pos (x : float) : ffin x -> (0 < FR x < IZR (2 ^ 52))%R ->
  int_float (PrimFloat.add x two52) (ZnearestE (FR x + IZR (2 ^ 52))).
Proof.
  intros Fx [L U]. destruct int_float_two52 as [Ft Rt].
  assert (G : (bpow Zaux.radix2 52 <= Rabs (FR x + IZR (2 ^ 52)) < bpow Zaux.radix2 53)%R).
  { rewrite Rabs_pos_eq by lra. rewrite bpow52, bpow53.
    change (IZR (2 ^ 53)) with (IZR (2 ^ 52 + 2 ^ 52)). rewrite plus_IZR. lra. }
  unfold int_float. rewrite add_equiv.
  generalize (Bplus_correct prec emax _ _ mode_NE _ _ Fx Ft).
  rewrite Rt. fold (FR x). rewrite (round_grid_int _ G).
  rewrite Rlt_bool_true.
  - intros (H1 & H2 & _). split; assumption.
  - apply Rle_lt_trans with (IZR (2 ^ 53)).
    + rewrite <- abs_IZR. apply IZR_le.
      assert (ZnearestE (FR x + IZR (2 ^ 52)) <= 2 ^ 53)%Z.
      { apply ZnearestE_mono_ge. change (IZR (2 ^ 53)) with (IZR (2 ^ 52 + 2 ^ 52)). rewrite plus_IZR. lra. }
      assert (2 ^ 52 <= ZnearestE (FR x + IZR (2 ^ 52)))%Z by (apply ZnearestE_mono_le; lra).
      lia.
    + rewrite <- bpow53. apply bpow_lt. reflexivity.
Qed.

Lemma shift_neg (x : float) : ffin x -> (- IZR (2 ^ 52) < FR x < 0)%R ->
  int_float (PrimFloat.sub x two52) (ZnearestE (FR x - IZR (2 ^ 52))).
Proof.
  intros Fx [L U]. destruct int_float_two52 as [Ft Rt].
  assert (G : (bpow Zaux.radix2 52 <= Rabs (FR x - IZR (2 ^ 52)) < bpow Zaux.radix2 53)%R).
  { rewrite Rabs_left by lra. rewrite bpow52, bpow53.
    change (IZR (2 ^ 53)) with (IZR (2 ^ 52 + 2 ^ 52)). rewrite plus_IZR. lra. }
  unfold int_float. rewrite sub_equiv.
  generalize (Bminus_correct prec emax _ _ mode_NE _ _ Fx Ft).
  rewrite Rt. fold (FR x). rewrite (round_grid_int _ G).
  rewrite Rlt_bool_true.
  - intros (H1 & H2 & _). split; assumption.
  - apply Rle_lt_trans with (IZR (2 ^ 53)).
    + rewrite <- abs_IZR. apply IZR_le.
      assert (ZnearestE (FR x - IZR (2 ^ 52)) <= - 2 ^ 52)%Z.
      { apply ZnearestE_mono_ge. rewrite opp_IZR. lra. }
      assert (- 2 ^ 53 <= ZnearestE (FR x - IZR (2 ^ 52)))%Z.
      { apply ZnearestE_mono_le. rewrite opp_IZR. change (IZR (2 ^ 53)) with (IZR (2 ^ 52 + 2 ^ 52)). rewrite plus_IZR. lra. }
      lia.
    + rewrite <- bpow53. apply bpow_lt. reflexivity.
Qed.

Lemma is_nan_of_finite (x : float) : ffin x -> PrimFloat.is_nan x = false.
Proof.
  unfold ffin. rewrite is_nan_equiv. destruct (Prim2B x); cbn; congruence.
Qed.

Lemma leb_two52_abs (x : float) : ffin x ->
  PrimFloat.leb two52 (PrimFloat.abs x) = Rle_bool (IZR (2 ^ 52)) (Rabs (FR x)).
Proof.
  intros Fx. destruct int_float_two52 as [Ft Rt].
  rewrite leb_equiv, abs_equiv, Bleb_correct; [| exact Ft | rewrite is_finite_Babs; exact Fx].
  rewrite Rt, B2R_Babs. reflexivity.
Qed.

(* (W1) floor of a finite binary64 number, by the 2^52 trick, IS the mathematical floor *)
Theorem float_floor_int (x : float) : ffin x -> int_float (float_floor x) (Zfloor (FR x)).
Proof.
  intros Fx. unfold float_floor.
  rewrite (is_nan_of_finite x Fx), (leb_two52_abs x Fx).
  destruct (Rle_bool_spec (IZR (2 ^ 52)) (Rabs (FR x))) as [Big | Small].
  - (* |x| >= 2^52: x is an integer already *)
    destruct (generic_large_int (FR x)) as [n Hn].
    + apply generic_format_B2R.
    + rewrite bpow52. exact Big.
    + split; [exact Fx |]. fold (FR x). rewrite Hn at 2. rewrite Zfloor_IZR. exact Hn.
  - rewrite eqb_equiv, (Beqb_correct _ _ _ _ Fx (proj1 int_float_zero)), (proj2 int_float_zero).
    fold (FR x).
    destruct (Req_bool_spec (FR x) 0) as [Z0 | NZ].
    + (* +0 or -0 *)
      split; [exact Fx |]. fold (FR x). rewrite Z0. change 0%R with (IZR 0). rewrite Zfloor_IZR. reflexivity.
    + rewrite ltb_equiv, (Bltb_correct _ _ _ _ (proj1 int_float_zero) Fx), (proj2 int_float_zero).
      fold (FR x).
      destruct (Rlt_bool_spec 0 (FR x)) as [Pos | NPos].
      * assert (B : (0 < FR x < IZR (2 ^ 52))%R).
        { split; [exact Pos |]. rewrite Rabs_pos_eq in Small by lra. exact Small. }
        pose proof (shift_pos x Fx B) as Ha.
        set (k := ZnearestE (FR x + IZR (2 ^ 52))) in *.
        assert (K1 : (2 ^ 52 <= k)%Z) by (apply ZnearestE_mono_le; lra).
        assert (K2 : (k <= 2 ^ 53)%Z).
        { apply ZnearestE_mono_ge. change (IZR (2 ^ 53)) with (IZR (2 ^ 52 + 2 ^ 52)). rewrite plus_IZR. lra. }
        apply (floor_fix x _ (k - 2 ^ 52)%Z Fx).
        -- apply sub_int_exact_strong; [exact Ha | exact int_float_two52 | lia].
        -- lia.
        -- pose proof (ZnearestE_half (FR x + IZR (2 ^ 52))) as Hh. fold k in Hh.
           rewrite minus_IZR. replace (FR x - (IZR k - IZR (2 ^ 52)))%R with (FR x + IZR (2 ^ 52) - IZR k)%R by lra.
           exact Hh.
      * assert (B : (- IZR (2 ^ 52) < FR x < 0)%R).
        { split; [| lra]. rewrite Rabs_left1 in Small by lra. lra. }
        pose proof (shift_neg x Fx B) as Ha.
        set (k := ZnearestE (FR x - IZR (2 ^ 52))) in *.
        assert (K1 : (k <= - 2 ^ 52)%Z) by (apply ZnearestE_mono_ge; rewrite opp_IZR; lra).
        assert (K2 : (- 2 ^ 53 <= k)%Z).
        { apply ZnearestE_mono_le. rewrite opp_IZR. change (IZR (2 ^ 53)) with (IZR (2 ^ 52 + 2 ^ 52)).
          rewrite plus_IZR. lra. }
        apply (floor_fix x _ (k + 2 ^ 52)%Z Fx).
        -- apply add_int_exact_strong; [exact Ha | exact int_float_two52 | lia].
        -- lia.
        -- pose proof (ZnearestE_half (FR x - IZR (2 ^ 52))) as Hh. fold k in Hh.
           rewrite plus_IZR. replace (FR x - (IZR k + IZR (2 ^ 52)))%R with (FR x - IZR (2 ^ 52) - IZR k)%R by lra.
           exact Hh.
Qed.

(* zeros keep their sign, NaN and the infinities are returned as they are *)
Lemma float_floor_zero (x : float) : ffin x -> FR x = 0%R -> float_floor x = x.
Proof.
  intros Fx Z0. unfold float_floor.
  rewrite (is_nan_of_finite x Fx), (leb_two52_abs x Fx), Z0, Rabs_R0.
  rewrite Rle_bool_false by (apply IZR_lt; reflexivity).
  rewrite eqb_equiv, (Beqb_correct _ _ _ _ Fx (proj1 int_float_zero)), (proj2 int_float_zero).
  fold (FR x). rewrite Z0, Req_bool_true by reflexivity. reflexivity.
Qed.

(* at and above 2^52 every binary64 number is an integer: x is returned as it is *)
Lemma float_floor_large (x : float) : ffin x -> (IZR (2 ^ 52) <= Rabs (FR x))%R ->
  float_floor x = x /\ exists n : Z, FR x = IZR n.
Proof.
  intros Fx Big. split.
  - unfold float_floor. rewrite (is_nan_of_finite x Fx), (leb_two52_abs x Fx), Rle_bool_true by exact Big.
    reflexivity.
  - apply generic_large_int; [apply generic_format_B2R | rewrite bpow52; exact Big].
Qed.

Lemma float_floor_nonfinite (x : float) : is_finite (Prim2B x) = false -> float_floor x = x.
Proof.
  intros NF. unfold float_floor. rewrite is_nan_equiv, leb_equiv, abs_equiv.
  destruct (Prim2B x) as [s | s | | s m e He] eqn:E; cbn in NF; try discriminate; cbn [is_nan].
  - replace (Bleb (Prim2B two52) (Babs (B754_infinity s))) with true; [reflexivity |].
    destruct int_float_two52 as [Ft _]. unfold Bleb, SFleb, SFcompare. cbn [Babs B2SF].
    destruct (Prim2B two52) as [s' | s' | | s' m' e' He']; cbn in Ft; try discriminate; cbn; try reflexivity.
  - reflexivity.
Qed.

(* for x >= 0 the result is an integer between 0 and x *)
Corollary float_floor_nonneg (x : float) : ffin x -> (0 <= FR x)%R ->
  exists n, int_float (float_floor x) n /\ (0 <= n)%Z /\ (IZR n <= FR x)%R.
Proof.
  intros Fx P. exists (Zfloor (FR x)). split; [apply float_floor_int, Fx |]. split.
  - apply Zfloor_lub. exact P.
  - apply Zfloor_lb.
Qed.

Theorem float_ceil_int (x : float) : ffin x -> int_float (float_ceil x) (Zceil (FR x)).
Proof.
  intros Fx. unfold float_ceil, Zceil.
  assert (Fo : ffin (PrimFloat.opp x)) by (unfold ffin; rewrite opp_equiv, is_finite_Bopp; exact Fx).
  assert (Ro : FR (PrimFloat.opp x) = (- FR x)%R) by (unfold FR; rewrite opp_equiv, B2R_Bopp; reflexivity).
  rewrite <- Ro. apply int_float_opp, float_floor_int, Fo.
Qed.

(* ------------------------------------------------------------------------------------------- *)
(* integer-valued or not finite: what float_floor / float_ceil return on EVERY argument          *)

Definition fint (x : float) : Prop := ffin x -> exists n : Z, int_float x n.

Lemma fint_of_int (x : float) (n : Z) : int_float x n -> fint x.
Proof. intros H _. exists n. exact H. Qed.

Lemma fint_zero : fint 0%float.
Proof. exact (fint_of_int _ _ int_float_zero). Qed.

Lemma fint_floor (x : float) : fint (float_floor x).
Proof.
  destruct (is_finite (Prim2B x)) eqn:Fx.
  - exact (fint_of_int _ _ (float_floor_int x Fx)).
  - rewrite (float_floor_nonfinite x Fx). intros F. unfold ffin in F. congruence.
Qed.

Lemma fint_opp (x : float) : fint x -> fint (PrimFloat.opp x).
Proof.
  intros H F. unfold ffin in F. rewrite opp_equiv, is_finite_Bopp in F.
  destruct (H F) as [n Hn]. exists (- n)%Z. apply int_float_opp, Hn.
Qed.

Lemma fint_ceil (x : float) : fint (float_ceil x).
Proof. unfold float_ceil. apply fint_opp, fint_floor. Qed.

Lemma int_float_abs (x : float) (n : Z) : int_float x n -> int_float (PrimFloat.abs x) (Z.abs n).
Proof.
  intros [Fx Rx]. unfold int_float. rewrite abs_equiv, is_finite_Babs, B2R_Babs, Rx, abs_IZR.
  split; [exact Fx | reflexivity].
Qed.

Lemma fint_abs (x : float) : fint x -> fint (PrimFloat.abs x).
Proof.
  intros H F. unfold ffin in F. rewrite abs_equiv, is_finite_Babs in F.
  destruct (H F) as [n Hn]. exists (Z.abs n). apply int_float_abs, Hn.
Qed.

(* ------------------------------------------------------------------------------------------- *)
(* a computable integer magnitude: |n| for the float of an integer n, at least 2^1024 for NaN/inf  *)

Definition fmag (x : float) : Z :=
  match Prim2SF x with
  | S754_zero _ => 0
  | S754_finite _ m e =>
      if (0 <=? e)%Z then Z.pos m * 2 ^ e
      else Z.pos m / 2 ^ (- e) + (if (Z.pos m mod 2 ^ (- e) =? 0)%Z then 0 else 1)
  | _ => 2 ^ 1024
  end%Z.

Lemma FR_SF (x : float) : FR x = SF2R Zaux.radix2 (Prim2SF x).
Proof. unfold FR. rewrite <- B2SF_Prim2B. symmetry. apply SF2R_B2SF. Qed.

Lemma ffin_SF (x : float) : is_finite (Prim2B x) = is_finite_SF (Prim2SF x).
Proof. rewrite <- B2SF_Prim2B. symmetry. apply is_finite_SF_B2SF. Qed.

Lemma fmag_nonneg (x : float) : (0 <= fmag x)%Z.
Proof.
  unfold fmag. destruct (Prim2SF x) as [s | s | | s m e]; try lia.
  destruct (0 <=? e)%Z eqn:E.
  - apply Z.leb_le in E. apply Z.mul_nonneg_nonneg; [lia | apply Z.pow_nonneg; lia].
  - assert (0 < 2 ^ (- e))%Z by (apply Z.pow_pos_nonneg; lia).
    assert (0 <= Z.pos m / 2 ^ (- e))%Z by (apply Z.div_pos; lia).
    destruct (Z.pos m mod 2 ^ (- e) =? 0)%Z; lia.
Qed.

Lemma fmag_small_finite (x : float) : (fmag x < 2 ^ 1024)%Z -> ffin x.
Proof.
  unfold ffin, fmag. rewrite ffin_SF. destruct (Prim2SF x) as [s | s | | s m e]; cbn [is_finite_SF]; intros H;
    try reflexivity; lia.
Qed.

Lemma fmag_int (x : float) (n : Z) : int_float x n -> fmag x = Z.abs n.
Proof.
  intros [Fx Rx]. fold (FR x) in Rx. rewrite FR_SF in Rx. rewrite ffin_SF in Fx. unfold fmag.
  destruct (Prim2SF x) as [s | s | | s m e]; cbn [is_finite_SF SF2R] in *; try discriminate.
  - change 0%R with (IZR 0) in Rx. apply eq_IZR in Rx. subst n. reflexivity.
  - unfold Defs.F2R in Rx. cbn [Defs.Fnum Defs.Fexp] in Rx.
    destruct (0 <=? e)%Z eqn:E.
    + apply Z.leb_le in E. rewrite <- (IZR_pow2 e E), <- mult_IZR in Rx. apply eq_IZR in Rx. subst n.
      rewrite Z.abs_mul, (Z.abs_eq (2 ^ e)) by (apply Z.pow_nonneg; lia).
      destruct s; cbn [SpecFloat.cond_Zopp Zaux.cond_Zopp]; reflexivity.
    + apply Z.leb_gt in E.
      assert (P : (0 < 2 ^ (- e))%Z) by (apply Z.pow_pos_nonneg; lia).
      assert (Hm : Zaux.cond_Zopp s (Z.pos m) = (n * 2 ^ (- e))%Z).
      { apply eq_IZR. rewrite mult_IZR, (IZR_pow2 (- e)) by lia. rewrite <- Rx.
        rewrite Rmult_assoc, <- bpow_plus. replace (e + - e)%Z with 0%Z by lia. cbn [bpow]. lra. }
      assert (Hp : Z.pos m = (Z.abs n * 2 ^ (- e))%Z).
      { destruct s; cbn [Zaux.cond_Zopp] in Hm.
        - assert (n <= 0)%Z by nia. rewrite Z.abs_neq by lia. lia.
        - assert (0 <= n)%Z by nia. rewrite Z.abs_eq by lia. lia. }
      rewrite Hp, Z.div_mul, Z.mod_mul by lia. cbn. lia.
Qed.

(* ------------------------------------------------------------------------------------------- *)
(* (W2) the integer worth                                                                         *)

Section ZWorth.
Variable zp : string -> Z.

Definition zhsum (zh : smap Z) : Z := fold_right (fun kv acc => (snd kv * zp (fst kv) + acc)%Z) 0%Z zh.
Definition zhabs (zh : smap Z) : Z := fold_right (fun kv acc => (Z.abs (snd kv) * zp (fst kv) + acc)%Z) 0%Z zh.
(* cash + sum of quantity x price *)
Definition zworth (zc : Z) (zh : smap Z) : Z := (zc + zhsum zh)%Z.
(* |cash| + sum of |quantity| x price: the magnitude that has to stay below 2^53 *)
Definition zgross (zc : Z) (zh : smap Z) : Z := (Z.abs zc + zhabs zh)%Z.

Lemma zhsum_sset m k v : zhsum (sset m k v) = (zhsum m - zcur m k * zp k + v * zp k)%Z.
Proof.
  unfold zcur. induction m as [| [k0 a0] m IH]; cbn [sset sget zhsum fold_right fst snd]; [lia |].
  destruct (String.eqb_spec k k0) as [-> | NE]; cbn [zhsum fold_right fst snd].
  - fold (zhsum m). lia.
  - fold (zhsum m) (zhsum (sset m k v)). rewrite IH. lia.
Qed.

Lemma zhsum_sremove m k : zhsum (sremove m k) = (zhsum m - zcur m k * zp k)%Z.
Proof.
  unfold zcur. induction m as [| [k0 a0] m IH]; cbn [sremove sget zhsum fold_right fst snd]; [lia |].
  destruct (String.eqb_spec k k0) as [-> | NE]; cbn [zhsum fold_right fst snd].
  - fold (zhsum m). lia.
  - fold (zhsum m) (zhsum (sremove m k)). rewrite IH. lia.
Qed.

Lemma zhsum_zupd m k d : zhsum (zupd m k d) = (zhsum m + d * zp k)%Z.
Proof.
  unfold zupd. fold (zcur m k). destruct (Z.eqb_spec (zcur m k + d) 0) as [E | E].
  - rewrite zhsum_sremove. nia.
  - rewrite zhsum_sset. nia.
Qed.

Lemma zhabs_sset m k v : zhabs (sset m k v) = (zhabs m - Z.abs (zcur m k) * zp k + Z.abs v * zp k)%Z.
Proof.
  unfold zcur. induction m as [| [k0 a0] m IH]; cbn [sset sget zhabs fold_right fst snd]; [lia |].
  destruct (String.eqb_spec k k0) as [-> | NE]; cbn [zhabs fold_right fst snd].
  - fold (zhabs m). lia.
  - fold (zhabs m) (zhabs (sset m k v)). rewrite IH. lia.
Qed.

Lemma zhabs_sremove m k : zhabs (sremove m k) = (zhabs m - Z.abs (zcur m k) * zp k)%Z.
Proof.
  unfold zcur. induction m as [| [k0 a0] m IH]; cbn [sremove sget zhabs fold_right fst snd]; [lia |].
  destruct (String.eqb_spec k k0) as [-> | NE]; cbn [zhabs fold_right fst snd].
  - fold (zhabs m). lia.
  - fold (zhabs m) (zhabs (sremove m k)). rewrite IH. lia.
Qed.

Hypothesis zp_pos : forall s, (1 <= zp s)%Z.

Lemma zhabs_nonneg m : (0 <= zhabs m)%Z.
Proof.
  induction m as [| [k a] m IH]; cbn [zhabs fold_right fst snd]; [lia |]. fold (zhabs m).
  pose proof (zp_pos k). nia.
Qed.

Lemma zcur_le_zhabs m k : (Z.abs (zcur m k) * zp k <= zhabs m)%Z.
Proof.
  unfold zcur. induction m as [| [k0 a0] m IH]; cbn [sget zhabs fold_right fst snd].
  - pose proof (zp_pos k). lia.
  - fold (zhabs m). pose proof (zhabs_nonneg m). pose proof (zp_pos k0).
    destruct (String.eqb_spec k k0) as [-> | NE]; nia.
Qed.

Lemma zcur_abs_le_zhabs m k : (Z.abs (zcur m k) <= zhabs m)%Z.
Proof. pose proof (zcur_le_zhabs m k). pose proof (zp_pos k). nia. Qed.

Lemma zhabs_zupd m k d : (zhabs (zupd m k d) <= zhabs m + Z.abs d * zp k)%Z.
Proof.
  unfold zupd. fold (zcur m k). pose proof (zp_pos k). pose proof (zcur_le_zhabs m k).
  destruct (Z.eqb_spec (zcur m k + d) 0) as [E | E].
  - rewrite zhabs_sremove. nia.
  - rewrite zhabs_sset. nia.
Qed.

Lemma zupd_nodup (m : smap Z) k d : NoDup (map fst m) -> NoDup (map fst (zupd m k d)).
Proof.
  intros ND. unfold zupd. destruct (_ =? 0)%Z; [apply nodup_sremove | apply nodup_sset]; exact ND.
Qed.

Lemma zupd_keys (m : smap Z) k d s : In s (map fst (zupd m k d)) -> s = k \/ In s (map fst m).
Proof.
  unfold zupd. destruct (_ =? 0)%Z; intros H.
  - right. exact (in_keys_sremove m k s H).
  - exact (in_keys_sset m k _ s H).
Qed.

End ZWorth.

(* ------------------------------------------------------------------------------------------- *)
(* structure of the broker operations, for every Num F (the counterparts of the lemmas EndToEnd16.v *)
(* states at F := R; no law of arithmetic is used)                                                *)

Section GenericBroker.
Context {F : Type} {NF : Num F}.

Definition qincl {A : Type} (m m' : smap A) : Prop := forall s, sget m s <> None -> sget m' s <> None.

Definition qfold_g (row : list (string * quote F)) (m : smap (quote F)) : smap (quote F) :=
  fold_left (fun m kq => sset m (fst kq) (snd kq)) row m.

Lemma sset_keeps_g {A} (m : smap A) k a s : sget m s <> None -> sget (sset m k a) s <> None.
Proof.
  intros H. destruct (string_dec s k) as [-> | NE].
  - rewrite sget_sset_same. discriminate.
  - rewrite sget_sset_other by exact NE. exact H.
Qed.

Lemma qfold_g_qincl row : forall m, qincl m (qfold_g row m).
Proof.
  unfold qincl, qfold_g. induction row as [| [k q] row IH]; intros m s H; cbn [fold_left fst snd]; [exact H |].
  apply IH. apply sset_keeps_g. exact H.
Qed.

Lemma update_quotes_quotes_g (b : broker F) row : b_quotes (update_quotes b row) = qfold_g row (b_quotes b).
Proof. reflexivity. Qed.

Lemma book_trade_quotes_g (b : broker F) t : b_quotes (book_trade b t) = b_quotes b.
Proof. unfold book_trade. destruct (t_side t); reflexivity. Qed.

Lemma book_trades_quotes_g ts : forall b : broker F, b_quotes (fold_left book_trade ts b) = b_quotes b.
Proof.
  induction ts as [| t ts IH]; intros b; cbn [fold_left]; [reflexivity |].
  rewrite IH. apply book_trade_quotes_g.
Qed.

Lemma gate_forward_quoted_g qk (b : broker F) o :
  gate qk b o = GForward -> sget (b_quotes b) (uo_symbol o) <> None.
Proof. unfold gate. intros H E. rewrite E in H. destruct (b_failed b); discriminate. Qed.

(* what send_orders hands to the client: some of the orders it was given, each for a quoted symbol *)
Lemma send_orders_fw_in qk os : forall (b : broker F) b' evs fw,
  send_orders qk b os = Ok (b', evs, fw) -> forall o, In o fw -> In o os.
Proof.
  induction os as [| o0 r IH]; intros b b' evs fw H o Hin.
  - cbn [send_orders] in H. inversion H; subst. contradiction.
  - apply send_orders_cons in H. destruct H as (b1 & ev1 & fw1 & evs2 & fw2 & Hs & Hr & _ & ->).
    apply send_order_cases in Hs. destruct Hs as [(_ & _ & _ & ->) | (_ & _ & _ & ->)].
    + right. exact (IH _ _ _ _ Hr o Hin).
    + cbn [Datatypes.app In] in Hin. destruct Hin as [<- | Hin]; [left; reflexivity | right; exact (IH _ _ _ _ Hr o Hin)].
Qed.

Lemma send_orders_fw_quoted_g qk os : forall (b : broker F) b' evs fw,
  send_orders qk b os = Ok (b', evs, fw) -> forall o, In o fw -> sget (b_quotes b) (uo_symbol o) <> None.
Proof.
  induction os as [| o0 r IH]; intros b b' evs fw H o Hin.
  - cbn [send_orders] in H. inversion H; subst. contradiction.
  - apply send_orders_cons in H. destruct H as (b1 & ev1 & fw1 & evs2 & fw2 & Hs & Hr & _ & ->).
    apply send_order_cases in Hs. destruct Hs as [(_ & -> & _ & ->) | (Hg & -> & _ & ->)].
    + exact (IH _ _ _ _ Hr o Hin).
    + cbn [Datatypes.app In] in Hin. destruct Hin as [<- | Hin].
      * exact (gate_forward_quoted_g qk b o0 Hg).
      * exact (IH _ _ _ _ Hr o Hin).
Qed.

Lemma check_frame_g (b : broker F) resp ord b' fw :
  check clean b resp ord = Ok (b', fw) ->
  b_cash b' = b_cash (booked b resp) /\ b_holdings b' = b_holdings (booked b resp) /\
  b_quotes b' = b_quotes (booked b resp) /\
  forall o, In o fw -> sget (b_quotes (booked b resp)) (uo_symbol o) <> None.
Proof.
  intros H. apply check_clean_sends in H. destruct H as (sells & evs & b1 & Hs & Hb).
  pose proof (send_orders_fw_quoted_g _ _ _ _ _ _ Hs) as Hq.
  apply send_orders_cash in Hs. destruct Hs as (Hc & Hh & _ & Hqu & _ & _).
  destruct Hb as [-> | ->]; cbn [set_failed b_cash b_holdings b_quotes]; repeat split; assumption.
Qed.

End GenericBroker.

(* ------------------------------------------------------------------------------------------- *)
(* (W2) the float broker and its integer reading                                                  *)

Section AtFloatWorth.
Context (tbl : libm_table).
Let NFl : Num float := FloatNum tbl.
Local Existing Instance NFl.
Local Open Scope num_scope.

(* the constant whole-unit price of each symbol *)
Variable zp : string -> Z.
Hypothesis zp_pos : forall s, (1 <= zp s)%Z.

(* a zero-spread quote at the price of its symbol *)
Definition fq_const (q : quote float) (s : string) : Prop :=
  int_float (q_bid q) (zp s) /\ int_float (q_ask q) (zp s).
Definition fquotes_const (m : smap (quote float)) : Prop :=
  forall k q, sget m k = Some q -> fq_const q k.

(* cash is the float of zc; the holdings are, key by key, the floats of zh; every stored quote is at the
   constant price, and every held symbol has one *)
Definition wrel (b : broker float) (zc : Z) (zh : smap Z) : Prop :=
  int_float (b_cash b) zc /\ hrel (b_holdings b) zh /\ NoDup (map fst zh) /\
  fquotes_const (b_quotes b) /\ (forall s, In s (map fst zh) -> sget (b_quotes b) s <> None).

Lemma wrel_frame (b b' : broker float) zc zh :
  b_cash b' = b_cash b -> b_holdings b' = b_holdings b -> b_quotes b' = b_quotes b ->
  wrel b zc zh -> wrel b' zc zh.
Proof. unfold wrel. intros -> -> ->. exact (fun H => H). Qed.

(* ------------------------------------------------------------------------------------------- *)
(* (W3) one fill at the constant price                                                            *)

(* a trade for q whole shares whose value is price x quantity, computed in floats *)
Definition trade_const (t : trade float) (q : Z) : Prop :=
  int_float (t_quantity t) q /\
  exists pf, int_float pf (zp (t_symbol t)) /\ t_value t = PrimFloat.mul pf (t_quantity t).

Definition zfill_c (zc : Z) (t : trade float) (q : Z) : Z :=
  match t_side t with
  | Buy => (zc - zp (t_symbol t) * q)%Z
  | Sell => (zc + zp (t_symbol t) * q)%Z
  end.
Definition zfill_h (zh : smap Z) (t : trade float) (q : Z) : smap Z := zupd zh (t_symbol t) (zdelta t q).

Lemma book_trade_quotes_f (b : broker float) t : b_quotes (book_trade b t) = b_quotes b.
Proof. unfold book_trade. destruct (t_side t); reflexivity. Qed.

Theorem book_trade_wrel (b : broker float) zc zh t q :
  wrel b zc zh -> trade_const t q -> sget (b_quotes b) (t_symbol t) <> None ->
  (Z.abs (zp (t_symbol t) * q) < 2 ^ 53)%Z ->
  (Z.abs (zfill_c zc t q) < 2 ^ 53)%Z ->
  (Z.abs (zcur zh (t_symbol t) + zdelta t q) < 2 ^ 53)%Z ->
  wrel (book_trade b t) (zfill_c zc t q) (zfill_h zh t q) /\
  zworth zp (zfill_c zc t q) (zfill_h zh t q) = zworth zp zc zh.
Proof.
  intros (Hc & Hh & ND & Hq & Hheld) (Hqty & pf & Hpf & Hval) Hsym Bv Bc Bh.
  assert (Hv : int_float (t_value t) (zp (t_symbol t) * q)).
  { rewrite Hval. apply mul_int_exact_strong; assumption. }
  split.
  - split; [| split; [| split; [| split]]].
    + rewrite book_trade_cash. unfold zfill_c in *. cbn [fsub fadd NFl FloatNum].
      destruct (t_side t).
      * apply int_P_sub; assumption.
      * apply int_P_add; assumption.
    + pose proof (book_trade_holdings_float tbl b t) as E. fold NFl in E. rewrite E. clear E.
      unfold zfill_h. apply hrel_upd; [exact Hh |].
      pose proof (hrel_cur _ _ (t_symbol t) Hh) as Ch. unfold zdelta in *.
      destruct (t_side t).
      * apply add_int_exact_strong; assumption.
      * replace (zcur zh (t_symbol t) + - q)%Z with (zcur zh (t_symbol t) - q)%Z in * by lia.
        apply sub_int_exact_strong; assumption.
    + apply zupd_nodup, ND.
    + rewrite book_trade_quotes_f. exact Hq.
    + rewrite book_trade_quotes_f. intros s Hs. apply zupd_keys in Hs.
      destruct Hs as [-> | Hs]; [exact Hsym | exact (Hheld s Hs)].
  - unfold zworth, zfill_h, zfill_c, zdelta. rewrite zhsum_zupd. destruct (t_side t); lia.
Qed.

(* the same under the single magnitude premise |cash| + sum |quantity| x price + 2 |q| x price < 2^53 *)
Corollary book_trade_wrel_gross (b : broker float) zc zh t q :
  wrel b zc zh -> trade_const t q -> sget (b_quotes b) (t_symbol t) <> None ->
  (zgross zp zc zh + 2 * (Z.abs q * zp (t_symbol t)) < 2 ^ 53)%Z ->
  wrel (book_trade b t) (zfill_c zc t q) (zfill_h zh t q) /\
  zworth zp (zfill_c zc t q) (zfill_h zh t q) = zworth zp zc zh /\
  (zgross zp (zfill_c zc t q) (zfill_h zh t q) <= zgross zp zc zh + 2 * (Z.abs q * zp (t_symbol t)))%Z.
Proof.
  intros W T S B. unfold zgross in *.
  pose proof (zhabs_nonneg zp zp_pos zh) as N0. pose proof (zp_pos (t_symbol t)) as P.
  pose proof (zcur_abs_le_zhabs zp zp_pos zh (t_symbol t)) as Cu.
  pose proof (zhabs_zupd zp zp_pos zh (t_symbol t) (zdelta t q)) as Up. rewrite zdelta_abs in Up.
  assert (Bq : (Z.abs q <= Z.abs q * zp (t_symbol t))%Z) by nia.
  assert (Bv : (Z.abs (zp (t_symbol t) * q) = Z.abs q * zp (t_symbol t))%Z) by (rewrite Z.abs_mul; lia).
  assert (Bc : (Z.abs (zfill_c zc t q) <= Z.abs zc + Z.abs q * zp (t_symbol t))%Z).
  { unfold zfill_c. destruct (t_side t); lia. }
  assert (Bd : (Z.abs (zdelta t q) = Z.abs q)%Z) by apply zdelta_abs.
  destruct (book_trade_wrel b zc zh t q W T S) as [W' Hw]; try lia.
  split; [exact W' |]. split; [exact Hw |]. unfold zfill_h. lia.
Qed.

(* a list of fills; the integer quantities are read off the floats: [fint] and a finite magnitude *)
Definition tr_ok (b : broker float) (t : trade float) : Prop :=
  fint (t_quantity t) /\
  (exists pf, int_float pf (zp (t_symbol t)) /\ t_value t = PrimFloat.mul pf (t_quantity t)) /\
  sget (b_quotes b) (t_symbol t) <> None.

Definition tvol (ts : list (trade float)) : Z :=
  fold_right (fun t acc => (fmag (t_quantity t) * zp (t_symbol t) + acc)%Z) 0%Z ts.

Lemma tvol_nonneg ts : (0 <= tvol ts)%Z.
Proof.
  induction ts as [| t ts IH]; cbn [tvol fold_right]; [lia |]. fold (tvol ts).
  pose proof (fmag_nonneg (t_quantity t)). pose proof (zp_pos (t_symbol t)). nia.
Qed.

Lemma fint_read (x : float) (p B : Z) : fint x -> (1 <= p)%Z -> (fmag x * p <= B)%Z -> (B < 2 ^ 53)%Z ->
  exists q, int_float x q /\ fmag x = Z.abs q.
Proof.
  intros Fi P L Bd. pose proof (fmag_nonneg x) as N.
  assert (F : ffin x). { apply fmag_small_finite. assert (2 ^ 53 < 2 ^ 1024)%Z by (apply Z.pow_lt_mono_r; lia). nia. }
  destruct (Fi F) as [q Hq]. exists q. split; [exact Hq | exact (fmag_int x q Hq)].
Qed.

Theorem book_trades_wrel ts : forall (b : broker float) zc zh,
  wrel b zc zh -> Forall (tr_ok b) ts -> (zgross zp zc zh + 2 * tvol ts < 2 ^ 53)%Z ->
  exists zc' zh', wrel (fold_left book_trade ts b) zc' zh' /\
    zworth zp zc' zh' = zworth zp zc zh /\ (zgross zp zc' zh' <= zgross zp zc zh + 2 * tvol ts)%Z.
Proof.
  induction ts as [| t ts IH]; intros b zc zh W Ok B; cbn [fold_left tvol fold_right] in *.
  - exists zc, zh. split; [exact W |]. split; [reflexivity | lia].
  - fold (tvol ts) in B |- *. inversion Ok as [| ? ? (Fi & Hv & Hs) Ok']; subst.
    pose proof (tvol_nonneg ts) as Nt.
    assert (G0 : (0 <= zgross zp zc zh)%Z).
    { unfold zgross. pose proof (zhabs_nonneg zp zp_pos zh). lia. }
    destruct (fint_read (t_quantity t) (zp (t_symbol t)) (fmag (t_quantity t) * zp (t_symbol t))
                Fi (zp_pos _) (Z.le_refl _)) as (q & Hq & Hm); [lia |].
    rewrite Hm in B.
    destruct (book_trade_wrel_gross b zc zh t q W (conj Hq Hv) Hs) as (W1 & Hw1 & G1); [lia |].
    destruct (IH (book_trade b t) _ _ W1) as (zc' & zh' & W' & Hw' & G'); [| lia |].
    { apply Forall_forall. intros t' Hin. rewrite Forall_forall in Ok'.
      destruct (Ok' t' Hin) as (A1 & A2 & A3). split; [exact A1 |]. split; [exact A2 |].
      rewrite book_trade_quotes_f. exact A3. }
    exists zc', zh'. split; [exact W' |]. split; [lia |]. rewrite Hm. lia.
Qed.

(* ------------------------------------------------------------------------------------------- *)
(* (W4) the valuation: for ANY iteration order of the holdings, the float of the integer worth    *)

Definition zsumk (f : string -> Z) (l : list string) : Z := fold_right (fun a acc => (f a + acc)%Z) 0%Z l.

Lemma zsumk_perm f l1 l2 : Permutation l1 l2 -> zsumk f l1 = zsumk f l2.
Proof. unfold zsumk. induction 1; cbn [fold_right] in *; lia. Qed.

Lemma zsumk_ext f g l : (forall a, In a l -> f a = g a) -> zsumk f l = zsumk g l.
Proof.
  induction l as [| a l IH]; intros H; cbn [zsumk fold_right]; [reflexivity |]. fold (zsumk f l) (zsumk g l).
  rewrite (H a (or_introl eq_refl)), IH; [reflexivity |]. intros x Hx. apply H. right. exact Hx.
Qed.

(* over the keys of a map with unique keys, the sum by lookup is the sum over the entries *)
Lemma zsumk_keys (g : Z -> string -> Z) (m : smap Z) : NoDup (map fst m) ->
  zsumk (fun a => g (zcur m a) a) (map fst m) = fold_right (fun kv acc => (g (snd kv) (fst kv) + acc)%Z) 0%Z m.
Proof.
  induction m as [| [k v] m IH]; intros ND; cbn [map fst snd zsumk fold_right]; [reflexivity |].
  inversion ND as [| ? ? Nin ND']; subst.
  fold (zsumk (fun a => g (zcur ((k, v) :: m) a) a) (map fst m)).
  rewrite <- (IH ND'). f_equal.
  - unfold zcur. cbn [sget]. rewrite String.eqb_refl. reflexivity.
  - apply zsumk_ext. intros a Ha. unfold zcur. cbn [sget].
    destruct (String.eqb_spec a k) as [-> | NE]; [contradiction | reflexivity].
Qed.

Lemma position_value_wrel (b : broker float) zc zh a :
  wrel b zc zh -> In a (map fst zh) -> (Z.abs (zcur zh a) * zp a < 2 ^ 53)%Z ->
  exists pv, position_value b a = Some pv /\ int_float pv (zp a * zcur zh a).
Proof.
  intros (_ & Hh & _ & Hq & Hheld) Ha B.
  unfold position_value, position_qty.
  destruct (sget (b_quotes b) a) as [q |] eqn:Gq; [| exfalso; exact (Hheld a Ha Gq)].
  destruct (in_keys_sget zh a Ha) as [n Gn].
  pose proof (hrel_sget _ _ a Hh) as Gs. rewrite Gn in Gs.
  destruct (sget (b_holdings b) a) as [x |]; [| contradiction].
  exists (q_bid q * x). split; [reflexivity |].
  unfold zcur. rewrite Gn. cbn [fmul NFl FloatNum].
  apply mul_int_exact_strong; [exact (proj1 (Hq a q Gq)) | exact Gs |].
  unfold zcur in B. rewrite Gn in B. rewrite Z.abs_mul. pose proof (zp_pos a). lia.
Qed.

Lemma total_value_fold (b : broker float) zc zh : wrel b zc zh ->
  forall l v z, int_float v z -> (forall a, In a l -> In a (map fst zh)) ->
  (Z.abs z + zsumk (fun a => Z.abs (zcur zh a) * zp a) l < 2 ^ 53)%Z ->
  int_float (fold_left (fun v a => match position_value b a with Some pv => v + pv | None => v end) l v)
            (z + zsumk (fun a => zcur zh a * zp a) l)%Z.
Proof.
  intros W. induction l as [| a l IH]; intros v z Hv Hin B; cbn [fold_left zsumk fold_right] in *.
  - replace (z + 0)%Z with z by lia. exact Hv.
  - fold (zsumk (fun a => (Z.abs (zcur zh a) * zp a)%Z) l) in B.
    fold (zsumk (fun a => (zcur zh a * zp a)%Z) l).
    assert (N : (0 <= zsumk (fun a => (Z.abs (zcur zh a) * zp a)%Z) l)%Z).
    { clear -zp_pos. induction l as [| x l IH]; cbn [zsumk fold_right]; [lia |].
      fold (zsumk (fun a => (Z.abs (zcur zh a) * zp a)%Z) l). pose proof (zp_pos x). nia. }
    pose proof (zp_pos a) as P.
    destruct (position_value_wrel b zc zh a W (Hin a (or_introl eq_refl))) as (pv & -> & Hpv); [nia |].
    replace (z + (zcur zh a * zp a + zsumk (fun a0 => zcur zh a0 * zp a0) l))%Z
      with ((z + zp a * zcur zh a) + zsumk (fun a0 => zcur zh a0 * zp a0) l)%Z by lia.
    apply IH.
    + cbn [fadd NFl FloatNum]. apply add_int_exact_strong; [exact Hv | exact Hpv |]. nia.
    + intros x Hx. apply Hin. right. exact Hx.
    + nia.
Qed.

Theorem total_value_wrel (b : broker float) zc zh ord :
  wrel b zc zh -> is_order_of ord (b_holdings b) = true -> (zgross zp zc zh < 2 ^ 53)%Z ->
  int_float (total_value b ord) (zworth zp zc zh).
Proof.
  intros W Ho B. pose proof W as (Hc & Hh & ND & _ & _).
  assert (Pm : Permutation ord (map fst zh)).
  { rewrite <- (hrel_keys _ _ Hh). apply is_order_of_perm; [| exact Ho]. rewrite (hrel_keys _ _ Hh). exact ND. }
  unfold total_value, zworth, zhsum.
  rewrite <- (zsumk_keys (fun v k => (v * zp k)%Z) zh ND), <- (zsumk_perm _ _ _ Pm).
  apply (total_value_fold b zc zh W); [exact Hc | |].
  - intros a Ha. exact (Permutation_in _ Pm Ha).
  - rewrite (zsumk_perm _ _ _ Pm), (zsumk_keys (fun v k => (Z.abs v * zp k)%Z) zh ND). exact B.
Qed.

(* … as a float, bit for bit, when the worth is not zero (a zero sum may carry either sign) *)
Corollary total_value_wrel_bits (b : broker float) zc zh ord :
  wrel b zc zh -> is_order_of ord (b_holdings b) = true -> (zgross zp zc zh < 2 ^ 53)%Z ->
  zworth zp zc zh <> 0%Z -> total_value b ord = float_ofZ (zworth zp zc zh).
Proof.
  intros W Ho B NZ. pose proof (total_value_wrel b zc zh ord W Ho B) as H.
  assert (Bw : (Z.abs (zworth zp zc zh) <= zgross zp zc zh)%Z).
  { unfold zworth, zgross. assert (Z.abs (zhsum zp zh) <= zhabs zp zh)%Z; [| lia].
    clear -zp_pos. induction zh as [| [k v] m IH]; cbn [zhsum zhabs fold_right fst snd]; [lia |].
    fold (zhsum zp m) (zhabs zp m). pose proof (zp_pos k). nia. }
  apply int_float_bits; [exact H | lia |].
  intros R0. exfalso. apply NZ, eq_IZR. rewrite <- (proj2 H). exact R0.
Qed.

(* deposits and plain withdrawals move the worth by their integer amount *)
Lemma deposit_wrel (b : broker float) zc zh c zd :
  wrel b zc zh -> int_float c zd -> (Z.abs (zc + zd) < 2 ^ 53)%Z ->
  wrel (fst (deposit_cash b c)) (if b_failed b then zc else zc + zd)%Z zh /\
  zworth zp (if b_failed b then zc else zc + zd)%Z zh = (zworth zp zc zh + (if b_failed b then 0 else zd))%Z.
Proof.
  intros (Hc & Hr) Hd B. unfold deposit_cash. destruct (b_failed b); cbn [fst].
  - split; [exact (conj Hc Hr) | unfold zworth; lia].
  - split; [| unfold zworth; lia]. split; [| exact Hr].
    unfold credit. cbn [b_cash set_cash fadd NFl FloatNum]. apply int_P_add; assumption.
Qed.

Lemma withdraw_wrel (b : broker float) zc zh c zd :
  wrel b zc zh -> int_float c zd -> (Z.abs (zc - zd) < 2 ^ 53)%Z ->
  let paid := if b_failed b then 0%Z else if (zd <=? zc)%Z then zd else 0%Z in
  wrel (fst (withdraw_cash b c)) (zc - paid) zh /\
  zworth zp (zc - paid) zh = (zworth zp zc zh - paid)%Z /\
  snd (withdraw_cash b c) = (if b_failed b then OperationFailure c
                             else if (zd <=? zc)%Z then WithdrawSuccess c else WithdrawFailure c).
Proof.
  intros (Hc & Hr) Hd B paid. unfold paid, withdraw_cash. destruct (b_failed b); cbn [fst snd].
  - replace (zc - 0)%Z with zc by lia. split; [exact (conj Hc Hr) |]. split; [unfold zworth; lia | reflexivity].
  - cbn [fltb NFl FloatNum]. rewrite (int_float_ltb _ _ _ _ Hc Hd), Z.ltb_antisym.
    destruct (zd <=? zc)%Z eqn:E; cbn [negb fst snd].
    + unfold debit. cbn [fltb NFl FloatNum]. rewrite (int_float_ltb _ _ _ _ Hc Hd), Z.ltb_antisym, E.
      cbn [negb fst].
      split; [| split; [unfold zworth; lia | reflexivity]]. split; [| exact Hr].
      cbn [b_cash set_cash fsub NFl FloatNum]. apply int_P_sub; assumption.
    + replace (zc - 0)%Z with zc by lia. split; [exact (conj Hc Hr) |]. split; [unfold zworth; lia | reflexivity].
Qed.

(* ------------------------------------------------------------------------------------------- *)
(* (W5c) the broker-level step: check                                                              *)

Definition frow_const (row : list (string * quote float)) : Prop :=
  forall k q, In (k, q) row -> fq_const q k.

Lemma qfold_g_const row : forall m, frow_const row -> fquotes_const m -> fquotes_const (qfold_g row m).
Proof.
  unfold qfold_g. induction row as [| [k q] row IH]; intros m Hr Hm; cbn [fold_left fst snd]; [exact Hm |].
  apply IH.
  - intros k' q' Hin. apply Hr. right. exact Hin.
  - intros k' q' H. destruct (string_dec k' k) as [-> | NE].
    + rewrite sget_sset_same in H. inversion H; subst q'. apply Hr. left. reflexivity.
    + rewrite sget_sset_other in H by exact NE. exact (Hm _ _ H).
Qed.

Lemma update_quotes_wrel (b : broker float) zc zh row :
  wrel b zc zh -> frow_const row ->
  wrel (update_quotes b row) zc zh /\ qincl (b_quotes b) (b_quotes (update_quotes b row)).
Proof.
  intros (Hc & Hh & ND & Hq & Hheld) Hr.
  assert (S : qincl (b_quotes b) (b_quotes (update_quotes b row))) by apply qfold_g_qincl.
  split; [| exact S].
  split; [exact Hc |]. split; [exact Hh |]. split; [exact ND |]. split.
  - apply qfold_g_const; assumption.
  - intros s Hs. apply S. exact (Hheld s Hs).
Qed.

(* what the broker is told after a tick: a row at the constant prices, fills at the constant prices *)
Definition fresp_ok (b : broker float) (resp : option (list (trade float) * list (string * quote float))) : Prop :=
  match resp with
  | None => True
  | Some (ts, row) => frow_const row /\ Forall (tr_ok b) ts
  end.
Definition fresp_vol (resp : option (list (trade float) * list (string * quote float))) : Z :=
  match resp with None => 0%Z | Some (ts, _) => tvol ts end.

Lemma booked_wrel (b : broker float) zc zh resp :
  wrel b zc zh -> fresp_ok b resp -> (zgross zp zc zh + 2 * fresp_vol resp < 2 ^ 53)%Z ->
  exists zc' zh', wrel (booked b resp) zc' zh' /\ zworth zp zc' zh' = zworth zp zc zh /\
    (zgross zp zc' zh' <= zgross zp zc zh + 2 * fresp_vol resp)%Z /\
    qincl (b_quotes b) (b_quotes (booked b resp)).
Proof.
  intros W Hr B. destruct resp as [[ts row] |]; cbn [booked fresp_ok fresp_vol] in *.
  - destruct Hr as [Hrow Hts].
    destruct (update_quotes_wrel b zc zh row W Hrow) as [W1 S].
    destruct (book_trades_wrel ts (update_quotes b row) zc zh W1) as (zc' & zh' & W' & Hw & G); [| exact B |].
    { apply Forall_forall. intros t Hin. rewrite Forall_forall in Hts. destruct (Hts t Hin) as (A1 & A2 & A3).
      split; [exact A1 |]. split; [exact A2 | exact (S _ A3)]. }
    exists zc', zh'. split; [exact W' |]. split; [exact Hw |]. split; [exact G |].
    rewrite book_trades_quotes_g. exact S.
  - exists zc, zh. split; [exact W |]. split; [reflexivity |]. split; [lia |]. intros s H. exact H.
Qed.

(* the orders the liquidation writes are for whole positions or for ceil(..) shares *)
Definition ord_fint (o : uorder float) : Prop := fint (uo_shares o).

Lemma liq_loop_fint (b : broker float) ord : forall c acc ts sells,
  liq_loop clean b ord c acc = Ok (ts, sells) ->
  (forall s x, sget (b_holdings b) s = Some x -> fint x) -> Forall ord_fint acc -> Forall ord_fint sells.
Proof.
  induction ord as [| ticker rest IH]; intros c acc ts sells H Hh Ha; cbn [liq_loop] in H.
  - inversion H; subst. apply Forall_rev, Ha.
  - destruct ((match position_value b ticker with Some v => v | None => fzero end) <=? c).
    + unfold position_qty in H. destruct (sget (b_holdings b) ticker) as [qty |] eqn:G.
      * apply (IH _ _ _ _ H Hh). constructor; [| exact Ha]. exact (Hh _ _ G).
      * exact (IH _ _ _ _ H Hh Ha).
    + destruct (sget (b_quotes b) ticker) as [q |]; [| discriminate].
      inversion H; subst. apply Forall_app. split; [apply Forall_rev, Ha |]. constructor; [| constructor].
      unfold ord_fint. cbn [uo_shares]. apply fint_ceil.
Qed.

Lemma liq_fw_fint (b : broker float) c ord b' ev fw :
  withdraw_cash_with_liquidation clean b c ord = Ok (b', ev, fw) ->
  (forall s x, sget (b_holdings b) s = Some x -> fint x) -> Forall ord_fint fw.
Proof.
  unfold withdraw_cash_with_liquidation. intros H Hh.
  destruct (negb (is_order_of ord (b_holdings b))); [discriminate |].
  destruct (c >? liquidation_value b ord); [inversion H; subst; constructor |].
  destruct (liq_loop clean b ord c []) as [[ts sells] | s |] eqn:Hl; cbn [bind] in H; try discriminate.
  destruct (ts ==? fzero); [| inversion H; subst; constructor].
  destruct (send_orders clean b sells) as [[[b1 evs1] fw1] | s |] eqn:Hs; cbn [bind] in H; try discriminate.
  inversion H; subst.
  pose proof (liq_loop_fint b ord c [] ts sells Hl Hh (Forall_nil _)) as Fs.
  apply Forall_forall. intros o Hin. rewrite Forall_forall in Fs. apply Fs.
  exact (send_orders_fw_in _ _ _ _ _ _ Hs o Hin).
Qed.

Lemma hrel_fint (mf : smap float) (mz : smap Z) : hrel mf mz -> forall s x, sget mf s = Some x -> fint x.
Proof.
  intros H s x G. pose proof (hrel_sget _ _ s H) as Hs. rewrite G in Hs.
  destruct (sget mz s) as [n |]; [exact (fint_of_int _ _ Hs) | contradiction].
Qed.

Lemma check_fw_fint (b : broker float) resp ord b' fw zc zh :
  wrel (booked b resp) zc zh -> check clean b resp ord = Ok (b', fw) -> Forall ord_fint fw.
Proof.
  intros (_ & Hh & _) H. apply check_shape in H. destruct H as [(_ & ->) | H]; [constructor |].
  apply rebalance_shape in H. destruct H as [(_ & ->) | (c & b1 & ev & Hw & _)]; [constructor |].
  exact (liq_fw_fint _ _ _ _ _ _ Hw (hrel_fint _ _ Hh)).
Qed.

(* an order the broker may have at the exchange: for a symbol it has a quote for, and for a quantity
   that is integer-valued unless it is not finite *)
Definition order_ok (b : broker float) (o : uorder float) : Prop :=
  sget (b_quotes b) (uo_symbol o) <> None /\ fint (uo_shares o).

(* (W5c) check: booking the tick's fills at the constant price, then whatever the rebalancing does,
   preserves the relation and the integer worth; the orders it hands on are order_ok *)
Theorem check_wrel (b : broker float) zc zh resp ord b' fw :
  wrel b zc zh -> fresp_ok b resp -> (zgross zp zc zh + 2 * fresp_vol resp < 2 ^ 53)%Z ->
  check clean b resp ord = Ok (b', fw) ->
  exists zc' zh', wrel b' zc' zh' /\ zworth zp zc' zh' = zworth zp zc zh /\
    (zgross zp zc' zh' <= zgross zp zc zh + 2 * fresp_vol resp)%Z /\
    qincl (b_quotes b) (b_quotes b') /\ Forall (order_ok b') fw.
Proof.
  intros W Hr B H.
  destruct (booked_wrel b zc zh resp W Hr B) as (zc' & zh' & W' & Hw & G & S).
  pose proof (check_fw_fint b resp ord b' fw zc' zh' W' H) as Ff.
  destruct (check_frame_g b resp ord b' fw H) as (Ec & Eh & Eq & Hfq).
  exists zc', zh'. split; [exact (wrel_frame _ _ _ _ Ec Eh Eq W') |]. split; [exact Hw |]. split; [exact G |].
  split; [rewrite Eq; exact S |].
  apply Forall_forall. intros o Hin. rewrite Forall_forall in Ff. split; [rewrite Eq; exact (Hfq o Hin) | exact (Ff o Hin)].
Qed.

End AtFloatWorth.

(* ------------------------------------------------------------------------------------------- *)
Print Assumptions float_floor_int.
Print Assumptions float_floor_zero.
Print Assumptions float_floor_large.
Print Assumptions float_floor_nonfinite.
Print Assumptions float_floor_nonneg.
Print Assumptions float_ceil_int.
Print Assumptions fint_floor.
Print Assumptions fmag_int.
Print Assumptions book_trade_wrel.
Print Assumptions book_trade_wrel_gross.
Print Assumptions book_trades_wrel.
Print Assumptions total_value_wrel.
Print Assumptions total_value_wrel_bits.
Print Assumptions deposit_wrel.
Print Assumptions withdraw_wrel.
Print Assumptions check_wrel.
