//! schedule/mod.rs and broker::DateTime on every day of a range, at several times of day.
use alator::broker::DateTime;
use alator::schedule::{DefaultTradingSchedule, LastBusinessDayTradingSchedule, TradingSchedule};
use serde_json::{json, Value};

fn wd(d: &DateTime) -> u64 {
    // 0 = Sunday … 6 = Saturday
    d.weekday().number_days_from_sunday() as u64
}

/// one integer per (day, time of day): dom + 32*month + 512*weekday + 4096*lbd + 8192*default
/// + 16384 when the answer is not a function of its argument: asked again right after the schedule was asked about
/// the same calendar day one year earlier and one year later (and other days around them), it answers differently
pub fn run(sc: &Value) -> Value {
    let from = sc["from_day"].as_i64().unwrap();
    let to = sc["to_day"].as_i64().unwrap();
    let times: Vec<i64> = sc["times"].as_array().unwrap().iter().map(|v| v.as_i64().unwrap()).collect();
    let mut out = Vec::new();
    for day in from..to {
        for t in &times {
            let ts = day * 86400 + t;
            let dt: DateTime = ts.into();
            let plain = LastBusinessDayTradingSchedule::should_trade(&dt);
            let mut unstable = false;
            for off in [-366i64, -365, -364, 364, 365, 366, -31, 31] {
                let other = ts + off * 86400;
                if (-377_000_000_000..=253_000_000_000).contains(&other) {
                    let _ = LastBusinessDayTradingSchedule::should_trade(&other.into());
                    if LastBusinessDayTradingSchedule::should_trade(&dt) != plain {
                        unstable = true;
                    }
                }
            }
            let code = dt.day() as u64
                + 32 * (dt.month() as u8 as u64)
                + 512 * wd(&dt)
                + 4096 * (plain as u64)
                + 8192 * (DefaultTradingSchedule::should_trade(&dt) as u64)
                + 16384 * (unstable as u64);
            out.push(code);
        }
    }
    json!({ "codes": out })
}
