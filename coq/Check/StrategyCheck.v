(* StrategyCheck.v — step-wise comparison of the strategy model with observed StaticWeightStrategy steps. *)
From Coq Require Import ZArith NArith List Bool String Floats.
From Alator Require Import Model.Num Model.Quirks Model.Cost Model.Exchange Model.Uist Model.Broker
  Model.Perf Model.Strategy Check.Eqb Check.ExchCheck Check.ServerCheck Check.BrokerCheck.
Import ListNotations.

Local Instance FNt : Num float := FloatNum [].

Definition T_KIND := 0%N.  Definition T_NCF := 1%N.  Definition T_HISTORY := 2%N.
Definition T_BROKER := 3%N. Definition T_CALLS := 4%N. Definition T_EVENT := 5%N.

Inductive top :=
| TInit (cash : float) (ord : list string)
| TUpdate (resp : option (list (trade float) * list (string * quote float))) (now : Z) (ord : list string)
| TWithdraw (x : float)
| TWithdrawLiq (x : float) (ord : list string).

Inductive tobs := TOUnit | TOSuccess (ok : bool) | TOPanic.

Record tstep := mkTStep {
  ts_pre : strategy float; ts_op : top; ts_obs : tobs; ts_post : strategy float;
  ts_calls : list (uorder float);
}.

Definition snap_eqb (a b : snapshot float) : bool :=
  Z.eqb (sn_date a) (sn_date b) && feq (sn_value a) (sn_value b) && feq (sn_ncf a) (sn_ncf b)
  && feq (sn_infl a) (sn_infl b).

Definition strat_mask (m o : strategy float) : N :=
  N.lor (bit T_NCF (feq (st_ncf m) (st_ncf o)))
  (N.lor (bit T_HISTORY (list_eqb snap_eqb (st_history m) (st_history o)))
         (bit T_BROKER (N.eqb (broker_mask (st_brkr m) (st_brkr o)) 0))).

Definition tstep_mask (qk : quirks) (st : tstep) : N :=
  let s := ts_pre st in
  match ts_op st, ts_obs st with
  | TInit c ord, obs =>
      match st_init qk s c ord, obs with
      | Ok (s', fw), TOUnit => N.lor (strat_mask s' (ts_post st)) (bit T_CALLS (list_eqb uorder_eqb fw (ts_calls st)))
      | Panic _, TOPanic => 0%N
      | _, _ => bit T_KIND false
      end
  | TUpdate resp now ord, obs =>
      match st_update qk s resp now ord, obs with
      | Ok (s', fw), TOUnit => N.lor (strat_mask s' (ts_post st)) (bit T_CALLS (list_eqb uorder_eqb fw (ts_calls st)))
      | Panic _, TOPanic => 0%N
      | _, _ => bit T_KIND false
      end
  | TWithdraw x, TOSuccess ok =>
      let '(s', ok') := st_withdraw s x in
      N.lor (strat_mask s' (ts_post st)) (N.lor (bit T_EVENT (Bool.eqb ok ok')) (bit T_CALLS (list_eqb uorder_eqb [] (ts_calls st))))
  | TWithdrawLiq x ord, obs =>
      match st_withdraw_liq qk s x ord, obs with
      | Ok (s', ok', fw), TOSuccess ok =>
          N.lor (strat_mask s' (ts_post st)) (N.lor (bit T_EVENT (Bool.eqb ok ok')) (bit T_CALLS (list_eqb uorder_eqb fw (ts_calls st))))
      | Panic _, TOPanic => 0%N
      | _, _ => bit T_KIND false
      end
  | _, _ => bit T_KIND false
  end.
