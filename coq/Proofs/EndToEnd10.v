(* EndToEnd10.v — C10 END TO END over the composition broker + eager client + Uist server + Uist exchange
   (Model/BrokerSys.v) at F := R, clean: a successful withdraw_cash_with_liquidation really raises the cash, two
   check()s later, when the row the second tick matches against quotes every sold symbol at the bid the broker had
   last seen.
     phase 1 (the call)        : cash unchanged, the forwarded market sells sit in the exchange's buffer, in order;
     phase 2 (first check())   : the tick only ADMITS them (the book was empty): no trade, cash / holdings unchanged;
     phase 3 (second check())  : every one of them fills exactly once at that bid:
                                 cash = cash0 + sum shares x bid >= cash0 + c, nothing outstanding, pending empty,
                                 holdings reduced by the quantities sold (entry gone at 0), broker Ready.
   The holdings-order oracle arguments of the two checks are irrelevant (cash never goes negative: rebalance_cash
   is never entered), which is part of the conclusion. *)
From Coq Require Import ZArith NArith List Bool String Reals Lra Lia Permutation Floats.
From Flocq Require Import Raux.
From Alator Require Import Model.Num Model.Quirks Model.Cost Model.Exchange Model.Uist Model.Server
  Model.Penelope Model.Broker Model.Perf Model.Strategy Model.BrokerSys
  Proofs.ServerProofs Proofs.BrokerLedgerProofs Proofs.BrokerLiqProofs Proofs.UistProofs
  Proofs.ExchangeProofs Proofs.ExchangeCorollaries Proofs.StrategyProofs Proofs.EndToEnd16
  Proofs.EndToEnd05 Proofs.EndToEnd04.
Import ListNotations.

Section EndToEnd10.
Local Existing Instance RNum.
Local Open Scope R_scope.

Notation utick1 := (bt_tick (X:=uexch R) (Row:=quotes (quote R)) (TOut:=utout) ux_tick ([], []) clean false).
Notation sumL := BrokerLedgerProofs.sumR.
Notation sumQ := BrokerLiqProofs.sumR.
Notation stays row := (fun e : entry (uorder R) => negb (ufires row e)).
Notation fills row bk := (map snd (flat_map (utrade row) bk)).

Lemma sumQ_L {A} (f : A -> R) l : sumQ f l = sumL f l.
Proof. reflexivity. Qed.

(* ---------------- definitions of the statement ---------------- *)
(* the date the clock of a backtest shows after k ticks (it stays on the last date once the dataset is exhausted) *)
Definition clock_date (d : dataset (quotes (quote R))) (k : nat) : option Z :=
  get_date d (Nat.min k (List.length (ds_dates d) - 1)).

(* trade t is the fill of the sell order o at the bid [bidf (symbol)] *)
Definition sell_fill (bidf : string -> R) (o : uorder R) (t : trade R) : Prop :=
  t_symbol t = uo_symbol o /\ t_quantity t = uo_shares o /\ t_side t = Sell /\
  t_value t = bidf (uo_symbol o) * uo_shares o.

(* quantity of s sold by a list of orders *)
Definition sold (s : string) (os : list (uorder R)) : R :=
  sumL (fun o => if String.eqb (uo_symbol o) s then uo_shares o else 0) os.

(* ---------------- the broker side of the liquidation call ---------------- *)
Lemma liq_success_facts (b : broker R) c ord b' x fw :
  whole_long b -> b_failed b = false -> 0 <= c ->
  withdraw_cash_with_liquidation clean b c ord = Ok (b', WithdrawSuccess x, fw) ->
  Forall is_market_sell fw /\
  Forall (fun o => exists h, sget (b_holdings b) (uo_symbol o) = Some h /\ 0 < uo_shares o <= h) fw /\
  NoDup (map (@uo_symbol R) fw) /\
  c <= sumQ (fun o => uo_shares o * bid_of b (uo_symbol o)) fw /\
  b_cash b' = b_cash b /\ b_holdings b' = b_holdings b /\ b_log b' = b_log b /\
  b_quotes b' = b_quotes b /\ b_failed b' = b_failed b.
Proof.
  intros Hw Hf Hc H.
  pose proof (liquidation_sufficient b c ord b' _ fw Hw Hf Hc H) as (L1 & L2 & L3).
  destruct (liq_frame _ _ _ _ _ _ _ H) as (Fh & Fl & Fq & Ff & _).
  destruct (liquidation_cash_clean _ _ _ _ _ _ H) as (Fc & _).
  split; [exact L1|]. split; [exact L2|]. split; [|repeat split; assumption].
  unfold withdraw_cash_with_liquidation in H.
  destruct (is_order_of ord (b_holdings b)) eqn:Ho; cbn [negb] in H; [|discriminate].
  destruct (is_order_of_spec _ _ Ho) as (_ & Hnd & Hin).
  change (liq_failure clean b c) with b in H.
  destruct (fltb (liquidation_value b ord) c); [discriminate|].
  destruct (liq_loop clean b ord c []) as [[r sells]|m|] eqn:Hl; cbn [bind] in H; try discriminate.
  cbn [feqb fzero RNum] in H.
  destruct (Req_bool_spec r 0) as [E|E]; [|discriminate].
  destruct (send_orders clean b sells) as [[[b2 evs] fw1]|m|] eqn:Hs; cbn [bind] in H; try discriminate.
  inversion H; subst b2 x fw1; clear H.
  assert (Hheld : forall s, In s ord -> sget (b_holdings b) s <> None).
  { intros s Hs'. destruct (in_keys_sget _ _ (Hin s Hs')) as [v Hv]. congruence. }
  destruct (liq_loop_spec_adj b ord c r sells Hw Hnd Hheld Hc Hl) as [(A1 & A2 & A3 & A4) (B1 & B2 & B3 & B4)].
  assert (Hfw : fw = nz_sells sells).
  { apply (send_sells_forwarded_nz b sells b' evs fw Hf A1); [|exact Hs].
    rewrite Forall_forall in *. intros o Hoo. destruct (A2 o Hoo) as [h [Hh Hr]].
    exists h. split; [exact Hh|lra]. }
  subst fw. exact B3.
Qed.

(* whole positive quantities: no zero entry *)
Lemma whole_long_no_zero (b : broker R) : whole_long b -> keys_nodup (b_holdings b) /\ no_zero (b_holdings b).
Proof.
  intros [Hnd Hw]. split; [exact Hnd|]. unfold no_zero. rewrite Forall_forall in *.
  intros kv Hin. destruct (Hw kv Hin) as [[n [Hn E]] _]. rewrite E. apply IZR_lt in Hn. lra.
Qed.

(* a map without zero entries is determined by its values-with-default-0 *)
Lemma sget_of_hget (m : smap R) s :
  no_zero m -> sget m s = if Req_bool (hget m s) 0 then None else Some (hget m s).
Proof.
  intros Hz. unfold hget. destruct (sget m s) as [v|] eqn:E.
  - apply sget_in in E. unfold no_zero in Hz. rewrite Forall_forall in Hz. specialize (Hz _ E). cbn [snd] in Hz.
    rewrite Req_bool_false by exact Hz. reflexivity.
  - rewrite Req_bool_true by reflexivity. reflexivity.
Qed.

(* ---------------- the quantity sold per symbol ---------------- *)
Lemma sold_notin os s : (forall o, In o os -> uo_symbol o <> s) -> sold s os = 0.
Proof.
  unfold sold. induction os as [|a r IH]; intros H; [reflexivity|].
  rewrite BrokerLedgerProofs.sumR_cons, IH by (intros o Ho; apply H; right; exact Ho).
  destruct (String.eqb (uo_symbol a) s) eqn:E; [|lra].
  apply String.eqb_eq in E. exfalso. exact (H a (or_introl eq_refl) E).
Qed.

Lemma sold_in os o : NoDup (map (@uo_symbol R) os) -> In o os -> sold (uo_symbol o) os = uo_shares o.
Proof.
  induction os as [|a r IH]; intros Hnd Hin; [destruct Hin|].
  cbn [map] in Hnd. inversion Hnd as [|x l Hnin Hnd']; subst.
  unfold sold. rewrite BrokerLedgerProofs.sumR_cons. fold (sold (uo_symbol o) r).
  destruct Hin as [->|Hin].
  - rewrite String.eqb_refl, sold_notin; [lra|].
    intros o' Ho' E. apply Hnin. rewrite <- E. apply in_map. exact Ho'.
  - rewrite (IH Hnd' Hin).
    destruct (String.eqb (uo_symbol a) (uo_symbol o)) eqn:E; [|lra].
    apply String.eqb_eq in E. exfalso. apply Hnin. rewrite E. apply in_map. exact Hin.
Qed.

Lemma sold_perm s l1 l2 : Permutation l1 l2 -> sold s l1 = sold s l2.
Proof. intros H. unfold sold. apply sumL_perm. exact H. Qed.

(* ---------------- the exchange: a book of quoted market sells fills completely ---------------- *)
Lemma all_sells_fill (row : quotes (quote R)) (bidf : string -> R) (bk : list (entry (uorder R))) :
  (forall e, In e bk -> is_market_sell (e_ord e) /\
             exists q, lookup row (uo_symbol (e_ord e)) = Some q /\ q_bid q = bidf (uo_symbol (e_ord e))) ->
  filter (stays row) bk = [] /\ Forall2 (sell_fill bidf) (map (@e_ord _) bk) (fills row bk).
Proof.
  induction bk as [|e bk IH]; intros H; cbn [filter flat_map map]; [split; [reflexivity|constructor]|].
  destruct (H e (or_introl eq_refl)) as ([Ht Hp] & q & Hq & Hb).
  destruct IH as [I1 I2]; [intros e' He'; apply H; right; exact He'|].
  assert (Hf : uist_fires (e_ord e) q = true) by (unfold uist_fires; rewrite Ht; reflexivity).
  unfold ufires at 1, utrade at 1. rewrite Hq, Hf. cbn [negb Datatypes.app map snd].
  split; [exact I1|]. constructor; [|exact I2].
  unfold sell_fill, uist_trade. rewrite Ht. cbn [otype_is_sell execute_sell t_symbol t_quantity t_side t_value].
  rewrite <- Hb. repeat split; reflexivity.
Qed.

Lemma sell_fill_sums bidf os ts :
  Forall2 (sell_fill bidf) os ts ->
  sumL signed_value ts = sumL (fun o => uo_shares o * bidf (uo_symbol o)) os /\
  forall s, sumL (signed_qty s) ts = - sold s os.
Proof.
  unfold sold. induction 1 as [|o t os ts (Hs & Hq & Hd & Hv) _ [I1 I2]].
  - split; [reflexivity|]. intros s. rewrite !BrokerLedgerProofs.sumR_nil. lra.
  - split.
    + rewrite !BrokerLedgerProofs.sumR_cons, I1. unfold signed_value. rewrite Hd, Hv. lra.
    + intros s. rewrite !BrokerLedgerProofs.sumR_cons, I2. unfold signed_qty. rewrite Hs, Hd, Hq.
      destruct (String.eqb (uo_symbol o) s); lra.
Qed.

(* ---------------- the broker: a check() whose booking leaves cash >= 0 never rebalances ---------------- *)
Lemma check_nonneg (b : broker R) trades row ord :
  0 <= b_cash b + sumL signed_value trades ->
  check clean b (Some (trades, row)) ord = Ok (fold_left book_trade trades (update_quotes b row), []).
Proof.
  intros H. unfold check. cbv zeta.
  assert (E : b_cash (fold_left book_trade trades (update_quotes b row)) = b_cash b + sumL signed_value trades).
  { rewrite book_trades_cash, cash_after_trades_sum. reflexivity. }
  cbn [fltb fzero RNum]. rewrite E, Rlt_bool_false by lra. reflexivity.
Qed.

(* ---------------- the system: bookkeeping ---------------- *)
Lemma bs_inv_sys (y : bsys R) bt d :
  bs_inv y -> nlookup (backtests (bs_app y)) (bs_id y) = Some bt ->
  slookup (datasets (bs_app y)) (bt_dataset bt) = Some d ->
  bs_sys y bt d (bt_pos bt).
Proof.
  intros (Hs & b & d' & k & Hb & Hd & Hc & Hrt & HI & _) Hb' Hd'.
  rewrite Hb in Hb'. inversion Hb'; subst bt. rewrite Hd in Hd'. inversion Hd'; subst d'.
  destruct Hc as [Hp Hg]. unfold bs_sys. repeat (split; [assumption|]). split; [|split; assumption].
  split; [reflexivity|]. rewrite Hp. exact Hg.
Qed.

Lemma outstanding_nil_exch (y : bsys R) bt :
  nlookup (backtests (bs_app y)) (bs_id y) = Some bt -> outstanding y = [] ->
  book (bt_exch bt) = [] /\ buffer (bt_exch bt) = [].
Proof.
  intros Hb Ho. rewrite (outstanding_eq y bt Hb) in Ho. apply app_eq_nil in Ho. destruct Ho as [H1 H2].
  split; [|exact H2]. apply map_eq_nil in H1. exact H1.
Qed.

(* the liquidation step of the composition: the forwarded orders join the buffer, nothing else moves *)
Lemma bs_liq_open (y : bsys R) c ord b1 ev fw bt d k :
  bs_sys y bt d k ->
  withdraw_cash_with_liquidation clean (bs_brkr y) c ord = Ok (b1, ev, fw) ->
  let y1 := mkBSys b1 (forward clean (bs_app y) (bs_id y) fw) (bs_id y) in
  bs_step clean y (BSLiq c ord) = Ok y1 /\
  exists bt1, bs_sys y1 bt1 d k /\ bt_pos bt1 = bt_pos bt /\
    book (bt_exch bt1) = book (bt_exch bt) /\ buffer (bt_exch bt1) = buffer (bt_exch bt) ++ fw /\
    xlog (bt_exch bt1) = xlog (bt_exch bt).
Proof.
  intros Hsys Hw y1. split; [cbn [bs_step]; rewrite Hw; reflexivity|].
  destruct y as [br a id]. cbn [bs_app bs_id bs_brkr] in *.
  destruct (forward_sys br a id fw bt d k Hsys b1) as (bt1 & Hsys1 & Hxl).
  destruct (forward_exch fw a id bt (proj1 (proj2 Hsys))) as (bt1' & Hb1' & Hpj & Hbk & _ & Hbf).
  pose proof (proj1 (proj2 Hsys1)) as Hb1. cbn [bs_app bs_id] in Hb1.
  rewrite Hb1' in Hb1. inversion Hb1; subst bt1'.
  exists bt1. split; [exact Hsys1|]. split; [unfold bproj in Hpj; congruence|].
  split; [exact Hbk|]. split; [exact Hbf | exact Hxl].
Qed.

(* ux_tick_facts05, keeping the fact that the admitted batch is the buffer in the oracle's order *)
Lemma ux_tick_facts10 (x : uexch R) row perm x' trades adm :
  ExchangeProofs.Inv x -> ux_tick x row perm = Some (x', (trades, adm)) ->
  ExchangeProofs.Inv x' /\
  trades = fills row (book x) /\
  (exists sorted, apply_perm (buffer x) perm = Some sorted /\ Permutation sorted (buffer x) /\
     map (@e_ord _) (book x') = map (@e_ord _) (filter (stays row) (book x)) ++ sorted) /\
  buffer x' = [].
Proof.
  intros HI H. unfold ux_tick in H.
  destruct (uist_tick x row perm) as [x1 o] eqn:Ht.
  destruct o as [|fl adm1 trig| |]; try discriminate.
  inversion H; subst x1 trades adm1; clear H.
  destruct (uist_tick_spec x row perm x' fl adm trig HI Ht) as (Hfl & _ & Hbk & Hadm).
  destruct (tick_spec uist_asset uo_symbol uist_is_sell uist_decide x row perm x' fl adm trig HI Ht)
    as (sorted & Hap & Hperm & _ & Hrest).
  cbv zeta in Hrest. destruct Hrest as (_ & _ & _ & _ & Hbuf & _).
  split; [|split; [|split]].
  - pose proof (inv_step uist_asset uo_symbol uist_is_sell uist_decide x (Tick row perm) HI) as Hi.
    cbn [step] in Hi. unfold uist_tick in Ht. rewrite Ht in Hi. exact Hi.
  - rewrite Hfl. reflexivity.
  - exists sorted. split; [exact Hap|]. split; [exact Hperm|].
    rewrite Hbk, map_app. f_equal.
    rewrite Hap in Hadm. rewrite <- Hadm, map_map. apply map_ext. intros p. reflexivity.
  - exact Hbuf.
Qed.

(* the only valid sort of an empty buffer *)
Lemma apply_perm_nil {A} (p : list nat) (l : list A) : apply_perm (@nil A) p = Some l -> p = [] /\ l = [].
Proof.
  unfold apply_perm, valid_perm. cbn [List.length].
  destruct p as [|i p]; cbn; [intros H; inversion H; split; reflexivity | discriminate].
Qed.

(* one check() of the composition, opened: the tick against the row of the clock's date, the fetch of the next
   row, and — when the booking leaves cash >= 0 — no rebalancing whatever holdings order is supplied *)
Lemma bs_check_open (y : bsys R) perm ord y' bt d k :
  bs_sys y bt d k -> bs_step clean y (BSCheck perm ord) = Ok y' ->
  exists bt1 trades row0 row1 sorted,
    get_quotes d (bt_date bt) = Some row0 /\
    get_quotes d (bt_date bt1) = Some row1 /\
    clock_ok d bt1 (S k) /\
    trades = fills row0 (book (bt_exch bt)) /\
    apply_perm (buffer (bt_exch bt)) perm = Some sorted /\
    Permutation sorted (buffer (bt_exch bt)) /\
    map (@e_ord _) (book (bt_exch bt1)) = map (@e_ord _) (filter (stays row0) (book (bt_exch bt))) ++ sorted /\
    buffer (bt_exch bt1) = [] /\
    xlog (bt_exch bt1) = xlog (bt_exch bt) ++ trades /\
    (0 <= b_cash (bs_brkr y) + sumL signed_value trades ->
     let y2 := mkBSys (fold_left book_trade trades (update_quotes (bs_brkr y) row1))
                      (with_backtest (bs_app y) (bs_id y) bt1) (bs_id y) in
     (forall ord', bs_step clean y (BSCheck perm ord') = Ok y2) /\ y' = y2 /\ bs_sys y2 bt1 d (S k)).
Proof.
  intros (Hs & Hb & Hd & Hc & Hrt & HI) H.
  assert (Hshape : forall ord0, bs_step clean y (BSCheck perm ord0) =
            let '(a2, resp, panicked) := check_resp clean (bs_app y) (bs_id y) perm in
            if panicked then Panic "exchange tick panicked or sort oracle rejected"
            else bind (check clean (bs_brkr y) resp ord0) (fun '(b', fw) =>
                 Ok (mkBSys b' (forward clean a2 (bs_id y) fw) (bs_id y)))) by reflexivity.
  rewrite Hshape in H.
  rewrite (check_resp_spec (bs_app y) (bs_id y) perm bt d k Hb Hd Hc) in H, Hshape.
  destruct (utick1 d bt perm) as [[bt1 [hn [trades adm]]]|] eqn:Ht; [|discriminate].
  cbv beta iota in H, Hshape.
  destruct (tick1_spec _ _ _ d bt perm bt1 hn (trades, adm) k Hc Ht) as (Hc1 & _ & Hds1 & Hx).
  destruct (clock_row d bt k Hc Hrt) as (row0 & Hq0). rewrite Hq0 in Hx.
  destruct (clock_row d bt1 (S k) Hc1 Hrt) as (row1 & Hq1). rewrite Hq1 in H, Hshape.
  destruct (ux_tick_facts10 _ _ _ _ _ _ HI Hx) as (HI1 & Htr & (sorted & Hap & Hperm & Hbk1) & Hbf1).
  pose proof (ux_tick_xlog _ _ _ _ _ _ Hx) as Hxl1.
  exists bt1, trades, row0, row1, sorted.
  repeat (split; [assumption|]).
  intros Hnn y2.
  assert (Hall : forall ord', bs_step clean y (BSCheck perm ord') = Ok y2).
  { intros ord'. rewrite Hshape, (check_nonneg _ _ _ ord' Hnn). cbn [bind].
    rewrite forward_unfold. cbn [fold_left]. reflexivity. }
  split; [exact Hall|]. split.
  - specialize (Hall ord). rewrite Hshape in Hall. rewrite Hall in H. inversion H. reflexivity.
  - unfold y2, bs_sys. cbn [bs_app bs_id].
    split; [apply sinv_with_backtest; [exact Hs|]; rewrite Hb; discriminate|].
    split; [unfold with_backtest; cbn [backtests]; apply nlookup_upsert_same|].
    split; [unfold with_backtest; cbn [datasets]; rewrite Hds1; exact Hd|].
    split; [exact Hc1|]. split; [exact Hrt | exact HI1].
Qed.

(* a pending map all of whose lookups fail is empty *)
Lemma smap_all_none {A} (m : smap A) : (forall s, sget m s = None) -> m = [].
Proof.
  destruct m as [|[s v] m]; intros H; [reflexivity|].
  specialize (H s). cbn [sget] in H. rewrite String.eqb_refl in H. discriminate.
Qed.

(* ---------------- the theorem ---------------- *)
Theorem c10_cash_raised_end_to_end :
  forall (y y3 : bsys R) (c : R) (ord ord1 ord2 : list string) (perm1 perm2 : list nat)
         (bt : backtest (uexch R)) (d : dataset (quotes (quote R))) (dt1 : Z) (row1 : quotes (quote R))
         (b1 : broker R) (fw : list (uorder R)),
    (* the system is well-formed and the exchange holds none of this broker's orders *)
    bs_inv y ->
    outstanding y = [] ->
    (* a Ready broker, cash >= 0, whole positive quantities of symbols last seen with a positive bid, keys unique *)
    whole_long (bs_brkr y) ->
    b_failed (bs_brkr y) = false ->
    0 <= b_cash (bs_brkr y) ->
    (* the request, and its success: [fw] is what the broker handed to the client *)
    0 <= c ->
    withdraw_cash_with_liquidation clean (bs_brkr y) c ord = Ok (b1, WithdrawSuccess c, fw) ->
    (* the broker's backtest, its dataset; the row of the date the clock shows after one more tick quotes every
       sold symbol at the bid the broker had last seen *)
    nlookup (backtests (bs_app y)) (bs_id y) = Some bt ->
    slookup (datasets (bs_app y)) (bt_dataset bt) = Some d ->
    clock_date d (S (bt_pos bt)) = Some dt1 ->
    get_quotes d dt1 = Some row1 ->
    (forall o, In o fw ->
       exists q, lookup row1 (uo_symbol o) = Some q /\ q_bid q = bid_of (bs_brkr y) (uo_symbol o)) ->
    (* the call, then check() twice *)
    bs_run clean y [BSLiq c ord; BSCheck perm1 ord1; BSCheck perm2 ord2] = Ok y3 ->
    exists (y1 y2 : bsys R) (bt1 bt2 bt3 : backtest (uexch R)) (sorted : list (uorder R)) (trades : list (trade R)),
      (* the three steps; the holdings-order arguments of the two checks are irrelevant *)
      bs_step clean y (BSLiq c ord) = Ok y1 /\
      (forall o1, bs_step clean y1 (BSCheck perm1 o1) = Ok y2) /\
      (forall o2, bs_step clean y2 (BSCheck perm2 o2) = Ok y3) /\
      (* (1) after the call: cash unchanged; outstanding is exactly fw, all market sells of distinct symbols, each
             for a positive quantity not exceeding the position, in that order, in the exchange's buffer *)
      (Forall is_market_sell fw /\ NoDup (map (@uo_symbol R) fw) /\
       Forall (fun o => exists h, sget (b_holdings (bs_brkr y)) (uo_symbol o) = Some h /\ 0 < uo_shares o <= h) fw /\
       b_cash (bs_brkr y1) = b_cash (bs_brkr y) /\
       outstanding y1 = fw /\
       nlookup (backtests (bs_app y1)) (bs_id y1) = Some bt1 /\
       book (bt_exch bt1) = [] /\ buffer (bt_exch bt1) = fw) /\
      (* (2) after the first check: admitted only — no trade, cash / holdings / log unchanged, Ready *)
      (b_cash (bs_brkr y2) = b_cash (bs_brkr y) /\
       b_holdings (bs_brkr y2) = b_holdings (bs_brkr y) /\
       b_log (bs_brkr y2) = b_log (bs_brkr y) /\
       b_failed (bs_brkr y2) = false /\
       apply_perm fw perm1 = Some sorted /\ Permutation sorted fw /\
       outstanding y2 = sorted /\
       nlookup (backtests (bs_app y2)) (bs_id y2) = Some bt2 /\
       map (@e_ord _) (book (bt_exch bt2)) = sorted /\ buffer (bt_exch bt2) = [] /\
       xlog (bt_exch bt2) = xlog (bt_exch bt)) /\
      (* (3) after the second check: every sell filled exactly once at that bid *)
      (perm2 = [] /\
       Forall2 (sell_fill (bid_of (bs_brkr y))) sorted trades /\
       b_log (bs_brkr y3) = b_log (bs_brkr y) ++ trades /\
       nlookup (backtests (bs_app y3)) (bs_id y3) = Some bt3 /\
       xlog (bt_exch bt3) = xlog (bt_exch bt) ++ trades /\
       book (bt_exch bt3) = [] /\ buffer (bt_exch bt3) = [] /\
       b_cash (bs_brkr y3) =
         b_cash (bs_brkr y) + sumQ (fun o => uo_shares o * bid_of (bs_brkr y) (uo_symbol o)) fw /\
       b_cash (bs_brkr y) + c <= b_cash (bs_brkr y3) /\
       outstanding y3 = [] /\
       b_pending (bs_brkr y3) = [] /\
       (forall o h, In o fw -> sget (b_holdings (bs_brkr y)) (uo_symbol o) = Some h ->
          sget (b_holdings (bs_brkr y3)) (uo_symbol o) =
          if Req_bool (h - uo_shares o) 0 then None else Some (h - uo_shares o)) /\
       (forall s, (forall o, In o fw -> uo_symbol o <> s) ->
          sget (b_holdings (bs_brkr y3)) s = sget (b_holdings (bs_brkr y)) s) /\
       b_failed (bs_brkr y3) = false).
Proof.
  intros y y3 c ord ord1 ord2 perm1 perm2 bt d dt1 row1 b1 fw
    Hinv Hout Hwl Hf Hcash Hc Hliq Hb Hd Hdt1 Hrow1 Hquoted Hrun.
  pose proof (c05_pending_end_to_end y _ y3 Hinv Hrun) as Hinv3.
  destruct (liq_success_facts _ _ _ _ _ _ Hwl Hf Hc Hliq) as (Lms & Lheld & Lnd & Lsum & Fc & Fh & Fl & Fq & Ff).
  destruct (whole_long_no_zero _ Hwl) as [Hknd Hnz].
  pose proof (bs_inv_sys y bt d Hinv Hb Hd) as Hsys.
  destruct (outstanding_nil_exch y bt Hb Hout) as [Hbk0 Hbf0].
  (* ---- phase 1 ---- *)
  destruct (bs_liq_open y c ord b1 _ fw bt d _ Hsys Hliq) as (Hstep1 & btA & HsysA & _ & HbkA & HbfA & HxlA).
  cbn [bs_run] in Hrun. rewrite Hstep1 in Hrun. cbn [bind] in Hrun.
  match type of Hrun with bind (bs_step clean ?u _) _ = _ => set (y1 := u) in * end.
  destruct (bs_step clean y1 (BSCheck perm1 ord1)) as [y2|e|] eqn:Hstep2; cbn [bind] in Hrun; try discriminate.
  destruct (bs_step clean y2 (BSCheck perm2 ord2)) as [y3'|e|] eqn:Hstep3; cbn [bind] in Hrun; try discriminate.
  inversion Hrun; subst y3'; clear Hrun.
  rewrite Hbk0 in HbkA. rewrite Hbf0 in HbfA. cbn [Datatypes.app] in HbfA.
  pose proof (proj1 (proj2 HsysA)) as HbA.
  (* ---- phase 2 ---- *)
  destruct (bs_check_open y1 perm1 ord1 y2 btA d _ HsysA Hstep2)
    as (btB & tr1 & r0 & r1 & sorted & Hq0 & Hq1 & HcB & Htr1 & Hap1 & Hperm1 & HbkB & HbfB & HxlB & Hnn1).
  rewrite HbkA in Htr1, HbkB. cbn [flat_map map filter Datatypes.app] in Htr1, HbkB. subst tr1.
  rewrite HbfA in Hperm1, Hap1. rewrite app_nil_r in HxlB.
  destruct Hnn1 as (Hall1 & Hy2 & HsysB).
  { unfold y1. cbn [bs_brkr]. rewrite Fc, BrokerLedgerProofs.sumR_nil. lra. }
  cbn [fold_left] in Hall1, Hy2, HsysB.
  assert (Er1 : r1 = row1).
  { destruct HcB as [_ HdB]. unfold clock_date in Hdt1. rewrite HdB in Hdt1. inversion Hdt1; subst dt1.
    rewrite Hq1 in Hrow1. inversion Hrow1. reflexivity. }
  subst r1.
  pose proof (proj1 (proj2 HsysB)) as HbB.
  subst y2.
  (* ---- phase 3 ---- *)
  match type of HsysB with bs_sys ?u _ _ _ => set (y2 := u) in * end.
  destruct (bs_check_open y2 perm2 ord2 y3 btB d _ HsysB Hstep3)
    as (btC & tr2 & r0' & r2 & sorted2 & Hq0' & Hq2 & HcC & Htr2 & Hap2 & Hperm2 & HbkC & HbfC & HxlC & Hnn2).
  unfold uexch in *.
  rewrite Hq1 in Hq0'. inversion Hq0'; subst r0'; clear Hq0'.
  assert (Hbook : forall e, In e (book (bt_exch btB)) ->
            is_market_sell (e_ord e) /\
            exists q, lookup row1 (uo_symbol (e_ord e)) = Some q /\
                      q_bid q = bid_of (bs_brkr y) (uo_symbol (e_ord e))).
  { intros e He.
    assert (Hin : In (e_ord e) fw).
    { apply (Permutation_in _ Hperm1). rewrite <- HbkB. apply in_map. exact He. }
    split; [|exact (Hquoted _ Hin)]. rewrite Forall_forall in Lms. exact (Lms _ Hin). }
  destruct (all_sells_fill row1 (bid_of (bs_brkr y)) (book (bt_exch btB)) Hbook) as [Hfil HF2].
  unfold uexch in *.
  rewrite HbkB, <- Htr2 in HF2.
  destruct (sell_fill_sums _ _ _ HF2) as [S1 S2].
  rewrite (sumL_perm _ _ _ Hperm1) in S1.
  rewrite Hfil, HbfB in *. cbn [map Datatypes.app] in HbkC.
  clear Hperm2. apply apply_perm_nil in Hap2. destruct Hap2 as [Ep2 ->].
  apply map_eq_nil in HbkC.
  assert (Ecash2 : b_cash (bs_brkr y2) = b_cash (bs_brkr y)).
  { unfold y2, y1. cbn [bs_brkr update_quotes b_cash]. exact Fc. }
  destruct Hnn2 as (Hall2 & Hy3 & HsysC).
  { rewrite Ecash2, S1. rewrite sumQ_L in Lsum. lra. }
  subst y3.
  match type of HsysC with bs_sys ?u _ _ _ => set (y3 := u) in * end.
  pose proof (proj1 (proj2 HsysC)) as HbC.
  (* the final broker *)
  set (b3 := fold_left book_trade tr2 (update_quotes (bs_brkr y2) r2)) in *.
  assert (Eb3 : bs_brkr y3 = b3) by reflexivity.
  assert (Ecash3 : b_cash b3 = b_cash (bs_brkr y) + sumL (fun o => uo_shares o * bid_of (bs_brkr y) (uo_symbol o)) fw).
  { unfold b3. rewrite book_trades_cash, cash_after_trades_sum, S1.
    cbn [update_quotes b_cash]. rewrite Ecash2. reflexivity. }
  assert (Ehold2 : b_holdings (update_quotes (bs_brkr y2) r2) = b_holdings (bs_brkr y)).
  { unfold y2, y1. cbn [bs_brkr update_quotes b_holdings]. exact Fh. }
  destruct (book_trades_holdings_only tr2 (update_quotes (bs_brkr y2) r2)) as (Hnd3 & Hz3 & Hg3).
  { rewrite Ehold2. exact Hknd. }
  rewrite Ehold2 in Hz3, Hg3. specialize (Hz3 Hnz). fold b3 in Hnd3, Hz3, Hg3.
  assert (Hh3 : forall s, hget (b_holdings b3) s = hget (b_holdings (bs_brkr y)) s - sold s fw).
  { intros s. rewrite Hg3, S2, (sold_perm s _ _ Hperm1). lra. }
  assert (Hout3 : outstanding y3 = []).
  { rewrite (outstanding_eq y3 btC HbC). unfold uexch. rewrite HbkC, HbfC. reflexivity. }
  exists y1, y2, btA, btB, btC, sorted, tr2.
  split; [exact Hstep1|]. split; [exact Hall1|]. split; [exact Hall2|].
  split; [|split].
  - (* (1) *)
    split; [exact Lms|]. split; [exact Lnd|]. split; [exact Lheld|]. split; [exact Fc|].
    split; [rewrite (outstanding_eq y1 btA HbA); unfold uexch; rewrite HbkA, HbfA; reflexivity|].
    split; [exact HbA|]. split; [exact HbkA | exact HbfA].
  - (* (2) *)
    split; [exact Ecash2|].
    split; [unfold y2, y1; cbn [bs_brkr update_quotes b_holdings]; exact Fh|].
    split; [unfold y2, y1; cbn [bs_brkr update_quotes b_log]; exact Fl|].
    split; [unfold y2, y1; cbn [bs_brkr update_quotes b_failed]; congruence|].
    split; [exact Hap1|]. split; [exact Hperm1|].
    split; [rewrite (outstanding_eq y2 btB HbB); unfold uexch; rewrite HbkB, HbfB, app_nil_r; reflexivity|].
    split; [exact HbB|]. split; [exact HbkB|]. split; [exact HbfB|]. rewrite HxlB. exact HxlA.
  - (* (3) *)
    split; [exact Ep2|]. split; [exact HF2|].
    split; [rewrite Eb3; unfold b3; rewrite book_trades_log; unfold y2, y1;
            cbn [bs_brkr update_quotes b_log]; rewrite Fl; reflexivity|].
    split; [exact HbC|].
    split; [rewrite HxlC, HxlB, HxlA; reflexivity|].
    split; [exact HbkC|]. split; [exact HbfC|].
    split; [rewrite Eb3, Ecash3; reflexivity|].
    split; [rewrite Eb3, Ecash3; rewrite sumQ_L in Lsum; lra|].
    split; [exact Hout3|].
    split.
    { destruct Hinv3 as (_ & b' & d' & k' & _ & _ & _ & _ & _ & _ & _ & Hnone).
      apply smap_all_none. intros s. apply Hnone. intros o Hin. rewrite Hout3 in Hin. destruct Hin. }
    split.
    { intros o h Hin Hh. rewrite Eb3, (sget_of_hget _ _ Hz3), Hh3, (sold_in fw o Lnd Hin).
      unfold hget at 1 2. rewrite Hh. reflexivity. }
    split.
    { intros s Hno. rewrite Eb3, (sget_of_hget _ _ Hz3), Hh3, (sold_notin fw s Hno), Rminus_0_r.
      symmetry. apply sget_of_hget. exact Hnz. }
    rewrite Eb3. unfold b3. rewrite book_trades_failed. unfold y2, y1.
    cbn [bs_brkr update_quotes b_failed]. congruence.
Qed.

(* the headline, and the irrelevance of the holdings-order arguments of the two checks: under the premises the
   same final state is reached whatever orders are supplied, and it holds at least cash0 + c *)
Corollary c10_cash_raised_any_check_orders :
  forall (y y3 : bsys R) (c : R) (ord ord1 ord2 : list string) (perm1 perm2 : list nat)
         (bt : backtest (uexch R)) (d : dataset (quotes (quote R))) (dt1 : Z) (row1 : quotes (quote R))
         (b1 : broker R) (fw : list (uorder R)),
    bs_inv y -> outstanding y = [] ->
    whole_long (bs_brkr y) -> b_failed (bs_brkr y) = false -> 0 <= b_cash (bs_brkr y) -> 0 <= c ->
    withdraw_cash_with_liquidation clean (bs_brkr y) c ord = Ok (b1, WithdrawSuccess c, fw) ->
    nlookup (backtests (bs_app y)) (bs_id y) = Some bt ->
    slookup (datasets (bs_app y)) (bt_dataset bt) = Some d ->
    clock_date d (S (bt_pos bt)) = Some dt1 -> get_quotes d dt1 = Some row1 ->
    (forall o, In o fw ->
       exists q, lookup row1 (uo_symbol o) = Some q /\ q_bid q = bid_of (bs_brkr y) (uo_symbol o)) ->
    bs_run clean y [BSLiq c ord; BSCheck perm1 ord1; BSCheck perm2 ord2] = Ok y3 ->
    (forall o1 o2, bs_run clean y [BSLiq c ord; BSCheck perm1 o1; BSCheck perm2 o2] = Ok y3) /\
    b_cash (bs_brkr y) + c <= b_cash (bs_brkr y3) /\
    outstanding y3 = [] /\ b_pending (bs_brkr y3) = [] /\ b_failed (bs_brkr y3) = false.
Proof.
  intros y y3 c ord ord1 ord2 perm1 perm2 bt d dt1 row1 b1 fw
    Hinv Hout Hwl Hf Hcash Hc Hliq Hb Hd Hdt1 Hrow1 Hquoted Hrun.
  destruct (c10_cash_raised_end_to_end y y3 c ord ord1 ord2 perm1 perm2 bt d dt1 row1 b1 fw
              Hinv Hout Hwl Hf Hcash Hc Hliq Hb Hd Hdt1 Hrow1 Hquoted Hrun)
    as (y1 & y2 & bt1 & bt2 & bt3 & sorted & trades & H1 & H2 & H3 & _ & _ & P3).
  destruct P3 as (_ & _ & _ & _ & _ & _ & _ & _ & Hge & Ho & Hp & _ & _ & Hfl).
  split; [|repeat split; assumption].
  intros o1 o2. cbn [bs_run]. rewrite H1. cbn [bind]. rewrite (H2 o1). cbn [bind]. rewrite (H3 o2). reflexivity.
Qed.

End EndToEnd10.

(* ---------------- non-vacuity, kernel-evaluated at the IEEE instance ---------------- *)
Section Example10.
Local Instance FN10 : Num float := FloatNum [].
Local Open Scope string_scope.

(* five dates, two symbols, constant prices with a spread: ABC 100 / 101, BCD 10 / 11 *)
Definition x10_calls : list (float * float * Z * string) :=
  [(100%float, 101%float, 1%Z, "ABC"); (10%float, 11%float, 1%Z, "BCD");
   (100%float, 101%float, 2%Z, "ABC"); (10%float, 11%float, 2%Z, "BCD");
   (100%float, 101%float, 3%Z, "ABC"); (10%float, 11%float, 3%Z, "BCD");
   (100%float, 101%float, 4%Z, "ABC"); (10%float, 11%float, 4%Z, "BCD");
   (100%float, 101%float, 5%Z, "ABC"); (10%float, 11%float, 5%Z, "BCD")].
Definition x10_d : dataset (quotes (quote float)) := load x10_calls.
Definition x10_q0 : smap (quote float) := match get_quotes x10_d 1%Z with Some row => row | None => [] end.
(* a fresh system: AppState::single over the dataset, a broker that has seen the first row *)
Definition x10_y0 : bsys float :=
  match app_single exch_init "D" x10_d with
  | Some a => mkBSys (broker_init [] x10_q0) a 0%N
  | None => mkBSys (broker_init [] x10_q0) (mkApp [] 0%N []) 0%N
  end.
(* deposit 1000, buy 5 ABC and 30 BCD, check until filled *)
Definition x10_setup : list (bsop float) :=
  [BSDeposit 1000%float;
   BSSend (mkUOrder MarketBuy "ABC" 5%float None);
   BSSend (mkUOrder MarketBuy "BCD" 30%float None);
   BSCheck [0; 1]%nat []; BSCheck [] []].
(* then ask for 650 (cash is 165), and check twice *)
Definition x10_c : float := 650%float.
Definition x10_ord : list string := ["ABC"; "BCD"].
Definition x10_liq : list (bsop float) := [BSLiq x10_c x10_ord; BSCheck [0; 1]%nat []; BSCheck [] []].

Definition x10_bids (m : list (string * quote float)) : list (string * float) :=
  map (fun kv => (fst kv, q_bid (snd kv))) m.
(* the bids of the row of the date the clock shows after one more tick *)
Definition x10_next_row (y : bsys float) : option (list (string * float)) :=
  match nlookup (backtests (bs_app y)) (bs_id y) with
  | Some bt =>
      match get_date x10_d (Nat.min (S (bt_pos bt)) (List.length (ds_dates x10_d) - 1)) with
      | Some dt => option_map x10_bids (get_quotes x10_d dt)
      | None => None
      end
  | None => None
  end.
(* what the premises of c10_cash_raised_end_to_end speak about, at the state before the call *)
Definition x10_pre (y : bsys float) :=
  (outstanding y, b_failed (bs_brkr y), b_cash (bs_brkr y), b_holdings (bs_brkr y), b_pending (bs_brkr y),
   x10_bids (b_quotes (bs_brkr y)), x10_next_row y,
   match withdraw_cash_with_liquidation clean (bs_brkr y) x10_c x10_ord with
   | Ok (_, ev, fw) => Some (ev, fw)
   | _ => None
   end).
(* what its conclusions speak about *)
Definition x10_post (y : bsys float) :=
  (outstanding y, b_failed (bs_brkr y), b_cash (bs_brkr y), b_holdings (bs_brkr y), b_pending (bs_brkr y),
   List.length (b_log (bs_brkr y))).

Example c10_cash_raised_observed_at_floats :
  (* before the call: nothing outstanding, Ready, cash 165 >= 0, whole positive holdings, positive last-seen
     bids, the next row quotes both symbols at those bids, and the request 650 > 165 succeeds with two sells *)
  bind (bs_run clean x10_y0 x10_setup) (fun y => Ok (x10_pre y)) =
    Ok ([], false, 165%float, [("ABC", 5%float); ("BCD", 30%float)], [],
        [("ABC", 100%float); ("BCD", 10%float)],
        Some [("ABC", 100%float); ("BCD", 10%float)],
        Some (WithdrawSuccess 650%float,
              [mkUOrder MarketSell "ABC" 5%float None; mkUOrder MarketSell "BCD" 15%float None]))
  /\
  (* after the call: cash unchanged, the two sells outstanding, in that order *)
  bind (bs_run clean x10_y0 x10_setup) (fun y => bind (bs_run clean y [BSLiq x10_c x10_ord]) (fun y1 =>
    Ok (x10_post y1))) =
    Ok ([mkUOrder MarketSell "ABC" 5%float None; mkUOrder MarketSell "BCD" 15%float None], false, 165%float,
        [("ABC", 5%float); ("BCD", 30%float)], [("ABC", (-5)%float); ("BCD", (-15)%float)], 2%nat)
  /\
  (* after the first check: admitted only *)
  bind (bs_run clean x10_y0 x10_setup) (fun y =>
    bind (bs_run clean y [BSLiq x10_c x10_ord; BSCheck [0; 1]%nat []]) (fun y2 => Ok (x10_post y2))) =
    Ok ([mkUOrder MarketSell "ABC" 5%float None; mkUOrder MarketSell "BCD" 15%float None], false, 165%float,
        [("ABC", 5%float); ("BCD", 30%float)], [("ABC", (-5)%float); ("BCD", (-15)%float)], 2%nat)
  /\
  (* after the second check: both filled; cash 815 = 165 + 5 x 100 + 15 x 10 >= 165 + 650; ABC gone, 15 BCD left *)
  bind (bs_run clean x10_y0 x10_setup) (fun y => bind (bs_run clean y x10_liq) (fun y3 =>
    Ok (x10_post y3, PrimFloat.leb (PrimFloat.add (b_cash (bs_brkr y)) x10_c) (b_cash (bs_brkr y3))))) =
    Ok (([], false, 815%float, [("BCD", 15%float)], [], 4%nat), true).
Proof. vm_compute. repeat split; reflexivity. Qed.

End Example10.

Check c10_cash_raised_end_to_end.
Check c10_cash_raised_any_check_orders.
Print Assumptions c10_cash_raised_observed_at_floats.
Print Assumptions c10_cash_raised_any_check_orders.
Print Assumptions c10_cash_raised_end_to_end.
