(* JuraProofs.v — the concrete Jura decision (C18), for every Num F. *)
From Coq Require Import ZArith NArith List Bool String.
From Alator Require Import Model.Num Model.Quirks Model.Exchange Model.Uist Model.Jura.
Import ListNotations.
Local Open Scope num_scope.

Section JuraDecision.
Context {F : Type} {NF : Num F}.

Notation decide := (jura_decide clean).

(* ---- immediate-or-cancel ("market") orders ---- *)

(* first quoted tick after admission: one attempt, 10 % slippage *)
Lemma ioc_first_attempt (id : N) (o : jorder F) (q : quote F) (price sz : F) :
  jo_type o = JLimit Ioc -> jo_limit_px o = Some price -> jo_sz o = Some sz ->
  decide (mkEntry id o false) q =
  if jo_is_buy o
  then (if q_ask q <=? price * (fone + ftenth)
        then AFill (mkFill (N_to_string (jo_asset o)) id (q_ask q) true sz (q_date q)) else AMark)
  else (if price * (fone - ftenth) <=? q_bid q
        then AFill (mkFill (N_to_string (jo_asset o)) id (q_bid q) false sz (q_date q)) else AMark).
Proof.
  intros Ht Hp Hs. unfold jura_decide, jura_fill_buy, jura_fill_sell, slippage, jura_sym.
  cbn [e_ord e_flag e_id]. rewrite Ht, Hp, Hs.
  destruct (jo_is_buy o); [destruct (q_ask q <=? _)|destruct (_ <=? q_bid q)]; reflexivity.
Qed.

(* once attempted it is dropped at the next quoted tick and can never fill *)
Lemma ioc_after_attempt (id : N) (o : jorder F) (q : quote F) :
  jo_type o = JLimit Ioc -> decide (mkEntry id o true) q = AExpire.
Proof. intros Ht. unfold jura_decide. cbn [e_ord e_flag]. rewrite Ht. reflexivity. Qed.

(* ---- good-till-cancel limits ---- *)
Lemma gtc_decision (id : N) (o : jorder F) (fl : bool) (q : quote F) (price sz : F) :
  jo_type o = JLimit Gtc -> jo_limit_px o = Some price -> jo_sz o = Some sz ->
  decide (mkEntry id o fl) q =
  if jo_is_buy o
  then (if q_ask q <=? price
        then AFill (mkFill (N_to_string (jo_asset o)) id (q_ask q) true sz (q_date q)) else ARest)
  else (if price <=? q_bid q
        then AFill (mkFill (N_to_string (jo_asset o)) id (q_bid q) false sz (q_date q)) else ARest).
Proof.
  intros Ht Hp Hs. unfold jura_decide, jura_fill_buy, jura_fill_sell, jura_sym.
  cbn [e_ord e_flag e_id]. rewrite Ht, Hp, Hs.
  destruct (jo_is_buy o); [destruct (q_ask q <=? _)|destruct (_ <=? q_bid q)]; reflexivity.
Qed.

(* ---- trigger orders ---- *)

(* the property's firing conditions, written independently *)
Definition ShouldFire (is_buy : bool) (k : tpsl) (trig : F) (q : quote F) : Prop :=
  match k, is_buy with
  | Sl, true => fleb trig (q_ask q) = true      (* stop-loss buy: ask >= trigger *)
  | Sl, false => fleb (q_bid q) trig = true     (* stop-loss sell: bid <= trigger *)
  | Tp, true => fleb (q_ask q) trig = true      (* take-profit buy: ask <= trigger *)
  | Tp, false => fleb trig (q_bid q) = true     (* take-profit sell: bid >= trigger *)
  end.

Lemma trigger_never_fills (e : entry (jorder F)) (q : quote F) trig m k :
  jo_type (e_ord e) = JTrigger trig m k ->
  forall qk t, jura_decide qk e q <> AFill t.
Proof.
  intros Ht qk t. unfold jura_decide. rewrite Ht. destruct (trigger_fires qk _ _ _ _); discriminate.
Qed.

Lemma trigger_decision (e : entry (jorder F)) (q : quote F) trig m k :
  jo_type (e_ord e) = JTrigger trig m k ->
  (ShouldFire (jo_is_buy (e_ord e)) k trig q /\
   decide e q = ATrigger (trigger_child (e_ord e) (if m then Ioc else Gtc)))
  \/ (~ ShouldFire (jo_is_buy (e_ord e)) k trig q /\ decide e q = ARest).
Proof.
  intros Ht. unfold jura_decide, trigger_fires, ShouldFire. rewrite Ht. cbn [q_jura_sell_triggers_inverted clean].
  destruct k, (jo_is_buy (e_ord e));
    match goal with |- context [if ?c then _ else _] => destruct c eqn:Hc end;
    [left|right|left|right|left|right|left|right]; split; try reflexivity; try exact Hc; congruence.
Qed.

(* the child: same asset, side, limit and size; IOC if market else GTC *)
Lemma trigger_child_fields (o : jorder F) (t : tif) :
  let c := trigger_child o t in
  jo_asset c = jo_asset o /\ jo_is_buy c = jo_is_buy o /\ jo_limit_px c = jo_limit_px o /\
  jo_sz c = jo_sz o /\ jo_reduce_only c = jo_reduce_only o /\ jo_cloid c = jo_cloid o /\
  jo_type c = JLimit t.
Proof. cbn. repeat split. Qed.

(* with the defect the two sell-side triggers fire on the opposite condition *)
Lemma inverted_triggers_differ (e : entry (jorder F)) (q : quote F) trig m k :
  jo_type (e_ord e) = JTrigger trig m k -> jo_is_buy (e_ord e) = false ->
  jura_decide (mkQuirks false false true false false false false false false false false false) e q
  = if (match k with Sl => fleb trig (q_bid q) | Tp => fleb (q_bid q) trig end)
    then ATrigger (trigger_child (e_ord e) (if m then Ioc else Gtc)) else ARest.
Proof.
  intros Ht Hb. unfold jura_decide, trigger_fires. rewrite Ht, Hb. cbn. destruct k; reflexivity.
Qed.

(* where the code panics: Alo, or unparsable limit / size when they are needed *)
Lemma alo_panics (e : entry (jorder F)) (q : quote F) qk :
  jo_type (e_ord e) = JLimit Alo -> jura_decide qk e q = APanic.
Proof. intros Ht. unfold jura_decide. rewrite Ht. reflexivity. Qed.

(* fills carry the order's id, asset, size and the quote's price and date *)
Lemma fill_fields (e : entry (jorder F)) (q : quote F) qk (f : fill F) :
  jura_decide qk e q = AFill f ->
  f_oid f = e_id e /\ f_coin f = N_to_string (jo_asset (e_ord e)) /\ f_time f = q_date q /\
  jo_sz (e_ord e) = Some (f_sz f) /\
  (jo_is_buy (e_ord e) = true -> f_px f = q_ask q /\ f_side_ask f = true) /\
  (jo_is_buy (e_ord e) = false -> f_px f = q_bid q /\ f_side_ask f = false).
Proof.
  unfold jura_decide, jura_fill_buy, jura_fill_sell, jura_sym.
  destruct (jo_type (e_ord e)) as [[| |]|trig m k].
  - discriminate.
  - destruct (e_flag e); [discriminate|].
    destruct (jo_limit_px (e_ord e)) as [price|]; [|discriminate].
    destruct (jo_is_buy (e_ord e)).
    + destruct (q_ask q <=? _); [|discriminate]. destruct (jo_sz (e_ord e)); [|discriminate].
      intros H; inversion H; subst; cbn; repeat split; intros; try discriminate; reflexivity.
    + destruct (_ <=? q_bid q); [|discriminate]. destruct (jo_sz (e_ord e)); [|discriminate].
      intros H; inversion H; subst; cbn; repeat split; intros; try discriminate; reflexivity.
  - destruct (jo_limit_px (e_ord e)) as [price|]; [|discriminate].
    destruct (jo_is_buy (e_ord e)).
    + destruct (q_ask q <=? _); [|discriminate]. destruct (jo_sz (e_ord e)); [|discriminate].
      intros H; inversion H; subst; cbn; repeat split; intros; try discriminate; reflexivity.
    + destruct (_ <=? q_bid q); [|discriminate]. destruct (jo_sz (e_ord e)); [|discriminate].
      intros H; inversion H; subst; cbn; repeat split; intros; try discriminate; reflexivity.
  - destruct (trigger_fires _ _ _ _ _); discriminate.
Qed.

End JuraDecision.

(* The refutation witness for the defect (IEEE instance, evaluated by the kernel): a stop-loss sell
   at 90 ignores a fall of the bid to 80 and fires on a rise to 120. *)
From Coq Require Import Floats.
Section Refuted.
Local Instance FNj : Num float := FloatNum [].
Definition sl_sell_90 : jorder float :=
  mkJOrder 0 false (Some 90%float) (Some 1%float) false None (JTrigger 90%float true Sl).
Definition q_at (bid : float) : quote float := mkQuote bid (bid + 1)%float 100 "0".
Definition inverted : quirks :=
  mkQuirks false false true false false false false false false false false false.

Lemma c18_refuted_with_inverted_triggers :
  jura_decide inverted (mkEntry 0 sl_sell_90 false) (q_at 80%float) = ARest /\
  jura_decide inverted (mkEntry 0 sl_sell_90 false) (q_at 120%float)
    = ATrigger (trigger_child sl_sell_90 Ioc) /\
  jura_decide clean (mkEntry 0 sl_sell_90 false) (q_at 80%float)
    = ATrigger (trigger_child sl_sell_90 Ioc) /\
  jura_decide clean (mkEntry 0 sl_sell_90 false) (q_at 120%float) = ARest.
Proof. vm_compute. repeat split. Qed.
End Refuted.
