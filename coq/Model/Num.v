(* Num.v — the abstract number interface every model function is written against,
   and its two instances: IEEE binary64 (Coq primitive floats, evaluated by vm_compute,
   bit-for-bit what Rust's f64 does) and the real numbers (for the algebraic theorems).
   Definitions only. *)
From Coq Require Import ZArith List Bool String Floats Reals.
From Flocq Require Import Raux.
Import ListNotations.

Class Num (F : Type) : Type := {
  fzero : F;
  fone : F;
  fadd : F -> F -> F;
  fsub : F -> F -> F;
  fmul : F -> F -> F;
  fdiv : F -> F -> F;
  fneg : F -> F;
  fabs : F -> F;
  feqb : F -> F -> bool;     (* Rust ==  (IEEE: false on NaN) *)
  fltb : F -> F -> bool;     (* Rust <   *)
  fleb : F -> F -> bool;     (* Rust <=  *)
  ffloor : F -> F;
  fceil : F -> F;
  fsqrt : F -> F;
  fofZ : Z -> F;             (* integer constants and `as f64` of counts *)
  ftenth : F;                (* the literal 0.1 *)
  fln : F -> F;              (* libm *)
  fexp : F -> F;             (* libm *)
  fpow : F -> F -> F;        (* libm powf *)
}.

Declare Scope num_scope.
Delimit Scope num_scope with num.
Infix "+" := fadd : num_scope.
Infix "-" := fsub : num_scope.
Infix "*" := fmul : num_scope.
Infix "/" := fdiv : num_scope.
Notation "- x" := (fneg x) : num_scope.
Infix "==?" := feqb (at level 70) : num_scope.
Infix "<?" := fltb : num_scope.
Infix "<=?" := fleb : num_scope.
Notation "x >? y" := (fltb y x) (only parsing) : num_scope.
Notation "x >=? y" := (fleb y x) (only parsing) : num_scope.

(* ------------------------------------------------------------------------------------------- *)
(* IEEE binary64 instance                                                                       *)

Inductive libm_fn := LmLn | LmExp | LmPow.

Definition libm_fn_eqb (a b : libm_fn) : bool :=
  match a, b with LmLn, LmLn | LmExp, LmExp | LmPow, LmPow => true | _, _ => false end.

(* One observed libm call: function, first argument, second argument (0 when unused), result.
   Arguments are matched by bit-identity, realised as [PrimFloat.compare = Eq] plus sign of zero
   plus the NaN case. *)
Definition libm_entry : Type := (libm_fn * float * float * float)%type.
Definition libm_table : Type := list libm_entry.

Definition float_same (a b : float) : bool :=
  match PrimFloat.compare a b with
  | FEq => (* distinguishes +0 and -0 through 1/x *)
           match PrimFloat.compare (PrimFloat.div 1 a) (PrimFloat.div 1 b) with
           | FEq => true | _ => PrimFloat.is_nan (PrimFloat.div 1 a) end
  | FNotComparable => PrimFloat.is_nan a && PrimFloat.is_nan b
  | _ => false
  end.

(* A value no computation of the code produces: a table miss shows up as a mismatch. *)
Definition libm_miss : float := 0x1.deadbeefp+1000%float.

Fixpoint libm_lookup (t : libm_table) (f : libm_fn) (x y : float) : float :=
  match t with
  | [] => libm_miss
  | (g, a, b, r) :: t' =>
      if libm_fn_eqb f g && float_same x a && float_same y b then r else libm_lookup t' f x y
  end.

Definition two52 : float := 0x1p+52%float.

(* floor by the 2^52 trick; exact for every binary64 value. *)
Definition float_floor (x : float) : float :=
  if PrimFloat.is_nan x then x else
  if PrimFloat.leb two52 (PrimFloat.abs x) then x else
  if PrimFloat.eqb x 0 then x else
  if PrimFloat.ltb 0 x then
    let r := PrimFloat.sub (PrimFloat.add x two52) two52 in
    if PrimFloat.ltb x r then PrimFloat.sub r 1 else r
  else
    let r := PrimFloat.add (PrimFloat.sub x two52) two52 in
    if PrimFloat.ltb x r then PrimFloat.sub r 1 else r.

Definition float_ceil (x : float) : float :=
  PrimFloat.opp (float_floor (PrimFloat.opp x)).

Definition float_ofZ (z : Z) : float :=
  match z with
  | Z0 => 0%float
  | Zpos _ => PrimFloat.of_uint63 (Uint63.of_Z z)
  | Zneg p => PrimFloat.opp (PrimFloat.of_uint63 (Uint63.of_Z (Zpos p)))
  end.

Definition FloatNum (t : libm_table) : Num float := {|
  fzero := 0%float;
  fone := 1%float;
  fadd := PrimFloat.add;
  fsub := PrimFloat.sub;
  fmul := PrimFloat.mul;
  fdiv := PrimFloat.div;
  fneg := PrimFloat.opp;
  fabs := PrimFloat.abs;
  feqb := PrimFloat.eqb;
  fltb := PrimFloat.ltb;
  fleb := PrimFloat.leb;
  ffloor := float_floor;
  fceil := float_ceil;
  fsqrt := PrimFloat.sqrt;
  fofZ := float_ofZ;
  ftenth := 0x1.999999999999ap-4%float;
  fln := fun x => libm_lookup t LmLn x 0%float;
  fexp := fun x => libm_lookup t LmExp x 0%float;
  fpow := fun x y => libm_lookup t LmPow x y;
|}.

(* Equality used by the correspondence checkers: IEEE equality after identifying +0/-0 (eqb does)
   and all NaNs. *)
Definition float_obs_eqb (a b : float) : bool :=
  PrimFloat.eqb a b || (PrimFloat.is_nan a && PrimFloat.is_nan b).

(* ------------------------------------------------------------------------------------------- *)
(* Real-number instance (proofs only; not computable)                                           *)

(* powf over the reals: x^y = exp (y ln x) for x > 0; the one exponent the code uses with possibly
   non-positive bases is 2.0 (squared deviations), where powf(x, 2) = x * x for every x *)
Definition Rpowf (x y : R) : R := if Req_EM_T y 2 then (x * x)%R else Rpower x y.

Definition RNum : Num R := {|
  fzero := 0%R;
  fone := 1%R;
  fadd := Rplus;
  fsub := Rminus;
  fmul := Rmult;
  fdiv := Rdiv;
  fneg := Ropp;
  fabs := Rabs;
  feqb := Req_bool;
  fltb := Rlt_bool;
  fleb := Rle_bool;
  ffloor := fun x => IZR (Zfloor x);
  fceil := fun x => IZR (Zceil x);
  fsqrt := sqrt;
  fofZ := IZR;
  ftenth := (1 / 10)%R;
  fln := ln;
  fexp := exp;
  fpow := Rpowf;
|}.
