#!/usr/bin/env python3
"""tools/fingerprint.py — record the normalised-source fingerprint of /repo's working tree in
/verif/source_fingerprint.json. Run by hand when evidence is regenerated on a tree that is known to pass; checks only
read the file (a differing source makes the quick tier explore four times as much, it never raises an alarm by itself)."""
import json
import os
import subprocess
import sys
sys.path.insert(0, os.path.join(os.path.dirname(os.path.dirname(os.path.abspath(__file__))), "driver"))
import common
head = subprocess.run(["git", "-C", common.REPO, "rev-parse", "HEAD"], capture_output=True, text=True).stdout.strip()
dirty = subprocess.run(["git", "-C", common.REPO, "status", "--porcelain", "--untracked-files=no"], capture_output=True, text=True).stdout.strip()
json.dump(dict(repo_head=head, dirty=bool(dirty), files=common.source_fingerprint()),
          open(os.path.join(common.VERIF, "source_fingerprint.json"), "w"), indent=1, sort_keys=True)
print("recorded", head, "dirty" if dirty else "clean")
