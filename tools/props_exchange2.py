import sys, os
sys.path.insert(0, os.path.dirname(os.path.abspath(__file__)))
from genprops import gen

IMP = """From Coq Require Import ZArith NArith List Bool String Permutation Sorted Floats.
From Alator Require Import Model.Num Model.Quirks Model.Exchange Model.Uist Model.Jura Model.Server
  Proofs.ListAux Proofs.ExchangeProofs Proofs.UistProofs Proofs.JuraProofs Proofs.ExchangeCorollaries
  Proofs.ServerProofs.
Import ListNotations.
Local Open Scope num_scope."""
IMP7 = IMP.replace("Proofs.ServerProofs.", "Proofs.ServerProofs Model.Penelope Proofs.PenelopeProofs.")

gen("C02", "C02 — Uist fills honour limit/stop conditions and use the correct side of the quote. Statements only. "
    "Every statement is for every number type F with operations Num F: no law of arithmetic is assumed, so they "
    "hold of the IEEE instance that is compared bit-for-bit with the code (NaNs included).", IMP, [
    ("c02_fires_iff", "uist_fires_iff",
     "A resting order whose symbol is quoted fires iff the property's condition holds (ShouldFill, written "
     "independently: market always; limit buy ask <= limit; limit sell bid >= limit; stop buy ask >= stop; stop "
     "sell bid <= stop)."),
    ("c02_trade_fields", "uist_trade_fields",
     "Buys fill at that tick's ask and sells at its bid, for exactly the ordered quantity, value = price x "
     "quantity, dated by the quote."),
    ("c02_fill_or_rest", "uist_decide_cases",
     "The decision is fill-or-rest: nothing else ever happens to a Uist order."),
    ("c02_tick", "uist_tick_spec",
     "A whole tick: the fills are exactly one per firing resting order, in book order; the orders that did not "
     "fire (condition not met, or no quote for their symbol on this tick) keep resting unchanged, in order, "
     "followed by the admitted batch; Uist never creates trigger children."),
    ("c02_never_panics", "uist_tick_no_panic",
     "A Uist tick never panics, whatever the orders and quotes."),
    ("c02_null_price", "uist_null_price",
     "Outside the property's domain, recorded: a deserialised order with price = null — limit-sell / stop-buy "
     "always fire, limit-buy / stop-sell never do (Rust orders None below Some)."),
])

gen("C18", "C18 — Jura: one-shot market orders, resting limits, triggers spawn a next-tick child. Statements "
    "only; for every Num F (IEEE instance included).", IMP + "\nLocal Existing Instance FNj.", [
    ("c18_ioc_first_attempt", "ioc_first_attempt", "IOC ('market') order, first quoted tick: buy fills at the ask iff ask <= limit x (1 + 0.1), sell at the bid iff bid >= limit x (1 - 0.1); otherwise it is marked as attempted."),
    ("c18_ioc_after_attempt", "ioc_after_attempt", "Once attempted, an IOC order is dropped at the next quoted tick: it can never fill later."),
    ("c18_gtc", "gtc_decision", "A good-till-cancel limit rests until ask <= limit (buy) / bid >= limit (sell), then fills."),
    ("c18_trigger_never_fills", "trigger_never_fills", "A trigger order never fills itself (any quirk valuation)."),
    ("c18_trigger_decision", "trigger_decision", "Firing conditions (ShouldFire, written independently): SL buy ask >= trigger, SL sell bid <= trigger, TP buy ask <= trigger, TP sell bid >= trigger; firing yields a child that is IOC if is_market else GTC."),
    ("c18_trigger_child_fields", "trigger_child_fields", "The child has the parent's asset, side, limit, size, reduce_only and cloid."),
    ("c18_fill_fields", "fill_fields", "Fills carry the order's id, asset, size and the quote's price and date."),
    ("c18_ioc_lifecycle_first", "ioc_lifecycle_first", "Through a whole tick: an untried IOC order on a tick quoting its asset either fills and leaves the book, or stays with the attempted flag set and no fill."),
    ("c18_ioc_lifecycle_second", "ioc_lifecycle_second", "Through a whole tick: a tried IOC order leaves the book without a fill on the next tick quoting its asset."),
    ("c18_trigger_lifecycle", "trigger_lifecycle", "Through a whole tick: a trigger order has no fill; when its condition holds it leaves the book and its child rests, unflagged, with a fresh id (>= the counter at tick entry, hence not fillable on this tick) announced in the tick's result; otherwise it keeps resting unchanged."),
    ("c18_alo_panics", "alo_panics", "Recorded, outside the property: an Alo order makes a quoted tick panic (unimplemented!)."),
    ("c18_refuted_q_jura_sell_triggers_inverted", "c18_refuted_with_inverted_triggers", "The statement is refuted for the code as it was, with both sell-side trigger comparisons reversed: witness evaluated by the kernel on the IEEE instance (stop-loss sell at 90 ignores a bid of 80, fires at 120)."),
    ("c18_inverted_triggers_characterised", "inverted_triggers_differ", "What the defect does, in general."),
])

gen("C07", "C07 — a backtest visits every dataset date exactly once, in order, then stops. Statements only; for EVERY "
    "exchange (the server model is generic in it) and the defect-free valuation. The datasets the clock walks are "
    "those Penelope::add_quote builds (Model/Penelope.v): c07_dataset_* prove, for every loading script, the facts "
    "about datasets that the clock theorems and C01/C11 take as premises.", IMP7, [
    ("c07_fresh_backtest_clock", "clock_fresh", "A new backtest shows the first date, position 0."),
    ("c07_create_spec", "create_spec", "init / new_backtest create exactly that: a backtest at the first date with a fresh exchange."),
    ("c07_tick", "tick1_spec", "The k+1-th tick matches orders against exactly the row of the date the clock shows after k ticks (nothing when the dataset has no row for it), then shows date index min(k+1, N-1) and reports has_next iff k+1 < N."),
    ("c07_clock_after_history", "clock_run", "After ANY interleaving of operations the clock of a backtest has advanced by exactly the number of its successful ticks; no other operation moves it."),
    ("c07_now", "now_spec", "`now` answers the clock date and has_next iff k < N."),
    ("c07_fetch_quotes", "fetch_spec", "fetch_quotes shows the row of the clock date — never a row of another (later) date."),
    ("c07_loop_count", "client_loop_count", "A client looping `while has_next { tick }` from a backtest that has done k <= N ticks performs exactly N - k more ticks whenever it returns …"),
    ("c07_loop_terminates", "client_loop_terminates", "… and it returns for any fuel above N - k when the exchange does not panic: the loop terminates after exactly N ticks from a fresh backtest."),
    ("c07_dataset_dates", "load_dates", "Dataset: whatever the order and repetition in which quotes are added, the dates a backtest walks are the DISTINCT dates of the loading script in order of first appearance — no date twice."),
    ("c07_dataset_dates_increasing", "load_sorted", "Dataset: a script whose dates never go back (any number of symbols per date, quotes re-added at will) yields strictly increasing dates d1 < ... < dN."),
    ("c07_dataset_invariant", "load_inv", "Dataset: dates are pairwise distinct, there is exactly one row per date in the same order, every row is keyed uniquely, non-empty, and each of its quotes carries the row's date and its own symbol."),
    ("c07_dataset_rows_own_date", "load_rows_own_date", "Dataset: every quote a row shows is dated with that row's date and filed under its own symbol (so a client is never shown a quote dated otherwise than the clock)."),
    ("c07_dataset_row_iff_date", "load_row_iff_date", "Dataset: a date has a row exactly when it is one of the dataset's dates, so a tick never meets a missing row."),
    ("c07_dataset_shows_last_added", "load_shows_last_call", "Dataset: for every (date, symbol) the quote shown is the LAST one added for that pair, and nothing is shown for a pair never added (specification written independently as a recursion over the script)."),
    ("c07_refuted_q_jura_pos_stuck", "c07_refuted_q_jura_pos_stuck", "Refuted for the Jura service as it was (pos never stored): on a 3-date dataset has_next stays true for ever and the clock parks on the second date (kernel-evaluated witness)."),
])

gen("C08", "C08 — backtests get unique ids and cannot disturb one another. Statements only; for EVERY exchange and all "
    "interleavings (handlers are atomic under the mutex, so schedules are interleavings of whole operations).", IMP, [
    ("c08_invariant_create", "sinv_create", "The state invariant (keys unique, all <= last) holds initially (AppState::create) …", True),
    ("c08_invariant_single", "sinv_single", "… and for AppState::single …"),
    ("c08_invariant_run", "sinv_run", "… and is preserved by every history."),
    ("c08_create_fresh", "create_fresh", "The id returned by init / new_backtest names no existing backtest and exceeds `last`."),
    ("c08_fresh_ids", "fresh_ids", "The ids returned along any history are pairwise distinct and distinct from those present initially."),
    ("c08_create_spec", "create_spec", "A successful creation adds one fresh backtest at the first date with an empty exchange and changes no other entry."),
    ("c08_step_frame", "step_frame", "An operation leaves every backtest it does not name untouched."),
    ("c08_step_local", "step_local", "The response to an operation naming backtest j, and its effect on j, depend only on backtest j and the datasets."),
    ("c08_noninterference", "noninterference", "Over histories: the responses a client obtains for backtest j, and j's final state, are those obtained by applying only the operations that name j."),
    ("c08_unknown_backtest", "unknown_backtest", "A request naming an unknown backtest is rejected (None: HTTP 400 in the handler layer) and changes nothing."),
    ("c08_unknown_dataset", "unknown_dataset", "A creation naming an unknown dataset is rejected and changes nothing."),
    ("c08_refuted_q_init_no_bump", "c08_refuted_q_init_no_bump", "Refuted for the code as it was (init never stored the id it handed out): two inits on a fresh state return the same id (kernel-evaluated witness)."),
])


IMP18 = IMP.replace("Proofs.ServerProofs.", "Proofs.ServerProofs Proofs.EndToEnd18.")
gen("C18history", "C18 over WHOLE HISTORIES of the Jura exchange (every Num F, defect-free valuation, axiom-free). "
    "Alongside the real run a ghost count is kept per resting order — the number of ticks since its admission on which "
    "its asset was quoted (Proofs/EndToEnd18.v: seen, seen_tick, grun; defined independently of the exchange's own "
    "attempted_execution flag and of the decision function; grun_outputs shows the ghost does not change the run). "
    "`trace ops` is the run from the empty exchange.", IMP18, [
    ("c18h_ghost_is_inert", "grun_outputs", "The ghost bookkeeping does not change the run: the outputs along the trace are the outputs of the run."),
    ("c18h_flag_is_seen", "ioc_flag_is_seen_init", "In every state of every history an IOC order is flagged exactly when it has already met a quoted tick, and it never survives a second one."),
    ("c18h_ioc_fills_only_at_first_quoted_tick", "ioc_fills_only_at_first_quoted_tick_init", "An IOC fill happens only on the FIRST tick since admission that quotes its asset, under the slippage condition (buy: ask <= limit x 1.1, at the ask; sell: bid >= limit x 0.9, at the bid), and carries id, asset, size and the quote's price and date."),
    ("c18h_ioc_first_quoted_tick_fate", "ioc_first_quoted_tick_fate_init", "On that first quoted tick it either fills and is gone for good, or is marked, rests flagged, and no later tick fills it …"),
    ("c18h_ioc_dropped_at_second_quoted_tick", "ioc_dropped_at_second_quoted_tick_init", "… and the next tick that quotes its asset drops it without a fill, for good."),
    ("c18h_ioc_never_fills_later", "ioc_never_fills_later_init", "After any tick that quoted its asset an IOC order never fills at a later point of the history."),
    ("c18h_trigger_never_fills", "trigger_never_fills_history_init", "A trigger order never fills — not before, at, or after any point of any history at which it is known as a trigger order."),
    ("c18h_trigger_child_next_tick", "trigger_child_next_tick_init", "A child announced by a tick has a fresh id, is not among that tick's fills nor any earlier ones, rests unflagged afterwards with its parent's asset, side, limit and size (IOC if market else GTC), its parent is gone, its own quoted-tick count starts at 0, and any fill of it happens strictly later."),
    ("c18h_gtc_rests_until_crossed", "gtc_rests_until_crossed_init", "A GTC limit rests unchanged through every stretch of history in which it is not cancelled and its price condition never holds on a quoted tick, and on the next tick fills (at the ask / bid) exactly if ask <= limit (buy) / bid >= limit (sell)."),
    ("c18h_example", "history18_trace", "Non-vacuity: a 7-operation history on the IEEE instance — an order that rests unquoted, is marked, then dropped; another that fills on its first quoted tick.", True),
])
