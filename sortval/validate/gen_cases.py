#!/usr/bin/env python3
"""Turn dumps of the Rust harness (data/<profile>.txt) into Coq files cases/cases_<profile>_<k>.v
that evaluate Model/Sort.v on the same inputs and print one verdict per case.

usage: gen_cases.py <profile> [max_elems_per_file]
"""
import sys, os

ETYPES = {  # name -> (freeze, size_of)
    "uist": (True, 72), "jura": (True, 104), "s8": (True, 8), "s16": (True, 16),
    "s24": (True, 24), "c16": (False, 16), "c72": (False, 72),
}
# the two real order types: sizes as printed by `sortval sizes` for /repo's current tree (sizes.txt in the work dir)
def _real_sizes():
    try:
        for line in open(os.path.join(os.getcwd(), "sizes.txt")):
            m = line.split()
            if len(m) >= 3 and m[1] == "Order" and m[2].startswith("size="):
                ETYPES[m[0]] = (True, int(m[2][5:]))
    except FileNotFoundError:
        pass
_real_sizes()
CHUNK = 400
MOD = 2305843009213693951

def coq_list(xs):
    if not xs:
        return "[]"
    parts = []
    for i in range(0, len(xs), CHUNK):
        parts.append("[" + ";".join(str(x) for x in xs[i:i + CHUNK]) + "]")
    return "(" + " ++ ".join(parts) + ")" if len(parts) > 1 else parts[0]

def main():
    profile = sys.argv[1]
    budget = int(sys.argv[2]) if len(sys.argv) > 2 else 60000
    here = os.getcwd()
    src = os.path.join(here, "data", profile + ".txt")
    outdir = os.path.join(here, "cases")
    os.makedirs(outdir, exist_ok=True)
    for f in os.listdir(outdir):
        if f.startswith("cases_%s_" % profile):
            os.remove(os.path.join(outdir, f))
    files = []
    cur, cur_elems, idx = [], 0, 0
    index_lines = []

    def flush():
        nonlocal cur, cur_elems
        if not cur:
            return
        name = "cases_%s_%03d" % (profile, len(files))
        with open(os.path.join(outdir, name + ".v"), "w") as f:
            f.write("From Coq Require Import List NArith.\nFrom Alator Require Import Model.Sort Check.SortHarness.\n"
                    "Import ListNotations.\nLocal Open Scope N_scope.\n\n")
            f.write("\n".join(cur) + "\n")
        files.append(name)
        cur, cur_elems = [], 0

    with open(src) as f:
        for line in f:
            head, keys, res = line.split("|")
            etype, kind, seed, n, arr, status = head.split()
            keys = [int(x) for x in keys.split()]
            res = [int(x) for x in res.split()]
            n = int(n)
            assert len(keys) == n and len(res) == n
            freeze, size = ETYPES[etype]
            fz = "true" if freeze else "false"
            pk = "true" if status == "panic" else "false"
            if n > 8000:
                # long case: compact encodings
                keys_s = coq_list(keys)
                h = 0
                for t in res:
                    h = (h * 1000003 + t + 1) % MOD
                body = "check_sum %s %d %s %s %s %s %d" % (fz, size, kind, seed, keys_s, pk, h)
            else:
                body = "check %s %d %s %s %s %s %s" % (fz, size, kind, seed, coq_list(keys), pk, coq_list(res))
            cur.append("Eval vm_compute in (%d, %s)." % (idx, body))
            index_lines.append("%d %s %s %s %s %s %s" % (idx, etype, kind, seed, n, arr, status))
            idx += 1
            cur_elems += n + 20
            if cur_elems >= budget:
                flush()
    flush()
    with open(os.path.join(outdir, "index_%s.txt" % profile), "w") as f:
        f.write("\n".join(index_lines) + "\n")
    print("%s: %d cases in %d files" % (profile, idx, len(files)))

if __name__ == "__main__":
    main()
