(* C09 — Failed state: entered only on an uncoverable shortfall, and absorbing. Statements only. *)
From Coq Require Import ZArith NArith List Bool String Permutation Reals.
From Flocq Require Import Raux.
From Alator Require Import Model.Num Model.Quirks Model.Cost Model.Exchange Model.Uist Model.Broker
  Proofs.CostProofs Proofs.BrokerLiqProofs Proofs.BrokerLedgerProofs.
Import ListNotations.
Local Existing Instance RNum.
Local Open Scope R_scope.

(* [R] After a tick is reconciled, a Ready broker with a long portfolio (quantities > 0, every holding quoted, bids >= 0, admissible costs), for every iteration order of the holdings: Failed iff cash < 0 and shortfall + 1000 exceeds the liquidation value; otherwise, with negative cash, it stays Ready, the liquidation loop succeeds with a non-empty list of market sells, and only those are forwarded. *)
Theorem c09_failed_iff :
  forall (b : broker R) (ord : list string) (b' : broker R) (fw : list (uorder R)),
         long_portfolio b ->
         Forall cost_ok1 (b_costs b) ->
         b_failed b = false ->
         is_order_of ord (b_holdings b) = true ->
         rebalance_cash clean b ord = Ok (b', fw) ->
         (b_failed b' = true <-> b_cash b < 0 /\ liquidation_value b ord < - b_cash b + 1000) /\
         (b_cash b < 0 ->
          b_failed b' = false ->
          exists sells : list (uorder R),
            liq_loop clean b ord (- b_cash b + 1000) [] = Ok (0, sells) /\
            sells <> [] /\
            Forall is_market_sell sells /\ (forall o : uorder R, In o fw -> In o sells)).
Proof. exact @rebalance_failed_iff. Qed.

(* [R] The reconciliation never panics for such a portfolio. *)
Theorem c09_reconciliation_never_panics :
  forall (b : broker R) (ord : list string),
         long_portfolio b ->
         is_order_of ord (b_holdings b) = true ->
         exists r : broker R * list (uorder R), rebalance_cash clean b ord = Ok r.
Proof. exact @rebalance_no_panic. Qed.

(* Failed is preserved by every operation (every Num F, any quirk valuation). *)
Theorem c09_absorbing :
  forall (F : Type) (NF : Num F) (qk : quirks) (b : broker F) 
           (o : bop F) (b' : broker F) (ev : bev F) (fw : list (uorder F)),
         b_failed b = true -> bstep qk b o = Ok (b', ev, fw) -> b_failed b' = true.
Proof. exact @failed_absorbing. Qed.

(* In Failed, deposits, withdrawals and orders are refused without effect … *)
Theorem c09_failed_refuses :
  forall (F : Type) (NF : Num F) (qk : quirks) (b : broker F),
         b_failed b = true ->
         (forall c : F, deposit_cash b c = (b, OperationFailure c)) /\
         (forall c : F, withdraw_cash b c = (b, OperationFailure c)) /\
         (forall o : uorder F, send_order qk b o = Ok (b, OrderInvalid o, [])).
Proof. exact @failed_refuses. Qed.

(* … while fills already in flight are still booked into cash, holdings and log exactly as in Ready; nothing new is queued. *)
Theorem c09_failed_still_books :
  forall (F : Type) (NF : Num F) (b : broker F) (ts : list (trade F))
           (row : list (string * quote F)) (ord : list string) (b' : broker F)
           (fw : list (uorder F)),
         b_failed b = true ->
         check clean b (Some (ts, row)) ord = Ok (b', fw) ->
         b_cash b' = cash_after_trades (b_cash b) ts /\
         b_holdings b' = b_holdings (fold_left book_trade ts (update_quotes b row)) /\
         b_log b' = b_log b ++ ts /\ fw = [].
Proof. exact @failed_check_books. Qed.

(* Only the reconciliation of a tick can enter Failed. *)
Theorem c09_only_reconciliation_fails :
  forall (F : Type) (NF : Num F) (b : broker F) (o : bop F) (b' : broker F) 
           (ev : bev F) (fw : list (uorder F)),
         b_failed b = false ->
         bstep clean b o = Ok (b', ev, fw) ->
         b_failed b' = true ->
         exists (resp : option (list (trade F) * list (string * quote F))) 
         (ord : list string), o = OpCheck resp ord.
Proof. exact @failed_only_in_check. Qed.

Print Assumptions c09_failed_iff.
Print Assumptions c09_reconciliation_never_panics.
Print Assumptions c09_absorbing.
Print Assumptions c09_failed_refuses.
Print Assumptions c09_failed_still_books.
Print Assumptions c09_only_reconciliation_fails.
