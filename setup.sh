#!/bin/sh
# Build the framework from files on disk only (offline): the Coq development (full .vo build) and
# the Rust harness against /repo's working tree.
set -e
cd "$(dirname "$0")"
export CARGO_NET_OFFLINE=true
(cd coq && coq_makefile -f _CoqProject -o Makefile >/dev/null && timeout 3000 make -j16 >/dev/null 2>&1 || (echo "coq build failed"; make 2>&1 | tail -30; exit 1))
# /repo/Cargo.lock is git-ignored there: use it when present, else the copy recorded with the harness
if [ -f /repo/Cargo.lock ]; then cp /repo/Cargo.lock harness/Cargo.lock; else cp harness/Cargo.lock.base harness/Cargo.lock; fi
(cd harness && timeout 3000 cargo build --offline 2>&1 | tail -3)
echo setup-ok
