#!/bin/bash
# sortval/run.sh <workdir> <profile>...   — validate coq/Model/Sort.v against the real slice::sort_by of the
# installed toolchain on the element types of /repo's current working tree (uist_v1::Order, jura_v1::Order) and on
# synthetic ones, under nine comparator families. Prints one summary per profile; exit 1 if any case is not OK.
# Used by the thorough tier of C17 (driver/props/c17.py). Profiles: small (lengths 0..70), medium (71..800),
# large (1000..5000), huge (20000 / 90000 / 120000).
set -e
here="$(cd "$(dirname "$0")" && pwd)"
wd="$1"; shift
mkdir -p "$wd/data" "$wd/cases"
export CARGO_NET_OFFLINE=true CARGO_TARGET_DIR="$wd/target"
cp /repo/Cargo.lock "$here/rs/Cargo.lock"
(cd "$here/rs" && cargo build --release --offline 2>&1 | tail -2)
bin="$wd/target/release/sortval"
"$bin" sizes | tee "$wd/sizes.txt"
rc=0
for p in "$@"; do
  "$bin" "$p" "$wd/data/$p.txt"
  (cd "$wd" && python3 "$here/validate/gen_cases.py" "$p" 100000)
  tmo=3000
  ls "$wd"/cases/cases_${p}_*.v | xargs -P 16 -I{} sh -c \
    'f={}; timeout '"$tmo"' coqc -noglob -Q /verif/coq Alator "$f" > "${f%.v}.out" 2>&1; echo "exit $?" >> "${f%.v}.out"'
  (cd "$wd" && python3 "$here/validate/summarise.py" "$p") | tee "$wd/summary_$p.txt"
  grep -q "FAIL\|MISSING" "$wd/summary_$p.txt" && rc=1
done
exit $rc
