(* C10 — liquidation queues enough sales to raise the requested cash, or nothing. Statements only; [R]. *)
From Coq Require Import ZArith NArith List Bool String Permutation Reals.
From Flocq Require Import Raux.
From Alator Require Import Model.Num Model.Quirks Model.Cost Model.Exchange Model.Uist Model.Broker
  Proofs.CostProofs Proofs.BrokerLiqProofs.
Import ListNotations.
Local Existing Instance RNum.
Local Open Scope R_scope.

(* A Ready broker holding whole shares of long positions (bids > 0), any request >= 0, any iteration order: on success the forwarded orders are all market sells, each for a positive quantity not exceeding the position, worth at least the request at the last seen bids; on failure nothing is queued and the state is unchanged. *)
Theorem c10_sufficient :
  forall (b : broker R) (c : R) (ord : list string) (b' : broker R) 
           (ev : cash_event R) (fw : list (uorder R)),
         whole_long b ->
         b_failed b = false ->
         0 <= c ->
         withdraw_cash_with_liquidation clean b c ord = Ok (b', ev, fw) ->
         match ev with
         | WithdrawSuccess _ =>
             Forall is_market_sell fw /\
             Forall
               (fun o : uorder R =>
                exists h : R, sget (b_holdings b) (uo_symbol o) = Some h /\ 0 < uo_shares o <= h)
               fw /\ c <= sumR (fun o : uorder R => uo_shares o * bid_of b (uo_symbol o)) fw
         | WithdrawFailure _ => fw = [] /\ b' = b
         | _ => False
         end.
Proof. exact @liquidation_sufficient. Qed.

(* The same for the request made by automatic cash rebalancing (shortfall + 1000). *)
Theorem c10_rebalance_sufficient :
  forall (b : broker R) (ord : list string) (b' : broker R) (fw : list (uorder R)),
         whole_long b ->
         b_failed b = false ->
         b_cash b < 0 ->
         rebalance_cash clean b ord = Ok (b', fw) ->
         (b_failed b' = false ->
          Forall is_market_sell fw /\
          - b_cash b + 1000 <= sumR (fun o : uorder R => uo_shares o * bid_of b (uo_symbol o)) fw) /\
         (b_failed b' = true -> fw = []).
Proof. exact @rebalance_sufficient. Qed.

(* The loop itself: only market sells of distinct held symbols within the holdings; when it ends with nothing left to raise, the sells are worth at least the request. (A zero-share order can be created when the full sales so far match the request exactly; the gate refuses it and it is worth nothing — hence the two-part statement.) *)
Theorem c10_loop :
  forall (b : broker R) (ord : list string) (c rest : R) (sells : list (uorder R)),
         whole_long b ->
         NoDup ord ->
         (forall s : string, In s ord -> sget (b_holdings b) s <> None) ->
         0 <= c ->
         liq_loop clean b ord c [] = Ok (rest, sells) ->
         (Forall is_market_sell sells /\
          Forall
            (fun o : uorder R =>
             exists h : R, sget (b_holdings b) (uo_symbol o) = Some h /\ 0 <= uo_shares o <= h)
            sells /\
          NoDup (map uo_symbol sells) /\
          (rest = 0 -> c <= sumR (fun o : uorder R => uo_shares o * bid_of b (uo_symbol o)) sells)) /\
         Forall is_market_sell (nz_sells sells) /\
         Forall
           (fun o : uorder R =>
            exists h : R, sget (b_holdings b) (uo_symbol o) = Some h /\ 0 < uo_shares o <= h)
           (nz_sells sells) /\
         NoDup (map uo_symbol (nz_sells sells)) /\
         (rest = 0 ->
          c <= sumR (fun o : uorder R => uo_shares o * bid_of b (uo_symbol o)) (nz_sells sells)).
Proof. exact @liq_loop_spec_adj. Qed.

(* The gate accepts every such sell of a Ready broker. *)
Theorem c10_all_forwarded :
  forall (b : broker R) (sells : list (uorder R)) (b' : broker R)
           (evs : list (order_event R)) (fw : list (uorder R)),
         b_failed b = false ->
         Forall is_market_sell sells ->
         Forall
           (fun o : uorder R =>
            (exists h : R, sget (b_holdings b) (uo_symbol o) = Some h /\ 0 < uo_shares o <= h) /\
            sget (b_quotes b) (uo_symbol o) <> None) sells ->
         send_orders clean b sells = Ok (b', evs, fw) -> fw = sells.
Proof. exact @send_sells_all_forwarded. Qed.

(* The edge case, exhibited. *)
Theorem c10_zero_share_edge :
  let q := fun s : string => {| q_bid := 1; q_ask := 1; q_date := 1; q_symbol := s |} in
         let b :=
           {|
             b_cash := 0;
             b_holdings := [("A"%string, 1); ("B"%string, 1)];
             b_pending := [];
             b_quotes := [("A"%string, q "A"%string); ("B"%string, q "B"%string)];
             b_log := [];
             b_costs := [];
             b_failed := false
           |} in
         whole_long b /\
         NoDup ["A"%string; "B"%string] /\
         0 < 1 /\
         liq_loop clean b ["A"%string; "B"%string] 1 [] =
         Ok
           (0,
            [{| uo_type := MarketSell; uo_symbol := "A"; uo_shares := 1; uo_price := None |};
             {| uo_type := MarketSell; uo_symbol := "B"; uo_shares := 0; uo_price := None |}]).
Proof. exact @liq_loop_spec_counterexample. Qed.

(* Refuted for the code as it was (total_sold / price.ceil() instead of (total_sold / price).ceil()): bid 10.5, 105 to raise — it sold 105/11 shares worth 100.2 and reported success. *)
Theorem c10_refuted_q_liq_ceil_precedence :
  let b :=
           {|
             b_cash := 0;
             b_holdings := [("ABC"%string, 100)];
             b_pending := [];
             b_quotes :=
               [("ABC"%string, {| q_bid := 21 / 2; q_ask := 11; q_date := 1; q_symbol := "ABC" |})];
             b_log := [];
             b_costs := [];
             b_failed := false
           |} in
         exists (b' : broker R) (o : uorder R),
           withdraw_cash_with_liquidation ceil_defect b 105 ["ABC"%string] =
           Ok (b', WithdrawSuccess 105, [o]) /\ uo_shares o * (21 / 2) < 105.
Proof. exact @c10_refuted_q_liq_ceil_precedence. Qed.

Print Assumptions c10_sufficient.
Print Assumptions c10_rebalance_sufficient.
Print Assumptions c10_loop.
Print Assumptions c10_all_forwarded.
Print Assumptions c10_zero_share_edge.
Print Assumptions c10_refuted_q_liq_ceil_precedence.
