(* JClientCheck.v — the Jura service's own client (jurav1_client::Client, reqwest; the only client the module has) in
   LOCKSTEP with the model: Penelope's loading scripts -> AppState::single / AppState::create -> every request through
   the JuraClient trait over real HTTP. Only responses are visible, so the model runs the whole history from its own
   initial state: no re-synchronisation, and no oracle — the buffer is sorted by Model/Sort.v (Model/ExchangeStd.v's
   tick_std, at size_of::<jura_v1::Order>()). The Jura instance of Check/ClientCheck.v. *)
From Coq Require Import ZArith NArith List Bool String Floats.
From Alator Require Import Model.Num Model.Quirks Model.Sort Model.Exchange Model.ExchangeStd Model.Uist Model.Jura
  Model.Server Model.Penelope Check.Eqb Check.ExchCheck Check.ServerCheck.
Import ListNotations.

Local Instance FNjc : Num float := FloatNum [].

Definition j_x_tick_std (sz : N) (x : jexch float) (r : row) (_ : list nat) : option (jexch float * jtout) :=
  match tick_std jo_asset jura_sym jura_is_sell (jura_decide clean) sz x r with
  | (x', OutTick fl adm trig) => Some (x', (map snd fl, adm, trig))
  | _ => None
  end.

Definition j_sstep_std (sz : N) :=
  sstep (exch_init : jexch float) (j_x_tick_std sz) (j_insert clean) (j_delete clean) (([], [], []) : jtout) clean true.

(* what a TickResponse carries: the fills (each names the id of its order), the admitted orders in admission order
   (jura_v1::Order has no id field, so the ids the model gives them are not visible here; they show up later as the
   oid of fills) and the ids of the trigger children created by the tick *)
Definition jtout_wire_eqb (a b : jtout) : bool :=
  list_eqb fill_eqb (fst (fst a)) (fst (fst b))
  && list_eqb jorder_eqb (map snd (snd (fst a))) (map snd (snd (fst b)))
  && list_eqb N.eqb (snd a) (snd b).

(* (step index, mismatch mask) of every response that differs; stops at an observed panic *)
Fixpoint jlockstep (sz : N) (s : app (jexch float) row) (h : list (sop (jorder float) (N * N) * sres row jtout)) (k : N)
  : list (N * N) :=
  match h with
  | [] => []
  | (o, obs) :: r =>
      let '(s', m) := j_sstep_std sz s o in
      let mk := res_mask jtout_wire_eqb m obs in
      (if N.eqb mk 0 then [] else [(k, mk)])
      ++ match obs with RPanic => [] | _ => jlockstep sz s' r (N.succ k) end
  end.

Record jcase := mkJCase {
  jc_size : N;                                                     (* size_of::<Order>() as observed *)
  jc_single : bool;                                                (* AppState::single on the first dataset / AppState::create on all *)
  jc_data : list (string * list (float * float * Z * string));    (* the datasets' loading scripts *)
  jc_hist : list (sop (jorder float) (N * N) * sres row jtout);
}.

Definition jcase_start (c : jcase) : option (app (jexch float) row) :=
  let ds := map (fun d => (fst d, load (snd d))) (jc_data c) in
  if jc_single c then
    match ds with
    | (name, d) :: _ => app_single (exch_init : jexch float) name d
    | [] => None
    end
  else Some (app_create ds).

Definition jcase_mismatches (c : jcase) : list (N * N) :=
  match jcase_start c with
  | None => [(0%N, bit S_KIND false)]
  | Some s0 => jlockstep (jc_size c) s0 (jc_hist c) 0%N
  end.

Definition jcase_ok (c : jcase) : bool :=
  match jcase_mismatches c with [] => true | _ => false end.
