(* EndToEnd11.v — C11's first sentence as theorems about the full composition
   strategy + broker + eager client + Uist server + Uist exchange (Model/Strategy.v), for EVERY Num F
   (no law of arithmetic is used: this is about WHICH quote is stored), quirks := clean:

   "A position is valued at quantity x the most recent bid published for its symbol up to the current
    clock (a gap keeps the previous quote, never a later one)". *)
From Coq Require Import ZArith NArith List Bool String Lia Sorted.
From Alator Require Import Model.Num Model.Quirks Model.Cost Model.Exchange Model.Uist Model.Server
  Model.Broker Model.Perf Model.Strategy
  Proofs.ServerProofs Proofs.BrokerLedgerProofs Proofs.StrategyProofs.
Import ListNotations.

Section EndToEnd11.
Context {F : Type} {NF : Num F}.

Notation utick1 := (bt_tick (X:=uexch F) (Row:=quotes (quote F)) (TOut:=utout) ux_tick ([], []) clean false).
Notation udataset := (dataset (quotes (quote F))).

(* ====================== definitions ====================== *)

(* what the row of date index j says about symbol s (None: no such index, no row for that date, or the
   row does not quote s) *)
Definition row_quote (d : udataset) (j : nat) (s : string) : option (quote F) :=
  match get_date d j with
  | Some dt => match get_quotes d dt with Some row => lookup row s | None => None end
  | None => None
  end.

(* the quote for symbol s in force at date index j of dataset d: the row of the latest date index <= j
   that quotes s *)
Fixpoint latest_upto (d : udataset) (j : nat) (s : string) : option (quote F) :=
  let here := match get_date d j with
              | Some dt => match get_quotes d dt with Some row => lookup row s | None => None end
              | None => None end in
  match here with
  | Some q => Some q
  | None => match j with O => None | S j' => latest_upto d j' s end
  end.

Lemma latest_upto_unfold d j s :
  latest_upto d j s =
  match row_quote d j s with
  | Some q => Some q
  | None => match j with O => None | S j' => latest_upto d j' s end
  end.
Proof. destruct j; reflexivity. Qed.

(* the clock index the backtest shows after k ticks *)
Definition shown_index (d : udataset) (k : nat) : nat := Nat.min k (List.length (ds_dates d) - 1).

(* every row of the dataset has unique keys (it is a HashMap) *)
Definition rows_keyed_uniquely (d : udataset) : Prop :=
  forall date row, get_quotes d date = Some row -> NoDup (map fst row).

(* dataset rows carry their own date *)
Definition rows_dated (d : udataset) : Prop :=
  forall date row k q, get_quotes d date = Some row -> In (k, q) row -> q_date q = date.

(* the invariant, with its witnesses exposed: the strategy's backtest runs on d, has done k ticks, and
   the broker stores for every symbol exactly the quote in force at the clock index shown *)
Definition quotes_current_at (y : sys F) (d : udataset) (k : nat) : Prop :=
  exists b,
    nlookup (backtests (sy_app y)) (sy_id y) = Some b /\
    slookup (datasets (sy_app y)) (bt_dataset b) = Some d /\
    clock_ok d b k /\
    forall s, sget (b_quotes (st_brkr (sy_strat y))) s = latest_upto d (shown_index d k) s.

Definition quotes_current (y : sys F) : Prop :=
  exists b d k,
    nlookup (backtests (sy_app y)) (sy_id y) = Some b /\
    slookup (datasets (sy_app y)) (bt_dataset b) = Some d /\
    clock_ok d b k /\
    forall s, sget (b_quotes (st_brkr (sy_strat y))) s = latest_upto d (shown_index d k) s.

Lemma quotes_current_iff y : quotes_current y <-> exists d k, quotes_current_at y d k.
Proof.
  split.
  - intros (b & d & k & H). exists d, k, b. exact H.
  - intros (d & k & b & H). exists b, d, k. exact H.
Qed.

(* the dataset of the strategy's backtest has uniquely keyed rows *)
Definition sys_rows_keyed_uniquely (y : sys F) : Prop :=
  forall b d, nlookup (backtests (sy_app y)) (sy_id y) = Some b ->
              slookup (datasets (sy_app y)) (bt_dataset b) = Some d -> rows_keyed_uniquely d.

(* ====================== (T1) update_quotes, pointwise ====================== *)
Definition qfold (row : list (string * quote F)) (m : smap (quote F)) : smap (quote F) :=
  fold_left (fun m kq => sset m (fst kq) (snd kq)) row m.

Lemma update_quotes_qfold (b : broker F) row : b_quotes (update_quotes b row) = qfold row (b_quotes b).
Proof. reflexivity. Qed.

Lemma lookup_app (l1 l2 : quotes (quote F)) s :
  lookup (l1 ++ l2) s = match lookup l1 s with Some q => Some q | None => lookup l2 s end.
Proof.
  induction l1 as [|[k q] l1 IH]; cbn [Datatypes.app lookup]; [reflexivity|].
  destruct (String.eqb s k); [reflexivity | exact IH].
Qed.

Lemma lookup_notin (row : quotes (quote F)) s : ~ In s (map fst row) -> lookup row s = None.
Proof.
  induction row as [|[k q] row IH]; cbn [map fst lookup In]; intros H; [reflexivity|].
  destruct (String.eqb s k) eqn:E.
  - apply String.eqb_eq in E. exfalso. apply H. left. symmetry. exact E.
  - apply IH. intros Hin. apply H. right. exact Hin.
Qed.

Lemma lookup_In (row : quotes (quote F)) s q : lookup row s = Some q -> In (s, q) row.
Proof.
  induction row as [|[k q'] row IH]; cbn [lookup]; [discriminate|].
  destruct (String.eqb s k) eqn:E.
  - apply String.eqb_eq in E. subst k. intros H; inversion H; subst. left; reflexivity.
  - intros H. right. apply IH. exact H.
Qed.

(* without any uniqueness assumption: the fold keeps the LAST binding of each key of the row *)
Lemma qfold_sget_last row : forall m s,
  sget (qfold row m) s = match lookup (rev row) s with Some q => Some q | None => sget m s end.
Proof.
  unfold qfold. induction row as [|[k q] row IH]; intros m s; cbn [fold_left fst snd rev].
  - reflexivity.
  - rewrite IH, lookup_app. destruct (lookup (rev row) s); [reflexivity|].
    cbn [lookup]. destruct (String.eqb s k) eqn:E.
    + apply String.eqb_eq in E. subst s. apply sget_sset_same.
    + apply String.eqb_neq in E. apply sget_sset_other. exact E.
Qed.

(* with unique keys first and last binding agree *)
Lemma lookup_rev_nodup (row : quotes (quote F)) s :
  NoDup (map fst row) -> lookup (rev row) s = lookup row s.
Proof.
  induction row as [|[k q] row IH]; cbn [map fst rev lookup]; intros Hnd; [reflexivity|].
  inversion Hnd as [|x l Hnin Hnd']; subst.
  rewrite lookup_app, (IH Hnd'). cbn [lookup].
  destruct (String.eqb s k) eqn:E.
  - apply String.eqb_eq in E. subst s. rewrite (lookup_notin row k Hnin). reflexivity.
  - destruct (lookup row s); reflexivity.
Qed.

Lemma qfold_sget row m s :
  NoDup (map fst row) ->
  sget (qfold row m) s = match lookup row s with Some q => Some q | None => sget m s end.
Proof. intros Hnd. rewrite qfold_sget_last, (lookup_rev_nodup row s Hnd). reflexivity. Qed.

Lemma update_quotes_sget_last (b : broker F) row s :
  sget (b_quotes (update_quotes b row)) s =
  match lookup (rev row) s with Some q => Some q | None => sget (b_quotes b) s end.
Proof. rewrite update_quotes_qfold. apply qfold_sget_last. Qed.

(* (T1) *)
Lemma update_quotes_sget (b : broker F) row s :
  NoDup (map fst row) ->
  sget (b_quotes (update_quotes b row)) s =
  match lookup row s with Some q => Some q | None => sget (b_quotes b) s end.
Proof. intros Hnd. rewrite update_quotes_qfold. apply qfold_sget. exact Hnd. Qed.

(* uniqueness is needed for the statement with [lookup row]: lookup returns the FIRST binding, the
   fold keeps the LAST *)
Lemma update_quotes_first_vs_last :
  exists (b : broker F) row s,
    sget (b_quotes (update_quotes b row)) s <>
    match lookup row s with Some q => Some q | None => sget (b_quotes b) s end.
Proof.
  exists (broker_init [] []),
         [("A"%string, mkQuote fzero fzero 1%Z "A"%string); ("A"%string, mkQuote fzero fzero 2%Z "A"%string)],
         "A"%string.
  cbn. intros H. inversion H.
Qed.

(* ====================== (T2) frames: nothing else touches b_quotes ====================== *)
Lemma book_trade_quotes (b : broker F) t : b_quotes (book_trade b t) = b_quotes b.
Proof. unfold book_trade. destruct (t_side t); reflexivity. Qed.

Lemma book_trades_quotes ts : forall b : broker F, b_quotes (fold_left book_trade ts b) = b_quotes b.
Proof.
  induction ts as [|t ts IH]; intros b; cbn [fold_left]; [reflexivity|].
  rewrite IH. apply book_trade_quotes.
Qed.

Lemma send_order_quotes qk (b : broker F) o b' ev fw :
  send_order qk b o = Ok (b', ev, fw) -> b_quotes b' = b_quotes b.
Proof.
  intros H. apply send_order_cases in H.
  destruct H as [(_ & -> & _)|(_ & -> & _)]; reflexivity.
Qed.

Lemma send_orders_quotes qk (b : broker F) os b' evs fw :
  send_orders qk b os = Ok (b', evs, fw) -> b_quotes b' = b_quotes b.
Proof. intros H. apply send_orders_cash in H. destruct H as (_ & _ & _ & Hq & _). exact Hq. Qed.

Lemma liq_quotes qk (b : broker F) c ord b' ev fw :
  withdraw_cash_with_liquidation qk b c ord = Ok (b', ev, fw) -> b_quotes b' = b_quotes b.
Proof. intros H. apply liq_frame in H. destruct H as (_ & _ & Hq & _). exact Hq. Qed.

Lemma rebalance_quotes qk (b : broker F) ord b' fw :
  rebalance_cash qk b ord = Ok (b', fw) -> b_quotes b' = b_quotes b.
Proof.
  intros H. apply rebalance_shape in H. destruct H as [(-> & _)|(c & b1 & ev & Hw & Hb)]; [reflexivity|].
  apply liq_quotes in Hw. destruct Hb as [->| ->]; exact Hw.
Qed.

Lemma booked_quotes (b : broker F) resp :
  b_quotes (booked b resp) =
  match resp with Some (_, row) => qfold row (b_quotes b) | None => b_quotes b end.
Proof.
  destruct resp as [[ts row]|]; cbn [booked]; [|reflexivity].
  rewrite book_trades_quotes. apply update_quotes_qfold.
Qed.

(* check stores the fetched row (if any) and nothing else *)
Lemma check_quotes qk (b : broker F) resp ord b' fw :
  check qk b resp ord = Ok (b', fw) -> b_quotes b' = b_quotes (booked b resp).
Proof.
  intros H. apply check_shape in H. destruct H as [(-> & _)|H]; [reflexivity|].
  exact (rebalance_quotes _ _ _ _ _ H).
Qed.

Lemma trade_to_target_quotes qk (b : broker F) ws ord b2 fw :
  trade_to_target qk b ws ord = Ok (b2, fw) -> b_quotes b2 = b_quotes b.
Proof.
  intros H. apply trade_to_target_shape in H. destruct H as (orders & evs & Hs).
  exact (send_orders_quotes _ _ _ _ _ _ Hs).
Qed.

Lemma deposit_quotes (b : broker F) c : b_quotes (fst (deposit_cash b c)) = b_quotes b.
Proof. unfold deposit_cash. destruct (b_failed b); reflexivity. Qed.

Lemma withdraw_quotes (b : broker F) c : b_quotes (fst (withdraw_cash b c)) = b_quotes b.
Proof.
  unfold withdraw_cash, debit. destruct (b_failed b); [reflexivity|].
  destruct (fltb (b_cash b) c); reflexivity.
Qed.

Lemma st_deposit_quotes qk (s : strategy F) cash :
  b_quotes (st_brkr (st_deposit qk s cash)) = b_quotes (st_brkr s).
Proof. destruct (st_deposit_fields qk s cash) as (-> & _). apply deposit_quotes. Qed.

Lemma st_withdraw_quotes (s : strategy F) cash :
  b_quotes (st_brkr (fst (st_withdraw s cash))) = b_quotes (st_brkr s).
Proof.
  pose proof (withdraw_quotes (st_brkr s) cash) as H. unfold st_withdraw.
  destruct (withdraw_cash (st_brkr s) cash) as [b' ev]. cbn [fst] in H.
  destruct ev; exact H.
Qed.

Lemma st_withdraw_liq_quotes qk (s : strategy F) cash ord s' ok fw :
  st_withdraw_liq qk s cash ord = Ok (s', ok, fw) -> b_quotes (st_brkr s') = b_quotes (st_brkr s).
Proof.
  unfold st_withdraw_liq. intros H.
  destruct (withdraw_cash_with_liquidation qk (st_brkr s) cash ord) as [[[b' ev] fw']|e|] eqn:Hw;
    cbn [bind] in H; try discriminate.
  apply liq_quotes in Hw. destruct ev; inversion H; subst; exact Hw.
Qed.

Lemma st_init_quotes qk (s : strategy F) cash ord s' fw :
  st_init qk s cash ord = Ok (s', fw) -> b_quotes (st_brkr s') = b_quotes (st_brkr s).
Proof.
  intros H. apply st_init_shape in H. destruct H as (b2 & Ht & ->). cbn [st_brkr].
  rewrite (trade_to_target_quotes _ _ _ _ _ _ Ht). apply st_deposit_quotes.
Qed.

(* one strategy update: the quotes afterwards are those of the booked state *)
Lemma st_update_quotes qk (s : strategy F) resp now ord s' fw :
  st_update qk s resp now ord = Ok (s', fw) ->
  b_quotes (st_brkr s') = b_quotes (booked (st_brkr s) resp).
Proof.
  intros H. apply st_update_shape in H.
  destruct H as (b1 & fw1 & b2 & fw2 & Hc & Ht & -> & _). cbn [st_brkr].
  rewrite (trade_to_target_quotes _ _ _ _ _ _ Ht). exact (check_quotes _ _ _ _ _ _ Hc).
Qed.

(* ====================== latest_upto: one step of the clock ====================== *)
Lemma shown_index_0 d : shown_index d 0 = 0%nat.
Proof. reflexivity. Qed.

Lemma latest_upto_advance d k s :
  latest_upto d (shown_index d (S k)) s =
  match row_quote d (shown_index d (S k)) s with
  | Some q => Some q
  | None => latest_upto d (shown_index d k) s
  end.
Proof.
  unfold shown_index.
  destruct (Nat.le_gt_cases (S k) (List.length (ds_dates d) - 1)) as [Hle|Hgt].
  - rewrite (Nat.min_l (S k)) by exact Hle. rewrite (Nat.min_l k) by lia.
    apply latest_upto_unfold.
  - rewrite (Nat.min_r (S k)) by lia. rewrite (Nat.min_r k) by lia.
    destruct (row_quote d (List.length (ds_dates d) - 1) s) as [q|] eqn:E; [|reflexivity].
    rewrite latest_upto_unfold, E. reflexivity.
Qed.

(* ====================== one update of the composition, opened up ====================== *)
Lemma sys_update_shape (y : sys F) perm ord y' b d k :
  SInv (sy_app y) -> nlookup (backtests (sy_app y)) (sy_id y) = Some b ->
  slookup (datasets (sy_app y)) (bt_dataset b) = Some d -> clock_ok d b k ->
  sys_update clean y perm ord = Ok y' ->
  exists b1 hn trades adm s' fw,
    utick1 d b perm = Some (b1, (hn, (trades, adm))) /\
    st_update clean (sy_strat y)
      (match get_quotes d (bt_date b1) with Some row => Some (trades, row) | None => None end)
      (bt_date b1) ord = Ok (s', fw) /\
    y' = mkSys s' (forward clean (with_backtest (sy_app y) (sy_id y) b1) (sy_id y) fw) (sy_id y).
Proof.
  intros Hs Hb Hd Hc H. unfold sys_update in H.
  rewrite (us_tick _ _ _ _ perm Hb Hd) in H.
  destruct (utick1 d b perm) as [[b1 [hn [trades adm]]]|] eqn:Ht.
  2:{ cbv beta iota in H.
      destruct (usstep clean (sy_app y) (SFetch (sy_id y))) as [a2 rf]. discriminate. }
  cbv beta iota in H.
  destruct (tick1_spec _ _ _ d b perm b1 hn (trades, adm) k Hc Ht) as (Hc1 & _ & Hds1 & _).
  set (a1 := with_backtest (sy_app y) (sy_id y) b1) in *.
  assert (Hb1 : nlookup (backtests a1) (sy_id y) = Some b1).
  { unfold a1, with_backtest. cbn [backtests]. apply nlookup_upsert_same. }
  assert (Hd1 : slookup (datasets a1) (bt_dataset b1) = Some d).
  { unfold a1, with_backtest. cbn [datasets]. rewrite Hds1. exact Hd. }
  rewrite (us_fetch a1 _ _ _ Hb1 Hd1) in H. cbv beta iota in H.
  rewrite (us_now a1 _ _ _ _ Hb1 Hd1 Hc1) in H. cbv beta iota in H.
  match type of H with bind ?u _ = _ => destruct u as [[s' fw]|e|] eqn:Hu end;
    cbn [bind] in H; try discriminate.
  inversion H; subst y'; clear H.
  exists b1, hn, trades, adm, s', fw. split; [reflexivity|]. split; [|reflexivity].
  destruct (get_quotes d (bt_date b1)); exact Hu.
Qed.

(* ====================== (T3) one update keeps the stored quotes current ====================== *)
(* the form with the witnesses exposed: the same dataset, one more tick *)
Lemma sys_update_quotes_at (y : sys F) perm ord y' d k :
  SInv (sy_app y) -> rows_keyed_uniquely d ->
  quotes_current_at y d k -> sys_update clean y perm ord = Ok y' ->
  SInv (sy_app y') /\ sy_id y' = sy_id y /\ quotes_current_at y' d (S k).
Proof.
  intros Hs Hu (b & Hb & Hd & Hc & Hq) H.
  destruct (sys_update_clock y perm ord y' b d k Hs Hb Hd Hc H)
    as (Hid & Hs' & Hds' & b' & Hb' & Hbd' & Hc' & _).
  destruct (sys_update_shape y perm ord y' b d k Hs Hb Hd Hc H)
    as (b1 & hn & trades & adm & s' & fw & Ht & Hst & Hy).
  destruct (tick1_spec _ _ _ d b perm b1 hn (trades, adm) k Hc Ht) as (Hc1 & _ & _ & _).
  split; [exact Hs'|]. split; [exact Hid|].
  exists b'. split; [rewrite Hid; exact Hb'|]. split; [rewrite Hds', Hbd'; exact Hd|].
  split; [exact Hc'|].
  intros s. subst y'. cbn [sy_strat].
  rewrite (st_update_quotes _ _ _ _ _ _ _ Hst), latest_upto_advance.
  destruct Hc1 as [_ Hg1]. unfold row_quote, shown_index at 1. rewrite Hg1.
  destruct (get_quotes d (bt_date b1)) as [row|] eqn:Hrow; cbn [booked].
  - rewrite book_trades_quotes, (update_quotes_sget _ row s (Hu _ _ Hrow)), Hq. reflexivity.
  - apply Hq.
Qed.

(* (T3) *)
Theorem sys_update_quotes_current (y : sys F) perm ord y' :
  SInv (sy_app y) -> sys_rows_keyed_uniquely y ->
  quotes_current y -> sys_update clean y perm ord = Ok y' -> quotes_current y'.
Proof.
  intros Hs Hu (b & d & k & Hb & Hd & Hc & Hq) H.
  destruct (sys_update_quotes_at y perm ord y' d k Hs (Hu b d Hb Hd)) as (_ & _ & H');
    [exists b; exact (conj Hb (conj Hd (conj Hc Hq))) | exact H |].
  apply quotes_current_iff. exists d, (S k). exact H'.
Qed.

(* ====================== (T4) the whole run ====================== *)
Lemma sys_run_quotes_at fuel : forall (y : sys F) perms ords i y' n d k,
  SInv (sy_app y) -> rows_keyed_uniquely d -> quotes_current_at y d k ->
  sys_run clean fuel y perms ords i = Ok (y', n) ->
  SInv (sy_app y') /\ sy_id y' = sy_id y /\ (i <= n)%nat /\ quotes_current_at y' d (k + (n - i)).
Proof.
  induction fuel as [|fuel IH]; intros y perms ords i y' n d k Hs Hu Hq H.
  - cbn [sys_run] in H. discriminate.
  - pose proof Hq as (b & Hb & Hd & Hc & _).
    rewrite sys_run_S, (sys_has_next_spec y b d k Hb Hd Hc) in H.
    destruct (Nat.ltb k (List.length (ds_dates d))).
    + destruct (sys_update clean y (perms i) (ords i)) as [y1|e|] eqn:Hup; cbn [bind] in H; try discriminate.
      destruct (sys_update_quotes_at y _ _ y1 d k Hs Hu Hq Hup) as (Hs1 & Hid1 & Hq1).
      destruct (IH y1 perms ords (S i) y' n d (S k) Hs1 Hu Hq1 H) as (Hs' & Hid' & Hle & Hq').
      split; [exact Hs'|]. split; [congruence|]. split; [lia|].
      replace (k + (n - i))%nat with (S k + (n - S i))%nat by lia. exact Hq'.
    + inversion H; subst y' n. split; [exact Hs|]. split; [reflexivity|]. split; [lia|].
      rewrite Nat.sub_diag, Nat.add_0_r. exact Hq.
Qed.

(* (T4) through sys_run, any fuel *)
Theorem sys_run_quotes_current fuel (y : sys F) perms ords i y' n :
  SInv (sy_app y) -> sys_rows_keyed_uniquely y ->
  quotes_current y -> sys_run clean fuel y perms ords i = Ok (y', n) -> quotes_current y'.
Proof.
  intros Hs Hu (b & d & k & Hb & Hd & Hc & Hq) H.
  destruct (sys_run_quotes_at fuel y perms ords i y' n d k Hs (Hu b d Hb Hd)) as (_ & _ & _ & H');
    [exists b; exact (conj Hb (conj Hd (conj Hc Hq))) | exact H |].
  apply quotes_current_iff. eexists _, _. exact H'.
Qed.

(* when run() returns (from k <= N ticks done) the clock has done N ticks and shows the last date:
   every stored quote is the one in force at the last date index *)
Lemma sys_run_quotes_final fuel (y : sys F) perms ords i y' n d k :
  SInv (sy_app y) -> rows_keyed_uniquely d -> quotes_current_at y d k ->
  (k <= List.length (ds_dates d))%nat ->
  sys_run clean fuel y perms ords i = Ok (y', n) ->
  (n = i + (List.length (ds_dates d) - k))%nat /\
  quotes_current_at y' d (List.length (ds_dates d)) /\
  forall s, sget (b_quotes (st_brkr (sy_strat y'))) s = latest_upto d (List.length (ds_dates d) - 1) s.
Proof.
  intros Hs Hu Hq Hk H.
  pose proof Hq as (b & Hb & Hd & Hc & _).
  destruct (sys_run_count fuel y perms ords i y' n b d k Hs Hb Hd Hc Hk H) as (Hn & _).
  destruct (sys_run_quotes_at fuel y perms ords i y' n d k Hs Hu Hq H) as (_ & _ & _ & Hq').
  replace (k + (n - i))%nat with (List.length (ds_dates d)) in Hq' by lia.
  split; [exact Hn|]. split; [exact Hq'|].
  destruct Hq' as (b' & _ & _ & _ & Hq''). intros s. rewrite Hq''. unfold shown_index.
  rewrite Nat.min_r by lia. reflexivity.
Qed.

(* any number of updates, whatever the oracles: a list of (sort oracle, holdings order) pairs *)
Fixpoint sys_updates (y : sys F) (ops : list (list nat * list string)) : res (sys F) :=
  match ops with
  | [] => Ok y
  | (perm, ord) :: r => bind (sys_update clean y perm ord) (fun y1 => sys_updates y1 r)
  end.

Lemma sys_updates_quotes_at ops : forall (y y' : sys F) d k,
  SInv (sy_app y) -> rows_keyed_uniquely d -> quotes_current_at y d k ->
  sys_updates y ops = Ok y' ->
  SInv (sy_app y') /\ sy_id y' = sy_id y /\ quotes_current_at y' d (k + List.length ops).
Proof.
  induction ops as [|[perm ord] r IH]; intros y y' d k Hs Hu Hq H; cbn [sys_updates List.length] in *.
  - inversion H; subst y'. rewrite Nat.add_0_r. split; [exact Hs|]. split; [reflexivity | exact Hq].
  - destruct (sys_update clean y perm ord) as [y1|e|] eqn:Hup; cbn [bind] in H; try discriminate.
    destruct (sys_update_quotes_at y _ _ y1 d k Hs Hu Hq Hup) as (Hs1 & Hid1 & Hq1).
    destruct (IH y1 y' d (S k) Hs1 Hu Hq1 H) as (Hs' & Hid' & Hq').
    split; [exact Hs'|]. split; [congruence|].
    replace (k + S (List.length r))%nat with (S k + List.length r)%nat by lia. exact Hq'.
Qed.

(* the start state: init(cash) trades but does not touch the stored quotes, forwarding the orders
   does not move the clock *)
Lemma start_quotes_at (a : uapp (F:=F)) id b d (s0 : strategy F) c ord0 s1 fw :
  SInv a -> nlookup (backtests a) id = Some b -> slookup (datasets a) (bt_dataset b) = Some d ->
  clock_ok d b 0 ->
  (forall s, sget (b_quotes (st_brkr s0)) s = latest_upto d 0 s) ->
  st_init clean s0 c ord0 = Ok (s1, fw) ->
  SInv (forward clean a id fw) /\ quotes_current_at (mkSys s1 (forward clean a id fw) id) d 0.
Proof.
  intros Hs Hb Hd Hc Hq0 Hi.
  destruct (forward_gen a id fw id Hs) as (Hp & Hs' & Hds').
  rewrite Hb in Hp. cbn [option_map] in Hp.
  destruct (nlookup (backtests (forward clean a id fw)) id) as [b2|] eqn:Hb2; [|discriminate].
  cbn [option_map] in Hp. inversion Hp as [Hp'].
  assert (E : bproj b2 = bproj b) by (unfold bproj; congruence).
  split; [exact Hs'|]. exists b2. cbn [sy_app sy_id sy_strat].
  split; [exact Hb2|]. split; [rewrite Hds'; replace (bt_dataset b2) with (bt_dataset b) by congruence; exact Hd|].
  split; [exact (clock_ok_proj d b b2 0%nat E Hc)|].
  intros s. rewrite (st_init_quotes _ _ _ _ _ _ Hi), shown_index_0. apply Hq0.
Qed.

(* the start hypothesis is what the builder provides: the row of the first date, stored as it is *)
Lemma sget_is_lookup (row : quotes (quote F)) s : sget row s = lookup row s.
Proof.
  induction row as [|[k q] row IH]; cbn [sget lookup]; [reflexivity|].
  destruct (String.eqb s k); [reflexivity | exact IH].
Qed.

Lemma first_row_start (d : udataset) d0 row :
  get_date d 0 = Some d0 -> get_quotes d d0 = Some row ->
  forall s, sget row s = latest_upto d 0 s.
Proof.
  intros Hg Hr s. rewrite latest_upto_unfold. unfold row_quote. rewrite Hg, Hr, sget_is_lookup.
  destruct (lookup row s); reflexivity.
Qed.

(* (T4, from the fresh start) the broker is built with the row of the first date, the strategy is
   initialised, then ANY number of updates: after k updates (= k ticks) every stored quote is the one
   in force at the clock index shown after k ticks *)
Theorem c11_quotes_after_updates :
  forall (a : uapp (F:=F)) id b d costs q0 ws ncf0 h0 c ord0 s1 fw ops y',
    SInv a -> nlookup (backtests a) id = Some b -> slookup (datasets a) (bt_dataset b) = Some d ->
    clock_ok d b 0 -> rows_keyed_uniquely d ->
    (forall s, sget q0 s = latest_upto d 0 s) ->
    st_init clean (mkStrategy (broker_init costs q0) ws ncf0 h0) c ord0 = Ok (s1, fw) ->
    sys_updates (mkSys s1 (forward clean a id fw) id) ops = Ok y' ->
    quotes_current_at y' d (List.length ops) /\
    forall s, sget (b_quotes (st_brkr (sy_strat y'))) s = latest_upto d (shown_index d (List.length ops)) s.
Proof.
  intros a id b d costs q0 ws ncf0 h0 c ord0 s1 fw ops y' Hs Hb Hd Hc Hu Hq0 Hi Hrun.
  destruct (start_quotes_at a id b d (mkStrategy (broker_init costs q0) ws ncf0 h0) c ord0 s1 fw Hs Hb Hd Hc Hq0 Hi)
    as (Hs' & Hq).
  destruct (sys_updates_quotes_at ops (mkSys s1 (forward clean a id fw) id) y' d 0%nat Hs' Hu Hq Hrun) as (_ & _ & Hq').
  cbn [Nat.add] in Hq'. split; [exact Hq'|].
  destruct Hq' as (b' & _ & _ & _ & H). exact H.
Qed.

(* the same through run(): when it returns it has done N updates and every stored quote is the one
   in force at the last date *)
Theorem c11_quotes_after_run :
  forall (a : uapp (F:=F)) id b d costs q0 ws ncf0 h0 c ord0 s1 fw fuel perms ords y' n,
    SInv a -> nlookup (backtests a) id = Some b -> slookup (datasets a) (bt_dataset b) = Some d ->
    clock_ok d b 0 -> rows_keyed_uniquely d ->
    (forall s, sget q0 s = latest_upto d 0 s) ->
    st_init clean (mkStrategy (broker_init costs q0) ws ncf0 h0) c ord0 = Ok (s1, fw) ->
    sys_run clean fuel (mkSys s1 (forward clean a id fw) id) perms ords 0 = Ok (y', n) ->
    n = List.length (ds_dates d) /\
    forall s, sget (b_quotes (st_brkr (sy_strat y'))) s = latest_upto d (List.length (ds_dates d) - 1) s.
Proof.
  intros a id b d costs q0 ws ncf0 h0 c ord0 s1 fw fuel perms ords y' n Hs Hb Hd Hc Hu Hq0 Hi Hrun.
  destruct (start_quotes_at a id b d (mkStrategy (broker_init costs q0) ws ncf0 h0) c ord0 s1 fw Hs Hb Hd Hc Hq0 Hi)
    as (Hs' & Hq).
  destruct (sys_run_quotes_final fuel (mkSys s1 (forward clean a id fw) id) perms ords 0%nat y' n d 0%nat Hs' Hu Hq (Nat.le_0_l _) Hrun)
    as (Hn & _ & H).
  split; [lia | exact H].
Qed.

(* ====================== (T5) valuation ====================== *)
Corollary position_value_current (y : sys F) d k s q qty :
  quotes_current_at y d k ->
  latest_upto d (shown_index d k) s = Some q ->
  position_qty (st_brkr (sy_strat y)) s = Some qty ->
  position_value (st_brkr (sy_strat y)) s = Some (fmul (q_bid q) qty).
Proof.
  intros (b & _ & _ & _ & Hq) Hl Hqty. unfold position_value. rewrite Hq, Hl, Hqty. reflexivity.
Qed.

(* no quote in force: no value *)
Corollary position_value_unquoted (y : sys F) d k s :
  quotes_current_at y d k ->
  latest_upto d (shown_index d k) s = None ->
  position_value (st_brkr (sy_strat y)) s = None.
Proof.
  intros (b & _ & _ & _ & Hq) Hl. unfold position_value. rewrite Hq, Hl. reflexivity.
Qed.

(* (T5) in terms of the invariant of (T3) *)
Corollary valuation (y : sys F) :
  quotes_current y ->
  exists b d k,
    nlookup (backtests (sy_app y)) (sy_id y) = Some b /\
    slookup (datasets (sy_app y)) (bt_dataset b) = Some d /\
    clock_ok d b k /\
    forall s q qty,
      latest_upto d (shown_index d k) s = Some q ->
      position_qty (st_brkr (sy_strat y)) s = Some qty ->
      position_value (st_brkr (sy_strat y)) s = Some (fmul (q_bid q) qty).
Proof.
  intros (b & d & k & Hb & Hd & Hc & Hq). exists b, d, k.
  split; [exact Hb|]. split; [exact Hd|]. split; [exact Hc|].
  intros s q qty Hl Hqty.
  apply (position_value_current y d k s q qty); [exists b; exact (conj Hb (conj Hd (conj Hc Hq))) | exact Hl | exact Hqty].
Qed.

(* ====================== (T6) what latest_upto is ====================== *)
(* the exact characterisation: the quote comes from the row of some index i <= j and no row of an
   index in (i, j] quotes the symbol *)
Lemma latest_upto_spec d j s q :
  latest_upto d j s = Some q ->
  exists i, (i <= j)%nat /\ row_quote d i s = Some q /\
            forall i', (i < i')%nat -> (i' <= j)%nat -> row_quote d i' s = None.
Proof.
  induction j as [|j IH]; rewrite latest_upto_unfold; intros H.
  - destruct (row_quote d 0 s) as [q0|] eqn:E; [|discriminate].
    inversion H; subst q0. exists 0%nat. split; [lia|]. split; [exact E|]. intros i' H1 H2. lia.
  - destruct (row_quote d (S j) s) as [q0|] eqn:E.
    + inversion H; subst q0. exists (S j). split; [lia|]. split; [exact E|]. intros i' H1 H2. lia.
    + destruct (IH H) as (i & Hi & Hr & Hgap). exists i. split; [lia|]. split; [exact Hr|].
      intros i' H1 H2. destruct (Nat.eq_dec i' (S j)) as [->|Hne]; [exact E|].
      apply Hgap; lia.
Qed.

Lemma latest_upto_none d j s :
  latest_upto d j s = None -> forall i, (i <= j)%nat -> row_quote d i s = None.
Proof.
  induction j as [|j IH]; rewrite latest_upto_unfold; intros H i Hi.
  - destruct (row_quote d 0 s) eqn:E; [discriminate|]. replace i with 0%nat by lia. exact E.
  - destruct (row_quote d (S j) s) eqn:E; [discriminate|].
    destruct (Nat.eq_dec i (S j)) as [->|Hne]; [exact E|]. apply (IH H). lia.
Qed.

(* and conversely *)
Lemma latest_upto_intro d j s q i :
  (i <= j)%nat -> row_quote d i s = Some q ->
  (forall i', (i < i')%nat -> (i' <= j)%nat -> row_quote d i' s = None) ->
  latest_upto d j s = Some q.
Proof.
  induction j as [|j IH]; intros Hi Hr Hgap; rewrite latest_upto_unfold.
  - replace i with 0%nat in Hr by lia. rewrite Hr. reflexivity.
  - destruct (Nat.eq_dec i (S j)) as [->|Hne].
    + rewrite Hr. reflexivity.
    + rewrite (Hgap (S j)) by lia. apply IH; [lia | exact Hr |].
      intros i' H1 H2. apply Hgap; lia.
Qed.

Lemma row_quote_date d i s q :
  rows_dated d -> row_quote d i s = Some q -> get_date d i = Some (q_date q).
Proof.
  intros Hdt H. unfold row_quote in H.
  destruct (get_date d i) as [dt|]; [|discriminate].
  destruct (get_quotes d dt) as [row|] eqn:Hrow; [|discriminate].
  apply lookup_In in H. rewrite (Hdt dt row s q Hrow H). reflexivity.
Qed.

(* (T6) "never a later one": the stored quote is dated with a date of index <= j, hence (dates strictly
   increasing) not later than the date of index j *)
Lemma latest_upto_date d j s q :
  rows_dated d -> StronglySorted Z.lt (ds_dates d) ->
  latest_upto d j s = Some q ->
  exists i, (i <= j)%nat /\ get_date d i = Some (q_date q) /\
            forall dt, get_date d j = Some dt -> (q_date q <= dt)%Z.
Proof.
  intros Hdt Hsorted H. destruct (latest_upto_spec d j s q H) as (i & Hi & Hr & _).
  pose proof (row_quote_date d i s q Hdt Hr) as Hg.
  exists i. split; [exact Hi|]. split; [exact Hg|].
  intros dt Hj. destruct (Nat.eq_dec i j) as [->|Hne].
  - rewrite Hg in Hj. inversion Hj; subst. apply Z.le_refl.
  - apply Z.lt_le_incl. unfold get_date in Hg, Hj.
    apply (increasing_nth (ds_dates d) i j (q_date q) dt Hsorted); [lia | exact Hg | exact Hj].
Qed.

(* (T6) "the most recent": no quoting row of an index <= j more recent than the one used is skipped *)
Lemma latest_upto_most_recent d j s q :
  latest_upto d j s = Some q ->
  forall i, (i <= j)%nat -> row_quote d i s <> None ->
  exists i', (i <= i')%nat /\ (i' <= j)%nat /\ row_quote d i' s = Some q.
Proof.
  intros H i Hi Hq. destruct (latest_upto_spec d j s q H) as (i0 & Hi0 & Hr & Hgap).
  exists i0. destruct (Nat.le_gt_cases i i0) as [Hle|Hgt].
  - split; [exact Hle|]. split; [exact Hi0 | exact Hr].
  - exfalso. apply Hq. apply Hgap; assumption.
Qed.

(* whenever a row of an index <= j quotes s, latest_upto is defined *)
Lemma latest_upto_defined d j s i :
  (i <= j)%nat -> row_quote d i s <> None -> latest_upto d j s <> None.
Proof. intros Hi Hq H. apply Hq. exact (latest_upto_none d j s H i Hi). Qed.

(* in dates: the quote in force is dated at least as late as every row of an index <= j quoting s *)
Lemma latest_upto_most_recent_date d j s q i q0 :
  rows_dated d -> StronglySorted Z.lt (ds_dates d) ->
  latest_upto d j s = Some q -> (i <= j)%nat -> row_quote d i s = Some q0 ->
  (q_date q0 <= q_date q)%Z.
Proof.
  intros Hdt Hsorted H Hi Hq0.
  destruct (latest_upto_most_recent d j s q H i Hi) as (i' & H1 & H2 & Hr); [rewrite Hq0; discriminate|].
  pose proof (row_quote_date d i s q0 Hdt Hq0) as Hg0.
  pose proof (row_quote_date d i' s q Hdt Hr) as Hg.
  destruct (Nat.eq_dec i i') as [->|Hne].
  - rewrite Hg in Hg0. inversion Hg0 as [E]. rewrite E. apply Z.le_refl.
  - apply Z.lt_le_incl. unfold get_date in Hg0, Hg.
    apply (increasing_nth (ds_dates d) i i' (q_date q0) (q_date q) Hsorted); [lia | exact Hg0 | exact Hg].
Qed.

(* the two halves together, on the composition: every stored quote is dated no later than the clock
   date the backtest shows *)
Corollary stored_quote_not_later (y : sys F) d k s q :
  rows_dated d -> StronglySorted Z.lt (ds_dates d) ->
  quotes_current_at y d k ->
  sget (b_quotes (st_brkr (sy_strat y))) s = Some q ->
  exists b, nlookup (backtests (sy_app y)) (sy_id y) = Some b /\ (q_date q <= bt_date b)%Z.
Proof.
  intros Hdt Hsorted (b & Hb & _ & Hc & Hq) Hs. rewrite Hq in Hs.
  destruct (latest_upto_date d _ s q Hdt Hsorted Hs) as (_ & _ & _ & Hle).
  exists b. split; [exact Hb|]. apply Hle. destruct Hc as [_ Hg]. exact Hg.
Qed.

End EndToEnd11.

Check @update_quotes_sget.
Check @update_quotes_sget_last.
Check @sys_update_quotes_at.
Check @sys_update_quotes_current.
Check @sys_run_quotes_at.
Check @sys_run_quotes_current.
Check @sys_run_quotes_final.
Check @c11_quotes_after_updates.
Check @c11_quotes_after_run.
Check @position_value_current.
Check @valuation.
Check @latest_upto_spec.
Check @latest_upto_date.
Check @latest_upto_most_recent.
Check @latest_upto_most_recent_date.
Check @stored_quote_not_later.

Print Assumptions update_quotes_sget.
Print Assumptions sys_update_quotes_at.
Print Assumptions sys_update_quotes_current.
Print Assumptions sys_run_quotes_at.
Print Assumptions sys_run_quotes_current.
Print Assumptions sys_run_quotes_final.
Print Assumptions c11_quotes_after_updates.
Print Assumptions c11_quotes_after_run.
Print Assumptions position_value_current.
Print Assumptions valuation.
Print Assumptions latest_upto_date.
Print Assumptions latest_upto_most_recent.
Print Assumptions latest_upto_most_recent_date.
Print Assumptions stored_quote_not_later.
