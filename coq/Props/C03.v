(* C03 — orders fill at most once; none is lost, duplicated or resurrected. Statements only; for EVERY decision function (both exchanges), every number type, all operation sequences of any length. *)
From Coq Require Import ZArith NArith List Bool String Permutation Sorted Floats.
From Alator Require Import Model.Num Model.Quirks Model.Exchange Model.Uist Model.Jura Model.Server
  Proofs.ListAux Proofs.ExchangeProofs Proofs.UistProofs Proofs.JuraProofs Proofs.ExchangeCorollaries
  Proofs.ServerProofs.
Import ListNotations.

(* What a successful tick does: the sorted buffer is a permutation of the buffer (every order inserted since the last tick is reported admitted exactly once), ids are consecutive from the counter — trigger children first, then the batch — the new book is the surviving resting orders followed by children and batch, the buffer is empty afterwards, the log grows by exactly the fills. *)
Theorem c03_tick_master :
  forall (Ord Qt T : Type) (asset_of : Ord -> N) (sym_of : Ord -> string)
           (is_sell : Ord -> bool) (decide : entry Ord -> Qt -> action Ord T) 
           (s : exch Ord T) (qs : quotes Qt) (perm : list nat) (s' : exch Ord T)
           (fl : list (N * T)) (adm : list (N * Ord)) (trig : list N),
         Inv s ->
         tick asset_of sym_of is_sell decide s qs perm = (s', OutTick fl adm trig) ->
         exists sorted : list Ord,
           apply_perm (buffer s) perm = Some sorted /\
           Permutation sorted (buffer s) /\
           sells_first is_sell sorted = true /\
           (let kids := number (next_id s) (flat_map (child_of sym_of decide qs) (book s)) in
            fl = flat_map (fill_of sym_of decide qs) (book s) /\
            trig = map fst kids /\
            adm = number (next_id s + N.of_nat (Datatypes.length kids)) sorted /\
            book s' =
            map (after_walk sym_of decide qs) (filter (keeps sym_of decide qs) (book s)) ++
            map fresh_entry kids ++ map fresh_entry adm /\
            buffer s' = [] /\
            next_id s' =
            (next_id s + N.of_nat (Datatypes.length kids) + N.of_nat (Datatypes.length sorted))%N /\
            xlog s' = xlog s ++ map snd fl).
Proof. exact @tick_spec. Qed.

(* All ids ever assigned along any history (batch orders and trigger children) are strictly increasing in assignment order — in particular pairwise distinct — and at or above the counter of the starting state. *)
Theorem c03_ids_strictly_increasing :
  forall (Ord Qt T : Type) (asset_of : Ord -> N) (sym_of : Ord -> string)
           (is_sell : Ord -> bool) (decide : entry Ord -> Qt -> action Ord T) 
           (s : exch Ord T) (ops : list (op Ord Qt)),
         Inv s ->
         StronglySorted N.lt (flat_map assigned (snd (run asset_of sym_of is_sell decide s ops))) /\
         Forall (fun i : N => (next_id s <= i)%N)
           (flat_map assigned (snd (run asset_of sym_of is_sell decide s ops))).
Proof. exact @assigned_sorted. Qed.

(* At every moment: the ids handed out so far (0 .. counter-1) are exactly the resting ids plus the ids removed so far (filled, expired, triggered, cancelled) — as multisets, so nothing is lost or duplicated. *)
Theorem c03_conservation :
  forall (Ord Qt T : Type) (asset_of : Ord -> N) (sym_of : Ord -> string)
           (is_sell : Ord -> bool) (decide : entry Ord -> Qt -> action Ord T)
           (ops : list (op Ord Qt)),
         let s' := fst (run asset_of sym_of is_sell decide exch_init ops) in
         Permutation (ids (book s') ++ run_dead asset_of sym_of is_sell decide exch_init ops)
           (all_ids (next_id s')).
Proof. exact @conservation. Qed.

(* Over a whole history no id appears in two fills (nor twice in one tick). *)
Theorem c03_no_id_fills_twice :
  forall (Ord Qt T : Type) (asset_of : Ord -> N) (sym_of : Ord -> string)
           (is_sell : Ord -> bool) (decide : entry Ord -> Qt -> action Ord T)
           (ops : list (op Ord Qt)),
         NoDup (flat_map fill_ids (snd (run asset_of sym_of is_sell decide exch_init ops))).
Proof. exact @fills_nodup. Qed.

(* An id that has been removed (filled, expired, triggered or cancelled) is never resting again. *)
Theorem c03_removed_never_returns :
  forall (Ord Qt T : Type) (asset_of : Ord -> N) (sym_of : Ord -> string)
           (is_sell : Ord -> bool) (decide : entry Ord -> Qt -> action Ord T)
           (ops : list (op Ord Qt)) (i : N),
         In i (run_dead asset_of sym_of is_sell decide exch_init ops) ->
         ~ In i (ids (book (fst (run asset_of sym_of is_sell decide exch_init ops)))).
Proof. exact @dead_never_resting. Qed.

(* Per resting order and tick: it stays (possibly marked), or leaves with exactly one fill, or leaves without a fill (expired / triggered, the child resting with a fresh id). *)
Theorem c03_entry_fate :
  forall (Ord Qt T : Type) (asset_of : Ord -> N) (sym_of : Ord -> string)
           (is_sell : Ord -> bool) (decide : entry Ord -> Qt -> action Ord T) 
           (s : exch Ord T) (qs : quotes Qt) (perm : list nat) (s' : exch Ord T)
           (fl : list (N * T)) (adm : list (N * Ord)) (trig : list N) 
           (e : entry Ord),
         Inv s ->
         tick asset_of sym_of is_sell decide s qs perm = (s', OutTick fl adm trig) ->
         In e (book s) ->
         match action_of sym_of decide qs e with
         | ARest => In e (book s') /\ ~ In (e_id e) (map fst fl)
         | AMark => In (mark e) (book s') /\ ~ In (e_id e) (map fst fl)
         | AFill t =>
             ~ In (e_id e) (ids (book s')) /\
             In (e_id e, t) fl /\ (forall t' : T, In (e_id e, t') fl -> t' = t)
         | AExpire => ~ In (e_id e) (ids (book s')) /\ ~ In (e_id e) (map fst fl)
         | ATrigger c =>
             ~ In (e_id e) (ids (book s')) /\
             ~ In (e_id e) (map fst fl) /\
             (exists j : N,
                In j trig /\
                (next_id s <= j)%N /\ In {| e_id := j; e_ord := c; e_flag := false |} (book s'))
         | APanic => False
         end.
Proof. exact @tick_entry_fate. Qed.

(* Cancelling removes exactly the resting orders matching (asset, id) — at most one — and touches nothing else. *)
Theorem c03_cancel_exact :
  forall (Ord Qt T : Type) (asset_of : Ord -> N) (sym_of : Ord -> string)
           (is_sell : Ord -> bool) (decide : entry Ord -> Qt -> action Ord T) 
           (s : exch Ord T) (k : key),
         Inv s ->
         step asset_of sym_of is_sell decide s (Delete k) =
         ({|
            book := filter (fun e : entry Ord => negb (matches asset_of k e)) (book s);
            buffer := buffer s;
            next_id := next_id s;
            xlog := xlog s
          |}, OutUnit) /\ Datatypes.length (filter (matches asset_of k) (book s)) <= 1.
Proof. exact @delete_spec. Qed.

(* Cancelling an id that matches no resting order (unknown, stale, still in the buffer, wrong asset) is a no-op. *)
Theorem c03_cancel_unknown_noop :
  forall (Ord : Type) (asset_of : Ord -> N) (k : key) (b : list (entry Ord)),
         forallb (fun e : entry Ord => negb (matches asset_of k e)) b = true ->
         delete_first asset_of k b = b.
Proof. exact @delete_first_nomatch. Qed.

(* Inserting only appends to the buffer. *)
Theorem c03_insert_only_buffers :
  forall (Ord Qt T : Type) (asset_of : Ord -> N) (sym_of : Ord -> string)
           (is_sell : Ord -> bool) (decide : entry Ord -> Qt -> action Ord T) 
           (s : exch Ord T) (o : Ord),
         step asset_of sym_of is_sell decide s (Insert o) =
         ({| book := book s; buffer := buffer s ++ [o]; next_id := next_id s; xlog := xlog s |},
          OutUnit).
Proof. exact @insert_spec. Qed.

Print Assumptions c03_tick_master.
Print Assumptions c03_ids_strictly_increasing.
Print Assumptions c03_conservation.
Print Assumptions c03_no_id_fills_twice.
Print Assumptions c03_removed_never_returns.
Print Assumptions c03_entry_fate.
Print Assumptions c03_cancel_exact.
Print Assumptions c03_cancel_unknown_noop.
Print Assumptions c03_insert_only_buffers.
