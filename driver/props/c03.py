"""C03 — exchange slice; see driver/exch.py and Props/C03.v"""
import exch


def run(res, tier, seed, replay):
    return exch.run_property(res, "C03", tier, seed, replay, ["C03"])
