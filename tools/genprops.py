#!/usr/bin/env python3
"""Development aid (not used by the checks): writes coq/Props/<file>.v from a spec
   [(theorem name, source lemma, comment)], printing each lemma's closed statement with `Check @lemma`
   so that the property file spells every statement out in full."""
import re
import subprocess
import sys
import os

COQ = os.path.join(os.path.dirname(os.path.dirname(os.path.abspath(__file__))), "coq")


def closed_type(imports, lemma, implicit=False):
    src = imports + "\nSet Printing Width 96.\nSet Printing Depth 1000.\n%sCheck @%s.\n" % (
        "Set Printing Implicit.\n" if implicit else "", lemma)
    p = "/tmp/_genprops.v"
    open(p, "w").write(src)
    out = subprocess.run(["coqc", "-Q", COQ, "Alator", p], capture_output=True, text=True)
    if out.returncode != 0:
        raise RuntimeError(out.stdout + out.stderr)
    txt = out.stdout
    m = re.search(r"(?m)^@?" + re.escape(lemma) + r"\s", txt)
    body = txt[m.end():]
    body = body.strip()
    assert body.startswith(":"), body[:50]
    return body[1:].strip()


def gen(fname, header_comment, imports, spec, extra_tail=""):
    lines = ["(* %s *)" % header_comment, imports, ""]
    names = []
    for entry in spec:
        thm, lemma, comment = entry[:3]
        ty = closed_type(imports, lemma, implicit=len(entry) > 3 and entry[3])
        lines.append("(* %s *)" % comment)
        lines.append("Theorem %s :\n  %s.\nProof. exact @%s. Qed.\n" % (thm, ty.replace("\n", "\n  "), lemma))
        names.append(thm)
    if extra_tail:
        lines.append(extra_tail)
        names += re.findall(r"(?m)^\s*(?:Theorem|Corollary)\s+([\w']+)", extra_tail)
    for n in names:
        lines.append("Print Assumptions %s." % n)
    open(os.path.join(COQ, "Props", fname + ".v"), "w").write("\n".join(lines) + "\n")
    print("wrote", fname, len(names), "theorems")
