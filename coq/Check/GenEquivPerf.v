(* GenEquivPerf.v — the tie by translation, drawdown scan (C15).

   Gen/PerfGen.v is written by tools/rs2v.py from the text of example_clients/alator/src/perf/mod.rs on every run
   (CalculationAlgos::maxdd: a `for (pos, t1) in values.iter().enumerate()` loop over seven mutable locals, which the
   translator turns into one fold_left over (position, 7-tuple)). This file proves the generated function equal to
   Model/Perf.v's [maxdd] — a scan over a record state — for all inputs and for EVERY number class [Num F], under the
   valuation of the quirk flag that describes the code as it is now (the repaired one: the positions realising the
   maximum are reported). Should the old defect return, this lemma stops compiling and the correspondence decides.

   Not part of _CoqProject; compiled into work/gen/ by driver/common.py's tie_by_translation after Gen/PerfGen.v. *)
From Coq Require Import List Bool Arith.
From Alator Require Import Model.Num Model.Quirks Model.Perf.
From Alator Require Gen.PerfGen.
Import ListNotations.

Section Sim.
Context {F : Type} {NF : Num F}.

(* the record state of the model as the tuple of locals of the code, in order of declaration *)
Definition dd_tuple (st : ddstate F) : F * F * nat * F * nat * nat * nat :=
  (dd_max st, dd_peak st, dd_peak_pos st, dd_trough st, dd_trough_pos st, dd_start st, dd_end st).

(* a step function on (position, tuple) that simulates dd_step simulates the whole scan *)
Lemma scan_simulation : forall (step : nat * (F * F * nat * F * nat * nat * nat) -> F -> nat * (F * F * nat * F * nat * nat * nat)),
  (forall pos st t1, step (pos, dd_tuple st) t1 = (S pos, dd_tuple (dd_step st pos t1))) ->
  forall vs st pos, fold_left step vs (pos, dd_tuple st) = (pos + length vs, dd_tuple (dd_scan st pos vs)).
Proof.
  intros step H vs. induction vs as [|v vs IH]; intros st pos; simpl.
  - rewrite Nat.add_0_r. reflexivity.
  - rewrite H, IH. simpl. rewrite Nat.add_succ_r. reflexivity.
Qed.

End Sim.

(* CalculationAlgos::maxdd *)
Lemma gen_maxdd_eq : forall (F : Type) (NF : Num F) (qk : quirks) (vs : list F),
  q_maxdd_last_positions qk = false ->
  PerfGen.maxdd vs = Perf.maxdd qk vs.
Proof.
  intros F NF qk vs Hq. unfold PerfGen.maxdd, Perf.maxdd. rewrite Hq. cbv zeta.
  match goal with |- context [fold_left ?f vs ?init] =>
    change init with (0, dd_tuple (@dd_init F NF)); rewrite (scan_simulation f) end.
  - simpl snd. destruct (dd_scan dd_init 0 vs); reflexivity.
  - intros pos st t1. destruct st. unfold dd_step, dd_tuple. simpl.
    repeat match goal with |- context [if ?c then _ else _] => destruct c end; reflexivity.
Qed.

(* the instance the correspondence compares with the code and the theorems of Props/C15.v are about *)
Lemma gen_maxdd_clean_eq : forall (F : Type) (NF : Num F) (vs : list F), PerfGen.maxdd vs = Perf.maxdd clean vs.
Proof. intros. apply gen_maxdd_eq. reflexivity. Qed.

Print Assumptions gen_maxdd_eq.
Print Assumptions gen_maxdd_clean_eq.
