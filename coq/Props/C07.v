(* C07 — a backtest visits every dataset date exactly once, in order, then stops. Statements only; for EVERY exchange (the server model is generic in it) and the defect-free valuation. The datasets the clock walks are those Penelope::add_quote builds (Model/Penelope.v): c07_dataset_* prove, for every loading script, the facts about datasets that the clock theorems and C01/C11 take as premises. *)
From Coq Require Import ZArith NArith List Bool String Permutation Sorted Floats.
From Alator Require Import Model.Num Model.Quirks Model.Exchange Model.Uist Model.Jura Model.Server
  Proofs.ListAux Proofs.ExchangeProofs Proofs.UistProofs Proofs.JuraProofs Proofs.ExchangeCorollaries
  Proofs.ServerProofs Model.Penelope Proofs.PenelopeProofs.
Import ListNotations.
Local Open Scope num_scope.

(* A new backtest shows the first date, position 0. *)
Theorem c07_fresh_backtest_clock :
  forall (X Row : Type) (x_init : X) (d : dataset Row) (d0 : Z) (name : string),
         get_date d 0 = Some d0 ->
         clock_ok d {| bt_date := d0; bt_pos := 0; bt_exch := x_init; bt_dataset := name |} 0.
Proof. exact @clock_fresh. Qed.

(* init / new_backtest create exactly that: a backtest at the first date with a fresh exchange. *)
Theorem c07_create_spec :
  forall (X Row Ordr Key TOut : Type) (x_init : X)
           (x_tick : X -> Row -> list nat -> option (X * TOut)) (x_insert : X -> Ordr -> X)
           (x_delete : X -> Key -> X) (empty_out : TOut) (is_jura : bool) 
           (s : app X Row) (o : sop Ordr Key) (name : string) (s' : app X Row) 
           (i : N),
         o = SInit name \/ o = SNew name ->
         SInv s ->
         sstep x_init x_tick x_insert x_delete empty_out clean is_jura s o = (s', RId (Some i)) ->
         exists (d : dataset Row) (d0 : Z),
           slookup (datasets s) name = Some d /\
           get_date d 0 = Some d0 /\
           nlookup (backtests s') i =
           Some {| bt_date := d0; bt_pos := 0; bt_exch := x_init; bt_dataset := name |} /\
           (forall j : N, j <> i -> nlookup (backtests s') j = nlookup (backtests s) j) /\
           last s' = i.
Proof. exact @create_spec. Qed.

(* The k+1-th tick matches orders against exactly the row of the date the clock shows after k ticks (nothing when the dataset has no row for it), then shows date index min(k+1, N-1) and reports has_next iff k+1 < N. *)
Theorem c07_tick :
  forall (X Row TOut : Type) (x_tick : X -> Row -> list nat -> option (X * TOut))
           (empty_out : TOut) (is_jura : bool) (d : dataset Row) (b : backtest X)
           (perm : list nat) (b' : backtest X) (hn : bool) (out : TOut) 
           (k : nat),
         clock_ok d b k ->
         bt_tick x_tick empty_out clean is_jura d b perm = Some (b', (hn, out)) ->
         clock_ok d b' (S k) /\
         hn = (S k <? Datatypes.length (ds_dates d))%nat /\
         bt_dataset b' = bt_dataset b /\
         match get_quotes d (bt_date b) with
         | Some row => x_tick (bt_exch b) row perm = Some (bt_exch b', out)
         | None => bt_exch b' = bt_exch b /\ out = empty_out
         end.
Proof. exact @tick1_spec. Qed.

(* After ANY interleaving of operations the clock of a backtest has advanced by exactly the number of its successful ticks; no other operation moves it. *)
Theorem c07_clock_after_history :
  forall (X Row Ordr Key TOut : Type) (x_init : X)
           (x_tick : X -> Row -> list nat -> option (X * TOut)) (x_insert : X -> Ordr -> X)
           (x_delete : X -> Key -> X) (empty_out : TOut) (is_jura : bool) 
           (s : app X Row) (j : N) (b : backtest X) (d : dataset Row) 
           (k : nat) (ops : list (sop Ordr Key)),
         SInv s ->
         nlookup (backtests s) j = Some b ->
         slookup (datasets s) (bt_dataset b) = Some d ->
         clock_ok d b k ->
         exists b' : backtest X,
           nlookup
             (backtests
                (fst (srun x_init x_tick x_insert x_delete empty_out clean is_jura s ops))) j =
           Some b' /\
           bt_dataset b' = bt_dataset b /\
           clock_ok d b' (k + ticks_on x_init x_tick x_insert x_delete empty_out is_jura j s ops).
Proof. exact @clock_run. Qed.

(* `now` answers the clock date and has_next iff k < N. *)
Theorem c07_now :
  forall (X Row Ordr Key TOut : Type) (x_init : X)
           (x_tick : X -> Row -> list nat -> option (X * TOut)) (x_insert : X -> Ordr -> X)
           (x_delete : X -> Key -> X) (empty_out : TOut) (is_jura : bool) 
           (s : app X Row) (j : N) (b : backtest X) (d : dataset Row) 
           (k : nat),
         nlookup (backtests s) j = Some b ->
         slookup (datasets s) (bt_dataset b) = Some d ->
         clock_ok d b k ->
         sstep x_init x_tick x_insert x_delete empty_out clean is_jura s (SNow j) =
         (s, RNow (Some (bt_date b, (k <? Datatypes.length (ds_dates d))%nat))).
Proof. exact @now_spec. Qed.

(* fetch_quotes shows the row of the clock date — never a row of another (later) date. *)
Theorem c07_fetch_quotes :
  forall (X Row Ordr Key TOut : Type) (x_init : X)
           (x_tick : X -> Row -> list nat -> option (X * TOut)) (x_insert : X -> Ordr -> X)
           (x_delete : X -> Key -> X) (empty_out : TOut) (is_jura : bool) 
           (s : app X Row) (j : N) (b : backtest X) (d : dataset Row),
         nlookup (backtests s) j = Some b ->
         slookup (datasets s) (bt_dataset b) = Some d ->
         sstep x_init x_tick x_insert x_delete empty_out clean is_jura s (SFetch j) =
         (s, RFetch (get_quotes d (bt_date b))).
Proof. exact @fetch_spec. Qed.

(* A client looping `while has_next { tick }` from a backtest that has done k <= N ticks performs exactly N - k more ticks whenever it returns … *)
Theorem c07_loop_count :
  forall (X Row Ordr Key TOut : Type) (x_init : X)
           (x_tick : X -> Row -> list nat -> option (X * TOut)) (x_insert : X -> Ordr -> X)
           (x_delete : X -> Key -> X) (empty_out : TOut) (is_jura : bool) 
           (fuel : nat) (s : app X Row) (j : N) (b : backtest X) (d : dataset Row) 
           (k : nat) (perms : nat -> list nat) (done : nat) (s' : app X Row) 
           (n : nat),
         SInv s ->
         nlookup (backtests s) j = Some b ->
         slookup (datasets s) (bt_dataset b) = Some d ->
         clock_ok d b k ->
         k <= Datatypes.length (ds_dates d) ->
         client_loop x_init x_tick x_insert x_delete empty_out clean is_jura fuel s j perms done =
         Some (s', n) -> n = (done + (Datatypes.length (ds_dates d) - k))%nat.
Proof. exact @client_loop_count. Qed.

(* … and it returns for any fuel above N - k when the exchange does not panic: the loop terminates after exactly N ticks from a fresh backtest. *)
Theorem c07_loop_terminates :
  forall (X Row Ordr Key TOut : Type) (x_init : X)
           (x_tick : X -> Row -> list nat -> option (X * TOut)) (x_insert : X -> Ordr -> X)
           (x_delete : X -> Key -> X) (empty_out : TOut) (is_jura : bool) 
           (fuel : nat) (s : app X Row) (j : N) (b : backtest X) (d : dataset Row) 
           (k : nat) (perms : nat -> list nat) (done : nat),
         SInv s ->
         nlookup (backtests s) j = Some b ->
         slookup (datasets s) (bt_dataset b) = Some d ->
         clock_ok d b k ->
         k <= Datatypes.length (ds_dates d) ->
         (forall (x : X) (row : Row) (p : list nat), x_tick x row p <> None) ->
         Datatypes.length (ds_dates d) - k < fuel ->
         exists s' : app X Row,
           client_loop x_init x_tick x_insert x_delete empty_out clean is_jura fuel s j perms
             done = Some (s', (done + (Datatypes.length (ds_dates d) - k))%nat).
Proof. exact @client_loop_terminates. Qed.

(* Dataset: whatever the order and repetition in which quotes are added, the dates a backtest walks are the DISTINCT dates of the loading script in order of first appearance — no date twice. *)
Theorem c07_dataset_dates :
  forall (F : Type) (calls : list (F * F * Z * string)),
         ds_dates (load calls) = rev (nodup Z.eq_dec (rev (map c_date calls))).
Proof. exact @load_dates. Qed.

(* Dataset: a script whose dates never go back (any number of symbols per date, quotes re-added at will) yields strictly increasing dates d1 < ... < dN. *)
Theorem c07_dataset_dates_increasing :
  forall (F : Type) (calls : list (F * F * Z * string)),
         StronglySorted Z.le (map c_date calls) -> StronglySorted Z.lt (ds_dates (load calls)).
Proof. exact @load_sorted. Qed.

(* Dataset: dates are pairwise distinct, there is exactly one row per date in the same order, every row is keyed uniquely, non-empty, and each of its quotes carries the row's date and its own symbol. *)
Theorem c07_dataset_invariant :
  forall (F : Type) (calls : list (F * F * Z * string)), PInv (load calls).
Proof. exact @load_inv. Qed.

(* Dataset: every quote a row shows is dated with that row's date and filed under its own symbol (so a client is never shown a quote dated otherwise than the clock). *)
Theorem c07_dataset_rows_own_date :
  forall (F : Type) (calls : list (F * F * Z * string)) (date : Z) 
           (row : prow F) (k : string) (q : quote F),
         get_quotes (load calls) date = Some row ->
         In (k, q) row -> q_date q = date /\ q_symbol q = k.
Proof. exact @load_rows_own_date. Qed.

(* Dataset: a date has a row exactly when it is one of the dataset's dates, so a tick never meets a missing row. *)
Theorem c07_dataset_row_iff_date :
  forall (F : Type) (calls : list (F * F * Z * string)) (date : Z),
         get_quotes (load calls) date <> None <-> In date (ds_dates (load calls)).
Proof. exact @load_row_iff_date. Qed.

(* Dataset: for every (date, symbol) the quote shown is the LAST one added for that pair, and nothing is shown for a pair never added (specification written independently as a recursion over the script). *)
Theorem c07_dataset_shows_last_added :
  forall (F : Type) (calls : list (F * F * Z * string)) (d : Z) (s : string),
         shown (load calls) d s = last_call calls d s.
Proof. exact @load_shows_last_call. Qed.

(* Refuted for the Jura service as it was (pos never stored): on a 3-date dataset has_next stays true for ever and the clock parks on the second date (kernel-evaluated witness). *)
Theorem c07_refuted_q_jura_pos_stuck :
  let qk :=
           {|
             q_init_no_bump := false;
             q_jura_pos_stuck := true;
             q_jura_sell_triggers_inverted := false;
             q_send_dropped_future := false;
             q_limit_panics := false;
             q_liq_ceil_precedence := false;
             q_diff_break := false;
             q_diff_direction_flip := false;
             q_strategy_ncf_self_add := false;
             q_maxdd_last_positions := false;
             q_liq_fail_debit := false;
             q_jura_http_drops_triggered := false
           |} in
         let ds :=
           [("A"%string,
             {| ds_dates := [1%Z; 2%Z; 3%Z]; ds_rows := [(1%Z, tt); (2%Z, tt); (3%Z, tt)] |})] in
         let st :=
           sstep tt (fun (x _ : unit) (_ : list nat) => Some (x, tt)) 
             (fun x _ : unit => x) (fun x _ : unit => x) tt qk true in
         let s0 := app_create ds in
         let
         '(s1, _) := st s0 (SNew "A") in
          let
          '(s2, _) := st s1 (STick 1 []) in
           let
           '(s4, _) := st s2 (STick 1 []) in
            let
            '(s6, r4) := st s4 (STick 1 []) in
             let
             '(s7, r5) := st s6 (STick 1 []) in
              r4 = RTick (Some (true, tt)) /\
              r5 = RTick (Some (true, tt)) /\
              option_map (fun b : backtest unit => (bt_date b, bt_pos b))
                (nlookup (backtests s7) 1) = Some (2%Z, 0).
Proof. exact @c07_refuted_q_jura_pos_stuck. Qed.

Print Assumptions c07_fresh_backtest_clock.
Print Assumptions c07_create_spec.
Print Assumptions c07_tick.
Print Assumptions c07_clock_after_history.
Print Assumptions c07_now.
Print Assumptions c07_fetch_quotes.
Print Assumptions c07_loop_count.
Print Assumptions c07_loop_terminates.
Print Assumptions c07_dataset_dates.
Print Assumptions c07_dataset_dates_increasing.
Print Assumptions c07_dataset_invariant.
Print Assumptions c07_dataset_rows_own_date.
Print Assumptions c07_dataset_row_iff_date.
Print Assumptions c07_dataset_shows_last_added.
Print Assumptions c07_refuted_q_jura_pos_stuck.
