(* Harness for comparing Model/Sort.v against dumps produced by the Rust program
   (validate/../rs).  An element is (tag, key); comparators are given as data:
   [kind] selects the comparator family (same numbering as in main.rs). *)
From Coq Require Import List NArith Bool.
From Alator Require Import Model.Sort.
Import ListNotations.
Local Open Scope N_scope.

Definition elem := (N * N)%type.

Definition hash_bit (ta tb seed : N) : bool :=
  let x := (ta * 1000003 + tb * 7919 + seed) mod 2 ^ 32 in
  let y := x * 2654435761 in
  N.testbit y 31.

(* is_less a b  <->  compare(a, b) == Ordering::Less *)
Definition is_less_kind (kind seed : N) (a b : elem) : bool :=
  let '(ta, ka) := a in
  let '(tb, kb) := b in
  match kind with
  | 0 => N.odd ka                          (* exchange comparator: sell => Less, else Greater *)
  | 1 => ka <? kb
  | 2 => kb <? ka
  | 3 => false
  | 4 => (ka mod 3) <? (kb mod 5)
  | 5 => hash_bit ta tb seed
  | 6 => (ka mod 3) =? 0
  | 7 => true
  | 8 => N.odd kb
  | _ => false
  end.

Fixpoint tag_from (i : N) (keys : list N) : list elem :=
  match keys with
  | [] => []
  | k :: t => (i, k) :: tag_from (i + 1) t
  end.

Fixpoint eq_tags (r : list elem) (e : list N) : bool :=
  match r, e with
  | [], [] => true
  | (t, _) :: r', t' :: e' => (t =? t') && eq_tags r' e'
  | _, _ => false
  end.

Inductive verdict := OK | FAIL_result | FAIL_status | FAIL_fuel | FAIL_abort.

(* [panicked]: the Rust sort panicked; [expected]: tags left in the slice. *)
Definition check (freeze : bool) (size kind seed : N) (keys : list N)
           (panicked : bool) (expected : list N) : verdict :=
  match stable_sort freeze size (is_less_kind kind seed) (tag_from 0 keys) with
  | Done r => if panicked then FAIL_status else if eq_tags r expected then OK else FAIL_result
  | Panic r => if panicked then (if eq_tags r expected then OK else FAIL_result) else FAIL_status
  | OutOfFuel => FAIL_fuel
  | Abort => FAIL_abort
  end.

(* polynomial checksum of the tag sequence, for very long cases *)
Definition checksum (r : list elem) : N :=
  fold_left (fun h e => (h * 1000003 + fst e + 1) mod 2305843009213693951) r 0.

Definition check_sum (freeze : bool) (size kind seed : N) (keys : list N)
           (panicked : bool) (expected_sum : N) : verdict :=
  match stable_sort freeze size (is_less_kind kind seed) (tag_from 0 keys) with
  | Done r => if panicked then FAIL_status else if checksum r =? expected_sum then OK else FAIL_result
  | Panic r => if panicked then (if checksum r =? expected_sum then OK else FAIL_result) else FAIL_status
  | OutOfFuel => FAIL_fuel
  | Abort => FAIL_abort
  end.
