(* ====================================================================== *)
(*  Model/Sort.v                                                            *)
(*                                                                          *)
(*  An executable Gallina model of Rust's stable `slice::sort_by`           *)
(*  ("driftsort") as shipped with rustc 1.95.0 on a 64-bit target,          *)
(*  `feature = "optimize_for_size"` off.                                    *)
(*                                                                          *)
(*  Transcribed function by function from                                   *)
(*     library/alloc/src/slice.rs            (sort_by, stable_sort, BufGuard)*)
(*     library/core/src/slice/sort/stable/{mod,drift,merge,quicksort}.rs    *)
(*     library/core/src/slice/sort/shared/{mod,pivot,smallsort}.rs          *)
(*  The Rust names are kept (in comments where the Gallina name differs).   *)
(*                                                                          *)
(*  Definitions only; no proofs here.  Everything is total and computable.  *)
(*                                                                          *)
(*  Modelling conventions                                                   *)
(*  - a slice `&mut [T]` is a `list A`; a function that mutates a slice     *)
(*    returns the new contents of that slice;                               *)
(*  - the scratch buffer is write-before-read everywhere, so only its       *)
(*    length `slen` (= `scratch.len()`) is modelled;                        *)
(*  - `is_less` is a pure total function (it does not panic and does not    *)
(*    mutate); it need NOT be a strict weak order: the model follows the    *)
(*    Rust code for any `is_less`;                                          *)
(*  - the one panic the sort itself can raise                               *)
(*    (`panic_on_ord_violation` in `bidirectional_merge`) is an explicit    *)
(*    outcome `Panic v` carrying the contents the slice is left with when   *)
(*    the panic unwinds out of `sort_by`;                                   *)
(*  - `intrinsics::abort()` sites are the outcome `Abort` (they are         *)
(*    unreachable from `sort`);                                             *)
(*  - non-structural loops take explicit fuel; running out is `OutOfFuel`.  *)
(* ====================================================================== *)

From Coq Require Import List NArith Bool.
Import ListNotations.
Local Open Scope N_scope.

Set Implicit Arguments.

(* ---------------------------------------------------------------------- *)
(*  Outcomes                                                              *)
(* ---------------------------------------------------------------------- *)

Inductive outcome (A T : Type) : Type :=
| Done (x : T)            (* normal return *)
| Panic (v : list A)      (* sort panicked; [v] = contents of the current slice *)
| OutOfFuel               (* model artefact *)
| Abort.                  (* intrinsics::abort(), unreachable from `sort` *)

Arguments Done {A T} x.
Arguments Panic {A T} v.
Arguments OutOfFuel {A T}.
Arguments Abort {A T}.

(* [bind_ctx o wrap k]: continue with [k] on normal return; if the callee
   panicked on a sub-slice, [wrap] rebuilds the caller's whole slice around
   the callee's slice contents. *)
Definition bind_ctx {A T U : Type} (o : outcome A T) (wrap : list A -> list A)
           (k : T -> outcome A U) : outcome A U :=
  match o with
  | Done x => k x
  | Panic v => Panic (wrap v)
  | OutOfFuel => OutOfFuel
  | Abort => Abort
  end.

(* ---------------------------------------------------------------------- *)
(*  Small list / N helpers                                                *)
(* ---------------------------------------------------------------------- *)

Definition lenN {A} (l : list A) : N := N.of_nat (length l).
Definition firstnN {A} (n : N) (l : list A) : list A := firstn (N.to_nat n) l.
Definition skipnN {A} (n : N) (l : list A) : list A := skipn (N.to_nat n) l.
Definition nthN {A} (n : N) (l : list A) (d : A) : A := nth (N.to_nat n) l d.

(* usize::div_ceil *)
Definition div_ceil (a b : N) : N := (a + b - 1) / b.

Section Sort.

Context {A : Type}.

(* `T: Freeze` (no interior mutability)?  Selects the
   `StableSmallSortTypeImpl` instance and whether quicksort passes a pivot
   copy down as `left_ancestor_pivot`. *)
Variable freeze : bool.
(* `size_of::<T>()` in bytes. *)
Variable size_of : N.
Variable is_less : A -> A -> bool.

Notation out := (outcome A).

(* ====================================================================== *)
(*  shared/smallsort.rs                                                   *)
(* ====================================================================== *)

Definition SMALL_SORT_FALLBACK_THRESHOLD : N := 16.
Definition SMALL_SORT_GENERAL_THRESHOLD : N := 32.
Definition SMALL_SORT_GENERAL_SCRATCH_LEN : N := SMALL_SORT_GENERAL_THRESHOLD + 16.

(* <T as StableSmallSortTypeImpl>::small_sort_threshold() *)
Definition small_sort_threshold : N :=
  if freeze then SMALL_SORT_GENERAL_THRESHOLD else SMALL_SORT_FALLBACK_THRESHOLD.

(* insert_tail(begin, tail): [begin, tail) is given REVERSED as [rp]
   (head of [rp] = *(tail-1)), [x] = *tail; result is the reversed
   contents of [begin, tail].
     if !is_less(tail, sift) return;
     loop { *dst = *sift; dst = sift; if sift == begin break;
            sift -= 1; if !is_less(tmp, sift) break; }   *dst = tmp *)
Fixpoint insert_tail_rev (x : A) (rp : list A) : list A :=
  match rp with
  | [] => [x]
  | e :: rp' => if is_less x e then e :: insert_tail_rev x rp' else x :: rp
  end.

(* The loop `for each tail in rest: insert_tail(begin, tail)` starting from
   the already-processed prefix [pre]. *)
Definition insert_tails (pre rest : list A) : list A :=
  rev (fold_left (fun rp x => insert_tail_rev x rp) rest (rev pre)).

(* insertion_sort_shift_left(v, offset, is_less) *)
Definition insertion_sort_shift_left (v : list A) (offset : N) : out (list A) :=
  if (offset =? 0) || (lenN v <? offset) then Abort
  else Done (insert_tails (firstnN offset v) (skipnN offset v)).

(* sort4_stable(v_base, dst, is_less): reads v_base[0..4], writes dst[0..4] *)
Definition sort4_stable (v0 v1 v2 v3 : A) : list A :=
  let c1 := is_less v1 v0 in
  let c2 := is_less v3 v2 in
  let a := if c1 then v1 else v0 in      (* v_base.add(c1) *)
  let b := if c1 then v0 else v1 in      (* v_base.add(!c1) *)
  let c := if c2 then v3 else v2 in      (* v_base.add(2 + c2) *)
  let d := if c2 then v2 else v3 in      (* v_base.add(2 + !c2) *)
  let c3 := is_less c a in
  let c4 := is_less d b in
  let mn := if c3 then c else a in
  let mx := if c4 then b else d in
  let unknown_left := if c3 then a else (if c4 then c else b) in
  let unknown_right := if c4 then d else (if c3 then b else c) in
  let c5 := is_less unknown_right unknown_left in
  let lo := if c5 then unknown_right else unknown_left in
  let hi := if c5 then unknown_left else unknown_right in
  [mn; lo; hi; mx].

(* sort4_stable applied to the first four elements of a list *)
Definition sort4_stable_l (l : list A) : option (list A) :=
  match l with
  | v0 :: v1 :: v2 :: v3 :: _ => Some (sort4_stable v0 v1 v2 v3)
  | _ => None
  end.

(* The `for _ in 0..len_div_2 { merge_up; merge_down }` loop of
   bidirectional_merge.  Pointers into `src` are indices; we keep
   left_end = left_rev + 1 and right_end = right_rev + 1 instead of
   left_rev / right_rev (which may wrap to src-1 after the last iteration).
   [front] is dst[0..] reversed, [back] is dst[..len] from dst_rev+1. *)
Fixpoint bidir_loop (n : nat) (src : list A) (d : A)
         (lft rgt lft_end rgt_end : N) (front back : list A)
  : N * N * N * N * list A * list A :=
  match n with
  | O => (lft, rgt, lft_end, rgt_end, front, back)
  | S n' =>
    (* merge_up(left, right, dst) *)
    let l := nthN lft src d in
    let r := nthN rgt src d in
    let is_l := negb (is_less r l) in
    let front' := (if is_l then l else r) :: front in
    let lft' := if is_l then lft + 1 else lft in
    let rgt' := if is_l then rgt else rgt + 1 in
    (* merge_down(left_rev, right_rev, dst_rev) *)
    let lr := nthN (lft_end - 1) src d in
    let rr := nthN (rgt_end - 1) src d in
    let is_l2 := negb (is_less rr lr) in
    let back' := (if is_l2 then rr else lr) :: back in
    let rgt_end' := if is_l2 then rgt_end - 1 else rgt_end in
    let lft_end' := if is_l2 then lft_end else lft_end - 1 in
    bidir_loop n' src d lft' rgt' lft_end' rgt_end' front' back'
  end.

(* bidirectional_merge(v = src, dst, is_less); requires len >= 2.
   [Some dst] on normal return, [None] = panic_on_ord_violation(). *)
Definition bidirectional_merge (src : list A) : option (list A) :=
  match src with
  | [] => None (* unreachable: len >= 2 *)
  | d :: _ =>
    let len := lenN src in
    let len_div_2 := len / 2 in
    match bidir_loop (N.to_nat len_div_2) src d 0 len_div_2 len_div_2 len [] [] with
    | (lft, rgt, lft_end, rgt_end, front, back) =>
      let odd := negb (len mod 2 =? 0) in
      let left_nonempty := lft <? lft_end in
      let front' := if odd then (if left_nonempty then nthN lft src d else nthN rgt src d) :: front
                    else front in
      let lft' := if odd && left_nonempty then lft + 1 else lft in
      let rgt' := if odd && negb left_nonempty then rgt + 1 else rgt in
      if negb (lft' =? lft_end) || negb (rgt' =? rgt_end)
      then None
      else Some (rev_append front' back)
    end
  end.

(* sort8_stable(v_base, dst, scratch_base): v_base[0..8] -> dst[0..8] *)
Definition sort8_stable_l (l : list A) : out (option (list A)) :=
  match sort4_stable_l l, sort4_stable_l (skipn 4 l) with
  | Some s1, Some s2 => Done (bidirectional_merge (s1 ++ s2))
  | _, _ => Abort
  end.

(* small_sort_general_with_scratch(v, scratch, is_less) *)
Definition small_sort_general_with_scratch (v : list A) (slen : N) : out (list A) :=
  let len := lenN v in
  if len <? 2 then Done v
  else if slen <? len + 16 then Abort
  else
    let len_div_2 := len / 2 in
    let src1 := firstnN len_div_2 v in     (* v[0 .. len_div_2] *)
    let src2 := skipnN len_div_2 v in      (* v[len_div_2 .. len] *)
    (* presorted prefixes of the two halves of scratch, and presorted_len *)
    let pres : out (option (list A * list A * nat)) :=
      if (size_of <=? 16) && (16 <=? len) then
        match sort8_stable_l src1 with
        | Done (Some p1) =>
          match sort8_stable_l src2 with
          | Done (Some p2) => Done (Some (p1, p2, 8%nat))
          | Done None => Done None
          | Panic p => Panic p | OutOfFuel => OutOfFuel | Abort => Abort
          end
        | Done None => Done None
        | Panic p => Panic p | OutOfFuel => OutOfFuel | Abort => Abort
        end
      else if 8 <=? len then
        match sort4_stable_l src1, sort4_stable_l src2 with
        | Some p1, Some p2 => Done (Some (p1, p2, 4%nat))
        | _, _ => Abort
        end
      else Done (Some (firstn 1 src1, firstn 1 src2, 1%nat)) in
    match pres with
    | Done None => Panic v       (* panic inside sort8_stable: v not yet written *)
    | Done (Some (p1, p2, presorted_len)) =>
      (* for offset in [0, len_div_2] { for i in presorted_len..desired_len
           { dst[i] = src[i]; insert_tail(dst, dst+i) } } *)
      let h1 := insert_tails p1 (skipn presorted_len src1) in
      let h2 := insert_tails p2 (skipn presorted_len src2) in
      let scratch := h1 ++ h2 in
      match bidirectional_merge scratch with
      | Some r => Done r
      | None => Panic scratch     (* CopyOnDrop: scratch[0..len] -> v, then unwind *)
      end
    | Panic p => Panic p | OutOfFuel => OutOfFuel | Abort => Abort
    end.

(* <T as StableSmallSortTypeImpl>::small_sort(v, scratch, is_less) *)
Definition small_sort (v : list A) (slen : N) : out (list A) :=
  if freeze then small_sort_general_with_scratch v slen
  else if 2 <=? lenN v then insertion_sort_shift_left v 1 else Done v.

(* ====================================================================== *)
(*  shared/pivot.rs                                                       *)
(* ====================================================================== *)

Definition PSEUDO_MEDIAN_REC_THRESHOLD : N := 64.

(* median3(a, b, c): pointers are indices into v *)
Definition median3 (v : list A) (d : A) (a b c : N) : N :=
  let va := nthN a v d in
  let vb := nthN b v d in
  let vc := nthN c v d in
  let x := is_less va vb in
  let y := is_less va vc in
  if Bool.eqb x y then
    let z := is_less vb vc in
    if xorb z x then c else b
  else a.

(* median3_rec(a, b, c, n) *)
Fixpoint median3_rec (fuel : nat) (v : list A) (d : A) (a b c n : N) : option N :=
  match fuel with
  | O => None
  | S f =>
    if PSEUDO_MEDIAN_REC_THRESHOLD <=? n * 8 then
      let n8 := n / 8 in
      match median3_rec f v d a (a + n8 * 4) (a + n8 * 7) n8,
            median3_rec f v d b (b + n8 * 4) (b + n8 * 7) n8,
            median3_rec f v d c (c + n8 * 4) (c + n8 * 7) n8 with
      | Some a', Some b', Some c' => Some (median3 v d a' b' c')
      | _, _, _ => None
      end
    else Some (median3 v d a b c)
  end.

(* choose_pivot(v, is_less) -> index *)
Definition choose_pivot (v : list A) : out N :=
  match v with
  | [] => Abort
  | d :: _ =>
    let len := lenN v in
    if len <? 8 then Abort
    else
      let len_div_8 := len / 8 in
      let a := 0 in
      let b := len_div_8 * 4 in
      let c := len_div_8 * 7 in
      if len <? PSEUDO_MEDIAN_REC_THRESHOLD then Done (median3 v d a b c)
      else match median3_rec (S (N.to_nat len_div_8)) v d a b c len_div_8 with
           | Some i => Done i
           | None => OutOfFuel
           end
  end.

(* ====================================================================== *)
(*  stable/quicksort.rs : stable_partition                                *)
(* ====================================================================== *)

(* stable_partition(v, scratch, pivot_pos, pivot_goes_left, less).
   Returns (v[..num_left], v[num_left..]) of the slice after the call, so
   num_left = length of the first component and the new contents of v is
   their concatenation.  Elements for which less(e, pivot) holds go left,
   the others go right, both in their original relative order (the right
   side is written to scratch back to front and copied back reversed);
   the pivot itself is not compared but placed per pivot_goes_left. *)
Definition stable_partition (v : list A) (slen : N) (pivot_pos : N) (pivot_goes_left : bool)
           (less : A -> A -> bool) : out (list A * list A) :=
  let len := lenN v in
  if (slen <? len) || (len <=? pivot_pos) then Abort
  else
    let pre := firstnN pivot_pos v in
    match skipnN pivot_pos v with
    | [] => Abort
    | p :: post =>
      let f := fun e => less e p in
      let nf := fun e => negb (less e p) in
      Done (filter f pre ++ (if pivot_goes_left then [p] else []) ++ filter f post,
            filter nf pre ++ (if pivot_goes_left then [] else [p]) ++ filter nf post)
    end.

(* ====================================================================== *)
(*  stable/merge.rs                                                       *)
(* ====================================================================== *)

(* MergeState::merge_up: [l] = the (shorter) left run copied to scratch,
   [r] = the right run in place.  Followed by MergeState::drop. *)
Fixpoint merge_up (l : list A) : list A -> list A :=
  fix merge_up_aux (r : list A) : list A :=
    match l, r with
    | [], _ => r
    | _, [] => l          (* drop: copy the rest of the scratch copy *)
    | a :: l', b :: r' =>
      if negb (is_less b a)   (* consume_left = !is_less(&*right, &**left) *)
      then a :: merge_up l' r
      else b :: merge_up_aux r'
    end.

(* MergeState::merge_down on REVERSED runs: [rl] = rev left (in place),
   [rr] = rev right (in scratch); result is the reversed merged slice. *)
Fixpoint merge_down_rev (rl : list A) : list A -> list A :=
  fix merge_down_aux (rr : list A) : list A :=
    match rl, rr with
    | [], _ => rr         (* drop: copy the rest of the scratch copy *)
    | _, [] => rl
    | a :: rl', b :: rr' =>
      if is_less b a          (* consume_left = is_less(&*right, &*left) *)
      then a :: merge_down_rev rl' rr
      else b :: merge_down_aux rr'
    end.

(* merge(v, scratch, mid, is_less) with v = left ++ right, mid = |left| *)
Definition merge (lft rgt : list A) (slen : N) : list A :=
  let mid := lenN lft in
  let rlen := lenN rgt in
  if (mid =? 0) || (rlen =? 0) || (slen <? N.min mid rlen) then lft ++ rgt
  else if mid <=? rlen
       then merge_up lft rgt
       else rev (merge_down_rev (rev lft) (rev rgt)).

(* ====================================================================== *)
(*  shared/mod.rs : find_existing_run                                     *)
(* ====================================================================== *)

(* number of leading elements [e] of [l] (with moving predecessor [prev])
   satisfying is_less(e, prev) = desc *)
Fixpoint run_extend (desc : bool) (prev : A) (l : list A) : N :=
  match l with
  | [] => 0
  | e :: l' => if Bool.eqb (is_less e prev) desc then 1 + run_extend desc e l' else 0
  end.

(* find_existing_run(v, is_less) -> (run_len, strictly_descending) *)
Definition find_existing_run (v : list A) : N * bool :=
  match v with
  | [] => (0, false)
  | [_] => (1, false)
  | x0 :: x1 :: t =>
    let strictly_descending := is_less x1 x0 in
    (2 + run_extend strictly_descending x1 t, strictly_descending)
  end.

(* ====================================================================== *)
(*  stable/drift.rs                                                       *)
(* ====================================================================== *)

(* merge_tree_scale_factor(n) = (1u64 << 62).div_ceil(n) *)
Definition merge_tree_scale_factor (n : N) : N := div_ceil (2 ^ 62) n.

Definition u64 (x : N) : N := x mod 2 ^ 64.

(* merge_tree_depth(left, mid, right, scale_factor) *)
Definition merge_tree_depth (lft mid rgt scale_factor : N) : N :=
  let x := lft + mid in
  let y := mid + rgt in
  64 - N.size (N.lxor (u64 (scale_factor * x)) (u64 (scale_factor * y))).

(* sqrt_approx(n) *)
Definition sqrt_approx (n : N) : N :=
  let ilog := N.log2 (N.lor n 1) in
  let shift := div_ceil ilog 2 in
  (N.shiftl 1 shift + N.shiftr n shift) / 2.

(* DriftsortRun: Rust packs (len << 1) | sorted.  The model stores, with the
   flag, the contents of the sub-slice the run denotes; its Rust `len()` is
   the length of that list. *)
Record run := mkRun { run_elems : list A; run_sorted : bool }.
Definition run_len (r : run) : N := lenN (run_elems r).

Section Drift.

(* The (mutually recursive) callee `quicksort(v, scratch, limit,
   left_ancestor_pivot, is_less)`; see [quicksort] below. *)
Variable qs : list A -> N -> option A -> out (list A).
Variable slen : N.    (* scratch.len() *)

(* stable_quicksort(v, scratch, is_less) *)
Definition stable_quicksort (v : list A) : out (list A) :=
  let limit := 2 * N.log2 (N.lor (lenN v) 1) in
  qs v limit None.

(* logical_merge(v = left ++ right, scratch, left, right, is_less) *)
Definition logical_merge (lft rgt : run) : out run :=
  let l := run_elems lft in
  let r := run_elems rgt in
  let len := lenN l + lenN r in
  let can_fit_in_scratch := len <=? slen in
  if negb can_fit_in_scratch || run_sorted lft || run_sorted rgt then
    bind_ctx (if run_sorted lft then Done l else stable_quicksort l)
             (fun p => p ++ r)
             (fun l' =>
    bind_ctx (if run_sorted rgt then Done r else stable_quicksort r)
             (fun p => l' ++ p)
             (fun r' =>
    Done (mkRun (merge l' r' slen) true)))
  else Done (mkRun (l ++ r) false).

(* create_run(v, scratch, min_good_run_len, eager_sort, is_less):
   returns the run (with the new contents of v[..run.len()]) and v[run.len()..] *)
Definition create_run (v : list A) (min_good_run_len : N) (eager_sort : bool)
  : out (run * list A) :=
  let len := lenN v in
  let existing :=
      if min_good_run_len <=? len then
        let '(rl, was_reversed) := find_existing_run v in
        if min_good_run_len <=? rl then
          let pre := firstnN rl v in
          Some (mkRun (if was_reversed then rev pre else pre) true, skipnN rl v)
        else None
      else None in
  match existing with
  | Some res => Done res
  | None =>
    if eager_sort then
      let eager_run_len := N.min small_sort_threshold len in
      let pre := firstnN eager_run_len v in
      let post := skipnN eager_run_len v in
      bind_ctx (qs pre 0 None) (fun p => p ++ post)
               (fun pre' => Done (mkRun pre' true, post))
    else
      let n := N.min min_good_run_len len in
      Done (mkRun (firstnN n v) false, skipnN n v)
  end.

(* the contents of v[..scan_idx - prev_run.len()] described by the run stack
   (top of stack first) *)
Definition stack_elems (stack : list (run * N)) : list A :=
  concat (rev (map (fun e => run_elems (fst e)) stack)).

(* while stack_len > 1 && desired_depths[stack_len-1] >= desired_depth
     { left = runs[stack_len-1]; prev_run = logical_merge(.., left, prev_run); stack_len -= 1 }
   [after] = v[scan_idx..] (only needed to report the slice on panic). *)
Fixpoint collapse (stack : list (run * N)) (prev : run) (desired_depth : N) (after : list A)
  : out (list (run * N) * run) :=
  match stack with
  | (lft, depth) :: ((_ :: _) as stack') =>
    if desired_depth <=? depth then
      bind_ctx (logical_merge lft prev)
               (fun p => stack_elems stack' ++ p ++ after)
               (fun prev' => collapse stack' prev' desired_depth after)
    else Done (stack, prev)
  | _ => Done (stack, prev)
  end.

(* the main `loop` of drift::sort.  [stack] = (runs, desired_depths)[..stack_len]
   (top first), [prev] = prev_run, [rest] = v[scan_idx..]. *)
Fixpoint drift_loop (fuel : nat) (len scale_factor min_good_run_len : N) (eager_sort : bool)
         (stack : list (run * N)) (prev : run) (scan_idx : N) (rest : list A)
  : out (list A) :=
  match fuel with
  | O => OutOfFuel
  | S fuel' =>
    let before := stack_elems stack ++ run_elems prev in
    bind_ctx
      (if scan_idx <? len then
         bind_ctx (create_run rest min_good_run_len eager_sort) (fun p => p)
                  (fun '(next_run, rest') =>
                     Done (next_run, rest',
                           merge_tree_depth (scan_idx - run_len prev) scan_idx
                                            (scan_idx + run_len next_run) scale_factor))
       else Done (mkRun [] true, rest, 0))
      (fun p => before ++ p)
      (fun '(next_run, rest', desired_depth) =>
    bind_ctx (collapse stack prev desired_depth (run_elems next_run ++ rest'))
             (fun p => p)
             (fun '(stack', prev') =>
    let stack'' := (prev', desired_depth) :: stack' in
    if len <=? scan_idx then
      (* break; if !prev_run.sorted() { stable_quicksort(v, ..) } *)
      let v := stack_elems stack'' ++ run_elems next_run ++ rest' in
      if run_sorted prev' then Done v else stable_quicksort v
    else
      drift_loop fuel' len scale_factor min_good_run_len eager_sort
                 stack'' next_run (scan_idx + run_len next_run) rest'))
  end.

(* drift::sort(v, scratch, eager_sort, is_less) *)
Definition drift_sort (v : list A) (eager_sort : bool) : out (list A) :=
  let len := lenN v in
  if len <? 2 then Done v
  else
    let scale_factor := merge_tree_scale_factor len in
    let MIN_SQRT_RUN_LEN := 64 in
    let min_good_run_len :=
        if len <=? MIN_SQRT_RUN_LEN * MIN_SQRT_RUN_LEN
        then N.min (len - len / 2) MIN_SQRT_RUN_LEN
        else sqrt_approx len in
    drift_loop (S (S (length v))) len scale_factor min_good_run_len eager_sort
               [] (mkRun [] true) 0 v.

End Drift.

(* ====================================================================== *)
(*  stable/quicksort.rs : quicksort                                       *)
(* ====================================================================== *)

(* quicksort(v, scratch, limit, left_ancestor_pivot, is_less).
   One unit of fuel per iteration of the Rust `loop` / per recursive call;
   the slice gets strictly shorter each time, so S (length v) is enough. *)
Fixpoint quicksort (fuel : nat) (slen : N) (v : list A) (limit : N)
         (left_ancestor_pivot : option A) {struct fuel} : out (list A) :=
  match fuel with
  | O => OutOfFuel
  | S fuel' =>
    let len := lenN v in
    if len <=? small_sort_threshold then small_sort v slen
    else if limit =? 0 then
      drift_sort (quicksort fuel' slen) slen v true
    else
      let limit := limit - 1 in
      bind_ctx (choose_pivot v) (fun p => p) (fun pivot_pos =>
      match skipnN pivot_pos v with
      | [] => Abort
      | pivot :: _ =>
        let pivot_ref := if freeze then Some pivot else None in
        let perform_equal_partition0 :=
            match left_ancestor_pivot with
            | Some la_pivot => negb (is_less la_pivot pivot)
            | None => false
            end in
        (* first (normal) partition, unless skipped *)
        bind_ctx
          (if perform_equal_partition0 then Done (v, None)
           else bind_ctx (stable_partition v slen pivot_pos false is_less) (fun p => p)
                         (fun '(l, r) =>
                            match l with
                            | [] => Done (l ++ r, None)   (* left_partition_len == 0 *)
                            | _ => Done (l ++ r, Some (l, r))
                            end))
          (fun p => p)
          (fun '(v1, normal) =>
             match normal with
             | None =>
               (* perform_equal_partition *)
               bind_ctx (stable_partition v1 slen pivot_pos true
                                          (fun a b => negb (is_less b a)))
                        (fun p => p)
                        (fun '(l, r) =>
               (* v = &mut v[mid_eq..]; left_ancestor_pivot = None; continue *)
               bind_ctx (quicksort fuel' slen r limit None) (fun p => l ++ p)
                        (fun r' => Done (l ++ r')))
             | Some (l, r) =>
               (* quicksort(right, scratch, limit, pivot_ref, is_less); v = left *)
               bind_ctx (quicksort fuel' slen r limit pivot_ref) (fun p => l ++ p)
                        (fun r' =>
               bind_ctx (quicksort fuel' slen l limit left_ancestor_pivot) (fun p => p ++ r')
                        (fun l' => Done (l' ++ r')))
             end)
      end)
  end.

(* ====================================================================== *)
(*  stable/mod.rs                                                         *)
(* ====================================================================== *)

(* scratch.len() chosen by driftsort_main: AlignedStorage<T, 4096> if it has
   at least alloc_len elements, else Vec::with_capacity(alloc_len) whose
   spare capacity is exactly alloc_len. *)
Definition scratch_len (len : N) : N :=
  let MAX_FULL_ALLOC_BYTES := 8000000 in
  let max_full_alloc := MAX_FULL_ALLOC_BYTES / size_of in
  let alloc_len :=
      N.max (N.max (len - len / 2) (N.min len max_full_alloc))
            SMALL_SORT_GENERAL_SCRATCH_LEN in
  let stack_scratch_len := 4096 / size_of in
  if alloc_len <=? stack_scratch_len then stack_scratch_len else alloc_len.

(* driftsort_main::<T, F, Vec<T>>(v, is_less) *)
Definition driftsort_main (v : list A) : out (list A) :=
  let len := lenN v in
  let slen := scratch_len len in
  let eager_sort := len <=? small_sort_threshold * 2 in
  drift_sort (quicksort (S (length v)) slen) slen v eager_sort.

(* sort::<T, F, Vec<T>>(v, is_less) *)
Definition stable_sort (v : list A) : out (list A) :=
  if size_of =? 0 then Done v               (* T::IS_ZST *)
  else
    let len := lenN v in
    if len <? 2 then Done v
    else
      let MAX_LEN_ALWAYS_INSERTION_SORT := 20 in
      if len <=? MAX_LEN_ALWAYS_INSERTION_SORT
      then insertion_sort_shift_left v 1
      else driftsort_main v.

End Sort.

(* ---------------------------------------------------------------------- *)
(*  Entry points                                                          *)
(* ---------------------------------------------------------------------- *)

(* <[T]>::sort_by(compare) = stable_sort(v, |a, b| compare(a, b) == Less)
   for a Freeze element type of [size_of] bytes; [is_less a b] stands for
   [compare(a, b) == Less]. Full outcome (including the panic case). *)
Definition std_sort_by_outcome {A} (size_of : N) (is_less : A -> A -> bool) (l : list A)
  : outcome A (list A) :=
  stable_sort true size_of is_less l.

(* [Some r]: sort_by returns normally and leaves [r] in the slice.
   [None]: the sort panicked with "user-provided comparison function does not
   correctly implement a total order" (see [std_sort_by_outcome] for the
   slice contents in that case), or fuel ran out / an abort() site was hit
   (neither happens, cf. Proofs). *)
Definition std_sort_by {A} (size_of : N) (is_less : A -> A -> bool) (l : list A)
  : option (list A) :=
  match std_sort_by_outcome size_of is_less l with
  | Done r => Some r
  | _ => None
  end.

(* Same for element types with interior mutability (not Freeze). *)
Definition std_sort_by_outcome_nofreeze {A} (size_of : N) (is_less : A -> A -> bool) (l : list A)
  : outcome A (list A) :=
  stable_sort false size_of is_less l.
