(* Tagged.v — ghost instrumentation used to state C01 end to end as ONE theorem.
   The exchange skeleton is polymorphic in the order payload, so the very same [tick]/[step] can be run on
   orders that carry a ghost tag: the clock date the backtest server showed when the client submitted the
   order. A fill (and a trigger child) inherits the tag of the order it comes from. Erasing the tags gives
   back the untagged run (Proofs/EndToEnd.v: erasure lemmas), so a statement about tags is a statement about
   the model that is tied to the code. Also: the skeleton-level server (full tick output with ids) of which
   the Uist and Jura services are projections. Definitions only. *)
From Coq Require Import ZArith NArith List Bool String.
From Alator Require Import Model.Quirks Model.Exchange Model.Server.
Import ListNotations.

Section Tagged.
Context {Ord Qt T : Type}.
Context (asset_of : Ord -> N) (sym_of : Ord -> string) (is_sell : Ord -> bool)
        (decide : entry Ord -> Qt -> action Ord T).

(* ---- the skeleton-level server: a tick answers with (fills with ids, admitted, triggered ids) ---- *)
Definition sk_out : Type := (list (N * T) * list (N * Ord) * list N)%type.
Definition sk_tick (x : exch Ord T) (row : quotes Qt) (perm : list nat) : option (exch Ord T * sk_out) :=
  match tick asset_of sym_of is_sell decide x row perm with
  | (x', OutTick fl adm trig) => Some (x', (fl, adm, trig))
  | _ => None
  end.
Definition sk_insert (x : exch Ord T) (o : Ord) : exch Ord T :=
  fst (step asset_of sym_of is_sell decide x (Insert o)).
Definition sk_delete (x : exch Ord T) (k : key) : exch Ord T :=
  fst (step asset_of sym_of is_sell decide x (Delete k)).
Definition sk_sstep (qk : quirks) (is_jura : bool) :=
  sstep (exch_init : exch Ord T) sk_tick sk_insert sk_delete (([], [], []) : sk_out) qk is_jura.
Definition sk_srun (qk : quirks) (is_jura : bool) :=
  srun (exch_init : exch Ord T) sk_tick sk_insert sk_delete (([], [], []) : sk_out) qk is_jura.

(* ---- tags ---- *)
Definition tOrd : Type := (Ord * Z)%type.
Definition tT : Type := (T * Z)%type.

Definition untag_entry (e : entry tOrd) : entry Ord := mkEntry (e_id e) (fst (e_ord e)) (e_flag e).

Definition t_decide (e : entry tOrd) (q : Qt) : action tOrd tT :=
  match decide (untag_entry e) q with
  | ARest => ARest
  | AMark => AMark
  | AFill t => AFill (t, snd (e_ord e))
  | AExpire => AExpire
  | ATrigger c => ATrigger (c, snd (e_ord e))      (* a trigger child inherits its parent's submission date *)
  | APanic => APanic
  end.

Definition t_asset (o : tOrd) : N := asset_of (fst o).
Definition t_sym (o : tOrd) : string := sym_of (fst o).
Definition t_is_sell (o : tOrd) : bool := is_sell (fst o).

(* erasure *)
Definition erase_exch (x : exch tOrd tT) : exch Ord T :=
  mkExch (map untag_entry (book x)) (map fst (buffer x)) (next_id x) (map fst (xlog x)).
Definition erase_fill (p : N * tT) : N * T := (fst p, fst (snd p)).
Definition erase_adm (p : N * tOrd) : N * Ord := (fst p, fst (snd p)).

End Tagged.

(* the tagged server is the skeleton-level server at the tagged types *)
Section TaggedServer.
Context {Ord Qt T : Type}.
Context (asset_of : Ord -> N) (sym_of : Ord -> string) (is_sell : Ord -> bool)
        (decide : entry Ord -> Qt -> action Ord T).
Context (qk : quirks) (is_jura : bool).

Definition tapp : Type := app (exch (@tOrd Ord) (@tT T)) (quotes Qt).
Definition t_out : Type := @sk_out (@tOrd Ord) (@tT T).

Definition t_sstep : tapp -> sop (@tOrd Ord) key -> tapp * sres (quotes Qt) t_out :=
  sk_sstep (t_asset asset_of) (t_sym sym_of) (t_is_sell is_sell) (t_decide decide) qk is_jura.

(* the client's operation, with an order tagged by the date the clock of that backtest shows now *)
Definition tag_op (s : tapp) (o : sop Ord key) : sop (@tOrd Ord) key :=
  match o with
  | STick id p => STick id p
  | SFetch id => SFetch id
  | SInit n => SInit n
  | SNew n => SNew n
  | SInsert x id =>
      SInsert (x, match nlookup (backtests s) id with Some b => bt_date b | None => 0%Z end) id
  | SDelete k id => SDelete k id
  | SInfo id => SInfo id
  | SNow id => SNow id
  end.

Fixpoint t_run (s : tapp) (ops : list (sop Ord key)) : tapp * list (sres (quotes Qt) t_out) :=
  match ops with
  | [] => (s, [])
  | o :: r =>
      let '(s', x) := t_sstep s (tag_op s o) in
      let '(s'', xs) := t_run s' r in (s'', x :: xs)
  end.

Definition erase_app (s : tapp) : app (exch Ord T) (quotes Qt) :=
  mkApp (map (fun kb => (fst kb, mkBacktest (bt_date (snd kb)) (bt_pos (snd kb))
                                     (erase_exch (bt_exch (snd kb))) (bt_dataset (snd kb))))
             (backtests s))
        (last s) (datasets s).

Definition erase_out (o : t_out) : @sk_out Ord T :=
  (map erase_fill (fst (fst o)), map erase_adm (snd (fst o)), snd o).

Definition erase_res (r : sres (quotes Qt) t_out) : sres (quotes Qt) (@sk_out Ord T) :=
  match r with
  | RTick (Some (h, o)) => RTick (Some (h, erase_out o))
  | RTick None => RTick None
  | RFetch x => RFetch x
  | RId x => RId x
  | RUnit x => RUnit x
  | RInfo x => RInfo x
  | RNow x => RNow x
  | RPanic => RPanic
  end.

(* "clients that stop ticking once has_next is false": along the history no tick is issued on a backtest
   after a tick on it answered has_next = false *)
Fixpoint nmem (i : N) (l : list N) : bool :=
  match l with [] => false | j :: l' => N.eqb i j || nmem i l' end.

Fixpoint polite {O K R TO} (done : list N) (h : list (sop O K * sres R TO)) : bool :=
  match h with
  | [] => true
  | (STick id _, r) :: rest =>
      negb (nmem id done)
      && polite (match r with RTick (Some (false, _)) => id :: done | _ => done end) rest
  | _ :: rest => polite done rest
  end.

End TaggedServer.
