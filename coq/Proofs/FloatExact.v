(* FloatExact.v — C05 at the IEEE binary64 instance for whole-share quantities: below 2^53 the float
   additions / subtractions / zero tests of book_trade are exact, so the float holdings and pending
   maps are the images of an integer ledger. No rounding anywhere. *)
From Coq Require Import ZArith NArith List Bool String Floats Reals Lra Lia.
From Flocq Require Import Core.Raux Core.Generic_fmt Core.FLT Core.Round_NE.
From Flocq Require Import IEEE754.BinarySingleNaN IEEE754.PrimFloat.
From Alator Require Import Model.Num Model.Quirks Model.Cost Model.Exchange Model.Uist Model.Broker.
From Alator Require Import Proofs.BrokerLedgerProofs.
Import ListNotations.

Local Existing Instance PrimFloat.Hprec.
Local Existing Instance PrimFloat.Hmax.

(* ------------------------------------------------------------------------------------------- *)
(* (F1) a float that is a finite integer                                                        *)

Definition int_float (x : float) (n : Z) : Prop :=
  is_finite (Prim2B x) = true /\ B2R (Prim2B x) = IZR n.


Definition two53 : Z := 9007199254740992.    (* 2^53 *)
Lemma two53_eq : two53 = (2 ^ 53)%Z.
Proof. reflexivity. Qed.

(* an integer below 2^53 in magnitude is a binary64 number *)
Lemma int_generic n : (Z.abs n < 2 ^ 53)%Z ->
  generic_format Zaux.radix2 (SpecFloat.fexp prec emax) (IZR n).
Proof.
  intros H.
  change (SpecFloat.fexp prec emax) with (FLT_exp (-1074) 53).
  apply generic_format_FLT.
  apply (FLT_spec Zaux.radix2 (-1074) 53 (IZR n) (Defs.Float Zaux.radix2 n 0)).
  - unfold Defs.F2R. cbn [Defs.Fnum Defs.Fexp bpow]. lra.
  - cbn [Defs.Fnum Zaux.radix_val Zaux.radix2]. exact H.
  - cbn [Defs.Fexp]. lia.
Qed.

Lemma int_below_emax n : (Z.abs n < 2 ^ 53)%Z -> (Rabs (IZR n) < bpow Zaux.radix2 emax)%R.
Proof.
  intros H. rewrite <- abs_IZR.
  apply Rlt_trans with (bpow Zaux.radix2 53).
  - rewrite <- (IZR_Zpower Zaux.radix2 53) by lia. apply IZR_lt. exact H.
  - apply bpow_lt. reflexivity.
Qed.

Lemma round_int n : (Z.abs n < 2 ^ 53)%Z ->
  round Zaux.radix2 (SpecFloat.fexp prec emax) (round_mode mode_NE) (IZR n) = IZR n.
Proof.
  intros H. apply round_generic.
  - apply valid_rnd_round_mode.
  - apply int_generic, H.
Qed.

(* ------------------------------------------------------------------------------------------- *)
(* (F2) addition and subtraction are exact on integers while the result stays below 2^53        *)

(* only the bound on the result is needed: both operands are floats already *)
Lemma add_int_exact_strong x y a b : int_float x a -> int_float y b ->
  (Z.abs (a + b) < 2 ^ 53)%Z -> int_float (PrimFloat.add x y) (a + b).
Proof.
  intros [Fx Rx] [Fy Ry] Hab. unfold int_float. rewrite add_equiv.
  generalize (Bplus_correct prec emax _ _ mode_NE _ _ Fx Fy).
  rewrite Rx, Ry, <- plus_IZR, (round_int _ Hab).
  rewrite Rlt_bool_true by (apply int_below_emax, Hab).
  intros (H1 & H2 & _). split; assumption.
Qed.

Lemma sub_int_exact_strong x y a b : int_float x a -> int_float y b ->
  (Z.abs (a - b) < 2 ^ 53)%Z -> int_float (PrimFloat.sub x y) (a - b).
Proof.
  intros [Fx Rx] [Fy Ry] Hab. unfold int_float. rewrite sub_equiv.
  generalize (Bminus_correct prec emax _ _ mode_NE _ _ Fx Fy).
  rewrite Rx, Ry, <- minus_IZR, (round_int _ Hab).
  rewrite Rlt_bool_true by (apply int_below_emax, Hab).
  intros (H1 & H2 & _). split; assumption.
Qed.

Lemma add_int_exact x y a b : int_float x a -> int_float y b ->
  (Z.abs a < 2 ^ 53)%Z -> (Z.abs b < 2 ^ 53)%Z -> (Z.abs (a + b) < 2 ^ 53)%Z ->
  int_float (PrimFloat.add x y) (a + b).
Proof. intros Hx Hy _ _. apply add_int_exact_strong; assumption. Qed.

Lemma sub_int_exact x y a b : int_float x a -> int_float y b ->
  (Z.abs a < 2 ^ 53)%Z -> (Z.abs b < 2 ^ 53)%Z -> (Z.abs (a - b) < 2 ^ 53)%Z ->
  int_float (PrimFloat.sub x y) (a - b).
Proof. intros Hx Hy _ _. apply sub_int_exact_strong; assumption. Qed.

(* ------------------------------------------------------------------------------------------- *)
(* (F3) the zero test                                                                            *)

Lemma Prim2B_zero : Prim2B 0%float = B754_zero false.
Proof.
  rewrite <- (Prim2B_B2Prim (B754_zero false)). f_equal.
Qed.

Lemma int_float_zero : int_float 0%float 0.
Proof. unfold int_float. rewrite Prim2B_zero. split; reflexivity. Qed.

Lemma int_float_inj x n m : int_float x n -> int_float x m -> n = m.
Proof. intros [_ H1] [_ H2]. apply eq_IZR. rewrite <- H1, <- H2. reflexivity. Qed.

Lemma Req_bool_IZR a b : Req_bool (IZR a) (IZR b) = Z.eqb a b.
Proof.
  destruct (Z.eqb_spec a b) as [E | E].
  - apply Req_bool_true. now rewrite E.
  - apply Req_bool_false. intros H. apply E, eq_IZR, H.
Qed.

Lemma int_float_eqb x y a b : int_float x a -> int_float y b -> PrimFloat.eqb x y = Z.eqb a b.
Proof.
  intros [Fx Rx] [Fy Ry]. rewrite eqb_equiv, (Beqb_correct _ _ _ _ Fx Fy), Rx, Ry.
  apply Req_bool_IZR.
Qed.

Lemma eqb_zero_int x n : int_float x n -> PrimFloat.eqb x 0 = Z.eqb n 0.
Proof. intros H. apply int_float_eqb; [exact H | exact int_float_zero]. Qed.

(* ------------------------------------------------------------------------------------------- *)
(* (F4) the integer model of the holdings / pending update of book_trade                         *)

Definition zcur (m : smap Z) (s : string) : Z := match sget m s with Some v => v | None => 0%Z end.
Definition fcur (m : smap float) (s : string) : float :=
  match sget m s with Some v => v | None => 0%float end.

Definition zupd (m : smap Z) (s : string) (delta : Z) : smap Z :=
  let cur := match sget m s with Some v => v | None => 0%Z end in
  if Z.eqb (cur + delta) 0 then sremove m s else sset m s (cur + delta)%Z.

(* same keys in the same order, values related *)
Definition hrel (mf : smap float) (mz : smap Z) : Prop :=
  Forall2 (fun kf kz => fst kf = fst kz /\ int_float (snd kf) (snd kz)) mf mz.

Definition zdelta (t : trade float) (q : Z) : Z :=
  match t_side t with Buy => q | Sell => (- q)%Z end.

Lemma hrel_nil : hrel [] [].
Proof. constructor. Qed.

Lemma hrel_keys mf mz : hrel mf mz -> map fst mf = map fst mz.
Proof.
  induction 1 as [| [k x] [k' n] mf mz [E _] _ IH]; [reflexivity |].
  cbn in *. now rewrite E, IH.
Qed.

Lemma hrel_cur mf mz s : hrel mf mz -> int_float (fcur mf s) (zcur mz s).
Proof.
  unfold fcur, zcur.
  induction 1 as [| [k x] [k' n] mf mz [E H] _ IH]; cbn [sget].
  - exact int_float_zero.
  - cbn in E, H. subst k'. destruct (String.eqb s k); [exact H | exact IH].
Qed.

Lemma hrel_sget mf mz s : hrel mf mz ->
  match sget mf s, sget mz s with
  | Some x, Some n => int_float x n
  | None, None => True
  | _, _ => False
  end.
Proof.
  induction 1 as [| [k x] [k' n] mf mz [E H] _ IH]; cbn [sget].
  - exact I.
  - cbn in E, H. subst k'. destruct (String.eqb s k); [exact H | exact IH].
Qed.

Lemma hrel_sset mf mz s x n : hrel mf mz -> int_float x n -> hrel (sset mf s x) (sset mz s n).
Proof.
  intros H Hx.
  induction H as [| [k y] [k' m] mf mz [E Hy] Hr IH]; cbn [sset].
  - constructor; [split; [reflexivity | exact Hx] | constructor].
  - cbn in E, Hy. subst k'. destruct (String.eqb s k).
    + constructor; [split; [reflexivity | exact Hx] | exact Hr].
    + constructor; [split; [reflexivity | exact Hy] | exact IH].
Qed.

Lemma hrel_sremove mf mz s : hrel mf mz -> hrel (sremove mf s) (sremove mz s).
Proof.
  induction 1 as [| [k y] [k' m] mf mz [E Hy] Hr IH]; cbn [sremove].
  - constructor.
  - cbn in E, Hy. subst k'. destruct (String.eqb s k).
    + exact Hr.
    + constructor; [split; [reflexivity | exact Hy] | exact IH].
Qed.

(* the float-side update, as book_trade writes it *)
Definition fupd_with (mf : smap float) (s : string) (v : float) : smap float :=
  if PrimFloat.eqb v 0 then sremove mf s else sset mf s v.

Lemma hrel_upd mf mz s v d :
  hrel mf mz -> int_float v (zcur mz s + d) -> hrel (fupd_with mf s v) (zupd mz s d).
Proof.
  intros H Hv. unfold fupd_with, zupd. fold (zcur mz s).
  rewrite (eqb_zero_int _ _ Hv).
  destruct (Z.eqb (zcur mz s + d) 0).
  - apply hrel_sremove, H.
  - apply hrel_sset; assumption.
Qed.

Section AtFloat.
Context (tbl : libm_table).
Let NFl : Num float := FloatNum tbl.
Local Existing Instance NFl.

Lemma book_trade_holdings_float (b : broker float) (t : trade float) :
  b_holdings (book_trade b t) =
    fupd_with (b_holdings b) (t_symbol t)
      (match t_side t with
       | Buy => PrimFloat.add (fcur (b_holdings b) (t_symbol t)) (t_quantity t)
       | Sell => PrimFloat.sub (fcur (b_holdings b) (t_symbol t)) (t_quantity t)
       end).
Proof. unfold book_trade, fupd_with, fcur. destruct (t_side t); reflexivity. Qed.

Lemma book_trade_pending_float (b : broker float) (t : trade float) :
  b_pending (book_trade b t) =
    fupd_with (b_pending b) (t_symbol t)
      (match t_side t with
       | Buy => PrimFloat.sub (fcur (b_pending b) (t_symbol t)) (t_quantity t)
       | Sell => PrimFloat.add (fcur (b_pending b) (t_symbol t)) (t_quantity t)
       end).
Proof. unfold book_trade, fupd_with, fcur. destruct (t_side t); reflexivity. Qed.

(* bounds: only the two results need to stay below 2^53 *)
Lemma book_trade_holdings_exact (b : broker float) (t : trade float) (q : Z) (hz pz : smap Z) :
  hrel (b_holdings b) hz -> hrel (b_pending b) pz -> int_float (t_quantity t) q ->
  (Z.abs (zcur hz (t_symbol t) + zdelta t q) < 2 ^ 53)%Z ->
  (Z.abs (zcur pz (t_symbol t) - zdelta t q) < 2 ^ 53)%Z ->
  hrel (b_holdings (book_trade b t)) (zupd hz (t_symbol t) (zdelta t q)) /\
  hrel (b_pending (book_trade b t)) (zupd pz (t_symbol t) (- zdelta t q)).
Proof.
  intros Hh Hp Hq Bh Bp.
  rewrite book_trade_holdings_float, book_trade_pending_float.
  pose proof (hrel_cur _ _ (t_symbol t) Hh) as Ch.
  pose proof (hrel_cur _ _ (t_symbol t) Hp) as Cp.
  unfold zdelta in *. destruct (t_side t); split; apply hrel_upd; try assumption.
  - apply add_int_exact_strong; assumption.
  - replace (zcur pz (t_symbol t) + - q)%Z with (zcur pz (t_symbol t) - q)%Z by lia.
    apply sub_int_exact_strong; assumption.
  - replace (zcur hz (t_symbol t) + - q)%Z with (zcur hz (t_symbol t) - q)%Z in * by lia.
    apply sub_int_exact_strong; assumption.
  - replace (zcur pz (t_symbol t) + - - q)%Z with (zcur pz (t_symbol t) + q)%Z by lia.
    replace (zcur pz (t_symbol t) - - q)%Z with (zcur pz (t_symbol t) + q)%Z in Bp by lia.
    apply add_int_exact_strong; assumption.
Qed.

End AtFloat.

(* ------------------------------------------------------------------------------------------- *)
(* every whole-share quantity below 2^53 has a float: fofZ of the IEEE instance is exact          *)

Lemma F2R_int n : Defs.F2R (Defs.Float Zaux.radix2 n 0) = IZR n.
Proof. unfold Defs.F2R. cbn [Defs.Fnum Defs.Fexp bpow]. lra. Qed.

Lemma int_float_of_uint63 p : (Z.pos p < 2 ^ 53)%Z ->
  int_float (PrimFloat.of_uint63 (Uint63.of_Z (Z.pos p))) (Z.pos p).
Proof.
  intros H. unfold int_float. rewrite of_int63_equiv, Uint63.of_Z_spec.
  rewrite Z.mod_small by (split; [lia | apply Z.lt_trans with (1 := H); reflexivity]).
  generalize (binary_normalize_correct prec emax _ _ mode_NE (Z.pos p) 0 false).
  cbv zeta. rewrite F2R_int.
  assert (Hb : (Z.abs (Z.pos p) < 2 ^ 53)%Z) by (rewrite Z.abs_eq by lia; exact H).
  rewrite (round_int _ Hb), Rlt_bool_true by (apply int_below_emax, Hb).
  intros (H1 & H2 & _). split; assumption.
Qed.

Lemma int_float_opp x n : int_float x n -> int_float (PrimFloat.opp x) (- n).
Proof.
  intros [Fx Rx]. unfold int_float. rewrite opp_equiv, is_finite_Bopp, B2R_Bopp, Rx, opp_IZR.
  split; [exact Fx | reflexivity].
Qed.

Lemma int_float_ofZ n : (Z.abs n < 2 ^ 53)%Z -> int_float (float_ofZ n) n.
Proof.
  intros H. destruct n as [| p | p]; unfold float_ofZ.
  - exact int_float_zero.
  - apply int_float_of_uint63. exact H.
  - change (Z.neg p) with (- Z.pos p)%Z. apply int_float_opp, int_float_of_uint63. exact H.
Qed.

(* ------------------------------------------------------------------------------------------- *)
(* (F5a) the integer ledger: pure Z, no floats                                                   *)

Definition zinv (m : smap Z) : Prop :=
  NoDup (map fst m) /\ Forall (fun kv : string * Z => snd kv <> 0%Z) m.

Lemma zinv_nil : zinv [].
Proof. split; constructor. Qed.

Lemma zcur_zupd m s d s' : NoDup (map fst m) ->
  zcur (zupd m s d) s' = if String.eqb s s' then (zcur m s + d)%Z else zcur m s'.
Proof.
  intros ND. unfold zupd. fold (zcur m s).
  destruct (Z.eqb_spec (zcur m s + d) 0) as [E | E]; unfold zcur at 1;
    destruct (String.eqb_spec s s') as [<- | NE].
  - rewrite sget_sremove_same by exact ND. lia.
  - rewrite sget_sremove_other by congruence. reflexivity.
  - rewrite sget_sset_same. reflexivity.
  - rewrite sget_sset_other by congruence. reflexivity.
Qed.

Lemma zupd_inv m s d : zinv m -> zinv (zupd m s d).
Proof.
  intros [ND NZ]. unfold zupd. fold (zcur m s).
  destruct (Z.eqb_spec (zcur m s + d) 0) as [E | E]; split.
  - apply nodup_sremove, ND.
  - apply forall_sremove, NZ.
  - apply nodup_sset, ND.
  - apply forall_sset; [exact NZ | exact E].
Qed.

Section ZLedger.
Context {T : Type} (key : T -> string) (dl : T -> Z).

Definition zstep (m : smap Z) (x : T) : smap Z := zupd m (key x) (dl x).
Definition zsum (s : string) (l : list T) : Z :=
  fold_right (fun x acc => ((if String.eqb (key x) s then dl x else 0) + acc)%Z) 0%Z l.

Lemma zledger_gen l : forall m, zinv m ->
  zinv (fold_left zstep l m) /\
  forall s, zcur (fold_left zstep l m) s = (zcur m s + zsum s l)%Z.
Proof.
  induction l as [| x l IH]; intros m Hm; cbn [fold_left zsum fold_right].
  - split; [exact Hm | intros s; lia].
  - destruct (IH (zstep m x) (zupd_inv _ _ _ Hm)) as [I1 I2]. split; [exact I1 |].
    intros s. rewrite I2. unfold zstep at 1. rewrite zcur_zupd by apply Hm.
    fold (zsum s l). destruct (String.eqb_spec (key x) s) as [<- | NE]; lia.
Qed.

(* from the empty map: the entry of s is the signed sum over the list, no entry is 0, keys unique *)
Theorem zledger l :
  let m := fold_left zstep l [] in
  (forall s, zcur m s = zsum s l) /\
  Forall (fun kv : string * Z => snd kv <> 0%Z) m /\
  NoDup (map fst m).
Proof.
  destruct (zledger_gen l [] zinv_nil) as [[ND NZ] S]. cbv zeta. repeat split; try assumption.
Qed.

Lemma zledger_absent l s : zsum s l = 0%Z -> sget (fold_left zstep l []) s = None.
Proof.
  intros Hs. pose proof (zledger l) as Z0. cbv zeta in Z0. destruct Z0 as (S & NZ & _). specialize (S s). rewrite Hs in S.
  unfold zcur in S. destruct (sget (fold_left zstep l []) s) as [v |] eqn:G; [| reflexivity].
  exfalso. subst v. clear Hs. revert G NZ. generalize (fold_left zstep l []).
  induction s0 as [| [k v] m IH]; cbn [sget]; [discriminate |].
  intros G NZ. inversion NZ as [| ? ? H1 H2]; subst.
  destruct (String.eqb s k); [| exact (IH G H2)]. inversion G; subst. cbn in H1. congruence.
Qed.

End ZLedger.

(* ------------------------------------------------------------------------------------------- *)
(* (F5b) a whole list of trades, each paired with its integer quantity                            *)

Definition tq_key (tq : trade float * Z) : string := t_symbol (fst tq).
Definition tq_hdelta (tq : trade float * Z) : Z := zdelta (fst tq) (snd tq).
Definition tq_pdelta (tq : trade float * Z) : Z := (- zdelta (fst tq) (snd tq))%Z.

Definition zrun_h (hz : smap Z) (tqs : list (trade float * Z)) : smap Z :=
  fold_left (zstep tq_key tq_hdelta) tqs hz.
Definition zrun_p (pz : smap Z) (tqs : list (trade float * Z)) : smap Z :=
  fold_left (zstep tq_key tq_pdelta) tqs pz.

(* the quantities are whole shares *)
Definition whole (tqs : list (trade float * Z)) : Prop :=
  Forall (fun tq => int_float (t_quantity (fst tq)) (snd tq)) tqs.

(* every intermediate holding and pending value stays below 2^53 in magnitude *)
Fixpoint bounded (hz pz : smap Z) (tqs : list (trade float * Z)) : Prop :=
  match tqs with
  | [] => True
  | tq :: r =>
      (Z.abs (zcur hz (tq_key tq) + tq_hdelta tq) < 2 ^ 53)%Z /\
      (Z.abs (zcur pz (tq_key tq) + tq_pdelta tq) < 2 ^ 53)%Z /\
      bounded (zstep tq_key tq_hdelta hz tq) (zstep tq_key tq_pdelta pz tq) r
  end.

Fixpoint boundedb (hz pz : smap Z) (tqs : list (trade float * Z)) : bool :=
  match tqs with
  | [] => true
  | tq :: r =>
      Z.ltb (Z.abs (zcur hz (tq_key tq) + tq_hdelta tq)) two53 &&
      Z.ltb (Z.abs (zcur pz (tq_key tq) + tq_pdelta tq)) two53 &&
      boundedb (zstep tq_key tq_hdelta hz tq) (zstep tq_key tq_pdelta pz tq) r
  end.

Lemma boundedb_spec tqs : forall hz pz, boundedb hz pz tqs = true -> bounded hz pz tqs.
Proof.
  induction tqs as [| tq r IH]; intros hz pz H; cbn [bounded boundedb] in *; [exact I |].
  apply andb_prop in H. destruct H as [H H3]. apply andb_prop in H. destruct H as [H1 H2].
  apply Z.ltb_lt in H1, H2. rewrite two53_eq in H1, H2. repeat split; try assumption.
  apply IH, H3.
Qed.

Section AtFloat2.
Context (tbl : libm_table).
Let NFl : Num float := FloatNum tbl.
Local Existing Instance NFl.

Theorem holdings_whole_shares_exact tqs : forall (b : broker float) (hz pz : smap Z),
  hrel (b_holdings b) hz -> hrel (b_pending b) pz -> whole tqs -> bounded hz pz tqs ->
  hrel (b_holdings (fold_left book_trade (map fst tqs) b)) (zrun_h hz tqs) /\
  hrel (b_pending (fold_left book_trade (map fst tqs) b)) (zrun_p pz tqs).
Proof.
  unfold zrun_h, zrun_p.
  induction tqs as [| [t q] r IH]; intros b hz pz Hh Hp W B; cbn [map fold_left fst].
  - split; assumption.
  - inversion W as [| ? ? W1 W2]; subst. cbn [fst snd] in W1.
    cbn [bounded] in B. destruct B as (B1 & B2 & B3).
    unfold tq_key, tq_hdelta, tq_pdelta in B1, B2. cbn [fst snd] in B1, B2.
    destruct (book_trade_holdings_exact tbl b t q hz pz Hh Hp W1 B1) as [Hh' Hp'].
    { replace (zcur pz (t_symbol t) - zdelta t q)%Z with (zcur pz (t_symbol t) + - zdelta t q)%Z by lia.
      exact B2. }
    apply IH; assumption.
Qed.

(* the same with the trades and the integer quantities as two lists *)
Corollary holdings_whole_shares_exact_lists (b : broker float) hz pz ts qs :
  hrel (b_holdings b) hz -> hrel (b_pending b) pz ->
  Forall2 (fun t q => int_float (t_quantity t) q) ts qs ->
  bounded hz pz (combine ts qs) ->
  hrel (b_holdings (fold_left book_trade ts b)) (zrun_h hz (combine ts qs)) /\
  hrel (b_pending (fold_left book_trade ts b)) (zrun_p pz (combine ts qs)).
Proof.
  intros Hh Hp W B.
  assert (E : map fst (combine ts qs) = ts).
  { clear -W. induction W; cbn; [reflexivity | now f_equal]. }
  assert (W' : whole (combine ts qs)).
  { clear -W. induction W; cbn; constructor; assumption. }
  rewrite <- E at 1 3. apply holdings_whole_shares_exact; assumption.
Qed.

End AtFloat2.

(* (F5a) instantiated: the integer holdings from an empty book are bought minus sold *)
Definition bought_minus_sold (s : string) (tqs : list (trade float * Z)) : Z :=
  zsum tq_key tq_hdelta s tqs.

Theorem zholdings_ledger tqs :
  let hz := zrun_h [] tqs in
  (forall s, zcur hz s = bought_minus_sold s tqs) /\
  Forall (fun kv : string * Z => snd kv <> 0%Z) hz /\
  NoDup (map fst hz).
Proof. exact (zledger tq_key tq_hdelta tqs). Qed.

Theorem zpending_ledger tqs :
  let pz := zrun_p [] tqs in
  (forall s, zcur pz s = zsum tq_key tq_pdelta s tqs) /\
  Forall (fun kv : string * Z => snd kv <> 0%Z) pz /\
  NoDup (map fst pz).
Proof. exact (zledger tq_key tq_pdelta tqs). Qed.

Lemma zsum_pdelta s tqs : zsum tq_key tq_pdelta s tqs = (- bought_minus_sold s tqs)%Z.
Proof.
  unfold bought_minus_sold. induction tqs as [| tq r IH]; cbn [zsum fold_right]; [reflexivity |].
  fold (zsum tq_key tq_pdelta s r). fold (zsum tq_key tq_hdelta s r). rewrite IH.
  unfold tq_pdelta, tq_hdelta. destruct (String.eqb (tq_key tq) s); lia.
Qed.

(* Together: at the IEEE instance, starting from an empty book, with whole-share quantities and every
   running total below 2^53, the float holding of each symbol IS the float image of bought minus sold,
   and a symbol whose position is zero is absent. *)
Section Together.
Context (tbl : libm_table).
Let NFl : Num float := FloatNum tbl.
Local Existing Instance NFl.

Theorem float_holdings_are_bought_minus_sold (b : broker float) tqs :
  b_holdings b = [] -> b_pending b = [] -> whole tqs -> bounded [] [] tqs ->
  forall s,
    match sget (b_holdings (fold_left book_trade (map fst tqs) b)) s with
    | Some x => int_float x (bought_minus_sold s tqs) /\ bought_minus_sold s tqs <> 0%Z
    | None => bought_minus_sold s tqs = 0%Z
    end.
Proof.
  intros Eh Ep W B s.
  destruct (holdings_whole_shares_exact tbl tqs b [] []) as [Hh _];
    try assumption; try (rewrite ?Eh, ?Ep; exact hrel_nil).
  pose proof (zholdings_ledger tqs) as Z0. cbv zeta in Z0. destruct Z0 as (S & NZ & _).
  pose proof (hrel_sget _ _ s Hh) as G. specialize (S s). unfold zcur in S.
  destruct (sget (b_holdings (fold_left book_trade (map fst tqs) b)) s) as [x |];
    destruct (sget (zrun_h [] tqs) s) as [n |] eqn:Gz; try contradiction.
  - subst n. split; [exact G |].
    clear -Gz NZ. revert Gz NZ. generalize (zrun_h [] tqs) as m.
    induction m as [| [k v] m IH]; cbn [sget]; [discriminate |].
    intros Gz NZ. inversion NZ as [| ? ? H1 H2]; subst.
    destruct (String.eqb s k); [| exact (IH Gz H2)]. inversion Gz; subst. exact H1.
  - symmetry. exact S.
Qed.

End Together.

(* ------------------------------------------------------------------------------------------- *)
(* a sufficient condition for [bounded]: the total traded volume stays below 2^53                *)

Definition volume (tqs : list (trade float * Z)) : Z :=
  fold_right (fun tq acc => (Z.abs (snd tq) + acc)%Z) 0%Z tqs.

Lemma volume_nonneg tqs : (0 <= volume tqs)%Z.
Proof. induction tqs as [| tq r IH]; cbn [volume fold_right]; [lia |]. fold (volume r). lia. Qed.

Lemma zdelta_abs t q : Z.abs (zdelta t q) = Z.abs q.
Proof. unfold zdelta. destruct (t_side t); lia. Qed.

Lemma zcur_zupd_bound m s d B : zinv m -> (forall s', Z.abs (zcur m s') <= B)%Z ->
  forall s', (Z.abs (zcur (zupd m s d) s') <= B + Z.abs d)%Z.
Proof.
  intros [ND _] Hb s'. rewrite zcur_zupd by exact ND.
  destruct (String.eqb s s'); [specialize (Hb s) | specialize (Hb s')]; lia.
Qed.

Lemma bounded_of_volume tqs : forall hz pz B, zinv hz -> zinv pz ->
  (forall s, Z.abs (zcur hz s) <= B)%Z -> (forall s, Z.abs (zcur pz s) <= B)%Z ->
  (B + volume tqs < 2 ^ 53)%Z -> bounded hz pz tqs.
Proof.
  induction tqs as [| tq r IH]; intros hz pz B Ih Ip Bh Bp V; cbn [bounded]; [exact I |].
  cbn [volume fold_right] in V. fold (volume r) in V.
  pose proof (volume_nonneg r) as Vr.
  assert (Dh : Z.abs (tq_hdelta tq) = Z.abs (snd tq)) by apply zdelta_abs.
  assert (Dp : Z.abs (tq_pdelta tq) = Z.abs (snd tq)).
  { unfold tq_pdelta. rewrite Z.abs_opp. apply zdelta_abs. }
  split; [| split].
  - specialize (Bh (tq_key tq)). lia.
  - specialize (Bp (tq_key tq)). lia.
  - apply (IH _ _ (B + Z.abs (snd tq))%Z).
    + apply zupd_inv, Ih.
    + apply zupd_inv, Ip.
    + intros s. unfold zstep. rewrite <- Dh. apply zcur_zupd_bound; assumption.
    + intros s. unfold zstep. rewrite <- Dp. apply zcur_zupd_bound; assumption.
    + lia.
Qed.

Corollary bounded_from_empty tqs : (volume tqs < 2 ^ 53)%Z -> bounded [] [] tqs.
Proof.
  intros V. apply (bounded_of_volume tqs [] [] 0); try exact zinv_nil; try (intros s; cbn; lia).
  lia.
Qed.

Section Together2.
Context (tbl : libm_table).
Let NFl : Num float := FloatNum tbl.
Local Existing Instance NFl.

(* the headline: empty book, whole shares, total volume below 2^53 *)
Corollary float_holdings_exact_of_volume (b : broker float) tqs :
  b_holdings b = [] -> b_pending b = [] -> whole tqs -> (volume tqs < 2 ^ 53)%Z ->
  forall s,
    match sget (b_holdings (fold_left book_trade (map fst tqs) b)) s with
    | Some x => int_float x (bought_minus_sold s tqs) /\ bought_minus_sold s tqs <> 0%Z
    | None => bought_minus_sold s tqs = 0%Z
    end.
Proof.
  intros Eh Ep W V. apply float_holdings_are_bought_minus_sold; try assumption.
  apply bounded_from_empty, V.
Qed.

End Together2.

(* ------------------------------------------------------------------------------------------- *)
(* (F6) non-vacuity: buy 10, sell 4, sell 6 -> the symbol is absent                              *)

Definition ex_b0 : broker float := mkBroker 0%float [] [] [] [] [] false.
Definition ex_t1 : trade float := mkTrade "ABC" 1000%float 10%float 100 Buy.
Definition ex_t2 : trade float := mkTrade "ABC" 404%float 4%float 101 Sell.
Definition ex_t3 : trade float := mkTrade "ABC" 612%float 6%float 102 Sell.
Definition ex_tqs : list (trade float * Z) := [(ex_t1, 10%Z); (ex_t2, 4%Z); (ex_t3, 6%Z)].

Example ex_whole : whole ex_tqs.
Proof.
  unfold whole, ex_tqs.
  apply Forall_cons; [exact (int_float_ofZ 10 eq_refl) |].
  apply Forall_cons; [exact (int_float_ofZ 4 eq_refl) |].
  apply Forall_cons; [exact (int_float_ofZ 6 eq_refl) |].
  apply Forall_nil.
Qed.

Example ex_bounded : bounded [] [] ex_tqs.
Proof. apply boundedb_spec. vm_compute. reflexivity. Qed.

Example ex_volume : (volume ex_tqs < 2 ^ 53)%Z.
Proof. vm_compute. reflexivity. Qed.

(* the float run, computed *)
Example ex_run_two :
  b_holdings (fold_left (book_trade (NF := FloatNum [])) [ex_t1; ex_t2] ex_b0) = [("ABC"%string, 6%float)].
Proof. vm_compute. reflexivity. Qed.

Example ex_run_three :
  b_holdings (fold_left (book_trade (NF := FloatNum [])) (map fst ex_tqs) ex_b0) = [] /\
  b_pending (fold_left (book_trade (NF := FloatNum [])) (map fst ex_tqs) ex_b0) = [].
Proof. vm_compute. split; reflexivity. Qed.

(* the integer run, computed, and what the theorem says about it *)
Example ex_zrun : zrun_h [] [(ex_t1, 10%Z); (ex_t2, 4%Z)] = [("ABC"%string, 6%Z)] /\ zrun_h [] ex_tqs = [].
Proof. vm_compute. split; reflexivity. Qed.

Example ex_theorem_instance :
  hrel (b_holdings (fold_left (book_trade (NF := FloatNum [])) (map fst ex_tqs) ex_b0)) (zrun_h [] ex_tqs) /\
  hrel (b_pending (fold_left (book_trade (NF := FloatNum [])) (map fst ex_tqs) ex_b0)) (zrun_p [] ex_tqs).
Proof.
  apply holdings_whole_shares_exact;
    [exact hrel_nil | exact hrel_nil | exact ex_whole | exact ex_bounded].
Qed.

Example ex_absent :
  sget (b_holdings (fold_left (book_trade (NF := FloatNum [])) (map fst ex_tqs) ex_b0)) "ABC" = None /\
  bought_minus_sold "ABC" ex_tqs = 0%Z.
Proof. split; vm_compute; reflexivity. Qed.

(* the headline theorem's hypotheses are satisfiable: its instance at the example *)
Example ex_headline_instance :
  forall s,
    match sget (b_holdings (fold_left (book_trade (NF := FloatNum [])) (map fst ex_tqs) ex_b0)) s with
    | Some x => int_float x (bought_minus_sold s ex_tqs) /\ bought_minus_sold s ex_tqs <> 0%Z
    | None => bought_minus_sold s ex_tqs = 0%Z
    end.
Proof. exact (float_holdings_exact_of_volume [] ex_b0 ex_tqs eq_refl eq_refl ex_whole ex_volume). Qed.

(* ------------------------------------------------------------------------------------------- *)
Print Assumptions add_int_exact.
Print Assumptions sub_int_exact.
Print Assumptions eqb_zero_int.
Print Assumptions int_float_zero.
Print Assumptions int_float_inj.
Print Assumptions int_float_eqb.
Print Assumptions int_float_ofZ.
Print Assumptions book_trade_holdings_exact.
Print Assumptions holdings_whole_shares_exact.
Print Assumptions holdings_whole_shares_exact_lists.
Print Assumptions zholdings_ledger.
Print Assumptions zpending_ledger.
Print Assumptions bounded_of_volume.
Print Assumptions float_holdings_are_bought_minus_sold.
Print Assumptions float_holdings_exact_of_volume.
Print Assumptions ex_theorem_instance.
Print Assumptions ex_headline_instance.
