(* Perf.v — perf/mod.rs: PerformanceCalculator::calculate and the algorithms it uses.
   Definitions only. *)
From Coq Require Import ZArith NArith List Bool String.
From Alator Require Import Model.Num Model.Quirks Model.Broker.
Import ListNotations.
Local Open Scope num_scope.

Section Perf.
Context {F : Type} {NF : Num F}.
Context (qk : quirks).

Record snapshot := mkSnap { sn_date : Z; sn_value : F; sn_ncf : F; sn_infl : F }.

Definition fsum (l : list F) : F := fold_left fadd l fzero.
Definition flen (l : list F) : F := fofZ (Z.of_nat (List.length l)).

(* CalculationAlgos::maxdd: one step of the scan.
   state: (maxdd, peak, peak_pos, trough, trough_pos, best_start, best_end) *)
Record ddstate := mkDD {
  dd_max : F; dd_peak : F; dd_peak_pos : nat; dd_trough : F; dd_trough_pos : nat;
  dd_start : nat; dd_end : nat }.

Definition dd_step (st : ddstate) (pos : nat) (t1 : F) : ddstate :=
  if t1 >? dd_peak st then
    mkDD (dd_max st) t1 pos t1 pos (dd_start st) (dd_end st)
  else if t1 <? dd_trough st then
    let t2 := t1 / dd_peak st - fone in
    if t2 <? dd_max st
    then mkDD t2 (dd_peak st) (dd_peak_pos st) t1 pos (dd_peak_pos st) pos
    else mkDD (dd_max st) (dd_peak st) (dd_peak_pos st) t1 pos (dd_start st) (dd_end st)
  else st.

Fixpoint dd_scan (st : ddstate) (pos : nat) (vs : list F) : ddstate :=
  match vs with
  | [] => st
  | v :: r => dd_scan (dd_step st pos v) (S pos) r
  end.

Definition dd_init : ddstate := mkDD fzero fzero 0 fzero 0 0 0.

(* (max drawdown, position of drawdown start, end position) *)
Definition maxdd (vs : list F) : F * nat * nat :=
  let st := dd_scan dd_init 0 vs in
  if q_maxdd_last_positions qk
  then (dd_max st, dd_peak_pos st, dd_trough_pos st)     (* the defect: last peak / trough *)
  else (dd_max st, dd_start st, dd_end st).

(* PortfolioCalculations::get_maxdd: the compounded index starting at 100 000 *)
Fixpoint index_from (last : F) (rets : list F) : list F :=
  match rets with
  | [] => []
  | r :: rest => let v := last * (fone + r) in v :: index_from v rest
  end.
Definition index_of (rets : list F) : list F := fofZ 100000 :: index_from (fofZ 100000) rets.
Definition get_maxdd (rets : list F) : F * nat * nat := maxdd (index_of rets).

Definition var (vs : list F) : F :=
  let mean := fsum vs / flen vs in
  fsum (map (fun r => fpow (r - mean) (fofZ 2)) vs) / flen vs.
Definition vol (vs : list F) : F := fsqrt (var vs).
Definition annualize_volatility (v : F) : F := v * fsqrt (fofZ 252).
Definition get_vol (rets : list F) : F := annualize_volatility (vol rets).
Definition annualize_returns (ret : F) (periods : Z) : F :=
  fpow (fone + ret) (fofZ 365 / fofZ periods) - fone.
Definition get_portfolio_return (log_rets : list F) : F := fexp (fsum log_rets) - fone.
Definition get_cagr (log_rets : list F) (days : Z) : F :=
  annualize_returns (get_portfolio_return log_rets) days.
Definition get_sharpe (rets log_rets : list F) (days : Z) : F :=
  let v := get_vol rets in
  let r := get_cagr log_rets days in
  if v ==? fzero then (if negb (r ==? fzero) then r else fzero) else r / v.

(* one period: values start -> end, cash flow and inflation of the period *)
Definition period_return (start end_ cf infl : F) : F :=
  let gain := end_ - (start + cf) in
  let capital := start + cf in
  if capital ==? fzero then fzero
  else (fone + gain / capital) / (fone + infl) - fone.

(* get_returns: for i in 1..count, using cash_flows[i] and inflation[i] *)
Fixpoint returns_from (prev : F) (rest : list (F * F * F)) (is_log : bool) : list F :=
  match rest with
  | [] => []
  | (v, cf, infl) :: r =>
      let ret := period_return prev v cf infl in
      (if is_log then fln (fone + ret) else ret) :: returns_from v r is_log
  end.

Fixpoint zip3 (a b c : list F) : list (F * F * F) :=
  match a, b, c with
  | x :: a', y :: b', z :: c' => (x, y, z) :: zip3 a' b' c'
  | _, _, _ => []
  end.

Definition get_returns (values cash_flows inflation : list F) (is_log : bool) : list F :=
  match values, cash_flows, inflation with
  | v0 :: vs, _ :: cfs, _ :: infls => returns_from v0 (zip3 vs cfs infls) is_log
  | _, _, _ => []
  end.

(* cash_flows: 0.0 then the differences of the cumulative net cash flow *)
Fixpoint ncf_diffs (prev : F) (rest : list F) : list F :=
  match rest with
  | [] => []
  | c :: r => (c - prev) :: ncf_diffs c r
  end.
Definition cash_flows_of (ncfs : list F) : list F :=
  match ncfs with
  | [] => [fzero]
  | c0 :: r => fzero :: ncf_diffs c0 r
  end.

(* Iterator::max_by(partial_cmp().unwrap()) / min_by; None when a comparison is undefined (NaN) *)
Definition comparable (a b : F) : bool := (a <? b) || (b <? a) || (a ==? b).
Fixpoint fold_max (best : F) (l : list F) : option F :=
  match l with
  | [] => Some best
  | x :: r => if negb (comparable best x) then None
              else fold_max (if x <? best then best else x) r       (* last maximum wins *)
  end.
Fixpoint fold_min (best : F) (l : list F) : option F :=
  match l with
  | [] => Some best
  | x :: r => if negb (comparable best x) then None
              else fold_min (if x <? best then x else best) r       (* first minimum wins *)
  end.

Record output := mkOutput {
  o_ret : F; o_cagr : F; o_vol : F; o_mdd : F; o_sharpe : F;
  o_values : list F; o_returns : list F; o_dates : list Z; o_cash_flows : list F;
  o_first_date : Z; o_last_date : Z; o_dd_start_date : Z; o_dd_end_date : Z;
  o_best : F; o_worst : F;
}.

(* PerformanceCalculator::calculate for Frequency::Daily *)
Definition calculate (states : list snapshot) : res output :=
  let dates := map sn_date states in
  let values := map sn_value states in
  let cash_flows := cash_flows_of (map sn_ncf states) in
  let inflation := map sn_infl states in
  let returns := get_returns values cash_flows inflation false in
  let log_returns := get_returns values cash_flows inflation true in
  let '(mdd, p0, p1) := get_maxdd returns in
  match nth_error dates p0, nth_error dates p1 with
  | Some d0, Some d1 =>
      match returns with
      | [] => Panic "calculate: best/worst of no returns (unwrap on None)"
      | r0 :: rr =>
          match fold_max r0 rr, fold_min r0 rr with
          | Some best, Some worst =>
              let n := Z.of_nat (List.length dates) in
              match dates, rev dates with
              | first :: _, last :: _ =>
                  Ok (mkOutput (get_portfolio_return log_returns) (get_cagr log_returns n)
                               (get_vol returns) mdd (get_sharpe returns log_returns n)
                               values returns dates cash_flows first last d0 d1 best worst)
              | _, _ => Panic "calculate: no dates"
              end
          | _, _ => Panic "calculate: partial_cmp(..).unwrap() on NaN"
          end
      end
  | _, _ => Panic "calculate: dates[drawdown position] out of bounds"
  end.

(* perf::Frequency and its String conversion; annualize_returns / annualize_volatility panic for every frequency
   but Daily. The struct literal of calculate evaluates `ret`, then `cagr` (the first use of the frequency), so
   every panic [calculate] models happens before the frequency one. *)
Inductive frequency := FSecond | FDaily | FFixed.
Definition frequency_name (f : frequency) : string :=
  match f with FSecond => "SECOND" | FDaily => "DAILY" | FFixed => "FIXED" end.

(* PerformanceCalculator::calculate(freq, states) -> (output, output.frequency) *)
Definition calculate_freq (f : frequency) (states : list snapshot) : res (output * string) :=
  match calculate states with
  | Panic s => Panic s
  | BadOracle => BadOracle
  | Ok o =>
      match f with
      | FDaily => Ok (o, frequency_name f)
      | FSecond => Panic "No performance stats by second"
      | FFixed => Panic "No performance stats by fixed"
      end
  end.

End Perf.

Arguments snapshot F : clear implicits.
Arguments output F : clear implicits.
Arguments ddstate F : clear implicits.
