"""C17 — exchange slice; see driver/exch.py, Props/C17.v and Props/C17sort.v.
Both tiers: every admission of every trace is compared with Model/Sort.v's transcription of the standard library's
stable sort (aspect sort_exact), with size_of::<Order>() as the harness observed it.
Thorough tier in addition: sortval/run.sh — the sort model against the real `slice::sort_by` directly, on the real
order types of /repo's working tree and synthetic element types, nine comparator families (inconsistent ones
included: the real sort's panic is a compared outcome), lengths 0..70 densely and up to 5000."""
import os
import re
import subprocess

import exch
from common import VERIF, workdir


def run(res, tier, seed, replay):
    ob = exch.run_property(res, "C17", tier, seed, replay, ["C17", "C17sort"])
    if tier == "thorough" and not replay:
        wd = workdir("sortval")
        p = subprocess.run([os.path.join(VERIF, "sortval", "run.sh"), wd, "small", "medium", "large"],
                           stdout=subprocess.PIPE, stderr=subprocess.STDOUT, text=True, timeout=6000)
        lines = [l for l in p.stdout.split("\n") if l.startswith("profile ") and "cases:" in l]
        res.coverage["std_sort_model_vs_real_sort_by"] = dict(
            summary=lines, exit=p.returncode,
            sizes=[l for l in p.stdout.split("\n") if "size=" in l])
        n = sum(int(m.group(1)) for l in lines for m in [re.search(r"(\d+) cases", l)] if m)
        res.coverage["evaluations"] = res.coverage.get("evaluations", 0) + n
        if p.returncode != 0:
            fails = [l for l in p.stdout.split("\n") if "FAIL" in l or "MISSING" in l][:20]
            res.violation(dict(kind="correspondence", component="std-sort",
                               broken="coq/Model/Sort.v no longer reproduces slice::sort_by of the installed toolchain "
                                      "(or the order types of /repo changed size/layout in a way the probe does not follow)",
                               failing_cases=fails, output_tail=p.stdout[-2000:]), "sortval", no_input=True)
    return ob
