#!/usr/bin/env python3
"""tools/seed_recheck.py <Cxx_L> [props…] — re-run our checks (default: the property the change was written against)
against an already recorded and confirmed seeded change: apply seeded/<Cxx_L>/patch.diff to /repo under the repo lock,
run ./check for each property, undo, and update meta.json (our_checks, caught_by, rechecked_at)."""
import fcntl
import json
import os
import subprocess
import sys
import time

name = sys.argv[1]
d = "/verif/seeded/%s" % name
meta = json.load(open(os.path.join(d, "meta.json")))
props = [a for a in sys.argv[2:] if a.startswith("C")] or [meta["property"]]
lockf = open("/tmp/repo.lock", "w")
fcntl.flock(lockf, fcntl.LOCK_EX)
st = subprocess.run("git -C /repo status --porcelain", shell=True, capture_output=True, text=True).stdout.strip()
assert not st, "/repo not clean: " + st
subprocess.run("git -C /repo apply %s" % os.path.join(d, "patch.diff"), shell=True, check=True)
results = meta.get("our_checks", {})
try:
    for p in props:
        t = time.time()
        r = subprocess.run("./check %s" % p, shell=True, cwd="/verif", capture_output=True, text=True, timeout=3000,
                               env=dict(os.environ, VERIF_EVIDENCE_DIR="/tmp/verif_evidence_seeded"))
        lines = [l for l in r.stdout.split("\n") if l.startswith("VIOLATION")]
        rep = None
        for l in lines:
            path = l.split("replay=")[1].split()[0]
            try:
                rj = json.load(open(path))
                rep = dict(kind=rj.get("kind"), failure=rj.get("failure"), found_in=rj.get("found_in"))
                if rep["failure"] is None and "no_longer_checks" in rj:
                    rep["no_longer_checks"] = rj["no_longer_checks"].get("first_mismatches", [])[:2] if isinstance(rj["no_longer_checks"], dict) else str(rj["no_longer_checks"])[:300]
                if "error" in rj:
                    rep["error"] = rj["error"][:300]
            except Exception as e:
                rep = dict(unreadable=str(e))
            if rep and rep.get("failure"):
                break
        results[p] = dict(exit=r.returncode, violation_lines=lines, wall_s=round(time.time() - t, 1), replay_summary=rep)
        print(name, p, "exit", r.returncode, lines[:2], json.dumps(rep)[:300] if rep else "")
finally:
    subprocess.run("git -C /repo checkout -- .", shell=True, check=True)
    fcntl.flock(lockf, fcntl.LOCK_UN)
meta["our_checks"] = results
meta["caught_by"] = [p for p, r in results.items() if r["exit"] != 0]
meta["rechecked_at"] = subprocess.run("git -C /verif rev-parse --short HEAD", shell=True, capture_output=True, text=True).stdout.strip()
json.dump(meta, open(os.path.join(d, "meta.json"), "w"), indent=1)
