#!/usr/bin/env python3
"""tools/seed_task.py Cxx... — writes /tmp/seed_Cxx/out/TASK.md, the brief handed to a fresh sub-agent that seeds two
property-breaking changes in its own scratch worktree (`git -C /repo worktree add --detach /tmp/seed_Cxx HEAD`).
The brief contains the property text and nothing from /verif. Confirm and record results with tools/seed.py."""
import json
import os
import sys

V = os.path.dirname(os.path.dirname(os.path.abspath(__file__)))
props = {json.loads(l)["id"]: json.loads(l) for l in open(os.path.join(V, "properties.jsonl"))}
ROUND2 = "--round2" in sys.argv
ROUND3 = "--round3" in sys.argv
ROUND4 = "--round4" in sys.argv
T = open(os.path.join(V, "tools", "seed_task_template4.md" if ROUND4 else "seed_task_template3.md" if ROUND3 else "seed_task_template2.md" if ROUND2 else "seed_task_template.md")).read()
for p in [a for a in sys.argv[1:] if not a.startswith("--")]:
    d = props[p]
    wt = ("/tmp/seed4_%s" if ROUND4 else "/tmp/seed3_%s" if ROUND3 else "/tmp/seed2_%s" if ROUND2 else "/tmp/seed_%s") % p
    os.makedirs(wt + "/out", exist_ok=True)
    open(wt + "/out/TASK.md", "w").write(T.format(wt=wt, id=p, title=d["title"], statement=d["statement"]))
    print("wrote", wt + "/out/TASK.md")
