(* C10 END TO END over the composition broker + eager client + Uist server + Uist exchange (Model/BrokerSys.v), [R]: a successful liquidation REALLY raises the cash — two checks later at unchanged prices (the property's `observe_at`: cash two ticks later at unchanged prices). `whole_long b`: unique symbols, positive whole quantities, every holding quoted with a positive bid. `sell_fill bid o t`: trade t is order o sold in full at that bid. Statements only. *)
From Coq Require Import ZArith NArith List Bool String Permutation Sorted Reals Floats.
From Flocq Require Import Raux.
From Alator Require Import Model.Num Model.Quirks Model.Cost Model.Exchange Model.Uist Model.Server Model.Broker
  Model.Perf Model.Strategy Model.BrokerSys Proofs.ServerProofs Proofs.ExchangeProofs Proofs.BrokerLedgerProofs
  Proofs.BrokerLiqProofs Proofs.EndToEnd05 Proofs.EndToEnd04 Proofs.EndToEndExamples Proofs.EndToEnd10.
Import ListNotations.
Local Open Scope list_scope.

(* A Ready broker with non-negative cash and none of its orders outstanding gets WithdrawSuccess for a request c; the row of the next clock date quotes every sold symbol at the last seen bid. Then (1) the call moves no cash and its sells — market sells of distinct held symbols, each for at most the holding — are exactly the outstanding orders; (2) the first check admits them, books nothing; (3) the second check fills every one exactly once at that bid: cash = cash0 + sum of shares x bid >= cash0 + c, nothing outstanding, pending empty, holdings reduced by the quantities sold (entry gone at zero), still Ready. *)
Theorem c10s_cash_raised :
  forall (y y3 : bsys R) (c : R) (ord ord1 ord2 : list string) 
           (perm1 perm2 : list nat) (bt : backtest (uexch R)) (d : dataset (quotes (quote R)))
           (dt1 : Z) (row1 : quotes (quote R)) (b1 : broker R) (fw : list (uorder R)),
         bs_inv y ->
         @outstanding R y = [] ->
         whole_long (@bs_brkr R y) ->
         @b_failed R (@bs_brkr R y) = false ->
         (0 <= @b_cash R (@bs_brkr R y))%R ->
         (0 <= c)%R ->
         @withdraw_cash_with_liquidation R RNum clean (@bs_brkr R y) c ord =
         @Ok (broker R * cash_event R * list (uorder R)) (b1, @WithdrawSuccess R c, fw) ->
         @nlookup (backtest (uexch R)) (@backtests (uexch R) (quotes (quote R)) (@bs_app R y))
           (@bs_id R y) = @Some (backtest (uexch R)) bt ->
         @slookup (dataset (quotes (quote R)))
           (@datasets (uexch R) (quotes (quote R)) (@bs_app R y)) (@bt_dataset (uexch R) bt) =
         @Some (dataset (quotes (quote R))) d ->
         clock_date d (S (@bt_pos (uexch R) bt)) = @Some Z dt1 ->
         @get_quotes (quotes (quote R)) d dt1 = @Some (quotes (quote R)) row1 ->
         (forall o : uorder R,
          @In (uorder R) o fw ->
          exists q : quote R,
            @lookup (quote R) row1 (@uo_symbol R o) = @Some (quote R) q /\
            @q_bid R q = bid_of (@bs_brkr R y) (@uo_symbol R o)) ->
         @bs_run R RNum clean y [@BSLiq R c ord; @BSCheck R perm1 ord1; @BSCheck R perm2 ord2] =
         @Ok (bsys R) y3 ->
         exists
           (y1 y2 : bsys R) (bt1 bt2 bt3 : backtest (uexch R)) (sorted : list (uorder R)) 
         (trades : list (trade R)),
           @bs_step R RNum clean y (@BSLiq R c ord) = @Ok (bsys R) y1 /\
           (forall o1 : list string,
            @bs_step R RNum clean y1 (@BSCheck R perm1 o1) = @Ok (bsys R) y2) /\
           (forall o2 : list string,
            @bs_step R RNum clean y2 (@BSCheck R perm2 o2) = @Ok (bsys R) y3) /\
           (@Forall (uorder R) is_market_sell fw /\
            @NoDup string (@map (uorder R) string (@uo_symbol R) fw) /\
            @Forall (uorder R)
              (fun o : uorder R =>
               exists h : R,
                 @sget R (@b_holdings R (@bs_brkr R y)) (@uo_symbol R o) = @Some R h /\
                 (0 < @uo_shares R o <= h)%R) fw /\
            @b_cash R (@bs_brkr R y1) = @b_cash R (@bs_brkr R y) /\
            @outstanding R y1 = fw /\
            @nlookup (backtest (uexch R))
              (@backtests (uexch R) (quotes (quote R)) (@bs_app R y1)) 
              (@bs_id R y1) = @Some (backtest (uexch R)) bt1 /\
            @book (uorder R) (trade R) (@bt_exch (uexch R) bt1) = [] /\
            @buffer (uorder R) (trade R) (@bt_exch (uexch R) bt1) = fw) /\
           (@b_cash R (@bs_brkr R y2) = @b_cash R (@bs_brkr R y) /\
            @b_holdings R (@bs_brkr R y2) = @b_holdings R (@bs_brkr R y) /\
            @b_log R (@bs_brkr R y2) = @b_log R (@bs_brkr R y) /\
            @b_failed R (@bs_brkr R y2) = false /\
            @apply_perm (uorder R) fw perm1 = @Some (list (uorder R)) sorted /\
            @Permutation (uorder R) sorted fw /\
            @outstanding R y2 = sorted /\
            @nlookup (backtest (uexch R))
              (@backtests (uexch R) (quotes (quote R)) (@bs_app R y2)) 
              (@bs_id R y2) = @Some (backtest (uexch R)) bt2 /\
            @map (entry (uorder R)) (uorder R) (@e_ord (uorder R))
              (@book (uorder R) (trade R) (@bt_exch (uexch R) bt2)) = sorted /\
            @buffer (uorder R) (trade R) (@bt_exch (uexch R) bt2) = [] /\
            @xlog (uorder R) (trade R) (@bt_exch (uexch R) bt2) =
            @xlog (uorder R) (trade R) (@bt_exch (uexch R) bt)) /\
           perm2 = [] /\
           @Forall2 (uorder R) (trade R) (sell_fill (bid_of (@bs_brkr R y))) sorted trades /\
           @b_log R (@bs_brkr R y3) = @b_log R (@bs_brkr R y) ++ trades /\
           @nlookup (backtest (uexch R)) (@backtests (uexch R) (quotes (quote R)) (@bs_app R y3))
             (@bs_id R y3) = @Some (backtest (uexch R)) bt3 /\
           @xlog (uorder R) (trade R) (@bt_exch (uexch R) bt3) =
           @xlog (uorder R) (trade R) (@bt_exch (uexch R) bt) ++ trades /\
           @book (uorder R) (trade R) (@bt_exch (uexch R) bt3) = [] /\
           @buffer (uorder R) (trade R) (@bt_exch (uexch R) bt3) = [] /\
           @b_cash R (@bs_brkr R y3) =
           (@b_cash R (@bs_brkr R y) +
            @sumR (uorder R)
              (fun o : uorder R => @uo_shares R o * bid_of (@bs_brkr R y) (@uo_symbol R o)) fw)%R /\
           (@b_cash R (@bs_brkr R y) + c <= @b_cash R (@bs_brkr R y3))%R /\
           @outstanding R y3 = [] /\
           @b_pending R (@bs_brkr R y3) = [] /\
           (forall (o : uorder R) (h : R),
            @In (uorder R) o fw ->
            @sget R (@b_holdings R (@bs_brkr R y)) (@uo_symbol R o) = @Some R h ->
            @sget R (@b_holdings R (@bs_brkr R y3)) (@uo_symbol R o) =
            (if Req_bool (h - @uo_shares R o) 0 then @None R else @Some R (h - @uo_shares R o)%R)) /\
           (forall s : string,
            (forall o : uorder R, @In (uorder R) o fw -> @uo_symbol R o <> s) ->
            @sget R (@b_holdings R (@bs_brkr R y3)) s = @sget R (@b_holdings R (@bs_brkr R y)) s) /\
           @b_failed R (@bs_brkr R y3) = false.
Proof. exact @c10_cash_raised_end_to_end. Qed.

(* The hash orders handed to the two checks are irrelevant (cash never goes negative, so the rebalancing does not run). *)
Theorem c10s_any_check_orders :
  forall (y y3 : bsys R) (c : R) (ord ord1 ord2 : list string) 
           (perm1 perm2 : list nat) (bt : backtest (uexch R)) (d : dataset (quotes (quote R)))
           (dt1 : Z) (row1 : quotes (quote R)) (b1 : broker R) (fw : list (uorder R)),
         bs_inv y ->
         @outstanding R y = [] ->
         whole_long (@bs_brkr R y) ->
         @b_failed R (@bs_brkr R y) = false ->
         (0 <= @b_cash R (@bs_brkr R y))%R ->
         (0 <= c)%R ->
         @withdraw_cash_with_liquidation R RNum clean (@bs_brkr R y) c ord =
         @Ok (broker R * cash_event R * list (uorder R)) (b1, @WithdrawSuccess R c, fw) ->
         @nlookup (backtest (uexch R)) (@backtests (uexch R) (quotes (quote R)) (@bs_app R y))
           (@bs_id R y) = @Some (backtest (uexch R)) bt ->
         @slookup (dataset (quotes (quote R)))
           (@datasets (uexch R) (quotes (quote R)) (@bs_app R y)) (@bt_dataset (uexch R) bt) =
         @Some (dataset (quotes (quote R))) d ->
         clock_date d (S (@bt_pos (uexch R) bt)) = @Some Z dt1 ->
         @get_quotes (quotes (quote R)) d dt1 = @Some (quotes (quote R)) row1 ->
         (forall o : uorder R,
          @In (uorder R) o fw ->
          exists q : quote R,
            @lookup (quote R) row1 (@uo_symbol R o) = @Some (quote R) q /\
            @q_bid R q = bid_of (@bs_brkr R y) (@uo_symbol R o)) ->
         @bs_run R RNum clean y [@BSLiq R c ord; @BSCheck R perm1 ord1; @BSCheck R perm2 ord2] =
         @Ok (bsys R) y3 ->
         (forall o1 o2 : list string,
          @bs_run R RNum clean y [@BSLiq R c ord; @BSCheck R perm1 o1; @BSCheck R perm2 o2] =
          @Ok (bsys R) y3) /\
         (@b_cash R (@bs_brkr R y) + c <= @b_cash R (@bs_brkr R y3))%R /\
         @outstanding R y3 = [] /\
         @b_pending R (@bs_brkr R y3) = [] /\ @b_failed R (@bs_brkr R y3) = false.
Proof. exact @c10_cash_raised_any_check_orders. Qed.

(* Non-vacuity, kernel-evaluated at the IEEE instance: deposit 1000, buy 5 ABC and 30 BCD, then withdraw_cash_with_liquidation(650) with cash 165: sells ABC 5 and BCD 15, two checks later cash is 815 >= 165 + 650. *)
Theorem c10s_example :
  @bind (bsys float)
           (list (uorder float) * bool * float * smap float * smap float * list (string * float) *
            option (list (string * float)) * option (cash_event float * list (uorder float)))
           (@bs_run float FN10 clean x10_y0 x10_setup)
           (fun y : bsys float =>
            @Ok
              (list (uorder float) * bool * float * smap float * smap float *
               list (string * float) * option (list (string * float)) *
               option (cash_event float * list (uorder float))) (x10_pre y)) =
         @Ok
           (list (uorder float) * bool * float * list (string * float) * list (string * float) *
            list (string * float) * option (list (string * float)) *
            option (cash_event float * list (uorder float)))
           ([], false, 165%float, [("ABC", 5%float); ("BCD", 30%float)], [],
            [("ABC", 100%float); ("BCD", 10%float)],
            @Some (list (string * float)) [("ABC", 100%float); ("BCD", 10%float)],
            @Some (cash_event float * list (uorder float))
              (@WithdrawSuccess float 650%float,
               [{|
                  uo_type := MarketSell;
                  uo_symbol := "ABC";
                  uo_shares := 5%float;
                  uo_price := @None float
                |};
                {|
                  uo_type := MarketSell;
                  uo_symbol := "BCD";
                  uo_shares := 15%float;
                  uo_price := @None float
                |}])) /\
         @bind (bsys float) (list (uorder float) * bool * float * smap float * smap float * nat)
           (@bs_run float FN10 clean x10_y0 x10_setup)
           (fun y : bsys float =>
            @bind (bsys float)
              (list (uorder float) * bool * float * smap float * smap float * nat)
              (@bs_run float FN10 clean y [@BSLiq float x10_c x10_ord])
              (fun y1 : bsys float =>
               @Ok (list (uorder float) * bool * float * smap float * smap float * nat)
                 (x10_post y1))) =
         @Ok
           (list (uorder float) * bool * float * list (string * float) * list (string * float) *
            nat)
           ([{|
               uo_type := MarketSell;
               uo_symbol := "ABC";
               uo_shares := 5%float;
               uo_price := @None float
             |};
             {|
               uo_type := MarketSell;
               uo_symbol := "BCD";
               uo_shares := 15%float;
               uo_price := @None float
             |}], false, 165%float, [("ABC", 5%float); ("BCD", 30%float)],
            [("ABC", (-5)%float); ("BCD", (-15)%float)], 2) /\
         @bind (bsys float) (list (uorder float) * bool * float * smap float * smap float * nat)
           (@bs_run float FN10 clean x10_y0 x10_setup)
           (fun y : bsys float =>
            @bind (bsys float)
              (list (uorder float) * bool * float * smap float * smap float * nat)
              (@bs_run float FN10 clean y [@BSLiq float x10_c x10_ord; @BSCheck float [0; 1] []])
              (fun y2 : bsys float =>
               @Ok (list (uorder float) * bool * float * smap float * smap float * nat)
                 (x10_post y2))) =
         @Ok
           (list (uorder float) * bool * float * list (string * float) * list (string * float) *
            nat)
           ([{|
               uo_type := MarketSell;
               uo_symbol := "ABC";
               uo_shares := 5%float;
               uo_price := @None float
             |};
             {|
               uo_type := MarketSell;
               uo_symbol := "BCD";
               uo_shares := 15%float;
               uo_price := @None float
             |}], false, 165%float, [("ABC", 5%float); ("BCD", 30%float)],
            [("ABC", (-5)%float); ("BCD", (-15)%float)], 2) /\
         @bind (bsys float)
           (list (uorder float) * bool * float * smap float * smap float * nat * bool)
           (@bs_run float FN10 clean x10_y0 x10_setup)
           (fun y : bsys float =>
            @bind (bsys float)
              (list (uorder float) * bool * float * smap float * smap float * nat * bool)
              (@bs_run float FN10 clean y x10_liq)
              (fun y3 : bsys float =>
               @Ok (list (uorder float) * bool * float * smap float * smap float * nat * bool)
                 (x10_post y3,
                  (@b_cash float (@bs_brkr float y) + x10_c <=? @b_cash float (@bs_brkr float y3))%float))) =
         @Ok
           (list (uorder float) * bool * float * list (string * float) * list (string * float) *
            nat * bool) ([], false, 815%float, [("BCD", 15%float)], [], 4, true).
Proof. exact @c10_cash_raised_observed_at_floats. Qed.

Print Assumptions c10s_cash_raised.
Print Assumptions c10s_any_check_orders.
Print Assumptions c10s_example.
