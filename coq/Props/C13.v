(* C13 — cost-aware sizing never overspends the budget. Statements only; proofs in Proofs/. *)
From Coq Require Import ZArith List Bool Reals Permutation Lra.
From Alator Require Import Model.Num Model.Cost Proofs.CostProofs.
Import ListNotations.
Local Open Scope R_scope.
Local Existing Instance RNum.

(* Buying floor(net budget / net price) shares costs no more than the gross budget once every fee
   computed on the resulting trade is added — for every cost list, any length and order. *)
Theorem c13_no_overspend : forall (cs : list (cost R)) (budget price : R),
  Forall cost_nonneg cs -> sum_pct cs < 1 ->
  0 < snd (trade_impact_total cs budget price true) ->
  0 <= sized_shares cs budget price true ->
  sized_shares cs budget price true * price
  + calculate_trade_costs cs (sized_shares cs budget price true)
      (sized_shares cs budget price true * price) <= budget.
Proof. exact no_overspend_sum. Qed.

(* Stronger: every single percentage below 100 % is enough (their sum may exceed it). *)
Theorem c13_no_overspend_each : forall (cs : list (cost R)) (budget price : R),
  Forall cost_ok cs ->
  0 < snd (trade_impact_total cs budget price true) ->
  0 <= sized_shares cs budget price true ->
  sized_shares cs budget price true * price
  + calculate_trade_costs cs (sized_shares cs budget price true)
      (sized_shares cs budget price true * price) <= budget.
Proof. exact no_overspend. Qed.

(* Fees are additive across the list: per-share x quantity, percentage x value, flat per trade. *)
Theorem c13_fees_closed_form : forall (cs : list (cost R)) (qty value : R),
  calculate_trade_costs cs qty value = sum_ps cs * qty + value * sum_pct cs + sum_flat cs.
Proof. exact calculate_trade_costs_closed. Qed.

Theorem c13_fees_additive : forall (cs1 cs2 : list (cost R)) (qty value : R),
  calculate_trade_costs (cs1 ++ cs2) qty value
  = calculate_trade_costs cs1 qty value + calculate_trade_costs cs2 qty value.
Proof. exact calculate_trade_costs_app. Qed.

Theorem c13_fees_order_independent : forall (cs1 cs2 : list (cost R)) (qty value : R),
  Permutation cs1 cs2 -> calculate_trade_costs cs1 qty value = calculate_trade_costs cs2 qty value.
Proof. exact calculate_trade_costs_perm. Qed.

(* The cost-adjusted price is never below the gross price for buys nor above it for sells. *)
Theorem c13_price_direction_buy : forall (cs : list (cost R)) (b p : R),
  Forall cost_ok cs -> p <= snd (trade_impact_total cs b p true).
Proof. exact price_direction_buy. Qed.

Theorem c13_price_direction_sell : forall (cs : list (cost R)) (b p : R),
  Forall cost_ok cs -> snd (trade_impact_total cs b p false) <= p.
Proof. exact price_direction_sell. Qed.

(* The net budget never exceeds the gross budget. *)
Theorem c13_budget_le : forall (cs : list (cost R)) (b p : R) (is_buy : bool),
  Forall cost_ok cs -> 0 <= b -> fst (trade_impact_total cs b p is_buy) <= b.
Proof. exact budget_le. Qed.

(* Non-vacuity: a concrete list meets the hypotheses with a positive share count; and the guard on
   percentages cannot be dropped. *)
Example c13_nonvacuous :
  let cs := [PerShare (1/2); PctOfValue (1/100); Flat 5] in
  Forall cost_nonneg cs /\ sum_pct cs < 1 /\
  0 < snd (trade_impact_total cs 1000 10 true).
Proof.
  cbn. repeat split; try lra.
  repeat constructor; simpl; lra.
Qed.

Theorem c13_guard_needed :
  let cs := [Flat 10; PctOfValue 1] in
  let n := sized_shares cs 5 1 true in
  n = 0 /\ ~ (n * 1 + calculate_trade_costs cs n (n * 1) <= 5).
Proof. exact no_overspend_needs_pct_lt_1. Qed.

Print Assumptions c13_no_overspend.
Print Assumptions c13_no_overspend_each.
Print Assumptions c13_fees_closed_form.
Print Assumptions c13_fees_additive.
Print Assumptions c13_fees_order_independent.
Print Assumptions c13_price_direction_buy.
Print Assumptions c13_price_direction_sell.
Print Assumptions c13_budget_le.
Print Assumptions c13_guard_needed.
