(* CostProofs.v — C13: cost-aware sizing never overspends (at F := R). *)
From Coq Require Import ZArith List Bool Reals Lra Lia Permutation.
From Flocq Require Import Raux.
From Alator Require Import Model.Num Model.Cost.
Import ListNotations.
Local Open Scope R_scope.

Local Existing Instance RNum.

Notation rcost := (cost R).

(* Admissible cost entries: non-negative, percentages strictly below 100 %. *)
Definition cost_ok (c : rcost) : Prop :=
  match c with
  | PerShare v => 0 <= v
  | PctOfValue p => 0 <= p < 1
  | Flat v => 0 <= v
  end.

Definition sum_ps (cs : list rcost) : R :=
  fold_right (fun c a => match c with PerShare v => v + a | _ => a end) 0 cs.
Definition sum_pct (cs : list rcost) : R :=
  fold_right (fun c a => match c with PctOfValue p => p + a | _ => a end) 0 cs.
Definition sum_flat (cs : list rcost) : R :=
  fold_right (fun c a => match c with Flat v => v + a | _ => a end) 0 cs.

Lemma sum_ps_nonneg cs : Forall cost_ok cs -> 0 <= sum_ps cs.
Proof. induction 1 as [|c cs Hc _ IH]; simpl; [lra|]. destruct c; simpl in Hc; lra. Qed.
Lemma sum_pct_nonneg cs : Forall cost_ok cs -> 0 <= sum_pct cs.
Proof. induction 1 as [|c cs Hc _ IH]; simpl; [lra|]. destruct c; simpl in Hc; lra. Qed.
Lemma sum_flat_nonneg cs : Forall cost_ok cs -> 0 <= sum_flat cs.
Proof. induction 1 as [|c cs Hc _ IH]; simpl; [lra|]. destruct c; simpl in Hc; lra. Qed.

(* --- fees are additive ------------------------------------------------------------------ *)

Lemma ctc_fold cs q v a :
  fold_left (fun acc c => fadd acc (cost_calc c q v)) cs a
  = a + (sum_ps cs * q + v * sum_pct cs + sum_flat cs).
Proof.
  revert a; induction cs as [|c cs IH]; intros a; simpl.
  - lra.
  - rewrite IH. destruct c; simpl; lra.
Qed.

Lemma calculate_trade_costs_closed cs q v :
  calculate_trade_costs cs q v = sum_ps cs * q + v * sum_pct cs + sum_flat cs.
Proof. unfold calculate_trade_costs. rewrite ctc_fold. simpl. lra. Qed.

Lemma calculate_trade_costs_app cs1 cs2 q v :
  calculate_trade_costs (cs1 ++ cs2) q v
  = calculate_trade_costs cs1 q v + calculate_trade_costs cs2 q v.
Proof.
  unfold calculate_trade_costs. rewrite fold_left_app, !ctc_fold. simpl. lra.
Qed.

Lemma calculate_trade_costs_cons c cs q v :
  calculate_trade_costs (c :: cs) q v = cost_calc c q v + calculate_trade_costs cs q v.
Proof. change (c :: cs) with ([c] ++ cs). rewrite calculate_trade_costs_app.
  unfold calculate_trade_costs at 1. simpl. lra. Qed.

Lemma calculate_trade_costs_perm cs1 cs2 q v :
  Permutation cs1 cs2 ->
  calculate_trade_costs cs1 q v = calculate_trade_costs cs2 q v.
Proof.
  induction 1 as [|c l l' _ IH|c d l|l l' l'' _ IH1 _ IH2].
  - reflexivity.
  - rewrite !calculate_trade_costs_cons, IH. reflexivity.
  - rewrite !calculate_trade_costs_cons. lra.
  - congruence.
Qed.

(* --- net price ----------------------------------------------------------------------------- *)

Lemma tit_snd cs b p is_buy :
  snd (trade_impact_total cs b p is_buy)
  = if is_buy then p + sum_ps cs else p - sum_ps cs.
Proof.
  unfold trade_impact_total. revert b p.
  induction cs as [|c cs IH]; intros b p; simpl.
  - destruct is_buy; lra.
  - destruct c; simpl; rewrite IH; destruct is_buy; simpl; lra.
Qed.

Lemma price_direction_buy cs b p :
  Forall cost_ok cs -> p <= snd (trade_impact_total cs b p true).
Proof. intros H. rewrite tit_snd. pose proof (sum_ps_nonneg cs H). lra. Qed.

Lemma price_direction_sell cs b p :
  Forall cost_ok cs -> snd (trade_impact_total cs b p false) <= p.
Proof. intros H. rewrite tit_snd. pose proof (sum_ps_nonneg cs H). lra. Qed.

(* --- net budget ---------------------------------------------------------------------------- *)

Lemma tit_fst_indep_price cs b p p' ib ib' :
  fst (trade_impact_total cs b p ib) = fst (trade_impact_total cs b p' ib').
Proof.
  unfold trade_impact_total. revert b p p'.
  induction cs as [|c cs IH]; intros b p p'; simpl; [reflexivity|].
  destruct c; simpl; apply IH.
Qed.

(* If the net budget is non-negative so was every intermediate one, and the gross budget
   covers net * (1 + sum of percentages) + sum of flat fees. *)
Lemma budget_invariant cs b p ib :
  Forall cost_ok cs ->
  0 <= fst (trade_impact_total cs b p ib) ->
  0 <= b /\
  fst (trade_impact_total cs b p ib) * (1 + sum_pct cs) + sum_flat cs <= b.
Proof.
  unfold trade_impact_total. revert b p.
  induction cs as [|c cs IH]; intros b p Hok Hnn; simpl in *.
  - split; lra.
  - inversion Hok as [|c' cs' Hc Hcs]; subst.
    destruct c as [v|x|v]; simpl in *.
    + destruct (IH _ _ Hcs Hnn) as [Hb Hinv]. split; lra.
    + destruct (IH _ _ Hcs Hnn) as [Hb Hinv].
      set (n := fst (fold_left _ cs _)) in *.
      pose proof (sum_pct_nonneg cs Hcs) as Hs.
      pose proof (sum_flat_nonneg cs Hcs) as Hf.
      assert (Hb0 : 0 <= b) by nra.
      split; [exact Hb0|].
      (* n (1+S) + Fl <= b (1-x), so n(1+x+S) + Fl <= b *)
      assert (n * (1 + sum_pct cs) + sum_flat cs <= b * (1 - x)) by lra.
      assert (0 <= n * (1 + sum_pct cs)) by nra.
      (* multiply H by (1+x) >= 1 : (1+x)(1-x) <= 1 *)
      assert (Hm : (n * (1 + sum_pct cs) + sum_flat cs) * (1 + x) <= b * (1 - x) * (1 + x)) by nra.
      assert (Hn0 : 0 <= n) by exact Hnn.
      assert (HnS : 0 <= n * sum_pct cs) by (apply Rmult_le_pos; lra).
      assert (HnSx : 0 <= n * sum_pct cs * x) by (apply Rmult_le_pos; lra).
      assert (Hnx : n * x <= n * (1 + sum_pct cs) * x) by lra.
      assert (Hbx : b * (1 - x) * (1 + x) <= b) by nra.
      assert (Hfx : 0 <= sum_flat cs * x) by nra.
      lra.
    + destruct (IH _ _ Hcs Hnn) as [Hb Hinv]. split; lra.
Qed.

Lemma budget_le cs b p ib :
  Forall cost_ok cs -> 0 <= b -> fst (trade_impact_total cs b p ib) <= b.
Proof.
  unfold trade_impact_total. revert b p.
  induction cs as [|c cs IH]; intros b p Hok Hb; simpl; [lra|].
  inversion Hok as [|c' cs' Hc Hcs]; subst.
  destruct c as [v|x|v]; simpl in *.
  - apply IH; assumption.
  - destruct (Rle_dec 0 (b * (1 - x))) as [Hnn|Hneg].
    + specialize (IH (b * (1 - x)) p Hcs Hnn). nra.
    + exfalso. apply Hneg. nra.
  - destruct (Rle_dec 0 (b - v)) as [Hnn|Hneg].
    + specialize (IH (b - v) p Hcs Hnn). lra.
    + (* budget already negative: it only falls further or stays below b *)
      clear IH.
      assert (Hmono : forall cs b0 p0, Forall cost_ok cs -> b0 <= 0 ->
                fst (fold_left (fun res c => trade_impact c (fst res) (snd res) ib) cs (b0, p0)) <= 0).
      { clear. induction cs as [|c cs IH]; intros b0 p0 Hok Hb0; simpl; [lra|].
        inversion Hok as [|c' cs' Hc Hcs]; subst.
        destruct c as [v|x|v]; simpl in *; apply IH; try assumption; nra. }
      specialize (Hmono cs (b - v) p Hcs). lra.
Qed.

(* --- the sizing theorem -------------------------------------------------------------------- *)

Lemma Zfloor_mul_le x y : 0 < y -> IZR (Zfloor (x / y)) * y <= x.
Proof.
  intros Hy. pose proof (Zfloor_lb (x / y)) as H.
  apply Rmult_le_compat_r with (r := y) in H; [|lra].
  replace (x / y * y) with x in H by (field; lra). exact H.
Qed.

Theorem no_overspend cs budget price :
  Forall cost_ok cs ->
  let net := trade_impact_total cs budget price true in
  0 < snd net ->
  let n := sized_shares cs budget price true in
  0 <= n ->
  n * price + calculate_trade_costs cs n (n * price) <= budget.
Proof.
  intros Hok net Hp n Hn.
  unfold sized_shares in n. fold net in n. cbn [fdiv ffloor RNum] in n.
  assert (Hnp : n * snd net <= fst net) by (apply Zfloor_mul_le; exact Hp).
  assert (Hb' : 0 <= fst net) by nra.
  destruct (budget_invariant cs budget price true Hok Hb') as [Hb Hinv]. fold net in Hinv.
  rewrite calculate_trade_costs_closed.
  unfold net in Hnp at 1. rewrite tit_snd in Hnp.
  pose proof (sum_ps_nonneg cs Hok) as Hps.
  pose proof (sum_pct_nonneg cs Hok) as Hs.
  pose proof (sum_flat_nonneg cs Hok) as Hf.
  (* V = n (p + ps) ; cost <= V (1+S) + Fl *)
  set (V := n * (price + sum_ps cs)) in *.
  assert (HV : 0 <= V).
  { unfold V. unfold net in Hp. rewrite tit_snd in Hp. nra. }
  assert (n * price <= V) by (unfold V; nra).
  assert (n * price * sum_pct cs <= V * sum_pct cs) by nra.
  assert (V * (1 + sum_pct cs) <= fst net * (1 + sum_pct cs)) by nra.
  unfold V in *. nra.
Qed.

(* The hypothesis as the property text words it. *)
Definition cost_nonneg (c : rcost) : Prop :=
  match c with PerShare v | PctOfValue v | Flat v => 0 <= v end.

Lemma cost_ok_of_sum cs :
  Forall cost_nonneg cs -> sum_pct cs < 1 -> Forall cost_ok cs.
Proof.
  induction cs as [|c cs IH]; intros Hnn Hs; [constructor|].
  inversion Hnn as [|c' cs' Hc Hcs]; subst.
  assert (Hs' : 0 <= sum_pct cs).
  { clear -Hcs. induction Hcs as [|c cs Hc _ IH]; simpl; [lra|]. destruct c; simpl in Hc; lra. }
  constructor.
  - destruct c; simpl in *; lra.
  - apply IH; [assumption|]. destruct c; simpl in *; lra.
Qed.

Corollary no_overspend_sum cs budget price :
  Forall cost_nonneg cs -> sum_pct cs < 1 ->
  0 < snd (trade_impact_total cs budget price true) ->
  0 <= sized_shares cs budget price true ->
  sized_shares cs budget price true * price
  + calculate_trade_costs cs (sized_shares cs budget price true)
      (sized_shares cs budget price true * price) <= budget.
Proof.
  intros Hnn Hs Hp Hn. apply no_overspend; auto using cost_ok_of_sum.
Qed.

(* The guard is needed: with a 100 % fee after a flat fee the statement fails. *)
Lemma no_overspend_needs_pct_lt_1 :
  let cs := [Flat 10; PctOfValue 1] in
  let n := sized_shares cs 5 1 true in
  n = 0 /\ ~ (n * 1 + calculate_trade_costs cs n (n * 1) <= 5).
Proof.
  cbn -[Zfloor]. replace ((5 - 10) * (1 - 1) / 1) with 0 by field.
  rewrite Zfloor_IZR. split; [reflexivity|]. unfold calculate_trade_costs; simpl. lra.
Qed.
