"""C14 — perf slice; see driver/perf.py and Props/C14.v"""
import perf


def run(res, tier, seed, replay):
    return perf.run_property(res, "C14", tier, seed, replay, ["C14"])
