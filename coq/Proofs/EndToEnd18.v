(* EndToEnd18.v — C18's immediate-or-cancel, trigger and good-till-cancel sentences over WHOLE HISTORIES
   of the Jura exchange (Model/Jura.v on the skeleton Model/Exchange.v), for EVERY Num F (no law of
   arithmetic is used), quirks := clean.  Statements are those of Proofs/EndToEnd18Targets.txt.

   "An immediate-or-cancel order is tried once, on the first tick that quotes its asset (...), otherwise
    it is dropped and never fills later ... A trigger order never fills itself ... firing replaces it
    with a fresh-id limit child ... eligible only from the following tick."

   The exchange keeps an `attempted_execution` flag per resting order.  Here a GHOST table is run
   alongside the real exchange: for every resting entry, the number of successful ticks since its
   admission on which its asset was quoted.  The ghost looks only at ids, assets and quotes — never at
   the flag, never at the decision function — and does not influence the run (grun_outputs,
   grun_states below).  T1/T2 relate the exchange's flag and its fills to that count.

   All theorems are stated for a trace started from ANY consistent pair (GInv s0 g0: Inv s0, ghost 0 on
   ids not yet handed out, flag = (count >= 1) and count <= 1 on resting IOC entries); ginv_init gives
   the empty exchange with the empty ghost, and the *_init corollaries at the end specialise to it.
   "Later element" is expressed by splitting the trace: trace = pre ++ this :: post.

   Deviations from EndToEnd18Targets.txt:
   - only successful ticks (output OutTick) are considered, as the targets do: an order whose limit or
     size does not parse when needed, or an Alo order, makes the tick panic (OutPanic), the state and the
     ghost stay as they were.  Conversely, from OutTick the theorems DERIVE that the limit (and, when it
     fills, the size) of the entry parses — it is a conclusion, not a hypothesis;
   - T2 converse, second alternative: "is absent from every later book" is false as written — an IOC
     order that misses its price on its first quoted tick is MARKED and keeps resting (flag set, count 1)
     until the next successful tick that quotes its asset, which drops it.  Proved instead: no fill now,
     marked entry resting after the tick, count 1, no fill at any later element, every later entry with
     that id is the marked one (ioc_first_quoted_tick_fate); and the next quoted tick removes it for
     good (ioc_dropped_at_second_quoted_tick);
   - ioc_never_fills_later is proved without the hypothesis "did not fill at its first quoted tick":
     after ANY successful tick quoting its asset an IOC entry never fills at a later element;
   - T3 covers earlier, simultaneous and later fills, for an id known to be a trigger order either by
     resting with a trigger payload or by being admitted with one (known_trigger). *)
From Coq Require Import ZArith NArith List Bool String Lia Permutation Sorted.
From Alator Require Import Model.Num Model.Quirks Model.Exchange Model.Uist Model.Jura
  Proofs.ListAux Proofs.ExchangeProofs Proofs.JuraProofs Proofs.ExchangeCorollaries.
Import ListNotations.
Local Open Scope num_scope.

Section EndToEnd18.
Context {F : Type} {NF : Num F}.

Notation jdecide := (jura_decide (F:=F) clean).
Notation jstep := (jura_step (F:=F) clean).
Notation jtick := (jura_tick (F:=F) clean).
Notation jrun := (jura_run (F:=F) clean).
Notation jact := (action_of jura_sym jdecide).
Notation jkp := (keeps jura_sym jdecide).
Notation jaw := (after_walk jura_sym jdecide).
Notation jfo := (fill_of jura_sym jdecide).
Notation jco := (child_of jura_sym jdecide).
Notation jentry := (entry (jorder F)).

(* ====================== the ghost bookkeeping ====================== *)

(* id -> number of quoted ticks experienced while resting; absent = 0 *)
Definition seen := list (N * nat).

Fixpoint seen_get (g : seen) (i : N) : nat :=
  match g with
  | [] => 0%nat
  | (j, n) :: g' => if N.eqb i j then n else seen_get g' i
  end.

(* does this tick's quote table have a row for the order's asset *)
Definition quoted (qs : quotes (quote F)) (o : jorder F) : bool :=
  match lookup qs (N_to_string (jo_asset o)) with Some _ => true | None => false end.

(* after a successful tick with quotes qs from exchange state s: the table is rebuilt from the resting
   entries of s; every one whose asset is quoted gets +1.  Ids that are not resting in s (the orders
   admitted and the trigger children created by this very tick, in particular) are absent: count 0. *)
Definition seen_tick (g : seen) (s : jexch F) (qs : quotes (quote F)) : seen :=
  map (fun e => (e_id e, (seen_get g (e_id e) + (if quoted qs (e_ord e) then 1 else 0))%nat)) (book s).

(* the ghost after one operation: only a successful tick counts *)
Definition gnext (g : seen) (s : jexch F) (o : jop F) (x : jout F) : seen :=
  match o, x with
  | Tick qs _, OutTick _ _ _ => seen_tick g s qs
  | _, _ => g
  end.

(* one element of the trace: state and ghost BEFORE the operation, the operation, its output *)
Definition elt : Type := (jexch F * seen * jop F * jout F)%type.
Definition el_st (el : elt) : jexch F := fst (fst (fst el)).
Definition el_gh (el : elt) : seen := snd (fst (fst el)).
Definition el_op (el : elt) : jop F := snd (fst el).
Definition el_out (el : elt) : jout F := snd el.

Fixpoint grun (s : jexch F) (g : seen) (ops : list (jop F)) : list elt :=
  match ops with
  | [] => []
  | o :: r =>
      let sx := jstep s o in
      (s, g, o, snd sx) :: grun (fst sx) (gnext g s o (snd sx)) r
  end.

(* state and ghost at the end *)
Fixpoint gend (s : jexch F) (g : seen) (ops : list (jop F)) : jexch F * seen :=
  match ops with
  | [] => (s, g)
  | o :: r => let sx := jstep s o in gend (fst sx) (gnext g s o (snd sx)) r
  end.

(* ---- the ghost does not change the run ---- *)
Lemma grun_outputs s g ops : map el_out (grun s g ops) = snd (jrun s ops).
Proof.
  revert s g. induction ops as [|o r IH]; intros s g; [reflexivity|].
  cbn [grun map]. unfold jura_run. rewrite (run_cons_snd jo_asset jura_sym jura_is_sell jdecide s o r). unfold el_out at 1. cbn [snd].
  f_equal. apply IH.
Qed.

Lemma gend_state s g ops : fst (gend s g ops) = fst (jrun s ops).
Proof.
  revert s g. induction ops as [|o r IH]; intros s g; [reflexivity|].
  cbn [gend]. unfold jura_run. rewrite (run_cons_fst jo_asset jura_sym jura_is_sell jdecide s o r). apply IH.
Qed.

Lemma grun_length s g ops : List.length (grun s g ops) = List.length ops.
Proof.
  revert s g. induction ops as [|o r IH]; intros s g; [reflexivity|].
  cbn [grun List.length]. rewrite IH. reflexivity.
Qed.

Lemma grun_app s g a b :
  grun s g (a ++ b) = grun s g a ++ grun (fst (gend s g a)) (snd (gend s g a)) b.
Proof.
  revert s g. induction a as [|o r IH]; intros s g; [reflexivity|].
  cbn [app grun gend]. f_equal. apply IH.
Qed.

(* the k-th element of the trace holds the state reached by the first k operations of the plain run *)
Lemma grun_states s g ops k el :
  nth_error (grun s g ops) k = Some el ->
  el_st el = fst (jrun s (firstn k ops)) /\
  (exists o, nth_error ops k = Some o /\ el_op el = o /\ el_out el = snd (jstep (el_st el) o)).
Proof.
  revert s g k. induction ops as [|o r IH]; intros s g k H.
  - destruct k; discriminate.
  - destruct k as [|k].
    + cbn in H. inversion H; subst el. split; [reflexivity|]. exists o. repeat split.
    + cbn [grun nth_error] in H. apply IH in H. destruct H as [H1 H2]. split.
      * rewrite H1. cbn [firstn]. unfold jura_run.
        rewrite (run_cons_fst jo_asset jura_sym jura_is_sell jdecide s o (firstn k r)). reflexivity.
      * exact H2.
Qed.

(* every suffix of a trace is the trace of a ghost run from its first element's state and ghost *)
Lemma grun_suffix s0 g0 ops pre s g o x post :
  grun s0 g0 ops = pre ++ (s, g, o, x) :: post ->
  exists ops', (s, g, o, x) :: post = grun s g (o :: ops') /\ ops = firstn (List.length pre) ops ++ o :: ops' /\
               (s, g) = gend s0 g0 (firstn (List.length pre) ops).
Proof.
  revert s0 g0 ops. induction pre as [|p pre IH]; intros s0 g0 ops H.
  - destruct ops as [|o' r]; [discriminate|]. cbn [grun app] in H. inversion H; subst.
    exists r. repeat split.
  - destruct ops as [|o' r]; [discriminate|]. cbn [grun app] in H. inversion H; subst.
    apply IH in H2. destruct H2 as [ops' [H1 [H2 H3]]]. exists ops'. split; [exact H1|].
    cbn [List.length firstn app gend]. split; [f_equal; exact H2|exact H3].
Qed.

Lemma grun_cons_inv s g o r s1 g1 o1 x1 post :
  (s1, g1, o1, x1) :: post = grun s g (o :: r) ->
  s1 = s /\ g1 = g /\ o1 = o /\ x1 = snd (jstep s o) /\
  post = grun (fst (jstep s o)) (gnext g s o (snd (jstep s o))) r.
Proof. cbn [grun]. intros H. inversion H; subst. repeat split. Qed.

(* ====================== T1: the flag is the ghost count ====================== *)

Definition GInv (s : jexch F) (g : seen) : Prop :=
  Inv s /\
  (forall i, (next_id s <= i)%N -> seen_get g i = 0%nat) /\
  (forall e, In e (book s) -> jo_type (e_ord e) = JLimit Ioc ->
     (e_flag e = true <-> (1 <= seen_get g (e_id e))%nat) /\ (seen_get g (e_id e) <= 1)%nat).

Lemma ginv_init : GInv exch_init [].
Proof.
  split; [apply inv_init|]. split; [reflexivity|]. intros e [].
Qed.

Lemma seen_tick_in (g : seen) (b : list jentry) (f : jentry -> nat) e :
  NoDup (ids b) -> In e b ->
  seen_get (map (fun e => (e_id e, f e)) b) (e_id e) = f e.
Proof.
  induction b as [|a b IH]; intros Hnd Hin; [destruct Hin|].
  unfold ids in Hnd. cbn [map] in Hnd. inversion Hnd as [|? ? Hnin Hnd']; subst.
  cbn [map seen_get]. destruct Hin as [Hin|Hin].
  - subst a. rewrite N.eqb_refl. reflexivity.
  - destruct (N.eqb (e_id e) (e_id a)) eqn:He.
    + apply N.eqb_eq in He. exfalso. apply Hnin. rewrite <- He. apply in_map. exact Hin.
    + apply IH; assumption.
Qed.

Lemma seen_tick_notin (b : list jentry) (f : jentry -> nat) i :
  ~ In i (ids b) -> seen_get (map (fun e => (e_id e, f e)) b) i = 0%nat.
Proof.
  induction b as [|a b IH]; intros Hnin; [reflexivity|].
  cbn [map seen_get]. destruct (N.eqb i (e_id a)) eqn:He.
  - apply N.eqb_eq in He. exfalso. apply Hnin. left. symmetry. exact He.
  - apply IH. intros H. apply Hnin. right. exact H.
Qed.

Lemma delete_first_In k (b : list jentry) e : In e (delete_first jo_asset k b) -> In e b.
Proof.
  induction b as [|a b IH]; intros H; [destruct H|].
  cbn [delete_first] in H. destruct (matches jo_asset k a).
  - right. exact H.
  - destruct H as [H|H]; [left; exact H|right; apply IH; exact H].
Qed.

(* what the matching loop does with an entry, by quotedness *)
Lemma jact_unquoted qs (e : jentry) : quoted qs (e_ord e) = false -> jact qs e = ARest.
Proof.
  unfold quoted, action_of, jura_sym. destruct (lookup qs _); [discriminate|reflexivity].
Qed.

Lemma jact_quoted qs (e : jentry) :
  quoted qs (e_ord e) = true ->
  exists q, lookup qs (N_to_string (jo_asset (e_ord e))) = Some q /\ jact qs e = jdecide e q.
Proof.
  unfold quoted, action_of, jura_sym. destruct (lookup qs _) as [q|]; [|discriminate].
  intros _. exists q. split; reflexivity.
Qed.

Lemma jact_fill_quoted qs (e : jentry) t :
  jact qs e = AFill t ->
  exists q, lookup qs (N_to_string (jo_asset (e_ord e))) = Some q /\ jdecide e q = AFill t.
Proof.
  unfold action_of, jura_sym. destruct (lookup qs _) as [q|]; [|discriminate].
  intros H. exists q. split; [reflexivity|exact H].
Qed.

(* an IOC entry that survives the matching loop: unquoted and untouched, or quoted, so far unflagged,
   and now marked *)
Lemma ioc_kept qs (e : jentry) :
  jo_type (e_ord e) = JLimit Ioc -> jkp qs e = true ->
  (quoted qs (e_ord e) = false /\ jaw qs e = e) \/
  (quoted qs (e_ord e) = true /\ e_flag e = false /\ jaw qs e = mark e).
Proof.
  intros Ht Hk. unfold keeps, after_walk in *.
  destruct (quoted qs (e_ord e)) eqn:Hq.
  - right. destruct (jact_quoted qs e Hq) as [q [_ Ha]]. rewrite Ha in *.
    unfold jura_decide in *. rewrite Ht in *.
    destruct (e_flag e); [discriminate|]. split; [reflexivity|]. split; [reflexivity|].
    destruct (jo_limit_px (e_ord e)) as [price|]; [|discriminate].
    unfold jura_fill_buy, jura_fill_sell in *.
    destruct (jo_is_buy (e_ord e)).
    + destruct (q_ask q <=? _); [destruct (jo_sz (e_ord e)); discriminate|reflexivity].
    + destruct (_ <=? q_bid q); [destruct (jo_sz (e_ord e)); discriminate|reflexivity].
  - left. rewrite (jact_unquoted qs e Hq). split; reflexivity.
Qed.

Lemma ginv_tick s g qs perm s' fl adm trig :
  GInv s g -> jtick s qs perm = (s', OutTick fl adm trig) -> GInv s' (seen_tick g s qs).
Proof.
  intros [HI [Hz Hioc]] Ht.
  pose proof (inv_step jo_asset jura_sym jura_is_sell jdecide s (Tick qs perm) HI) as HI'.
  cbn [step] in HI'. unfold jura_tick in Ht. rewrite Ht in HI'. cbn [fst] in HI'.
  destruct (tick_spec jo_asset jura_sym jura_is_sell jdecide s qs perm s' fl adm trig HI Ht)
    as [sorted [Hap [Hperm [Hsf Hrest]]]].
  cbv zeta in Hrest. destruct Hrest as [Hfl [Htrig [Hadm [Hbk [Hbuf [Hn Hx]]]]]].
  pose proof HI as [Hs Hlt]. pose proof (SSorted_lt_NoDup _ Hs) as Hnd.
  assert (Hfresh : forall i, (next_id s <= i)%N -> seen_get (seen_tick g s qs) i = 0%nat).
  { intros i Hi. unfold seen_tick. apply seen_tick_notin. intros Hin.
    rewrite Forall_forall in Hlt. specialize (Hlt i Hin). lia. }
  split; [exact HI'|]. split.
  - intros i Hi. apply Hfresh. rewrite Hn in Hi. lia.
  - intros e' He' Hty. rewrite Hbk in He'. apply in_app_or in He'. destruct He' as [He'|He'].
    + apply in_map_iff in He'. destruct He' as [e [Heq He]]. apply filter_In in He.
      destruct He as [He Hk]. subst e'.
      rewrite after_walk_ord in Hty. rewrite after_walk_id.
      unfold seen_tick.
      rewrite (seen_tick_in g (book s)
                 (fun e => (seen_get g (e_id e) + (if quoted qs (e_ord e) then 1 else 0))%nat) e Hnd He).
      destruct (Hioc e He Hty) as [Hiff Hle].
      destruct (ioc_kept qs e Hty Hk) as [[Hq Haw]|[Hq [Hf Haw]]]; rewrite Hq, Haw.
      * rewrite Nat.add_0_r. split; assumption.
      * assert (H0 : seen_get g (e_id e) = 0%nat).
        { destruct (seen_get g (e_id e)) as [|n] eqn:Hg; [reflexivity|].
          assert (Htrue : e_flag e = true) by (apply Hiff; lia). congruence. }
        rewrite H0. cbn [mark e_flag Nat.add]. split; [split; intros; [lia|reflexivity]|lia].
    + assert (Hnew : exists j o, e' = mkEntry j o false /\ (next_id s <= j)%N).
      { apply in_app_or in He'. destruct He' as [He'|He']; apply in_map_iff in He';
          destruct He' as [[j o] [Heq Hin]]; exists j, o; (split; [symmetry; exact Heq|]).
        - apply number_In in Hin. lia.
        - rewrite Hadm in Hin. apply number_In in Hin. lia. }
      destruct Hnew as [j [o [Heq Hj]]]. subst e'. cbn [e_id e_flag].
      rewrite (Hfresh j Hj). split; [split; intros; [discriminate|lia]|lia].
Qed.

(* T1, one step *)
Lemma ginv_step s g o :
  GInv s g -> GInv (fst (jstep s o)) (gnext g s o (snd (jstep s o))).
Proof.
  intros HG. destruct o as [x|k|qs perm]; unfold jura_step; cbn [step fst snd gnext].
  - destruct HG as [HI [Hz Hioc]]. split; [exact HI|]. split; assumption.
  - destruct HG as [HI [Hz Hioc]].
    pose proof (inv_step jo_asset jura_sym jura_is_sell jdecide s (Delete k) HI) as HI'.
    split; [exact HI'|]. split; [exact Hz|]. cbn [book]. intros e He. apply Hioc.
    eapply delete_first_In. exact He.
  - destruct (tick_cases jo_asset jura_sym jura_is_sell jdecide s qs perm)
      as [Hc|[Hc|[s' [fl [adm [trig Hc]]]]]]; rewrite Hc; cbn [fst snd]; try exact HG.
    eapply ginv_tick; [exact HG|exact Hc].
Qed.

Lemma ginv_gend s g ops : GInv s g -> GInv (fst (gend s g ops)) (snd (gend s g ops)).
Proof.
  revert s g. induction ops as [|o r IH]; intros s g HG; [exact HG|].
  cbn [gend]. apply IH. apply ginv_step. exact HG.
Qed.

(* T1: at every element of every trace, an IOC entry is flagged exactly when it has already met a
   quoted tick, and it has met at most one *)
Theorem ioc_flag_is_seen s0 g0 ops el e :
  GInv s0 g0 -> In el (grun s0 g0 ops) ->
  In e (book (el_st el)) -> jo_type (e_ord e) = JLimit Ioc ->
  (e_flag e = true <-> (1 <= seen_get (el_gh el) (e_id e))%nat) /\
  (seen_get (el_gh el) (e_id e) <= 1)%nat.
Proof.
  intros HG Hin. apply in_split in Hin. destruct Hin as [pre [post Hsp]].
  destruct el as [[[s g] o] x]. apply grun_suffix in Hsp. destruct Hsp as [ops' [_ [_ Hend]]].
  assert (HG' : GInv (fst (s, g)) (snd (s, g))) by (rewrite Hend; apply ginv_gend; exact HG).
  cbn [fst snd] in HG'. destruct HG' as [_ [_ Hioc]]. cbn [el_st el_gh fst snd]. apply Hioc.
Qed.

(* every element of a trace started from a consistent pair is consistent, its output is the step's
   output, and what follows it is again a ghost run, from the stepped state and ghost *)
Lemma grun_elem s0 g0 ops pre s g o x post :
  GInv s0 g0 -> grun s0 g0 ops = pre ++ (s, g, o, x) :: post ->
  GInv s g /\ x = snd (jstep s o) /\
  exists ops', post = grun (fst (jstep s o)) (gnext g s o (snd (jstep s o))) ops'.
Proof.
  intros HG Hsp. apply grun_suffix in Hsp. destruct Hsp as [ops' [Hsuf [_ Hend]]].
  assert (HG' : GInv (fst (s, g)) (snd (s, g))) by (rewrite Hend; apply ginv_gend; exact HG).
  cbn [fst snd] in HG'. split; [exact HG'|].
  apply grun_cons_inv in Hsuf. destruct Hsuf as [_ [_ [_ [Hx Hpost]]]].
  split; [exact Hx|]. exists ops'. exact Hpost.
Qed.

Lemma grun_in_elem s0 g0 ops s g o x :
  GInv s0 g0 -> In (s, g, o, x) (grun s0 g0 ops) -> GInv s g /\ x = snd (jstep s o).
Proof.
  intros HG Hin. apply in_split in Hin. destruct Hin as [pre [post Hsp]].
  destruct (grun_elem s0 g0 ops pre s g o x post HG Hsp) as [H1 [H2 _]]. split; assumption.
Qed.

(* a step whose output is OutTick is a successful tick *)
Lemma step_out_tick s o fl adm trig :
  snd (jstep s o) = OutTick fl adm trig ->
  exists qs perm, o = Tick qs perm /\ jtick s qs perm = (fst (jstep s o), OutTick fl adm trig).
Proof.
  destruct o as [x|k|qs perm]; unfold jura_step, jura_tick; cbn [step snd fst]; try discriminate.
  intros H. exists qs, perm. split; [reflexivity|].
  destruct (tick jo_asset jura_sym jura_is_sell jdecide s qs perm) as [s' x]. cbn [snd fst] in *.
  rewrite H. reflexivity.
Qed.

(* ====================== ids that can no longer fill ====================== *)

(* id i has been handed out, and whatever entry carries it satisfies Q *)
Definition Class (Q : jentry -> Prop) (s : jexch F) (i : N) : Prop :=
  (i < next_id s)%N /\ forall e, In e (book s) -> e_id e = i -> Q e.

Definition Qstable (Q : jentry -> Prop) : Prop := forall e, Q e -> Q (mark e).
Definition Qnofill (Q : jentry -> Prop) : Prop := forall e q t, Q e -> jdecide e q <> AFill t.

Definition Qgone : jentry -> Prop := fun _ => False.
Definition Qtrig : jentry -> Prop := fun e => exists tp m k, jo_type (e_ord e) = JTrigger tp m k.
Definition Qdone : jentry -> Prop := fun e => jo_type (e_ord e) = JLimit Ioc /\ e_flag e = true.

Lemma Qgone_stable : Qstable Qgone. Proof. intros e []. Qed.
Lemma Qgone_nofill : Qnofill Qgone. Proof. intros e q t []. Qed.
Lemma Qtrig_stable : Qstable Qtrig. Proof. intros e H. exact H. Qed.
Lemma Qtrig_nofill : Qnofill Qtrig.
Proof. intros e q t [tp [m [k H]]]. eapply trigger_never_fills. exact H. Qed.
Lemma Qdone_stable : Qstable Qdone.
Proof. intros e [H1 H2]. split; [exact H1|reflexivity]. Qed.
Lemma Qdone_nofill : Qnofill Qdone.
Proof.
  intros e q t [H1 H2]. unfold jura_decide. rewrite H1, H2. discriminate.
Qed.

Lemma jaw_cases qs (e : jentry) : jaw qs e = e \/ jaw qs e = mark e.
Proof. unfold after_walk. destruct (jact qs e); auto. Qed.

Lemma class_tick Q s qs perm s' fl adm trig i :
  Qstable Q -> Inv s -> jtick s qs perm = (s', OutTick fl adm trig) -> Class Q s i -> Class Q s' i.
Proof.
  intros HQ HI Ht [Hlt Hc]. unfold jura_tick in Ht.
  destruct (tick_spec jo_asset jura_sym jura_is_sell jdecide s qs perm s' fl adm trig HI Ht)
    as [sorted [Hap [Hperm [Hsf Hrest]]]].
  cbv zeta in Hrest. destruct Hrest as [Hfl [Htrig [Hadm [Hbk [Hbuf [Hn Hx]]]]]].
  split; [rewrite Hn; lia|].
  intros e' He' Hid. rewrite Hbk in He'. apply in_app_or in He'. destruct He' as [He'|He'].
  - apply in_map_iff in He'. destruct He' as [e [Heq He]]. apply filter_In in He.
    destruct He as [He Hk]. subst e'. rewrite after_walk_id in Hid.
    destruct (jaw_cases qs e) as [Ha|Ha]; rewrite Ha; [|apply HQ]; apply Hc; assumption.
  - exfalso. apply in_app_or in He'. destruct He' as [He'|He']; apply in_map_iff in He';
      destruct He' as [[j o] [Heq Hin]]; subst e'; cbn [fresh_entry e_id fst] in Hid; subst j.
    + apply number_In in Hin. lia.
    + rewrite Hadm in Hin. apply number_In in Hin. lia.
Qed.

Lemma class_step Q s o i :
  Qstable Q -> Inv s -> Class Q s i -> Class Q (fst (jstep s o)) i.
Proof.
  intros HQ HI HC. destruct o as [x|k|qs perm]; unfold jura_step; cbn [step fst].
  - exact HC.
  - destruct HC as [Hlt Hc]. split; [exact Hlt|]. cbn [book]. intros e He. apply Hc.
    eapply delete_first_In. exact He.
  - destruct (tick_cases jo_asset jura_sym jura_is_sell jdecide s qs perm)
      as [Hc|[Hc|[s' [fl [adm [trig Hc]]]]]]; rewrite Hc; cbn [fst]; try exact HC.
    eapply class_tick; eassumption.
Qed.

Lemma class_tick_nofill Q s qs perm s' fl adm trig i :
  Qnofill Q -> jtick s qs perm = (s', OutTick fl adm trig) -> Class Q s i -> ~ In i (map fst fl).
Proof.
  intros HQ Ht [_ Hc] Hin. unfold jura_tick in Ht. apply tick_unfold in Ht.
  destruct Ht as [sorted [_ [_ Hrest]]]. cbv zeta in Hrest. destruct Hrest as [Hfl _].
  apply in_map_iff in Hin. destruct Hin as [[i' t] [Hi Hin]]. cbn [fst] in Hi. subst i'.
  rewrite Hfl in Hin. apply in_fill_inv in Hin. destruct Hin as [e [He [Hid Ha]]].
  apply jact_fill_quoted in Ha. destruct Ha as [q [_ Hd]].
  exact (HQ e q t (Hc e He Hid) Hd).
Qed.

Lemma class_step_nofill Q s o i :
  Qnofill Q -> Class Q s i -> ~ In i (fill_ids (snd (jstep s o))).
Proof.
  intros HQ HC Hin. destruct (snd (jstep s o)) as [|fl adm trig| |] eqn:Hx; try (destruct Hin; fail).
  apply step_out_tick in Hx. destruct Hx as [qs [perm [_ Ht]]]. cbn [fill_ids] in Hin.
  exact (class_tick_nofill Q s qs perm _ fl adm trig i HQ Ht HC Hin).
Qed.

(* once in such a class, always in it, and never a fill *)
Lemma class_run Q s g ops i :
  Qstable Q -> Qnofill Q -> Inv s -> Class Q s i ->
  forall el, In el (grun s g ops) -> Class Q (el_st el) i /\ ~ In i (fill_ids (el_out el)).
Proof.
  intros HQ1 HQ2. revert s g. induction ops as [|o r IH]; intros s g HI HC el Hin; [destruct Hin|].
  cbn [grun] in Hin. destruct Hin as [Hin|Hin].
  - subst el. cbn [el_st el_out fst snd]. split; [exact HC|]. apply (class_step_nofill Q); assumption.
  - eapply IH; [| |exact Hin].
    + apply (inv_step jo_asset jura_sym jura_is_sell jdecide s o HI).
    + apply class_step; assumption.
Qed.

Lemma class_later Q s0 g0 ops (pre : list elt) s g o x (post : list elt) i :
  GInv s0 g0 -> grun s0 g0 ops = pre ++ (s, g, o, x) :: post ->
  Qstable Q -> Qnofill Q -> Class Q (fst (jstep s o)) i ->
  forall el : elt, In el post -> Class Q (el_st el) i /\ ~ In i (fill_ids (el_out el)).
Proof.
  intros HG Hsp HQ1 HQ2 HC.
  destruct (grun_elem s0 g0 ops pre s g o x post HG Hsp) as [[HI _] [_ [ops' Hpost]]].
  rewrite Hpost. apply class_run; try assumption.
  apply (inv_step jo_asset jura_sym jura_is_sell jdecide s o HI).
Qed.

(* an id whose entry is gone cannot be resting *)
Lemma class_gone_not_resting s i : Class Qgone s i -> ~ In i (ids (book s)).
Proof.
  intros [_ Hc] Hin. unfold ids in Hin. apply in_map_iff in Hin. destruct Hin as [e [Hid He]].
  exact (Hc e He Hid).
Qed.

(* an entry that the matching loop does not keep is gone after the tick *)
Lemma removed_gone s qs perm s' fl adm trig (e : jentry) :
  Inv s -> jtick s qs perm = (s', OutTick fl adm trig) -> In e (book s) -> jkp qs e = false ->
  Class Qgone s' (e_id e).
Proof.
  intros HI Ht He Hk. unfold jura_tick in Ht. split.
  - pose proof (inv_id_lt s e HI He) as Hlt.
    pose proof (next_id_mono jo_asset jura_sym jura_is_sell jdecide s (Tick qs perm)) as Hm.
    cbn [step] in Hm. rewrite Ht in Hm. cbn [fst] in Hm. lia.
  - intros e' He' Hid.
    apply (fate_gone jo_asset jura_sym jura_is_sell jdecide s qs perm s' fl adm trig e HI Ht He Hk).
    unfold ids. rewrite <- Hid. apply in_map. exact He'.
Qed.

(* a filled id is gone after the tick *)
Lemma filled_gone s qs perm s' fl adm trig i :
  Inv s -> jtick s qs perm = (s', OutTick fl adm trig) -> In i (map fst fl) -> Class Qgone s' i.
Proof.
  intros HI Ht Hin. pose proof Ht as Ht0. unfold jura_tick in Ht. apply tick_unfold in Ht.
  destruct Ht as [sorted [_ [_ Hrest]]]. cbv zeta in Hrest. destruct Hrest as [Hfl _].
  apply in_map_iff in Hin. destruct Hin as [[i' t] [Hi Hin]]. cbn [fst] in Hi. subst i'.
  rewrite Hfl in Hin. apply in_fill_inv in Hin. destruct Hin as [e [He [Hid Ha]]]. subst i.
  eapply removed_gone; try eassumption. unfold keeps. rewrite Ha. reflexivity.
Qed.

(* ====================== T2: IOC orders over whole histories ====================== *)

(* the property's price condition for an IOC order (10 % slippage), written out *)
Definition ioc_cond (o : jorder F) (price : F) (q : quote F) : bool :=
  if jo_is_buy o then q_ask q <=? price * (fone + ftenth) else price * (fone - ftenth) <=? q_bid q.

(* the fill of order o with id i against quote q: a buy at the ask, a sell at the bid *)
Definition fill_at (i : N) (o : jorder F) (sz : F) (q : quote F) : fill F :=
  mkFill (N_to_string (jo_asset o)) i (if jo_is_buy o then q_ask q else q_bid q) (jo_is_buy o) sz (q_date q).

Lemma ioc_fill_inv (e : jentry) q f :
  jo_type (e_ord e) = JLimit Ioc -> jdecide e q = AFill f ->
  e_flag e = false /\
  exists price sz, jo_limit_px (e_ord e) = Some price /\ jo_sz (e_ord e) = Some sz /\
                   ioc_cond (e_ord e) price q = true /\ f = fill_at (e_id e) (e_ord e) sz q.
Proof.
  intros Ht. unfold jura_decide, jura_fill_buy, jura_fill_sell, slippage, jura_sym, ioc_cond, fill_at.
  rewrite Ht. destruct (e_flag e); [discriminate|].
  destruct (jo_limit_px (e_ord e)) as [price|]; [|discriminate].
  destruct (jo_is_buy (e_ord e)).
  - destruct (q_ask q <=? _) eqn:Hc; [|discriminate].
    destruct (jo_sz (e_ord e)) as [sz|]; [|discriminate].
    intros H. inversion H. split; [reflexivity|]. exists price, sz. repeat split. exact Hc.
  - destruct (_ <=? q_bid q) eqn:Hc; [|discriminate].
    destruct (jo_sz (e_ord e)) as [sz|]; [|discriminate].
    intros H. inversion H. split; [reflexivity|]. exists price, sz. repeat split. exact Hc.
Qed.

(* an unflagged IOC order that does not make the tick panic: its limit parses, and it fills under the
   price condition (then its size parses) and is marked otherwise *)
Lemma ioc_unflagged_decision (e : jentry) q :
  jo_type (e_ord e) = JLimit Ioc -> e_flag e = false -> jdecide e q <> APanic ->
  exists price, jo_limit_px (e_ord e) = Some price /\
    if ioc_cond (e_ord e) price q
    then exists sz, jo_sz (e_ord e) = Some sz /\ jdecide e q = AFill (fill_at (e_id e) (e_ord e) sz q)
    else jdecide e q = AMark.
Proof.
  intros Ht Hf. unfold jura_decide, jura_fill_buy, jura_fill_sell, slippage, jura_sym, ioc_cond, fill_at.
  rewrite Ht, Hf. destruct (jo_limit_px (e_ord e)) as [price|]; [|intros H; exfalso; apply H; reflexivity].
  intros Hnp. exists price. split; [reflexivity|].
  destruct (jo_is_buy (e_ord e)).
  - destruct (q_ask q <=? _); [|reflexivity].
    destruct (jo_sz (e_ord e)) as [sz|]; [|exfalso; apply Hnp; reflexivity].
    exists sz. split; reflexivity.
  - destruct (_ <=? q_bid q); [|reflexivity].
    destruct (jo_sz (e_ord e)) as [sz|]; [|exfalso; apply Hnp; reflexivity].
    exists sz. split; reflexivity.
Qed.

Lemma ginv_ioc_unseen_unflagged s g (e : jentry) :
  GInv s g -> In e (book s) -> jo_type (e_ord e) = JLimit Ioc ->
  (seen_get g (e_id e) = 0%nat <-> e_flag e = false).
Proof.
  intros [_ [_ Hioc]] He Ht. destruct (Hioc e He Ht) as [Hiff Hle]. split; intros H.
  - destruct (e_flag e); [|reflexivity]. assert (1 <= seen_get g (e_id e))%nat by (apply Hiff; reflexivity). lia.
  - destruct (seen_get g (e_id e)) as [|n]; [reflexivity|].
    assert (e_flag e = true) by (apply Hiff; lia). congruence.
Qed.

(* T2, first half: in every history a fill of an IOC order happens on the FIRST successful tick since
   its admission that quotes its asset (ghost count 0) — and then under the property's price condition,
   at the ask (buy) / bid (sell), for the order's size *)
Theorem ioc_fills_only_at_first_quoted_tick s0 g0 ops s g qs perm fl adm trig i f (e : jentry) :
  GInv s0 g0 ->
  In (s, g, Tick qs perm, OutTick fl adm trig) (grun s0 g0 ops) ->
  In (i, f) fl -> In e (book s) -> e_id e = i -> jo_type (e_ord e) = JLimit Ioc ->
  seen_get g i = 0%nat /\
  exists q price sz,
    lookup qs (N_to_string (jo_asset (e_ord e))) = Some q /\
    jo_limit_px (e_ord e) = Some price /\ jo_sz (e_ord e) = Some sz /\
    ioc_cond (e_ord e) price q = true /\ f = fill_at i (e_ord e) sz q.
Proof.
  intros HG Hel Hf He Hid Hty.
  destruct (grun_in_elem s0 g0 ops s g _ _ HG Hel) as [HGs Hx].
  symmetry in Hx. apply step_out_tick in Hx. destruct Hx as [qs' [perm' [Ho Ht]]].
  inversion Ho; subst qs' perm'; clear Ho.
  pose proof HGs as [HI _]. pose proof Ht as Ht0. unfold jura_tick in Ht. apply tick_unfold in Ht.
  destruct Ht as [sorted [_ [_ Hrest]]]. cbv zeta in Hrest. destruct Hrest as [Hfl _].
  rewrite Hfl in Hf. apply in_fill_inv in Hf. destruct Hf as [e' [He' [Hid' Ha]]].
  assert (Heq : e' = e) by (apply (inv_id_inj s); try assumption; congruence). subst e'.
  apply jact_fill_quoted in Ha. destruct Ha as [q [Hq Hd]].
  destruct (ioc_fill_inv e q f Hty Hd) as [Hflag [price [sz [Hp [Hs [Hc Hfe]]]]]].
  split.
  - rewrite <- Hid. apply (ginv_ioc_unseen_unflagged s g e HGs He Hty). exact Hflag.
  - exists q, price, sz. rewrite <- Hid. repeat split; assumption.
Qed.

(* an IOC order is never filled at an element later than a successful tick that quoted its asset
   (whether or not it filled there) *)
Theorem ioc_never_fills_later s0 g0 ops (pre : list elt) s g qs perm fl adm trig (post : list elt) (e : jentry) :
  GInv s0 g0 ->
  grun s0 g0 ops = pre ++ (s, g, Tick qs perm, OutTick fl adm trig) :: post ->
  In e (book s) -> jo_type (e_ord e) = JLimit Ioc -> quoted qs (e_ord e) = true ->
  forall el : elt, In el post -> ~ In (e_id e) (fill_ids (el_out el)).
Proof.
  intros HG Hsp He Hty Hq el Hel.
  destruct (grun_elem s0 g0 ops pre s g _ _ post HG Hsp) as [HGs [Hx _]].
  pose proof HGs as [HI _].
  symmetry in Hx. apply step_out_tick in Hx. destruct Hx as [qs' [perm' [Ho Ht]]].
  inversion Ho; subst qs' perm'; clear Ho.
  destruct (jkp qs e) eqn:Hk.
  - destruct (ioc_kept qs e Hty Hk) as [[Hq' _]|[_ [Hf Haw]]]; [congruence|].
    assert (HC : Class Qdone (fst (jstep s (Tick qs perm))) (e_id e)).
    { pose proof Ht as Ht0. unfold jura_tick in Ht0.
      pose proof (fate_stays jo_asset jura_sym jura_is_sell jdecide s qs perm _ fl adm trig e HI Ht0 He Hk) as Hin.
      rewrite Haw in Hin.
      pose proof (inv_step jo_asset jura_sym jura_is_sell jdecide s (Tick qs perm) HI) as HI'.
      split.
      - pose proof (inv_id_lt _ (mark e) HI' Hin) as Hlt. exact Hlt.
      - intros e' He' Hid'.
        assert (e' = mark e) by (apply (inv_id_inj _ e' (mark e) HI' He' Hin); exact Hid').
        subst e'. split; [exact Hty|reflexivity]. }
    apply (class_later Qdone s0 g0 ops pre s g _ _ post (e_id e) HG Hsp Qdone_stable Qdone_nofill HC el Hel).
  - assert (HC : Class Qgone (fst (jstep s (Tick qs perm))) (e_id e))
      by (eapply removed_gone; eassumption).
    apply (class_later Qgone s0 g0 ops pre s g _ _ post (e_id e) HG Hsp Qgone_stable Qgone_nofill HC el Hel).
Qed.

(* T2, converse: an IOC entry that has not yet met a quoted tick, on a successful tick that quotes its
   asset: its limit parses (else the tick would have panicked) and
   - under the price condition it fills NOW at the ask / bid, leaves the book, is in no later book and
     in no later fill;
   - otherwise it has no fill now, stays marked (flag set; ghost count 1 after the tick) and has no
     fill at any later element either. *)
Theorem ioc_first_quoted_tick_fate s0 g0 ops (pre : list elt) s g qs perm fl adm trig (post : list elt) (e : jentry) q :
  GInv s0 g0 ->
  grun s0 g0 ops = pre ++ (s, g, Tick qs perm, OutTick fl adm trig) :: post ->
  In e (book s) -> jo_type (e_ord e) = JLimit Ioc -> seen_get g (e_id e) = 0%nat ->
  lookup qs (N_to_string (jo_asset (e_ord e))) = Some q ->
  let s' := fst (jtick s qs perm) in
  exists price, jo_limit_px (e_ord e) = Some price /\
    if ioc_cond (e_ord e) price q
    then (exists sz, jo_sz (e_ord e) = Some sz /\ In (e_id e, fill_at (e_id e) (e_ord e) sz q) fl) /\
         ~ In (e_id e) (ids (book s')) /\
         (forall el : elt, In el post ->
            ~ In (e_id e) (ids (book (el_st el))) /\ ~ In (e_id e) (fill_ids (el_out el)))
    else ~ In (e_id e) (map fst fl) /\
         In (mark e) (book s') /\
         seen_get (seen_tick g s qs) (e_id e) = 1%nat /\
         (forall el : elt, In el post ->
            ~ In (e_id e) (fill_ids (el_out el)) /\
            (forall e', In e' (book (el_st el)) -> e_id e' = e_id e -> e' = mark e)).
Proof.
  intros HG Hsp He Hty Hseen Hq. cbv zeta.
  assert (Hquoted : quoted qs (e_ord e) = true) by (unfold quoted; rewrite Hq; reflexivity).
  pose proof (ioc_never_fills_later s0 g0 ops pre s g qs perm fl adm trig post e HG Hsp He Hty Hquoted)
    as Hlater.
  destruct (grun_elem s0 g0 ops pre s g _ _ post HG Hsp) as [HGs [Hx _]].
  pose proof HGs as [HI _].
  symmetry in Hx. apply step_out_tick in Hx. destruct Hx as [qs' [perm' [Ho Ht]]].
  inversion Ho; subst qs' perm'; clear Ho.
  assert (Hs' : fst (jtick s qs perm) = fst (jstep s (Tick qs perm))) by reflexivity.
  rewrite Hs'. set (s' := fst (jstep s (Tick qs perm))) in *.
  pose proof Ht as Ht0. unfold jura_tick in Ht0.
  pose proof (tick_entry_fate jo_asset jura_sym jura_is_sell jdecide s qs perm s' fl adm trig e HI Ht0 He)
    as Hfate.
  pose proof (tick_ok_no_panic jo_asset jura_sym jura_is_sell jdecide s qs perm s' fl adm trig e Ht0 He)
    as Hnp.
  rewrite (jura_action_quoted qs e q Hq) in Hfate, Hnp.
  assert (Hflag : e_flag e = false) by (apply (ginv_ioc_unseen_unflagged s g e HGs He Hty); exact Hseen).
  destruct (ioc_unflagged_decision e q Hty Hflag Hnp) as [price [Hp Hdec]].
  exists price. split; [exact Hp|].
  destruct (ioc_cond (e_ord e) price q).
  - destruct Hdec as [sz [Hsz Hd]]. rewrite Hd in Hfate. destruct Hfate as [Hgone [Hin _]].
    split; [exists sz; split; assumption|]. split; [exact Hgone|].
    intros el Hel. split; [|apply Hlater; exact Hel].
    assert (HC : Class Qgone s' (e_id e)).
    { eapply removed_gone; try eassumption. unfold keeps.
      rewrite (jura_action_quoted qs e q Hq), Hd. reflexivity. }
    apply class_gone_not_resting.
    apply (class_later Qgone s0 g0 ops pre s g _ _ post (e_id e) HG Hsp Qgone_stable Qgone_nofill HC el Hel).
  - rewrite Hdec in Hfate. destruct Hfate as [Hin Hnf].
    split; [exact Hnf|]. split; [exact Hin|]. split.
    2:{ intros el Hel. split; [apply Hlater; exact Hel|].
        pose proof (inv_step jo_asset jura_sym jura_is_sell jdecide s (Tick qs perm) HI) as HI'.
        fold s' in HI'.
        assert (HQ1 : Qstable (fun e' => e' = mark e)) by (intros e' He'; subst e'; reflexivity).
        assert (HQ2 : Qnofill (fun e' => e' = mark e)).
        { intros e' q' t He'. subst e'. unfold jura_decide. cbn [mark e_ord e_flag]. rewrite Hty. discriminate. }
        assert (HC : Class (fun e' => e' = mark e) s' (e_id e)).
        { split; [apply (inv_id_lt s' (mark e) HI' Hin)|].
          intros e' He' Hid'. apply (inv_id_inj s' e' (mark e) HI' He' Hin). exact Hid'. }
        destruct (class_later _ s0 g0 ops pre s g _ _ post (e_id e) HG Hsp HQ1 HQ2 HC el Hel) as [[_ Hcl] _].
        exact Hcl. }
    unfold seen_tick. destruct HI as [Hs _].
    rewrite (seen_tick_in g (book s)
               (fun e => (seen_get g (e_id e) + (if quoted qs (e_ord e) then 1 else 0))%nat) e
               (SSorted_lt_NoDup _ Hs) He).
    rewrite Hseen, Hquoted. reflexivity.
Qed.

(* an IOC entry that has already met a quoted tick is dropped, without a fill, by the next successful
   tick that quotes its asset, and is in no later book and no later fill *)
Theorem ioc_dropped_at_second_quoted_tick s0 g0 ops (pre : list elt) s g qs perm fl adm trig (post : list elt) (e : jentry) :
  GInv s0 g0 ->
  grun s0 g0 ops = pre ++ (s, g, Tick qs perm, OutTick fl adm trig) :: post ->
  In e (book s) -> jo_type (e_ord e) = JLimit Ioc -> (1 <= seen_get g (e_id e))%nat ->
  quoted qs (e_ord e) = true ->
  ~ In (e_id e) (map fst fl) /\
  ~ In (e_id e) (ids (book (fst (jtick s qs perm)))) /\
  (forall el : elt, In el post ->
     ~ In (e_id e) (ids (book (el_st el))) /\ ~ In (e_id e) (fill_ids (el_out el))).
Proof.
  intros HG Hsp He Hty Hseen Hquoted.
  destruct (grun_elem s0 g0 ops pre s g _ _ post HG Hsp) as [HGs [Hx _]].
  pose proof HGs as [HI [_ Hioc]].
  symmetry in Hx. apply step_out_tick in Hx. destruct Hx as [qs' [perm' [Ho Ht]]].
  inversion Ho; subst qs' perm'; clear Ho.
  assert (Hs' : fst (jtick s qs perm) = fst (jstep s (Tick qs perm))) by reflexivity.
  rewrite Hs'. set (s' := fst (jstep s (Tick qs perm))) in *.
  assert (Hflag : e_flag e = true) by (apply (Hioc e He Hty); exact Hseen).
  destruct (jact_quoted qs e Hquoted) as [q [Hq Ha]].
  assert (Hexp : jact qs e = AExpire).
  { rewrite Ha. unfold jura_decide. rewrite Hty, Hflag. reflexivity. }
  pose proof Ht as Ht0. unfold jura_tick in Ht0.
  pose proof (tick_entry_fate jo_asset jura_sym jura_is_sell jdecide s qs perm s' fl adm trig e HI Ht0 He)
    as Hfate.
  rewrite Hexp in Hfate. destruct Hfate as [Hgone Hnf].
  split; [exact Hnf|]. split; [exact Hgone|].
  assert (HC : Class Qgone s' (e_id e)).
  { eapply removed_gone; try eassumption. unfold keeps. rewrite Hexp. reflexivity. }
  intros el Hel.
  destruct (class_later Qgone s0 g0 ops pre s g _ _ post (e_id e) HG Hsp Qgone_stable Qgone_nofill HC el Hel)
    as [H1 H2].
  split; [apply class_gone_not_resting; exact H1|exact H2].
Qed.

(* ====================== T3: trigger orders never fill ====================== *)

Definition is_trigger (o : jorder F) : Prop := exists tp m k, jo_type o = JTrigger tp m k.

(* element a occurs in the trace and element b occurs after it *)
Definition later_in (tr : list elt) (a b : elt) : Prop :=
  exists pre post, tr = pre ++ a :: post /\ In b post.

Lemma in_trichotomy (tr : list elt) a b :
  In a tr -> In b tr -> a = b \/ later_in tr a b \/ later_in tr b a.
Proof.
  intros Ha Hb. apply in_split in Ha. destruct Ha as [pre [post Hsp]].
  rewrite Hsp in Hb. apply in_app_or in Hb. destruct Hb as [Hb|[Hb|Hb]].
  - right. right. apply in_split in Hb. destruct Hb as [p1 [p2 Hp]].
    exists p1, (p2 ++ a :: post). split.
    + rewrite Hsp, Hp. rewrite <- app_assoc. reflexivity.
    + apply in_or_app. right. left. reflexivity.
  - left. exact Hb.
  - right. left. exists pre, post. split; assumption.
Qed.

(* next_id never decreases along a trace *)
Lemma next_id_run s g ops el : In el (grun s g ops) -> (next_id s <= next_id (el_st el))%N.
Proof.
  revert s g. induction ops as [|o r IH]; intros s g Hin; [destruct Hin|].
  cbn [grun] in Hin. destruct Hin as [Hin|Hin].
  - subst el. cbn [el_st fst]. lia.
  - apply IH in Hin.
    pose proof (next_id_mono jo_asset jura_sym jura_is_sell jdecide s o) as Hm.
    exact (N.le_trans _ _ _ Hm Hin).
Qed.

Lemma next_id_later s0 g0 ops a b :
  GInv s0 g0 -> later_in (grun s0 g0 ops) a b -> (next_id (el_st a) <= next_id (el_st b))%N.
Proof.
  intros HG [pre [post [Hsp Hb]]]. destruct a as [[[s g] o] x].
  destruct (grun_elem s0 g0 ops pre s g o x post HG Hsp) as [_ [_ [ops' Hpost]]].
  rewrite Hpost in Hb. apply next_id_run in Hb. cbn [el_st fst].
  pose proof (next_id_mono jo_asset jura_sym jura_is_sell jdecide s o) as Hm.
  exact (N.le_trans _ _ _ Hm Hb).
Qed.

(* fills carry ids handed out before the tick *)
Lemma fill_ids_old s o i : Inv s -> In i (fill_ids (snd (jstep s o))) -> (i < next_id s)%N.
Proof.
  intros HI Hin. destruct (snd (jstep s o)) as [|fl adm trig| |] eqn:Hx; try (destruct Hin; fail).
  apply step_out_tick in Hx. destruct Hx as [qs [perm [_ Ht]]]. cbn [fill_ids] in Hin.
  unfold jura_tick in Ht.
  destruct (tick_fills_old jo_asset jura_sym jura_is_sell jdecide s qs perm _ fl adm trig HI Ht)
    as [_ [Hold _]].
  apply in_map_iff in Hin. destruct Hin as [[i' t] [Hi Hin]]. cbn [fst] in Hi. subst i'.
  apply (Hold i t Hin).
Qed.

(* a filled id is gone from the next state on *)
Lemma filled_gone_step s o i :
  Inv s -> In i (fill_ids (snd (jstep s o))) -> Class Qgone (fst (jstep s o)) i.
Proof.
  intros HI Hin. destruct (snd (jstep s o)) as [|fl adm trig| |] eqn:Hx; try (destruct Hin; fail).
  apply step_out_tick in Hx. destruct Hx as [qs [perm [_ Ht]]]. cbn [fill_ids] in Hin.
  eapply filled_gone; eassumption.
Qed.

(* how a trace can tell that id i belongs to a trigger order: it is resting with a trigger payload in
   the element's state, or the element's tick admits it with a trigger payload *)
Definition known_trigger (el : elt) (i : N) : Prop :=
  (exists e, In e (book (el_st el)) /\ e_id e = i /\ is_trigger (e_ord e)) \/
  (exists fl adm trig o, el_out el = OutTick fl adm trig /\ In (i, o) adm /\ is_trigger o).

(* T3: in every history no fill — earlier, simultaneous or later — carries the id of a trigger order *)
Theorem trigger_never_fills_history s0 g0 ops el1 el2 i :
  GInv s0 g0 ->
  In el1 (grun s0 g0 ops) -> known_trigger el1 i ->
  In el2 (grun s0 g0 ops) -> ~ In i (fill_ids (el_out el2)).
Proof.
  intros HG H1 Hk H2 Hfill.
  destruct el1 as [[[s1 g1] o1] x1]. destruct el2 as [[[s2 g2] o2] x2].
  destruct (grun_in_elem s0 g0 ops s1 g1 o1 x1 HG H1) as [[HI1 _] Hx1].
  destruct (grun_in_elem s0 g0 ops s2 g2 o2 x2 HG H2) as [[HI2 _] Hx2].
  cbn [el_out snd] in Hfill.
  (* the id is in a trigger class from some state on, or el2 is not later than el1 and i is fresh *)
  destruct Hk as [[e [He [Hid Htr]]]|[fl [adm [trig [o [Hout [Hadm Htr]]]]]]].
  - (* resting at el1 *)
    cbn [el_st fst] in He.
    assert (HC1 : Class Qtrig s1 i).
    { split; [rewrite <- Hid; apply (inv_id_lt s1 e HI1 He)|].
      intros e' He' Hid'. assert (e' = e) by (apply (inv_id_inj s1); try assumption; congruence).
      subst e'. exact Htr. }
    destruct (in_trichotomy _ _ _ H1 H2) as [Heq|[Hl|Hl]].
    + inversion Heq; subst. revert Hfill. apply (class_step_nofill Qtrig); [apply Qtrig_nofill|exact HC1].
    + destruct Hl as [pre [post [Hsp Hin]]].
      assert (HC : Class Qtrig (fst (jstep s1 o1)) i) by (apply class_step; [apply Qtrig_stable|exact HI1|exact HC1]).
      destruct (class_later Qtrig s0 g0 ops pre s1 g1 o1 x1 post i HG Hsp Qtrig_stable Qtrig_nofill HC _ Hin)
        as [_ Hnf].
      apply Hnf. exact Hfill.
    + destruct Hl as [pre [post [Hsp Hin]]].
      assert (HC : Class Qgone (fst (jstep s2 o2)) i)
        by (apply filled_gone_step; [exact HI2|rewrite <- Hx2; exact Hfill]).
      destruct (class_later Qgone s0 g0 ops pre s2 g2 o2 x2 post i HG Hsp Qgone_stable Qgone_nofill HC _ Hin)
        as [[_ Hg] _].
      exact (Hg e He Hid).
  - (* admitted at el1 *)
    cbn [el_out snd] in Hout. rewrite Hx1 in Hout.
    apply step_out_tick in Hout. destruct Hout as [qs [perm [Ho1 Ht]]].
    unfold jura_tick in Ht.
    destruct (tick_admitted_rest jo_asset jura_sym jura_is_sell jdecide s1 qs perm _ fl adm trig i o HI1 Ht Hadm)
      as [Hrest [_ [_ Hrange]]].
    pose proof (inv_step jo_asset jura_sym jura_is_sell jdecide s1 o1 HI1) as HI1'.
    assert (Hold : (i < next_id s2)%N) by (apply (fill_ids_old s2 o2 i HI2); rewrite <- Hx2; exact Hfill).
    destruct (in_trichotomy _ _ _ H1 H2) as [Heq|[Hl|Hl]].
    + inversion Heq; subst. lia.
    + destruct Hl as [pre [post [Hsp Hin]]].
      assert (HC : Class Qtrig (fst (jstep s1 o1)) i).
      { split; [apply Hrange|]. intros e' He' Hid'.
        assert (e' = mkEntry i o false) by (apply (inv_id_inj _ _ _ HI1' He' Hrest); exact Hid').
        subst e'. exact Htr. }
      destruct (class_later Qtrig s0 g0 ops pre s1 g1 o1 x1 post i HG Hsp Qtrig_stable Qtrig_nofill HC _ Hin)
        as [_ Hnf].
      apply Hnf. exact Hfill.
    + pose proof (next_id_later s0 g0 ops _ _ HG Hl) as Hm. cbn [el_st fst] in Hm. lia.
Qed.

(* ====================== T4: a trigger's child is eligible only from the following tick ====================== *)

Lemma decide_trigger_inv (p : jentry) q ch :
  jdecide p q = ATrigger ch ->
  exists tp m k, jo_type (e_ord p) = JTrigger tp m k /\ ShouldFire (jo_is_buy (e_ord p)) k tp q /\
                 ch = trigger_child (e_ord p) (if m then Ioc else Gtc).
Proof.
  destruct (jo_type (e_ord p)) as [[| |]|tp m k] eqn:Hty.
  - unfold jura_decide. rewrite Hty. discriminate.
  - unfold jura_decide, jura_fill_buy, jura_fill_sell. rewrite Hty.
    destruct (e_flag p); [discriminate|].
    destruct (jo_limit_px (e_ord p)); [|discriminate].
    destruct (jo_is_buy (e_ord p)).
    + destruct (q_ask q <=? _); [|discriminate]. destruct (jo_sz (e_ord p)); discriminate.
    + destruct (_ <=? q_bid q); [|discriminate]. destruct (jo_sz (e_ord p)); discriminate.
  - unfold jura_decide, jura_fill_buy, jura_fill_sell. rewrite Hty.
    destruct (jo_limit_px (e_ord p)); [|discriminate].
    destruct (jo_is_buy (e_ord p)).
    + destruct (q_ask q <=? _); [|discriminate]. destruct (jo_sz (e_ord p)); discriminate.
    + destruct (_ <=? q_bid q); [|discriminate]. destruct (jo_sz (e_ord p)); discriminate.
  - intros Hd. exists tp, m, k. split; [reflexivity|].
    destruct (trigger_decision p q tp m k Hty) as [[Hsf Hd']|[_ Hd']]; rewrite Hd' in Hd.
    + inversion Hd. split; [exact Hsf|reflexivity].
    + discriminate.
Qed.

(* T4: when a successful tick announces a triggered child id c:
   - c is fresh (at or above the id counter at tick entry), so it is not among this tick's fills nor
     among the fills of any earlier element: any fill with id c occurs at a strictly later element;
   - there is a parent trigger order resting before the tick whose asset is quoted and whose firing
     condition (ShouldFire) holds; the parent leaves the book;
   - after the tick c rests, unflagged, as the limit child of that parent: IOC if is_market else GTC,
     same asset / side / limit / size; it is the only entry with id c;
   - its ghost count after the tick is 0: the tick that created it does not count for it. *)
Theorem trigger_child_next_tick s0 g0 ops (pre : list elt) s g qs perm fl adm trig (post : list elt) c :
  GInv s0 g0 ->
  grun s0 g0 ops = pre ++ (s, g, Tick qs perm, OutTick fl adm trig) :: post ->
  In c trig ->
  let s' := fst (jtick s qs perm) in
  ~ In c (map fst fl) /\
  (forall el : elt, In el pre -> ~ In c (fill_ids (el_out el))) /\
  (forall el, In el (grun s0 g0 ops) -> In c (fill_ids (el_out el)) -> In el post) /\
  (next_id s <= c < next_id s')%N /\
  (exists p q tp m k,
     In p (book s) /\ jo_type (e_ord p) = JTrigger tp m k /\
     lookup qs (N_to_string (jo_asset (e_ord p))) = Some q /\
     ShouldFire (jo_is_buy (e_ord p)) k tp q /\
     ~ In (e_id p) (ids (book s')) /\
     let ce := mkEntry c (trigger_child (e_ord p) (if m then Ioc else Gtc)) false in
     In ce (book s') /\
     (forall e', In e' (book s') -> e_id e' = c -> e' = ce) /\
     jo_type (e_ord ce) = JLimit (if m then Ioc else Gtc) /\
     jo_asset (e_ord ce) = jo_asset (e_ord p) /\ jo_is_buy (e_ord ce) = jo_is_buy (e_ord p) /\
     jo_limit_px (e_ord ce) = jo_limit_px (e_ord p) /\ jo_sz (e_ord ce) = jo_sz (e_ord p)) /\
  seen_get (seen_tick g s qs) c = 0%nat.
Proof.
  intros HG Hsp Hc. cbv zeta.
  destruct (grun_elem s0 g0 ops pre s g _ _ post HG Hsp) as [HGs [Hx _]].
  pose proof HGs as [HI _].
  symmetry in Hx. apply step_out_tick in Hx. destruct Hx as [qs' [perm' [Ho Ht]]].
  inversion Ho; subst qs' perm'; clear Ho.
  assert (Hs' : fst (jtick s qs perm) = fst (jstep s (Tick qs perm))) by reflexivity.
  rewrite Hs'. set (s' := fst (jstep s (Tick qs perm))) in *.
  pose proof (inv_step jo_asset jura_sym jura_is_sell jdecide s (Tick qs perm) HI) as HI'.
  fold s' in HI'.
  pose proof Ht as Ht0. unfold jura_tick in Ht0.
  destruct (tick_spec jo_asset jura_sym jura_is_sell jdecide s qs perm s' fl adm trig HI Ht0)
    as [sorted [Hap [Hperm [Hsf Hrest]]]].
  cbv zeta in Hrest. destruct Hrest as [Hfl [Htrig [Hadm [Hbk [Hbuf [Hn Hxl]]]]]].
  destruct (tick_fills_old jo_asset jura_sym jura_is_sell jdecide s qs perm s' fl adm trig HI Ht0)
    as [_ [Hold _]].
  (* the child and its parent *)
  rewrite Htrig in Hc. apply in_map_iff in Hc. destruct Hc as [[c' ch] [Hcc Hkid]].
  cbn [fst] in Hcc. subst c'.
  pose proof (number_In _ _ _ _ Hkid) as Hrange.
  pose proof (number_In_snd _ _ _ _ Hkid) as Hch.
  apply in_flat_map in Hch. destruct Hch as [p [Hp Hch]].
  unfold child_of in Hch. destruct (jact qs p) as [| | | |ch'|] eqn:Hact; try (destruct Hch; fail).
  destruct Hch as [Hch|[]]. subst ch'.
  assert (Hq : exists q, lookup qs (N_to_string (jo_asset (e_ord p))) = Some q /\ jdecide p q = ATrigger ch).
  { unfold action_of, jura_sym in Hact. destruct (lookup qs _) as [q|]; [|discriminate].
    exists q. split; [reflexivity|exact Hact]. }
  destruct Hq as [q [Hq Hd]].
  destruct (decide_trigger_inv p q ch Hd) as [tp [m [k [Hty [Hfire Hche]]]]].
  assert (Hlo : (next_id s <= c)%N) by lia.
  assert (Hnofill : ~ In c (map fst fl)).
  { intros Hin. apply in_map_iff in Hin. destruct Hin as [[i t] [Hi Hin]]. cbn [fst] in Hi. subst i.
    destruct (Hold c t Hin) as [Hlt _]. lia. }
  assert (Hpre : forall el : elt, In el pre -> ~ In c (fill_ids (el_out el))).
  { intros el Hel Hin.
    assert (Hel' : In el (grun s0 g0 ops)) by (rewrite Hsp; apply in_or_app; left; exact Hel).
    destruct el as [[[s2 g2] o2] x2].
    destruct (grun_in_elem s0 g0 ops s2 g2 o2 x2 HG Hel') as [[HI2 _] Hx2].
    cbn [el_out snd] in Hin. rewrite Hx2 in Hin. apply (fill_ids_old s2 o2 c HI2) in Hin.
    assert (Hl : later_in (grun s0 g0 ops) (s2, g2, o2, x2) (s, g, Tick qs perm, OutTick fl adm trig)).
    { apply in_split in Hel. destruct Hel as [p1 [p2 Hp12]]. exists p1, (p2 ++ (s, g, Tick qs perm, OutTick fl adm trig) :: post).
      split; [rewrite Hsp, Hp12, <- app_assoc; reflexivity|apply in_or_app; right; left; reflexivity]. }
    pose proof (next_id_later s0 g0 ops _ _ HG Hl) as Hm. cbn [el_st fst] in Hm. lia. }
  split; [exact Hnofill|]. split; [exact Hpre|]. split.
  { intros el Hel Hin. rewrite Hsp in Hel. apply in_app_or in Hel. destruct Hel as [Hel|[Hel|Hel]].
    - exfalso. exact (Hpre el Hel Hin).
    - subst el. exfalso. exact (Hnofill Hin).
    - exact Hel. }
  split; [rewrite Hn, number_length; lia|]. split.
  - exists p, q, tp, m, k.
    split; [exact Hp|]. split; [exact Hty|]. split; [exact Hq|]. split; [exact Hfire|].
    pose proof (tick_entry_fate jo_asset jura_sym jura_is_sell jdecide s qs perm s' fl adm trig p HI Ht0 Hp)
      as Hfate.
    rewrite Hact in Hfate. destruct Hfate as [Hgone _]. split; [exact Hgone|].
    cbv zeta. rewrite <- Hche.
    assert (Hin : In (mkEntry c ch false) (book s')).
    { rewrite Hbk. apply in_or_app. right. apply in_or_app. left.
      apply in_map_iff. exists (c, ch). split; [reflexivity|exact Hkid]. }
    split; [exact Hin|]. split.
    + intros e' He' Hid. apply (inv_id_inj s' e' _ HI' He' Hin). exact Hid.
    + rewrite Hche. cbn. repeat split.
  - unfold seen_tick. apply seen_tick_notin. intros Hin.
    destruct HI as [_ Hlt]. rewrite Forall_forall in Hlt. specialize (Hlt c Hin). lia.
Qed.

(* ====================== T5: good-till-cancel limits rest until crossed ====================== *)

(* the property's price condition for a GTC limit *)
Definition gtc_cond (o : jorder F) (price : F) (q : quote F) : bool :=
  if jo_is_buy o then q_ask q <=? price else price <=? q_bid q.

Lemma gtc_nopanic_decision (e : jentry) q :
  jo_type (e_ord e) = JLimit Gtc -> jdecide e q <> APanic ->
  exists price, jo_limit_px (e_ord e) = Some price /\
    if gtc_cond (e_ord e) price q
    then exists sz, jo_sz (e_ord e) = Some sz /\ jdecide e q = AFill (fill_at (e_id e) (e_ord e) sz q)
    else jdecide e q = ARest.
Proof.
  intros Ht. unfold jura_decide, jura_fill_buy, jura_fill_sell, jura_sym, gtc_cond, fill_at.
  rewrite Ht. destruct (jo_limit_px (e_ord e)) as [price|]; [|intros H; exfalso; apply H; reflexivity].
  intros Hnp. exists price. split; [reflexivity|].
  destruct (jo_is_buy (e_ord e)).
  - destruct (q_ask q <=? price); [|reflexivity].
    destruct (jo_sz (e_ord e)) as [sz|]; [|exfalso; apply Hnp; reflexivity].
    exists sz. split; reflexivity.
  - destruct (price <=? q_bid q); [|reflexivity].
    destruct (jo_sz (e_ord e)) as [sz|]; [|exfalso; apply Hnp; reflexivity].
    exists sz. split; reflexivity.
Qed.

(* what a successful tick does to a resting GTC entry *)
Definition gtc_fate (s' : jexch F) (fl : list (N * fill F)) (qs : quotes (quote F)) (e : jentry) : Prop :=
  match lookup qs (N_to_string (jo_asset (e_ord e))) with
  | None => In e (book s') /\ ~ In (e_id e) (map fst fl)
  | Some q =>
      exists price, jo_limit_px (e_ord e) = Some price /\
        if gtc_cond (e_ord e) price q
        then (exists sz, jo_sz (e_ord e) = Some sz /\ In (e_id e, fill_at (e_id e) (e_ord e) sz q) fl) /\
             ~ In (e_id e) (ids (book s'))
        else In e (book s') /\ ~ In (e_id e) (map fst fl)
  end.

Lemma gtc_tick s qs perm s' fl adm trig (e : jentry) :
  Inv s -> jtick s qs perm = (s', OutTick fl adm trig) -> In e (book s) ->
  jo_type (e_ord e) = JLimit Gtc -> gtc_fate s' fl qs e.
Proof.
  intros HI Ht He Hty. unfold jura_tick in Ht. unfold gtc_fate.
  pose proof (tick_entry_fate jo_asset jura_sym jura_is_sell jdecide s qs perm s' fl adm trig e HI Ht He)
    as Hfate.
  pose proof (tick_ok_no_panic jo_asset jura_sym jura_is_sell jdecide s qs perm s' fl adm trig e Ht He)
    as Hnp.
  destruct (lookup qs (N_to_string (jo_asset (e_ord e)))) as [q|] eqn:Hq.
  - rewrite (jura_action_quoted qs e q Hq) in Hfate, Hnp.
    destruct (gtc_nopanic_decision e q Hty Hnp) as [price [Hp Hdec]].
    exists price. split; [exact Hp|].
    destruct (gtc_cond (e_ord e) price q).
    + destruct Hdec as [sz [Hsz Hd]]. rewrite Hd in Hfate. destruct Hfate as [Hgone [Hin _]].
      split; [exists sz; split; assumption|exact Hgone].
    + rewrite Hdec in Hfate. exact Hfate.
  - unfold action_of, jura_sym in Hfate. rewrite Hq in Hfate. exact Hfate.
Qed.

(* T5, every element: a resting GTC entry on a successful tick — asset unquoted: it rests unchanged,
   no fill; quoted: its limit parses, and it fills at the ask (buy, ask <= limit) / bid (sell,
   limit <= bid) and leaves the book, or else rests unchanged without a fill *)
Theorem gtc_tick_fate s0 g0 ops s g qs perm fl adm trig (e : jentry) :
  GInv s0 g0 ->
  In (s, g, Tick qs perm, OutTick fl adm trig) (grun s0 g0 ops) ->
  In e (book s) -> jo_type (e_ord e) = JLimit Gtc ->
  gtc_fate (fst (jtick s qs perm)) fl qs e.
Proof.
  intros HG Hel He Hty.
  destruct (grun_in_elem s0 g0 ops s g _ _ HG Hel) as [[HI _] Hx].
  symmetry in Hx. apply step_out_tick in Hx. destruct Hx as [qs' [perm' [Ho Ht]]].
  inversion Ho; subst qs' perm'; clear Ho.
  eapply gtc_tick; eassumption.
Qed.

(* does this tick's quote table cross the order's limit *)
Definition gtc_crossed (o : jorder F) (qs : quotes (quote F)) : bool :=
  match lookup qs (N_to_string (jo_asset o)), jo_limit_px o with
  | Some q, Some price => gtc_cond o price q
  | _, _ => false
  end.

(* an element that neither cancels e nor crosses its limit *)
Definition leaves_alone (e : jentry) (el : elt) : Prop :=
  match el_op el with
  | Insert _ => True
  | Delete k => matches jo_asset k e = false
  | Tick qs _ => gtc_crossed (e_ord e) qs = false
  end.

Lemma gtc_rests_step s o (e : jentry) :
  Inv s -> In e (book s) -> jo_type (e_ord e) = JLimit Gtc ->
  match o with
  | Insert _ => True
  | Delete k => matches jo_asset k e = false
  | Tick qs _ => gtc_crossed (e_ord e) qs = false
  end ->
  In e (book (fst (jstep s o))) /\ ~ In (e_id e) (fill_ids (snd (jstep s o))).
Proof.
  intros HI He Hty Hla. destruct o as [x|k|qs perm]; unfold jura_step; cbn [step fst snd fill_ids].
  - split; [exact He|intros []].
  - split; [|intros []]. cbn [book]. apply delete_first_other; assumption.
  - destruct (tick_cases jo_asset jura_sym jura_is_sell jdecide s qs perm)
      as [Hc|[Hc|[s' [fl [adm [trig Hc]]]]]]; rewrite Hc; cbn [fst snd fill_ids];
      try (split; [exact He|intros []]).
    pose proof (gtc_tick s qs perm s' fl adm trig e HI Hc He Hty) as Hf.
    unfold gtc_fate in Hf. unfold gtc_crossed in Hla.
    destruct (lookup qs (N_to_string (jo_asset (e_ord e)))) as [q|]; [|exact Hf].
    destruct Hf as [price [Hp Hf]]. rewrite Hp in Hla. rewrite Hla in Hf. exact Hf.
Qed.

Lemma gtc_rests_run s g ops (e : jentry) :
  Inv s -> In e (book s) -> jo_type (e_ord e) = JLimit Gtc ->
  Forall (leaves_alone e) (grun s g ops) ->
  (forall el, In el (grun s g ops) ->
     In e (book (el_st el)) /\ ~ In (e_id e) (fill_ids (el_out el))) /\
  In e (book (fst (gend s g ops))).
Proof.
  revert s g. induction ops as [|o r IH]; intros s g HI He Hty Hall.
  - split; [intros el []|exact He].
  - cbn [grun] in Hall. inversion Hall as [|? ? Hla Hall']; subst.
    unfold leaves_alone in Hla. cbn [el_op fst snd] in Hla.
    destruct (gtc_rests_step s o e HI He Hty Hla) as [He' Hnf].
    pose proof (inv_step jo_asset jura_sym jura_is_sell jdecide s o HI) as HI'.
    destruct (IH _ _ HI' He' Hty Hall') as [IH1 IH2].
    split; [|exact IH2].
    intros el Hel. cbn [grun] in Hel. destruct Hel as [Hel|Hel].
    + subst el. cbn [el_st el_out fst snd]. split; assumption.
    + apply IH1. exact Hel.
Qed.

(* a trace splits wherever its list of elements does *)
Lemma grun_split s0 g0 ops pre rest :
  grun s0 g0 ops = pre ++ rest ->
  exists ops1 ops2, ops = ops1 ++ ops2 /\ pre = grun s0 g0 ops1 /\
                    rest = grun (fst (gend s0 g0 ops1)) (snd (gend s0 g0 ops1)) ops2.
Proof.
  revert s0 g0 ops. induction pre as [|p pre IH]; intros s0 g0 ops H.
  - exists [], ops. repeat split. exact (eq_sym H).
  - destruct ops as [|o r]; [discriminate|]. cbn [grun app] in H. inversion H as [[Hp Hr]].
    apply IH in Hr. destruct Hr as [ops1 [ops2 [H1 [H2 H3]]]].
    exists (o :: ops1), ops2. cbn [app grun gend]. repeat split.
    + f_equal. exact H1.
    + f_equal. exact H2.
    + exact H3.
Qed.

Lemma grun_hd_state s g ops el rest : grun s g ops = el :: rest -> el_st el = s /\ el_gh el = g.
Proof. destruct ops as [|o r]; [discriminate|]. cbn [grun]. intros H. inversion H. split; reflexivity. Qed.

(* T5, over the trace: from an element in whose state a GTC entry e is resting, through any stretch
   `mid` of elements none of which cancels e or is a tick crossing its limit (unquoted asset, or price
   condition false), e is resting unchanged in every state and has no fill; it is still resting
   unchanged at the next successful tick, where its fate is gtc_fate: if that tick quotes its asset and
   the condition holds — the FIRST tick on which it does — it fills there, at the ask / bid *)
Theorem gtc_rests_until_crossed s0 g0 ops (pre mid : list elt) s g qs perm fl adm trig (post : list elt) (e : jentry) :
  GInv s0 g0 ->
  let this := (s, g, Tick qs perm, OutTick fl adm trig) in
  grun s0 g0 ops = pre ++ mid ++ this :: post ->
  In e (book (el_st (hd this mid))) ->
  jo_type (e_ord e) = JLimit Gtc ->
  Forall (leaves_alone e) mid ->
  (forall el : elt, In el mid -> In e (book (el_st el)) /\ ~ In (e_id e) (fill_ids (el_out el))) /\
  In e (book s) /\
  gtc_fate (fst (jtick s qs perm)) fl qs e.
Proof.
  intros HG this Hsp He Hty Hall.
  destruct (grun_split s0 g0 ops pre _ Hsp) as [ops1 [ops2 [Hops [Hpre Hrest]]]].
  pose proof (ginv_gend s0 g0 ops1 HG) as HGa.
  set (sa := fst (gend s0 g0 ops1)) in *. set (ga := snd (gend s0 g0 ops1)) in *.
  destruct (grun_split sa ga ops2 mid _ (eq_sym Hrest)) as [ops3 [ops4 [Hops2 [Hmid Hthis]]]].
  assert (Hsa : el_st (hd this mid) = sa).
  { assert (Hhd : hd this mid = hd this (mid ++ this :: post)) by (destruct mid; reflexivity).
    rewrite Hhd. destruct (mid ++ this :: post) as [|el rest] eqn:Hl; [destruct mid; discriminate|].
    cbn [hd]. symmetry in Hrest. apply grun_hd_state in Hrest. apply Hrest. }
  rewrite Hsa in He. pose proof HGa as [HIa _].
  rewrite Hmid in Hall.
  destruct (gtc_rests_run sa ga ops3 e HIa He Hty Hall) as [H1 H2].
  symmetry in Hthis. apply grun_hd_state in Hthis. destruct Hthis as [Hs _]. unfold this in Hs. cbn [el_st fst] in Hs.
  rewrite <- Hs in H2.
  split; [rewrite Hmid; exact H1|]. split; [exact H2|].
  apply (gtc_tick_fate s0 g0 ops s g qs perm fl adm trig e HG); [|exact H2|exact Hty].
  rewrite Hsp. apply in_or_app. right. apply in_or_app. right. left. reflexivity.
Qed.

(* ====================== the same, for histories from the empty exchange ====================== *)

Definition trace (ops : list (jop F)) : list elt := grun exch_init [] ops.

Corollary ioc_flag_is_seen_init ops el (e : jentry) :
  In el (trace ops) -> In e (book (el_st el)) -> jo_type (e_ord e) = JLimit Ioc ->
  (e_flag e = true <-> (1 <= seen_get (el_gh el) (e_id e))%nat) /\
  (seen_get (el_gh el) (e_id e) <= 1)%nat.
Proof. apply ioc_flag_is_seen. apply ginv_init. Qed.

Corollary ioc_fills_only_at_first_quoted_tick_init ops s g qs perm fl adm trig i f (e : jentry) :
  In (s, g, Tick qs perm, OutTick fl adm trig) (trace ops) ->
  In (i, f) fl -> In e (book s) -> e_id e = i -> jo_type (e_ord e) = JLimit Ioc ->
  seen_get g i = 0%nat /\
  exists q price sz,
    lookup qs (N_to_string (jo_asset (e_ord e))) = Some q /\
    jo_limit_px (e_ord e) = Some price /\ jo_sz (e_ord e) = Some sz /\
    ioc_cond (e_ord e) price q = true /\ f = fill_at i (e_ord e) sz q.
Proof. apply ioc_fills_only_at_first_quoted_tick. apply ginv_init. Qed.

Corollary ioc_never_fills_later_init ops (pre : list elt) s g qs perm fl adm trig (post : list elt) (e : jentry) :
  trace ops = pre ++ (s, g, Tick qs perm, OutTick fl adm trig) :: post ->
  In e (book s) -> jo_type (e_ord e) = JLimit Ioc -> quoted qs (e_ord e) = true ->
  forall el : elt, In el post -> ~ In (e_id e) (fill_ids (el_out el)).
Proof. apply ioc_never_fills_later. apply ginv_init. Qed.

Corollary trigger_never_fills_history_init ops el1 el2 i :
  In el1 (trace ops) -> known_trigger el1 i -> In el2 (trace ops) -> ~ In i (fill_ids (el_out el2)).
Proof. apply trigger_never_fills_history. apply ginv_init. Qed.

Definition ioc_first_quoted_tick_fate_init ops pre s g qs perm fl adm trig post e q :=
  ioc_first_quoted_tick_fate exch_init [] ops pre s g qs perm fl adm trig post e q ginv_init.
Definition ioc_dropped_at_second_quoted_tick_init ops pre s g qs perm fl adm trig post e :=
  ioc_dropped_at_second_quoted_tick exch_init [] ops pre s g qs perm fl adm trig post e ginv_init.
Definition trigger_child_next_tick_init ops (pre : list elt) s g qs perm fl adm trig (post : list elt) c :=
  trigger_child_next_tick exch_init [] ops pre s g qs perm fl adm trig post c ginv_init.
Definition gtc_tick_fate_init ops s g qs perm fl adm trig e :=
  gtc_tick_fate exch_init [] ops s g qs perm fl adm trig e ginv_init.
Definition gtc_rests_until_crossed_init ops pre mid s g qs perm fl adm trig post e :=
  gtc_rests_until_crossed exch_init [] ops pre mid s g qs perm fl adm trig post e ginv_init.

End EndToEnd18.

(* ====================== the hypotheses are satisfiable: one history, evaluated ====================== *)
(* IEEE instance.  An IOC buy of asset 0, limit 100: admitted by a first tick; a tick quoting only
   asset 1 leaves it alone (count 0); a tick quoting asset 0 at ask 200 > 100 x 1.1 marks it (count 1,
   no fill); a tick quoting asset 0 at ask 50 drops it without a fill.  A second copy meets ask 105 on
   its first quoted tick and fills there, at 105. *)
From Coq Require Import Floats.
Section Example18.
Local Existing Instance FNj.
Definition ioc_buy_100 : jorder float :=
  mkJOrder 0 true (Some 100%float) (Some 1%float) false None (JLimit Ioc).
Definition qrow (asset : string) (bid ask : float) : string * quote float :=
  (asset, mkQuote bid ask 100 asset).
Definition history18 : list (jop float) :=
  [ Insert ioc_buy_100;
    Tick [] [0%nat];                                  (* admits it with id 0 *)
    Tick [qrow "1" 10 11] [];                         (* asset 0 unquoted *)
    Tick [qrow "0" 199 200] [];                       (* first quoted tick: 200 > 110: marked *)
    Insert ioc_buy_100;
    Tick [qrow "0" 49 50] [0%nat];                    (* second quoted tick: dropped; admits id 1 *)
    Tick [qrow "0" 104 105] [] ].                     (* id 1: first quoted tick, 105 <= 110: fills *)

Lemma history18_trace :
  map (fun el => (map (fun e => (e_id e, e_flag e)) (book (el_st el)),
                  map (fun e => seen_get (el_gh el) (e_id e)) (book (el_st el)),
                  match el_out el with
                  | OutTick fl _ _ => Some (map (fun p => (fst p, f_px (snd p))) fl)
                  | _ => None
                  end)) (trace history18)
  = [ ([], [], None);
      ([], [], Some []);
      ([(0%N, false)], [0%nat], Some []);
      ([(0%N, false)], [0%nat], Some []);
      ([(0%N, true)], [1%nat], None);
      ([(0%N, true)], [1%nat], Some []);
      ([(1%N, false)], [0%nat], Some [(1%N, 105%float)]) ].
Proof. vm_compute. reflexivity. Qed.
End Example18.

Print Assumptions ioc_flag_is_seen.
Print Assumptions ginv_step.
Print Assumptions ioc_fills_only_at_first_quoted_tick.
Print Assumptions ioc_never_fills_later.
Print Assumptions ioc_first_quoted_tick_fate.
Print Assumptions ioc_dropped_at_second_quoted_tick.
Print Assumptions trigger_never_fills_history.
Print Assumptions trigger_child_next_tick.
Print Assumptions gtc_tick_fate.
Print Assumptions gtc_rests_until_crossed.
Print Assumptions grun_outputs.
Print Assumptions grun_states.
Print Assumptions ioc_flag_is_seen_init.
Print Assumptions ioc_fills_only_at_first_quoted_tick_init.
Print Assumptions ioc_never_fills_later_init.
Print Assumptions trigger_never_fills_history_init.
Print Assumptions ioc_first_quoted_tick_fate_init.
Print Assumptions ioc_dropped_at_second_quoted_tick_init.
Print Assumptions trigger_child_next_tick_init.
Print Assumptions gtc_tick_fate_init.
Print Assumptions gtc_rests_until_crossed_init.
Print Assumptions history18_trace.
