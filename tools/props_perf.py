import sys, os
sys.path.insert(0, os.path.dirname(os.path.abspath(__file__)))
from genprops import gen

IMP = """From Coq Require Import ZArith NArith List Bool String Reals.
From Flocq Require Import Raux.
From Alator Require Import Model.Num Model.Quirks Model.Broker Model.Perf Proofs.PerfProofs.
Import ListNotations.
Local Existing Instance RNum.
Local Open Scope R_scope."""

gen("C14", "C14 — returns, compounding and annualised statistics follow their definitions. Statements only; all at "
    "the real-number instance of the model (ln, exp, x^y, sqrt are the mathematical functions); the same "
    "definitions run at the IEEE instance with the platform's libm values and are compared bit-for-bit.", IMP, [
    ("c14_period", "period_identity", "Each period return r satisfies value_next = (value_prev + net cash flow of the period) x (1 + r) x (1 + inflation)."),
    ("c14_returns_length", "get_returns_length", "n snapshots give n-1 returns …"),
    ("c14_returns_alignment", "get_returns_nth", "… and entry i is the return of the period ending at snapshot i+1, from value i, value i+1 and the cash flow / inflation recorded at i+1."),
    ("c14_log_returns", "log_returns_are_logs", "The log returns are ln(1 + r) of the returns."),
    ("c14_cash_flows_length", "cash_flows_length", "The cash-flow vector has one entry per snapshot …"),
    ("c14_cash_flows", "cash_flows_nth", "… each the difference of the cumulative net cash flow (the first is 0)."),
    ("c14_total", "total_return_product", "Total return is the compounded product of (1 + r) minus 1 (for returns above -100 %) …"),
    ("c14_total_no_flows", "no_flow_product", "… which is last/first - 1 without flows and inflation."),
    ("c14_best", "fold_max_spec", "best is the largest period return …"),
    ("c14_worst", "fold_min_spec", "… worst the smallest."),
    ("c14_var", "var_spec", "The variance is the population variance …"),
    ("c14_vol", "vol_spec", "… volatility is sqrt(252) x the population standard deviation."),
    ("c14_cagr", "cagr_spec", "CAGR is (1 + total)^(365/n) - 1 for n snapshots."),
    ("c14_sharpe", "sharpe_spec", "Sharpe is CAGR / volatility (CAGR when volatility is 0)."),
    ("c14_scale_returns", "returns_scale", "Every return is unchanged when all values and cash flows are multiplied by the same non-zero constant …"),
    ("c14_scale", "calculate_scale", "… hence every return-based output of calculate is."),
    ("c14_vectors", "calculate_lengths", "The output vectors align one-to-one with the snapshots; first/last dates are the first/last snapshot dates."),
    ("c14_needs_two", "calculate_panics_below_two", "Fewer than two snapshots: the code panics (modelled, excluded from the property by its premise) …"),
    ("c14_total_function", "calculate_ok", "… and with at least two it never does (over R: no NaN)."),
])

gen("C15", "C15 — maximum drawdown is the worst peak-to-trough loss and its dates bracket it. Statements only; [R].", IMP, [
    ("c15_scan", "maxdd_spec", "On a positive path the scan reports the minimum over all i <= j of v_j / v_i - 1, and positions start <= end inside the path whose values realise exactly that loss."),
    ("c15_bounds", "maxdd_bounds", "It is never below -1 and at most 0 …"),
    ("c15_monotone", "maxdd_monotone_zero", "… and 0 when the path never falls."),
    ("c15_index_positive", "index_positive", "The compounded index (from 100 000) is positive for returns above -100 %, one entry per snapshot …"),
    ("c15_index", "index_nth", "… compounding the returns."),
    ("c15_calculate", "calculate_drawdown", "Through calculate: the reported drawdown is that minimum on the compounded return index, the reported start and end dates are the snapshot dates at positions start <= end whose index values realise exactly that loss, and -1 < mdd <= 0."),
    ("c15_refuted_q_maxdd_last_positions", "c15_refuted_q_maxdd_last_positions", "Refuted for the code as it was (it returned the positions of the LAST peak and trough): path 100, 50, 200, 190 has its maximum drawdown -50 % between positions 0 and 1; the defective scan reported positions 2 and 3 (the -5 % dip)."),
])

IMPF = """From Coq Require Import ZArith NArith List Bool String Floats Reals.
From Flocq Require Import IEEE754.BinarySingleNaN IEEE754.PrimFloat.
From Alator Require Import Model.Num Model.Quirks Model.Broker Model.Perf Proofs.MaxddFloat.
Import ListNotations."""
gen("C15float", "C15 AT THE IEEE binary64 INSTANCE — the rounding gap of the [R] theorems closed for the drawdown scan. "
    "Statements only. `fin_pos x`: x is a finite, strictly positive binary64 value (Flocq's reading of Coq's primitive "
    "float); `fdd x p` is the drawdown of x from peak p EXACTLY as the code computes it, `x / p - 1.0` in binary64 with "
    "both roundings. Because correctly rounded division and subtraction are monotone, the scan's answer is the minimum of "
    "those float expressions over all i <= j, bit for bit — no real-number idealisation, overflow of v_j / v_i to "
    "+infinity included. Depends on the specification axioms the standard library declares for its primitive floats "
    "(FloatAxioms.*_spec) and on the classical real-number axioms (through Flocq).", IMPF, [
    ("c15f_scan", "maxdd_float_spec", "On any non-empty path of finite positive binary64 values the scan (the model instance that is compared bit-for-bit with the code) returns positions start <= end inside the path, the reported drawdown IS the float expression fdd v_end v_start, and it is <= fdd v_j v_i for every i <= j.", True),
    ("c15f_bounds", "maxdd_float_bounds", "It lies between -1 and 0 (float comparisons) …", True),
    ("c15f_monotone", "maxdd_float_monotone_zero", "… and is exactly +0.0 when the path never falls.", True),
    ("c15f_example", "maxdd_float_witness", "Non-vacuity, kernel-evaluated: 100, 50, 200, 190 meets the premises and gives (-0.5, 0, 1).", True),
])
