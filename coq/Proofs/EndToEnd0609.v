(* EndToEnd0609.v — C06 (gatekeeping and forwarding) and C09 (Failed is absorbing) END TO END over the composition
   broker + eager client + Uist server + Uist exchange (Model/BrokerSys.v: bs_step, bs_run).

   Section AnyNum: for EVERY F with Num F and EVERY quirk valuation qk (no law of arithmetic is used; where a quirk
   matters the hypothesis names it: q_liq_fail_debit qk = false, of which `clean` is an instance).
   Section AtR: the one place where a real-number fact is needed — the request of rebalance_cash, -cash + 1000, exceeds
   the (negative) cash, so the defect q_liq_fail_debit never bites inside check().
   Section Example: a kernel-evaluated run at the IEEE instance. *)
From Coq Require Import ZArith NArith List Bool String Permutation Lia Reals Lra Floats.
From Flocq Require Import Raux.
From Alator Require Import Model.Num Model.Quirks Model.Cost Model.Exchange Model.Uist Model.Server Model.Penelope
  Model.Broker Model.Perf Model.Strategy Model.BrokerSys
  Proofs.ServerProofs Proofs.BrokerLedgerProofs Proofs.UistProofs
  Proofs.ExchangeProofs Proofs.ExchangeCorollaries Proofs.StrategyProofs.
Import ListNotations.

(* ====================================== every Num F, every quirk valuation ====================================== *)
Section AnyNum.
Context {F : Type} {NF : Num F}.
Variable qk : quirks.

Notation utick1 := (bt_tick (X:=uexch F) (Row:=quotes (quote F)) (TOut:=utout) ux_tick ([], []) clean false).

(* ---------------- the server half of the composition does not depend on the quirks ---------------- *)
Lemma forward_any (a : uapp (F:=F)) id fw : forward qk a id fw = forward clean a id fw.
Proof. reflexivity. Qed.

Lemma check_resp_any (a : uapp (F:=F)) id perm : check_resp qk a id perm = check_resp clean a id perm.
Proof. reflexivity. Qed.

Lemma forward_nil (a : uapp (F:=F)) id : forward qk a id [] = a.
Proof. reflexivity. Qed.

(* the backtest after the eager client's insert_order: the order joins the END of the exchange's buffer, nothing else *)
Definition bt_insert (b : backtest (uexch F)) (o : uorder F) : backtest (uexch F) :=
  mkBacktest (bt_date b) (bt_pos b)
    (mkExch (book (bt_exch b)) (buffer (bt_exch b) ++ [o]) (next_id (bt_exch b)) (xlog (bt_exch b)))
    (bt_dataset b).

Lemma insert_step (a : uapp (F:=F)) id o b :
  nlookup (backtests a) id = Some b ->
  fst (usstep qk a (SInsert o id)) = with_backtest a id (bt_insert b o).
Proof. intros Hb. unfold usstep. cbn [sstep]. rewrite Hb. reflexivity. Qed.

Lemma insert_step_none (a : uapp (F:=F)) id o :
  nlookup (backtests a) id = None -> fst (usstep qk a (SInsert o id)) = a.
Proof. intros Hb. unfold usstep. cbn [sstep]. rewrite Hb. reflexivity. Qed.

Lemma forward_cons (a : uapp (F:=F)) id o os :
  forward qk a id (o :: os) = forward qk (fst (usstep qk a (SInsert o id))) id os.
Proof. reflexivity. Qed.

Lemma forward_one (a : uapp (F:=F)) id o b :
  nlookup (backtests a) id = Some b -> forward qk a id [o] = with_backtest a id (bt_insert b o).
Proof. intros Hb. rewrite forward_cons, forward_nil. exact (insert_step a id o b Hb). Qed.

Lemma forward_none os : forall (a : uapp (F:=F)) id,
  nlookup (backtests a) id = None -> forward qk a id os = a.
Proof.
  induction os as [|o os IH]; intros a id Hb; [reflexivity|].
  rewrite forward_cons, (insert_step_none a id o Hb). exact (IH a id Hb).
Qed.

Lemma with_backtest_lookup_same (a : uapp (F:=F)) id b : nlookup (backtests (with_backtest a id b)) id = Some b.
Proof. unfold with_backtest. cbn [backtests]. apply nlookup_upsert_same. Qed.

Lemma with_backtest_lookup_other (a : uapp (F:=F)) id b j :
  j <> id -> nlookup (backtests (with_backtest a id b)) j = nlookup (backtests a) j.
Proof. intros Hj. unfold with_backtest. cbn [backtests]. apply nlookup_upsert_other. exact Hj. Qed.

(* forwarding a list of orders: they join the buffer of the broker's backtest in order; book, id counter, trade log,
   clock and every other backtest are untouched *)
Lemma forward_exch_any os : forall (a : uapp (F:=F)) id b,
  nlookup (backtests a) id = Some b ->
  exists b', nlookup (backtests (forward qk a id os)) id = Some b' /\
    bt_date b' = bt_date b /\ bt_pos b' = bt_pos b /\ bt_dataset b' = bt_dataset b /\
    book (bt_exch b') = book (bt_exch b) /\ next_id (bt_exch b') = next_id (bt_exch b) /\
    xlog (bt_exch b') = xlog (bt_exch b) /\
    buffer (bt_exch b') = buffer (bt_exch b) ++ os.
Proof.
  induction os as [|o os IH]; intros a id b Hb.
  - rewrite forward_nil. exists b. rewrite app_nil_r. repeat split; solve [assumption | reflexivity].
  - rewrite forward_cons, (insert_step a id o b Hb).
    destruct (IH _ id _ (with_backtest_lookup_same a id (bt_insert b o)))
      as (b' & H1 & H2 & H3 & H4 & H5 & H6 & H7 & H8).
    exists b'. split; [exact H1|]. cbn [bt_insert bt_date bt_pos bt_dataset bt_exch book next_id xlog buffer] in *.
    repeat (split; [assumption|]). rewrite H8, <- app_assoc. reflexivity.
Qed.

(* ================================================ C06 ================================================ *)

(* (S1) a refused order is inert for the WHOLE system: broker (cash, holdings, pending, log, quotes, costs, state) and
   app (every backtest, hence the exchange's book and buffer; the datasets; the id counter) *)
Theorem c06s_refused_inert (y : bsys F) (o o' : uorder F) b' fw :
  send_order qk (bs_brkr y) o = Ok (b', OrderInvalid o', fw) ->
  bs_step qk y (BSSend o) = Ok y.
Proof.
  intros H. cbn [bs_step]. rewrite H. cbn [bind].
  apply send_order_cases in H. destruct H as [(_ & -> & _ & ->)|(_ & _ & Hev & _)]; [|discriminate].
  rewrite forward_nil. destruct y as [br a id]. reflexivity.
Qed.

(* what is kept of a backtest when an order is only buffered: everything but the buffer *)
Definition bt_frame (b : backtest (uexch F)) :=
  (bt_date b, bt_pos b, bt_dataset b, book (bt_exch b), next_id (bt_exch b), xlog (bt_exch b)).

(* (S2) a forwarded order reaches the exchange exactly once, unchanged, at the END of the buffer of the broker's
   backtest; the resting book, every other backtest, and every field of the broker but b_pending are unchanged *)
Theorem c06s_forwarded_once (y : bsys F) (o o' : uorder F) b' fw bt :
  send_order qk (bs_brkr y) o = Ok (b', OrderSentToExchange o', fw) ->
  nlookup (backtests (bs_app y)) (bs_id y) = Some bt ->
  exists y',
    bs_step qk y (BSSend o) = Ok y' /\
    y' = mkBSys (add_pending (bs_brkr y) o) (with_backtest (bs_app y) (bs_id y) (bt_insert bt o)) (bs_id y) /\
    o' = o /\ fw = [o] /\
    (* the exchange: exactly once, unchanged, at the end of the buffer; the resting book unchanged *)
    outstanding y' = outstanding y ++ [o] /\
    nlookup (backtests (bs_app y')) (bs_id y') = Some (bt_insert bt o) /\
    buffer (bt_exch (bt_insert bt o)) = buffer (bt_exch bt) ++ [o] /\
    bt_frame (bt_insert bt o) = bt_frame bt /\
    (* the rest of the app *)
    bs_id y' = bs_id y /\
    (forall j, j <> bs_id y -> nlookup (backtests (bs_app y')) j = nlookup (backtests (bs_app y)) j) /\
    datasets (bs_app y') = datasets (bs_app y) /\ last (bs_app y') = last (bs_app y) /\
    (* the broker: only b_pending moves *)
    bs_brkr y' = add_pending (bs_brkr y) o /\
    b_cash (bs_brkr y') = b_cash (bs_brkr y) /\ b_holdings (bs_brkr y') = b_holdings (bs_brkr y) /\
    b_log (bs_brkr y') = b_log (bs_brkr y) /\ b_quotes (bs_brkr y') = b_quotes (bs_brkr y) /\
    b_costs (bs_brkr y') = b_costs (bs_brkr y) /\ b_failed (bs_brkr y') = b_failed (bs_brkr y).
Proof.
  intros H Hb. pose proof H as H0. apply send_order_cases in H0.
  destruct H0 as [(_ & _ & Hev & _)|(_ & Hb' & Hev & Hfw)]; [discriminate|].
  inversion Hev; subst o' b' fw; clear Hev.
  eexists. split.
  { cbn [bs_step]. rewrite H. cbn [bind]. rewrite (forward_one _ _ _ _ Hb). reflexivity. }
  split; [reflexivity|]. split; [reflexivity|]. split; [reflexivity|].
  cbn [bs_app bs_id bs_brkr]. split.
  { unfold outstanding. cbn [bs_app bs_id]. rewrite with_backtest_lookup_same, Hb.
    cbn [bt_insert bt_exch book buffer]. rewrite app_assoc. reflexivity. }
  split; [apply with_backtest_lookup_same|]. split; [reflexivity|]. split; [reflexivity|].
  split; [reflexivity|]. split; [intros j Hj; apply with_backtest_lookup_other; exact Hj|].
  repeat split; reflexivity.
Qed.

(* (S3) whatever the outcome of the gate, a send never touches cash, holdings, log, quotes, costs or the broker's
   state, nor — for ANY backtest of the app — the exchange's trade log, resting book, id counter or clock *)
Theorem c06s_send_never_touches_other_state (y : bsys F) (o : uorder F) y' :
  bs_step qk y (BSSend o) = Ok y' ->
  b_cash (bs_brkr y') = b_cash (bs_brkr y) /\ b_holdings (bs_brkr y') = b_holdings (bs_brkr y) /\
  b_log (bs_brkr y') = b_log (bs_brkr y) /\ b_failed (bs_brkr y') = b_failed (bs_brkr y) /\
  b_quotes (bs_brkr y') = b_quotes (bs_brkr y) /\ b_costs (bs_brkr y') = b_costs (bs_brkr y) /\
  bs_id y' = bs_id y /\
  (forall j, option_map bt_frame (nlookup (backtests (bs_app y')) j)
             = option_map bt_frame (nlookup (backtests (bs_app y)) j)) /\
  datasets (bs_app y') = datasets (bs_app y) /\ last (bs_app y') = last (bs_app y).
Proof.
  intros H. cbn [bs_step] in H.
  destruct (send_order qk (bs_brkr y) o) as [[[b' ev] fw]|s|] eqn:Hs; cbn [bind] in H; try discriminate.
  inversion H; subst y'; clear H. cbn [bs_brkr bs_app bs_id].
  apply send_order_cases in Hs. destruct Hs as [(_ & -> & _ & ->)|(_ & -> & _ & ->)].
  - rewrite forward_nil. repeat split; reflexivity.
  - destruct (add_pending_frame (bs_brkr y) o) as (Hc & Hh & Hl & Hq & Hf & Hk).
    repeat (split; [assumption|]). split; [reflexivity|].
    destruct (nlookup (backtests (bs_app y)) (bs_id y)) as [bt|] eqn:Hb.
    + rewrite (forward_one _ _ _ _ Hb). split; [|split; reflexivity].
      intros j. destruct (N.eq_dec j (bs_id y)) as [->|Hj].
      * rewrite with_backtest_lookup_same, Hb. reflexivity.
      * rewrite (with_backtest_lookup_other _ _ _ _ Hj). reflexivity.
    + rewrite (forward_none _ _ _ Hb). repeat split; reflexivity.
Qed.

(* ---------------- one check() of the composition, opened up: any F, any qk, no clock hypothesis ---------------- *)
Lemma utick1_shape (d : dataset (quotes (quote F))) (b : backtest (uexch F)) perm b1 hn out :
  utick1 d b perm = Some (b1, (hn, out)) ->
  bt_dataset b1 = bt_dataset b /\
  match get_quotes d (bt_date b) with
  | Some row => ux_tick (bt_exch b) row perm = Some (bt_exch b1, out)
  | None => bt_exch b1 = bt_exch b /\ out = ([], [])
  end.
Proof.
  intros H. rewrite tick1_unfold in H.
  destruct (get_quotes d (bt_date b)) as [row|].
  - destruct (ux_tick (bt_exch b) row perm) as [[x' o']|]; [|discriminate].
    inversion H; subst. split; reflexivity.
  - inversion H; subst. repeat split; reflexivity.
Qed.

(* what the client calls of one check() returned, computed *)
Lemma check_resp_spec_any (a : uapp (F:=F)) id perm b d :
  nlookup (backtests a) id = Some b -> slookup (datasets a) (bt_dataset b) = Some d ->
  check_resp qk a id perm =
  match utick1 d b perm with
  | None => (a, None, true)
  | Some (b1, (hn, (trades, adm))) =>
      (with_backtest a id b1,
       match get_quotes d (bt_date b1) with Some row => Some (trades, row) | None => None end,
       false)
  end.
Proof.
  intros Hb Hd. rewrite check_resp_any. unfold check_resp. rewrite (us_tick _ _ _ _ perm Hb Hd).
  destruct (utick1 d b perm) as [[b1 [hn [trades adm]]]|] eqn:Ht.
  - cbv beta iota.
    destruct (utick1_shape d b perm b1 hn (trades, adm) Ht) as (Hds1 & _).
    set (a1 := with_backtest a id b1).
    assert (Hb1 : nlookup (backtests a1) id = Some b1) by apply with_backtest_lookup_same.
    assert (Hd1 : slookup (datasets a1) (bt_dataset b1) = Some d).
    { unfold a1, with_backtest. cbn [datasets]. rewrite Hds1. exact Hd. }
    rewrite (us_fetch a1 _ _ _ Hb1 Hd1). cbv beta iota.
    destruct (get_quotes d (bt_date b1)); reflexivity.
  - cbv beta iota. rewrite (us_fetch a _ _ _ Hb Hd). reflexivity.
Qed.

(* a broker whose backtest does not exist: both client calls fail, nothing moves in the app *)
Lemma check_resp_none (a : uapp (F:=F)) id perm :
  nlookup (backtests a) id = None -> check_resp qk a id perm = (a, None, false).
Proof. intros Hb. unfold check_resp, usstep. cbn [sstep]. rewrite Hb. cbn [sstep]. rewrite Hb. reflexivity. Qed.

Lemma bs_check_shape_any (y : bsys F) perm ord y' b d :
  nlookup (backtests (bs_app y)) (bs_id y) = Some b ->
  slookup (datasets (bs_app y)) (bt_dataset b) = Some d ->
  bs_step qk y (BSCheck perm ord) = Ok y' ->
  exists b1 hn trades adm br' fw,
    utick1 d b perm = Some (b1, (hn, (trades, adm))) /\
    check qk (bs_brkr y)
      (match get_quotes d (bt_date b1) with Some row => Some (trades, row) | None => None end) ord
      = Ok (br', fw) /\
    y' = mkBSys br' (forward qk (with_backtest (bs_app y) (bs_id y) b1) (bs_id y) fw) (bs_id y).
Proof.
  intros Hb Hd H. cbn [bs_step] in H. rewrite (check_resp_spec_any _ _ perm _ _ Hb Hd) in H.
  destruct (utick1 d b perm) as [[b1 [hn [trades adm]]]|]; [|discriminate].
  cbv beta iota in H.
  match type of H with bind ?u _ = _ => destruct u as [[br' fw]|e|] eqn:Hu end;
    cbn [bind] in H; try discriminate.
  inversion H; subst y'; clear H.
  exists b1, hn, trades, adm, br', fw. split; [reflexivity|]. split; [exact Hu | reflexivity].
Qed.

Lemma ux_tick_open (x : uexch F) row perm x' trades adm :
  ux_tick x row perm = Some (x', (trades, adm)) ->
  exists fl trig, uist_tick x row perm = (x', OutTick fl adm trig) /\ trades = map snd fl.
Proof.
  intros H. unfold ux_tick in H.
  destruct (uist_tick x row perm) as [x1 o] eqn:Ht.
  destruct o as [|fl adm1 trig| |]; try discriminate.
  inversion H; subst x1 trades adm1; clear H. exists fl, trig. split; reflexivity.
Qed.

(* ---------------- the only orders check() itself ever issues: the market sells of a liquidation ---------------- *)
Definition liq_sell (o : uorder F) : Prop := uo_type o = MarketSell /\ uo_price o = None.

Lemma liq_loop_sells (b : broker F) ord : forall c acc ts sells,
  Forall liq_sell acc -> liq_loop qk b ord c acc = Ok (ts, sells) -> Forall liq_sell sells.
Proof.
  induction ord as [|t rest IH]; intros c acc ts sells Hacc H; cbn [liq_loop] in H.
  - inversion H; subst. apply Forall_rev. exact Hacc.
  - cbv zeta in H.
    destruct (fleb (match position_value b t with Some v => v | None => fzero end) c).
    + destruct (position_qty b t) as [qty|].
      * refine (IH _ _ _ _ _ H). constructor; [split; reflexivity | exact Hacc].
      * exact (IH _ _ _ _ Hacc H).
    + destruct (sget (b_quotes b) t) as [q|]; [|discriminate].
      injection H as _ Hs. rewrite <- Hs. apply Forall_app. split; [apply Forall_rev; exact Hacc|].
      constructor; [split; reflexivity | constructor].
Qed.

Lemma send_orders_fw_in os : forall (b : broker F) b' evs fw,
  send_orders qk b os = Ok (b', evs, fw) -> forall o, In o fw -> In o os.
Proof.
  induction os as [|x r IH]; intros b b' evs fw H o Hin.
  - cbn [send_orders] in H. inversion H; subst. contradiction.
  - apply send_orders_cons in H. destruct H as (b1 & ev1 & fw1 & evs2 & fw2 & Hs & Hr & _ & ->).
    apply send_order_cases in Hs. apply in_app_or in Hin.
    destruct Hs as [(_ & _ & _ & ->)|(_ & _ & _ & ->)]; destruct Hin as [Hin|Hin].
    + contradiction.
    + right. exact (IH _ _ _ _ Hr o Hin).
    + destruct Hin as [<-|[]]. left. reflexivity.
    + right. exact (IH _ _ _ _ Hr o Hin).
Qed.

Lemma liq_fw_sells (b : broker F) c ord b' ev fw :
  withdraw_cash_with_liquidation qk b c ord = Ok (b', ev, fw) -> Forall liq_sell fw.
Proof.
  unfold withdraw_cash_with_liquidation. intros H.
  destruct (negb (is_order_of ord (b_holdings b))); [discriminate|].
  destruct (fltb (liquidation_value b ord) c).
  - inversion H; subst. constructor.
  - destruct (liq_loop qk b ord c []) as [[ts sells]|s|] eqn:Hl; cbn [bind] in H; try discriminate.
    destruct (feqb ts fzero).
    + destruct (send_orders qk b sells) as [[[b1 evs1] fw1]|s|] eqn:Hs; cbn [bind] in H; try discriminate.
      inversion H; subst. pose proof (liq_loop_sells b ord c [] ts sells (Forall_nil _) Hl) as Hall.
      rewrite Forall_forall in *. intros o Hin. apply Hall. exact (send_orders_fw_in _ _ _ _ _ Hs o Hin).
    + inversion H; subst. constructor.
Qed.

Lemma check_fw_sells (b : broker F) resp ord b' fw :
  check qk b resp ord = Ok (b', fw) -> Forall liq_sell fw.
Proof.
  intros H. apply check_shape in H. destruct H as [(_ & ->)|H]; [constructor|].
  apply rebalance_shape in H. destruct H as [(_ & ->)|(c & b1 & ev & Hw & _)]; [constructor|].
  exact (liq_fw_sells _ _ _ _ _ _ Hw).
Qed.

Lemma check_nonneg_fw (b : broker F) resp ord b' fw :
  check qk b resp ord = Ok (b', fw) -> fltb (b_cash (booked b resp)) fzero = false ->
  b' = booked b resp /\ fw = [].
Proof.
  unfold check. fold (booked b resp). intros H Hc. rewrite Hc in H. inversion H; subst. split; reflexivity.
Qed.

(* (S4) lifting to admission: the next check() — one tick of the broker's backtest on a date that has a row —
   admits the forwarded order: it rests, unflagged, under an id handed out by that tick (at least the old id counter;
   with the exchange invariant: larger than every id resting before), it was NOT matched in that tick (the tick's trades
   are the fills of the orders resting BEFORE it — the walk runs over the old book, the batch is appended after it),
   and it has left the buffer: the buffer now holds only what this check's own rebalance issued, all of them
   liquidation sells, so an order that is not a price-less market sell is certainly not in it, and it is empty whenever
   the cash after booking is not negative. (Plain  ~ In o (buffer ...)  is FALSE of the model when o is itself a
   price-less market sell: the rebalance of that very check can issue an EQUAL order — c06s_equal_order_reappears
   below is such a run.) *)
Theorem c06s_forwarded_then_admitted (y : bsys F) (o o' : uorder F) b' fw bt d row y1 perm ord y2 :
  send_order qk (bs_brkr y) o = Ok (b', OrderSentToExchange o', fw) ->
  nlookup (backtests (bs_app y)) (bs_id y) = Some bt ->
  slookup (datasets (bs_app y)) (bt_dataset bt) = Some d ->
  get_quotes d (bt_date bt) = Some row ->
  bs_step qk y (BSSend o) = Ok y1 ->
  bs_step qk y1 (BSCheck perm ord) = Ok y2 ->
  exists bt2 i resp,
    nlookup (backtests (bs_app y2)) (bs_id y2) = Some bt2 /\ bs_id y2 = bs_id y /\
    In (mkEntry i o false) (book (bt_exch bt2)) /\
    In o (map (@e_ord (uorder F)) (book (bt_exch bt2))) /\
    (next_id (bt_exch bt) <= i < next_id (bt_exch bt2))%N /\
    xlog (bt_exch bt2) = xlog (bt_exch bt) ++ map snd (flat_map (utrade row) (book (bt_exch bt))) /\
    check qk (bs_brkr y1) resp ord = Ok (bs_brkr y2, buffer (bt_exch bt2)) /\
    Forall liq_sell (buffer (bt_exch bt2)) /\
    (~ liq_sell o -> ~ In o (buffer (bt_exch bt2))) /\
    (fltb (b_cash (booked (bs_brkr y1) resp)) fzero = false -> buffer (bt_exch bt2) = []) /\
    (ExchangeProofs.Inv (bt_exch bt) ->
     ExchangeProofs.Inv (bt_exch bt2) /\ forall e, In e (book (bt_exch bt)) -> (e_id e < i)%N).
Proof.
  intros Hsend Hb Hd Hrow H1 H2.
  destruct (c06s_forwarded_once y o o' b' fw bt Hsend Hb) as (y1' & H1' & Hy1 & _).
  rewrite H1 in H1'. injection H1' as E. rewrite <- E in Hy1. clear E y1'.
  set (bt1 := bt_insert bt o) in *. set (a1 := with_backtest (bs_app y) (bs_id y) bt1) in *.
  assert (Hb1 : nlookup (backtests (bs_app y1)) (bs_id y1) = Some bt1).
  { rewrite Hy1. cbn [bs_app bs_id]. apply with_backtest_lookup_same. }
  assert (Hd1 : slookup (datasets (bs_app y1)) (bt_dataset bt1) = Some d).
  { rewrite Hy1. cbn [bs_app]. exact Hd. }
  destruct (bs_check_shape_any y1 perm ord y2 bt1 d Hb1 Hd1 H2)
    as (b2 & hn & trades & adm & br' & fwc & Ht & Hchk & Hy2).
  destruct (utick1_shape d bt1 perm b2 hn (trades, adm) Ht) as (_ & Hx).
  change (bt_date bt1) with (bt_date bt) in Hx. rewrite Hrow in Hx.
  destruct (ux_tick_open _ _ _ _ _ _ Hx) as (fl & trig & Htick & Htr).
  pose proof Htick as Htick0. unfold uist_tick in Htick0. apply tick_unfold in Htick0.
  destruct Htick0 as (sorted & Hap & _ & Hrest). cbv zeta in Hrest.
  destruct Hrest as (Hfl & _ & Hadm & Hx2).
  pose proof (apply_perm_Permutation _ _ _ Hap) as Hperm.
  assert (Hin : In o sorted).
  { apply (Permutation_in _ (Permutation_sym Hperm)).
    cbn [bt1 bt_insert bt_exch buffer]. apply in_or_app. right. left. reflexivity. }
  destruct (number_In_ex (next_id (bt_exch bt1) +
                          N.of_nat (List.length (flat_map (child_of uo_symbol uist_decide row) (book (bt_exch bt1)))))
                         sorted o Hin) as (i & Hi).
  rewrite <- Hadm in Hi.
  assert (Hbook : In (mkEntry i o false) (book (bt_exch b2))).
  { rewrite Hx2. cbn [book]. apply in_or_app. right. apply in_map_iff. exists (i, o). split; [reflexivity | exact Hi]. }
  assert (Hrange : (next_id (bt_exch bt) <= i < next_id (bt_exch b2))%N).
  { rewrite Hadm in Hi. apply number_In in Hi. rewrite Hx2. cbn [next_id].
    change (next_id (bt_exch bt1)) with (next_id (bt_exch bt)) in *. lia. }
  (* the orders the check issued join the (now empty) buffer *)
  set (a2 := with_backtest (bs_app y1) (bs_id y1) b2) in *.
  destruct (forward_exch_any fwc a2 (bs_id y1) b2 (with_backtest_lookup_same _ _ _))
    as (bt2 & Hb2 & _ & _ & _ & Hbk2 & Hn2 & Hxl2 & Hbf2).
  assert (Hbuf0 : buffer (bt_exch b2) = []) by (rewrite Hx2; reflexivity).
  rewrite Hbuf0 in Hbf2. cbn [Datatypes.app] in Hbf2.
  assert (Hid : bs_id y1 = bs_id y) by (rewrite Hy1; reflexivity).
  exists bt2, i, (match get_quotes d (bt_date b2) with Some row1 => Some (trades, row1) | None => None end).
  rewrite Hy2. cbn [bs_app bs_id bs_brkr]. rewrite Hbk2, Hn2, Hxl2, Hbf2.
  split; [exact Hb2|]. split; [exact Hid|]. split; [exact Hbook|].
  split; [apply in_map_iff; exists (mkEntry i o false); split; [reflexivity | exact Hbook]|].
  split; [exact Hrange|]. split.
  { rewrite Hx2. cbn [xlog]. rewrite Hfl. f_equal. f_equal.
    apply flat_map_ext. intros e. apply uist_fill_of. }
  split; [exact Hchk|].
  pose proof (check_fw_sells _ _ _ _ _ Hchk) as Hsells.
  split; [exact Hsells|]. split.
  { intros Hno Hin'. rewrite Forall_forall in Hsells. exact (Hno (Hsells o Hin')). }
  split; [intros Hc; exact (proj2 (check_nonneg_fw _ _ _ _ _ Hchk Hc))|].
  intros HI.
  assert (HI1 : ExchangeProofs.Inv (bt_exch bt1)) by exact HI.
  split.
  - pose proof (inv_step uist_asset uo_symbol uist_is_sell uist_decide (bt_exch bt1) (Tick row perm) HI1) as HI2.
    cbn [step] in HI2. unfold uist_tick in Htick. rewrite Htick in HI2. cbn [fst] in HI2.
    unfold ExchangeProofs.Inv in *. rewrite Hbk2, Hn2. exact HI2.
  - intros e He. pose proof (inv_id_lt (bt_exch bt) e HI He) as Hlt. lia.
Qed.

(* ================================================ C09 ================================================ *)

(* the broker half of every step of the composition is a [bstep] of Model/Broker.v: a check is handed what the client's
   tick + fetch_quotes returned. Every step-level theorem about the broker lifts through this. *)
Definition bs_bop (y : bsys F) (o : bsop F) : bop F :=
  match o with
  | BSDeposit c => OpDeposit c
  | BSWithdraw c => OpWithdraw c
  | BSLiq c ord => OpLiq c ord
  | BSSend x => OpSend x
  | BSCheck perm ord => OpCheck (snd (fst (check_resp qk (bs_app y) (bs_id y) perm))) ord
  end.

Lemma bs_step_is_bstep_any (y : bsys F) o y' :
  bs_step qk y o = Ok y' ->
  exists ev fw, bstep qk (bs_brkr y) (bs_bop y o) = Ok (bs_brkr y', ev, fw).
Proof.
  intros H. destruct o as [c|c|c ord|x|perm ord]; cbn [bs_step bs_bop bstep] in *.
  - inversion H; subst y'; clear H. cbn [bs_brkr].
    destruct (deposit_cash (bs_brkr y) c) as [b' e]. cbn [fst]. eauto.
  - inversion H; subst y'; clear H. cbn [bs_brkr].
    destruct (withdraw_cash (bs_brkr y) c) as [b' e]. cbn [fst]. eauto.
  - destruct (withdraw_cash_with_liquidation qk (bs_brkr y) c ord) as [[[b' e] fw]|s|];
      cbn [bind] in *; try discriminate.
    inversion H; subst y'. cbn [bs_brkr]. eauto.
  - destruct (send_order qk (bs_brkr y) x) as [[[b' e] fw]|s|]; cbn [bind] in *; try discriminate.
    inversion H; subst y'. cbn [bs_brkr]. eauto.
  - destruct (check_resp qk (bs_app y) (bs_id y) perm) as [[a2 resp] p]. cbn [fst snd].
    destruct p; [discriminate|].
    destruct (check qk (bs_brkr y) resp ord) as [[b' fw]|s|]; cbn [bind] in *; try discriminate.
    inversion H; subst y'. cbn [bs_brkr]. eauto.
Qed.

Lemma bs_step_failed (y : bsys F) o y' :
  b_failed (bs_brkr y) = true -> bs_step qk y o = Ok y' -> b_failed (bs_brkr y') = true.
Proof.
  intros Hf H. destruct (bs_step_is_bstep_any y o y' H) as (ev & fw & Hb).
  exact (failed_absorbing qk _ _ _ _ _ Hf Hb).
Qed.

(* (S5) Failed is absorbing over EVERY history of the composition: any mix of deposits, withdrawals, liquidations,
   sends and checks, whatever the exchange answers *)
Theorem c09s_failed_forever : forall ops (y y' : bsys F),
  b_failed (bs_brkr y) = true -> bs_run qk y ops = Ok y' -> b_failed (bs_brkr y') = true.
Proof.
  induction ops as [|o r IH]; intros y y' Hf H; cbn [bs_run] in H.
  - inversion H; subst y'. exact Hf.
  - destruct (bs_step qk y o) as [y1|e|] eqn:Hs; cbn [bind] in H; try discriminate.
    exact (IH y1 y' (bs_step_failed y o y1 Hf Hs) H).
Qed.

(* (S6) in a Failed system a deposit, a withdrawal and a send return the system UNCHANGED: broker and app — nothing
   reaches the exchange *)
Theorem c09s_failed_refusals_inert (y : bsys F) :
  b_failed (bs_brkr y) = true ->
  (forall c, bs_step qk y (BSDeposit c) = Ok y) /\
  (forall c, bs_step qk y (BSWithdraw c) = Ok y) /\
  (forall o, bs_step qk y (BSSend o) = Ok y).
Proof.
  intros Hf. destruct (failed_refuses qk (bs_brkr y) Hf) as (Hd & Hw & Hs).
  destruct y as [br a id]. cbn [bs_brkr] in *.
  split; [|split]; intros x; cbn [bs_step bs_brkr bs_app bs_id].
  - rewrite Hd. reflexivity.
  - rewrite Hw. reflexivity.
  - rewrite Hs. cbn [bind]. rewrite forward_nil. reflexivity.
Qed.

Lemma set_failed_id (b : broker F) : b_failed b = true -> set_failed b = b.
Proof. destruct b as [c h p q l k f]. cbn [b_failed]. intros ->. reflexivity. Qed.

(* a liquidation requested of a Failed broker: every sell is refused by the gate, nothing is forwarded; the broker is
   unchanged unless the defect q_liq_fail_debit debits the failed request *)
Lemma failed_liq_any (b : broker F) c ord b' ev fw :
  b_failed b = true -> withdraw_cash_with_liquidation qk b c ord = Ok (b', ev, fw) ->
  fw = [] /\ (b' = b \/ (q_liq_fail_debit qk = true /\ b' = fst (debit b c))).
Proof.
  intros Hf H. apply liq_shape in H. destruct H as [(-> & _ & ->)|(sells & evs & Hs & _)].
  - split; [reflexivity|]. unfold liq_failure.
    destruct (q_liq_fail_debit qk); [right; split; reflexivity | left; reflexivity].
  - apply (send_orders_failed qk b sells b' evs fw Hf) in Hs. destruct Hs as [-> ->].
    split; [reflexivity | left; reflexivity].
Qed.

Theorem c09s_failed_liquidation_inert (y : bsys F) c ord y' :
  b_failed (bs_brkr y) = true -> bs_step qk y (BSLiq c ord) = Ok y' ->
  bs_app y' = bs_app y /\ bs_id y' = bs_id y /\
  (bs_brkr y' = bs_brkr y \/ (q_liq_fail_debit qk = true /\ bs_brkr y' = fst (debit (bs_brkr y) c))) /\
  (q_liq_fail_debit qk = false -> y' = y).
Proof.
  intros Hf H. cbn [bs_step] in H.
  destruct (withdraw_cash_with_liquidation qk (bs_brkr y) c ord) as [[[b' ev] fw]|s|] eqn:Hw;
    cbn [bind] in H; try discriminate.
  inversion H; subst y'; clear H. cbn [bs_app bs_id bs_brkr].
  destruct (failed_liq_any _ _ _ _ _ _ Hf Hw) as (-> & Hb'). rewrite forward_nil.
  split; [reflexivity|]. split; [reflexivity|]. split; [exact Hb'|].
  intros Hq. destruct Hb' as [->|(Hq' & _)]; [|congruence]. destruct y as [br a id]. reflexivity.
Qed.

(* rebalance_cash with its request made explicit *)
Lemma rebalance_shape_c (b : broker F) ord b' fw :
  rebalance_cash qk b ord = Ok (b', fw) ->
  (b' = b /\ fw = []) \/
  (fltb (b_cash b) fzero = true /\
   exists b1 ev,
     withdraw_cash_with_liquidation qk b (fadd (fmul (b_cash b) (fneg fone)) (fofZ 1000)) ord = Ok (b1, ev, fw) /\
     (b' = b1 \/ b' = set_failed b1)).
Proof.
  unfold rebalance_cash. intros H. destruct (fltb (b_cash b) fzero).
  - cbv zeta in H.
    destruct (withdraw_cash_with_liquidation qk b (fadd (fmul (b_cash b) (fneg fone)) (fofZ 1000)) ord)
      as [[[b1 ev] fw1]|s|] eqn:Hw; cbn [bind] in H; try discriminate.
    right. split; [reflexivity|]. exists b1, ev.
    destruct ev; inversion H; subst; split; auto.
  - inversion H; subst. left. split; reflexivity.
Qed.

(* check() of a Failed broker: the trades and the row are booked exactly as in Ready; if the booked cash is negative
   the rebalance asks for a liquidation, every sell of which the gate refuses: NOTHING is forwarded, and the broker is
   the booked one — unless the defect q_liq_fail_debit debits the failed request *)
Lemma failed_check_any (b : broker F) resp ord b' fw :
  b_failed b = true -> check qk b resp ord = Ok (b', fw) ->
  fw = [] /\
  (b' = booked b resp \/
   (q_liq_fail_debit qk = true /\ fltb (b_cash (booked b resp)) fzero = true /\
    b' = fst (debit (booked b resp) (fadd (fmul (b_cash (booked b resp)) (fneg fone)) (fofZ 1000))))).
Proof.
  intros Hf H. set (bk := booked b resp) in *.
  assert (Hfk : b_failed bk = true) by (unfold bk; rewrite booked_failed; exact Hf).
  apply check_shape in H. fold bk in H.
  destruct H as [(-> & ->)|H]; [split; [reflexivity | left; reflexivity]|].
  apply rebalance_shape_c in H.
  destruct H as [(-> & ->)|(Hneg & b1 & ev & Hw & Hb')]; [split; [reflexivity | left; reflexivity]|].
  destruct (failed_liq_any bk _ ord b1 ev fw Hfk Hw) as (-> & Hb1).
  split; [reflexivity|].
  assert (Hf1 : b_failed b1 = true).
  { apply liq_frame in Hw. destruct Hw as (_ & _ & _ & -> & _). exact Hfk. }
  assert (E : b' = b1) by (destruct Hb' as [->| ->]; [reflexivity | apply set_failed_id; exact Hf1]).
  subst b'. destruct Hb1 as [->|(Hq & ->)]; [left; reflexivity|].
  right. split; [exact Hq|]. split; [exact Hneg | reflexivity].
Qed.

Lemma debit_frame (b : broker F) v :
  b_holdings (fst (debit b v)) = b_holdings b /\ b_pending (fst (debit b v)) = b_pending b /\
  b_log (fst (debit b v)) = b_log b /\ b_quotes (fst (debit b v)) = b_quotes b /\
  b_costs (fst (debit b v)) = b_costs b /\ b_failed (fst (debit b v)) = b_failed b.
Proof. unfold debit. destruct (fltb (b_cash b) v); repeat split; reflexivity. Qed.

(* (S7), every F and every quirk valuation. [r] is what tick + fetch_quotes returned: the app after them, the response
   handed to the broker, the panic flag; [bk] is the broker with that response booked. The app after the step is EXACTLY
   the app after tick + fetch: check() forwarded nothing. *)
Theorem c09s_failed_check_only_books_any (y : bsys F) perm ord y' :
  b_failed (bs_brkr y) = true ->
  bs_step qk y (BSCheck perm ord) = Ok y' ->
  let r := check_resp qk (bs_app y) (bs_id y) perm in
  let bk := booked (bs_brkr y) (snd (fst r)) in
  snd r = false /\ bs_app y' = fst (fst r) /\ bs_id y' = bs_id y /\
  b_failed (bs_brkr y') = true /\
  b_holdings (bs_brkr y') = b_holdings bk /\ b_pending (bs_brkr y') = b_pending bk /\
  b_log (bs_brkr y') = b_log bk /\ b_quotes (bs_brkr y') = b_quotes bk /\ b_costs (bs_brkr y') = b_costs bk /\
  (bs_brkr y' = bk \/
   (q_liq_fail_debit qk = true /\ fltb (b_cash bk) fzero = true /\
    bs_brkr y' = fst (debit bk (fadd (fmul (b_cash bk) (fneg fone)) (fofZ 1000))))) /\
  (q_liq_fail_debit qk = false -> y' = mkBSys bk (fst (fst r)) (bs_id y)).
Proof.
  intros Hf H r bk. unfold bk, r. clear r bk. cbn [bs_step] in H.
  destruct (check_resp qk (bs_app y) (bs_id y) perm) as [[a2 resp] p]. cbn [fst snd].
  destruct p; [discriminate|].
  destruct (check qk (bs_brkr y) resp ord) as [[b' fw]|s|] eqn:Hc; cbn [bind] in H; try discriminate.
  inversion H; subst y'; clear H. cbn [bs_app bs_id bs_brkr].
  destruct (failed_check_any _ _ _ _ _ Hf Hc) as (-> & Hb'). rewrite forward_nil.
  assert (Hfk : b_failed (booked (bs_brkr y) resp) = true) by (rewrite booked_failed; exact Hf).
  split; [reflexivity|]. split; [reflexivity|]. split; [reflexivity|].
  destruct Hb' as [->|(Hq & Hneg & ->)].
  - split; [exact Hfk|]. do 5 (split; [reflexivity|]). split; [left; reflexivity | reflexivity].
  - destruct (debit_frame (booked (bs_brkr y) resp)
               (fadd (fmul (b_cash (booked (bs_brkr y) resp)) (fneg fone)) (fofZ 1000)))
      as (Hh & Hp & Hl & Hqs & Hk & Hff).
    split; [rewrite Hff; exact Hfk|]. do 5 (split; [assumption|]).
    split; [right; split; [exact Hq|]; split; [exact Hneg | reflexivity]|].
    intros Hq'. congruence.
Qed.

(* (S7) with the exchange in view, for every valuation without the defect q_liq_fail_debit (`clean` is one): one tick of
   the broker's backtest on a date that has a row. The trades of the tick are the fills of the orders resting before
   it — the in-flight fills; they are appended to the exchange's log AND booked by the Failed broker: its whole state
   afterwards is  fold_left book_trade trades (update_quotes b row1)  for the row fetched after the tick. The
   backtest's buffer afterwards is empty: the tick drained it and check() forwarded nothing — in particular when the
   booked cash is negative and the rebalance issues a liquidation, all of whose sells the gate refuses. *)
Theorem c09s_failed_check_only_books (y : bsys F) perm ord y' bt d row :
  q_liq_fail_debit qk = false ->
  b_failed (bs_brkr y) = true ->
  nlookup (backtests (bs_app y)) (bs_id y) = Some bt ->
  slookup (datasets (bs_app y)) (bt_dataset bt) = Some d ->
  get_quotes d (bt_date bt) = Some row ->
  bs_step qk y (BSCheck perm ord) = Ok y' ->
  exists bt1 hn adm,
    let trades := map snd (flat_map (utrade row) (book (bt_exch bt))) in
    let resp := match get_quotes d (bt_date bt1) with Some row1 => Some (trades, row1) | None => None end in
    utick1 d bt perm = Some (bt1, (hn, (trades, adm))) /\
    y' = mkBSys (booked (bs_brkr y) resp) (with_backtest (bs_app y) (bs_id y) bt1) (bs_id y) /\
    nlookup (backtests (bs_app y')) (bs_id y') = Some bt1 /\
    buffer (bt_exch bt1) = [] /\
    xlog (bt_exch bt1) = xlog (bt_exch bt) ++ trades /\
    b_failed (bs_brkr y') = true /\
    (forall row1, get_quotes d (bt_date bt1) = Some row1 ->
       bs_brkr y' = fold_left book_trade trades (update_quotes (bs_brkr y) row1) /\
       b_cash (bs_brkr y') = cash_after_trades (b_cash (bs_brkr y)) trades /\
       b_log (bs_brkr y') = b_log (bs_brkr y) ++ trades).
Proof.
  intros Hq Hf Hb Hd Hrow H.
  destruct (c09s_failed_check_only_books_any y perm ord y' Hf H) as (_ & _ & _ & Hf' & _ & _ & _ & _ & _ & _ & Hy').
  specialize (Hy' Hq). rewrite (check_resp_spec_any _ _ perm _ _ Hb Hd) in Hy'.
  destruct (bs_check_shape_any y perm ord y' bt d Hb Hd H) as (bt1 & hn & trades & adm & br' & fw & Ht & _ & _).
  rewrite Ht in Hy'. cbn [fst snd] in Hy'.
  destruct (utick1_shape d bt perm bt1 hn (trades, adm) Ht) as (_ & Hx). rewrite Hrow in Hx.
  destruct (ux_tick_open _ _ _ _ _ _ Hx) as (fl & trig & Htick & Htr).
  unfold uist_tick in Htick. apply tick_unfold in Htick.
  destruct Htick as (sorted & _ & _ & Hrest). cbv zeta in Hrest. destruct Hrest as (Hfl & _ & _ & Hx1).
  assert (Etr : trades = map snd (flat_map (utrade row) (book (bt_exch bt)))).
  { rewrite Htr, Hfl. f_equal. apply flat_map_ext. intros e. apply uist_fill_of. }
  exists bt1, hn, adm. cbv zeta. rewrite <- Etr.
  split; [exact Ht|]. split; [exact Hy'|].
  split; [rewrite Hy'; cbn [bs_app bs_id]; apply with_backtest_lookup_same|].
  split; [rewrite Hx1; reflexivity|].
  split; [rewrite Hx1; cbn [xlog]; rewrite <- Htr; reflexivity|].
  split; [exact Hf'|].
  intros row1 Hrow1. rewrite Hy', Hrow1. cbn [bs_brkr booked].
  split; [reflexivity|]. split; [rewrite book_trades_cash | rewrite book_trades_log]; reflexivity.
Qed.

(* (S8) a Failed system is a fixed point of every history of deposits, withdrawals and sends *)
Definition refusable (o : bsop F) : Prop :=
  match o with BSDeposit _ | BSWithdraw _ | BSSend _ => True | _ => False end.

Theorem c09s_failed_history (y : bsys F) ops :
  b_failed (bs_brkr y) = true -> Forall refusable ops -> bs_run qk y ops = Ok y.
Proof.
  intros Hf Hall. destruct (c09s_failed_refusals_inert y Hf) as (Hd & Hw & Hs).
  induction Hall as [|o r Ho _ IH]; cbn [bs_run]; [reflexivity|].
  destruct o as [c|c|c ord|x|perm ord]; cbn [refusable] in Ho; try contradiction.
  - rewrite Hd. exact IH.
  - rewrite Hw. exact IH.
  - rewrite Hs. exact IH.
Qed.

(* ... and, without the defect q_liq_fail_debit, of every history WITHOUT a check — liquidation requests included:
   whenever such a history completes, the whole system is where it started *)
Definition no_check (o : bsop F) : Prop := match o with BSCheck _ _ => False | _ => True end.

Theorem c09s_failed_history_liq : forall ops (y y' : bsys F),
  q_liq_fail_debit qk = false -> b_failed (bs_brkr y) = true -> Forall no_check ops ->
  bs_run qk y ops = Ok y' -> y' = y.
Proof.
  induction ops as [|o r IH]; intros y y' Hq Hf Hall H; cbn [bs_run] in H.
  - inversion H; subst y'. reflexivity.
  - inversion Hall as [|? ? Ho Hr]; subst.
    destruct (bs_step qk y o) as [y1|e|] eqn:Hs; cbn [bind] in H; try discriminate.
    assert (E : y1 = y).
    { destruct (c09s_failed_refusals_inert y Hf) as (Hd & Hw & Hsd).
      destruct o as [c|c|c ord|x|perm ord]; cbn [no_check] in Ho; try contradiction.
      - rewrite Hd in Hs. inversion Hs. reflexivity.
      - rewrite Hw in Hs. inversion Hs. reflexivity.
      - exact (proj2 (proj2 (proj2 (c09s_failed_liquidation_inert y c ord y1 Hf Hs))) Hq).
      - rewrite Hsd in Hs. inversion Hs. reflexivity. }
    subst y1. exact (IH y y' Hq Hf Hr H).
Qed.

(* over a WHOLE history from a Failed state — checks and liquidation requests included, any quirk valuation — the system
   stays Failed and the exchange sees only the ticks (and quote fetches) of the checks: no order ever reaches it *)
Definition app_ticked (id : N) (a : uapp (F:=F)) (o : bsop F) : uapp (F:=F) :=
  match o with BSCheck perm _ => fst (fst (check_resp qk a id perm)) | _ => a end.

Lemma failed_step_app (y : bsys F) o y' :
  b_failed (bs_brkr y) = true -> bs_step qk y o = Ok y' ->
  bs_app y' = app_ticked (bs_id y) (bs_app y) o /\ bs_id y' = bs_id y.
Proof.
  intros Hf H. destruct (c09s_failed_refusals_inert y Hf) as (Hd & Hw & Hs).
  destruct o as [c|c|c ord|x|perm ord]; cbn [app_ticked].
  - rewrite Hd in H. inversion H. split; reflexivity.
  - rewrite Hw in H. inversion H. split; reflexivity.
  - destruct (c09s_failed_liquidation_inert y c ord y' Hf H) as (Ha & Hi & _). split; assumption.
  - rewrite Hs in H. inversion H. split; reflexivity.
  - destruct (c09s_failed_check_only_books_any y perm ord y' Hf H) as (_ & Ha & Hi & _). split; assumption.
Qed.

Theorem c09s_failed_nothing_reaches_exchange : forall ops (y y' : bsys F),
  b_failed (bs_brkr y) = true -> bs_run qk y ops = Ok y' ->
  b_failed (bs_brkr y') = true /\ bs_id y' = bs_id y /\
  bs_app y' = fold_left (app_ticked (bs_id y)) ops (bs_app y).
Proof.
  induction ops as [|o r IH]; intros y y' Hf H; cbn [bs_run fold_left] in *.
  - inversion H; subst y'. repeat split. exact Hf.
  - destruct (bs_step qk y o) as [y1|e|] eqn:Hs; cbn [bind] in H; try discriminate.
    destruct (failed_step_app y o y1 Hf Hs) as (Ha & Hi).
    destruct (IH y1 y' (bs_step_failed y o y1 Hf Hs) H) as (Hf' & Hi' & Ha').
    split; [exact Hf'|]. split; [congruence|]. rewrite Ha', Ha, Hi. reflexivity.
Qed.

End AnyNum.

(* ============================ `clean` instances (the behaviour the properties describe) ============================ *)
Corollary c09s_failed_check_only_books_clean :
  forall (F : Type) (NF : Num F) (y : bsys F) perm ord y' bt d row,
    b_failed (bs_brkr y) = true ->
    nlookup (backtests (bs_app y)) (bs_id y) = Some bt ->
    slookup (datasets (bs_app y)) (bt_dataset bt) = Some d ->
    get_quotes d (bt_date bt) = Some row ->
    bs_step clean y (BSCheck perm ord) = Ok y' ->
    exists bt1 hn adm,
      let trades := map snd (flat_map (utrade row) (book (bt_exch bt))) in
      let resp := match get_quotes d (bt_date bt1) with Some row1 => Some (trades, row1) | None => None end in
      bt_tick (X:=uexch F) (Row:=quotes (quote F)) (TOut:=utout) ux_tick ([], []) clean false d bt perm
        = Some (bt1, (hn, (trades, adm))) /\
      y' = mkBSys (booked (bs_brkr y) resp) (with_backtest (bs_app y) (bs_id y) bt1) (bs_id y) /\
      nlookup (backtests (bs_app y')) (bs_id y') = Some bt1 /\
      buffer (bt_exch bt1) = [] /\
      xlog (bt_exch bt1) = xlog (bt_exch bt) ++ trades /\
      b_failed (bs_brkr y') = true /\
      (forall row1, get_quotes d (bt_date bt1) = Some row1 ->
         bs_brkr y' = fold_left book_trade trades (update_quotes (bs_brkr y) row1) /\
         b_cash (bs_brkr y') = cash_after_trades (b_cash (bs_brkr y)) trades /\
         b_log (bs_brkr y') = b_log (bs_brkr y) ++ trades).
Proof. intros F NF y perm ord y' bt d row. exact (c09s_failed_check_only_books clean y perm ord y' bt d row eq_refl). Qed.

Corollary c09s_failed_history_liq_clean :
  forall (F : Type) (NF : Num F) ops (y y' : bsys F),
    b_failed (bs_brkr y) = true -> Forall no_check ops -> bs_run clean y ops = Ok y' -> y' = y.
Proof. intros F NF ops y y'. exact (c09s_failed_history_liq clean ops y y' eq_refl). Qed.

(* ====================================== at F := R: the one arithmetic fact ====================================== *)
(* what differs under the valuation of the code as it is (q_liq_fail_debit = true; BrokerLedgerProofs.liq_debit): NOTHING
   inside check(). The failure exit of the liquidation debits the request only when it does not exceed cash; the request
   of rebalance_cash is -cash + 1000 with cash < 0, which over the reals always exceeds cash. So at R the check() of a
   Failed system is the clean one for EVERY quirk valuation. (A liquidation requested directly, BSLiq, is different: see
   c09s_failed_liquidation_inert.) *)
Section AtR.
Local Existing Instance RNum.
Local Open Scope R_scope.

Lemma failed_check_R qk (b : broker R) resp ord b' fw :
  b_failed b = true -> check qk b resp ord = Ok (b', fw) -> b' = booked b resp /\ fw = [].
Proof.
  intros Hf H.
  destruct (failed_check_any qk b resp ord b' fw Hf H) as (-> & [->|(_ & Hneg & ->)]);
    (split; [|reflexivity]); [reflexivity|].
  unfold debit. cbn [fltb fadd fmul fneg fone fofZ fzero RNum] in *.
  destruct (Rlt_bool_spec (b_cash (booked b resp)) 0) as [Hlt|Hge]; [|discriminate].
  rewrite Rlt_bool_true by lra. reflexivity.
Qed.

Theorem c09s_failed_check_only_books_R qk (y : bsys R) perm ord y' :
  b_failed (bs_brkr y) = true -> bs_step qk y (BSCheck perm ord) = Ok y' ->
  let r := check_resp qk (bs_app y) (bs_id y) perm in
  y' = mkBSys (booked (bs_brkr y) (snd (fst r))) (fst (fst r)) (bs_id y).
Proof.
  intros Hf H r. unfold r. clear r. cbn [bs_step] in H.
  destruct (check_resp qk (bs_app y) (bs_id y) perm) as [[a2 resp] p]. cbn [fst snd].
  destruct p; [discriminate|].
  destruct (check qk (bs_brkr y) resp ord) as [[b' fw]|s|] eqn:Hc; cbn [bind] in H; try discriminate.
  inversion H; subst y'; clear H.
  destruct (failed_check_R qk _ _ _ _ _ Hf Hc) as (-> & ->). rewrite forward_nil. reflexivity.
Qed.

Corollary c09s_failed_check_only_books_as_is (y : bsys R) perm ord y' :
  b_failed (bs_brkr y) = true -> bs_step liq_debit y (BSCheck perm ord) = Ok y' ->
  let r := check_resp liq_debit (bs_app y) (bs_id y) perm in
  y' = mkBSys (booked (bs_brkr y) (snd (fst r))) (fst (fst r)) (bs_id y).
Proof. exact (c09s_failed_check_only_books_R liq_debit y perm ord y'). Qed.

End AtR.

(* ====================================== non-vacuity, evaluated by the kernel ====================================== *)
(* IEEE instance. Dates 1..5; ABC: 100, 101, 1, 1, 100 (zero spread); BCD: 10, -, 10, 10, 10 (not quoted on date 2).
   Deposit 9950; an almost-all-in market buy of 99 ABC (gate: 99 * 100 < 9950) and a market buy of 1 BCD.
   check 1 (tick on date 1) admits both. check 2 (tick on date 2) fills the ABC buy at 101 = 9999: cash -49; BCD is not
   quoted and keeps resting — it is IN FLIGHT. The row fetched is that of date 3, where ABC has collapsed to 1: the
   liquidation value -49 + 99 = 50 is below the shortfall + 1000, the rebalance fails: FAILED. *)
Section Example.
Open Scope string_scope.
Local Instance FNx : Num float := FloatNum [].

Definition fx_calls : list (float * float * Z * string) :=
  [(100%float, 100%float, 1%Z, "ABC"); (10%float, 10%float, 1%Z, "BCD");
   (101%float, 101%float, 2%Z, "ABC");
   (1%float, 1%float, 3%Z, "ABC"); (10%float, 10%float, 3%Z, "BCD");
   (1%float, 1%float, 4%Z, "ABC"); (10%float, 10%float, 4%Z, "BCD");
   (100%float, 100%float, 5%Z, "ABC"); (10%float, 10%float, 5%Z, "BCD")].
Definition fx_d := load fx_calls.
Definition fx_q0 : smap (quote float) := match get_quotes fx_d 1%Z with Some row => row | None => [] end.
Definition fx_y0 : bsys float :=
  match app_single exch_init "D" fx_d with
  | Some a => mkBSys (broker_init [] fx_q0) a 0%N
  | None => mkBSys (broker_init [] fx_q0) (mkApp [] 0%N []) 0%N
  end.
Definition fx_o (t : otype) (s : string) (q : float) : uorder float := mkUOrder t s q None.

(* into Failed *)
Definition fx_ops0 : list (bsop float) :=
  [BSDeposit 9950%float; BSSend (fx_o MarketBuy "ABC" 99%float); BSSend (fx_o MarketBuy "BCD" 1%float);
   BSCheck [0; 1]%nat []; BSCheck [] ["ABC"]].
(* refused in Failed *)
Definition fx_ops1 : list (bsop float) :=
  [BSDeposit 500%float; BSWithdraw 1%float; BSSend (fx_o MarketSell "ABC" 1%float)].

Definition fx_obs (y : bsys float) :=
  (b_failed (bs_brkr y), b_cash (bs_brkr y), b_holdings (bs_brkr y), b_pending (bs_brkr y),
   List.length (b_log (bs_brkr y)),
   match nlookup (backtests (bs_app y)) 0%N with
   | Some b => (map (fun e => (uo_type (e_ord e), uo_symbol (e_ord e))) (book (bt_exch b)),
                List.length (buffer (bt_exch b)), List.length (xlog (bt_exch b)))
   | None => ([], 99%nat, 99%nat)
   end).

Example c09s_observed_at_floats :
  (* the system is driven into Failed; the BCD buy still rests in the exchange's book *)
  bind (bs_run clean fx_y0 fx_ops0) (fun y => Ok (fx_obs y))
  = Ok (true, (-49)%float, [("ABC", 99%float)], [("BCD", 1%float)], 1%nat, ([(MarketBuy, "BCD")], 0%nat, 1%nat))
  /\
  (* a deposit, a withdrawal and a send are refused: the WHOLE system (broker and app) is bit for bit the same *)
  bind (bs_run clean fx_y0 fx_ops0) (fun y => bs_run clean y fx_ops1) = bs_run clean fx_y0 fx_ops0
  /\
  (* check 3 (tick on date 3): the in-flight BCD buy fills at 10 and IS BOOKED by the Failed broker: cash -59, holdings,
     pending and both logs move; still Failed; nothing is forwarded (buffer empty). The rebalance ran and failed on
     value: -59 + 99 + 10 = 50 < 1059 *)
  bind (bs_run clean fx_y0 (fx_ops0 ++ fx_ops1 ++ [BSCheck [] ["ABC"; "BCD"]])) (fun y => Ok (fx_obs y))
  = Ok (true, (-59)%float, [("ABC", 99%float); ("BCD", 1%float)], [], 2%nat, ([], 0%nat, 2%nat))
  /\
  (* check 4 (tick on date 4, row fetched: date 5, ABC back at 100): now the liquidation loop DOES produce a sell
     (ceil(1059 / 100) = 11 ABC), the gate refuses it because the broker is Failed: nothing reaches the exchange, the
     broker is unchanged *)
  bind (bs_run clean fx_y0 (fx_ops0 ++ fx_ops1 ++ [BSCheck [] ["ABC"; "BCD"]; BSCheck [] ["ABC"; "BCD"]]))
       (fun y => Ok (fx_obs y, liq_loop clean (bs_brkr y) ["ABC"; "BCD"] 1059%float []))
  = Ok ((true, (-59)%float, [("ABC", 99%float); ("BCD", 1%float)], [], 2%nat, ([], 0%nat, 2%nat)),
        Ok (0%float, [fx_o MarketSell "ABC" 11%float])).
Proof. vm_compute. repeat split; reflexivity. Qed.

(* why (S4) says "not in the buffer" only for orders that are not price-less market sells: ABC 100, 101, 101. A buy of 99
   ABC is admitted by check 1; a market sell of 11 ABC is then sent (the gate lets it through: ABC is not held YET) and
   check 2 admits it — while the same check books the buy at 101, finds cash -49 and liquidates ceil(1049 / 101) = 11
   ABC: an EQUAL order is forwarded. The sent order rests in the book and an equal one sits in the buffer. *)
Definition gx_d := load [(100%float, 100%float, 1%Z, "ABC"); (101%float, 101%float, 2%Z, "ABC");
                         (101%float, 101%float, 3%Z, "ABC")].
Definition gx_y0 : bsys float :=
  match app_single exch_init "D" gx_d with
  | Some a => mkBSys (broker_init [] (match get_quotes gx_d 1%Z with Some row => row | None => [] end)) a 0%N
  | None => mkBSys (broker_init [] []) (mkApp [] 0%N []) 0%N
  end.
Example c06s_equal_order_reappears :
  bind (bs_run clean gx_y0 [BSDeposit 9950%float; BSSend (fx_o MarketBuy "ABC" 99%float); BSCheck [0]%nat [];
                            BSSend (fx_o MarketSell "ABC" 11%float); BSCheck [0]%nat ["ABC"]])
       (fun y => Ok (b_failed (bs_brkr y), b_cash (bs_brkr y),
                     match nlookup (backtests (bs_app y)) 0%N with
                     | Some b => (map (@e_ord _) (book (bt_exch b)), buffer (bt_exch b))
                     | None => ([], [])
                     end))
  = Ok (false, (-49)%float, ([fx_o MarketSell "ABC" 11%float], [fx_o MarketSell "ABC" 11%float])).
Proof. vm_compute. reflexivity. Qed.

End Example.

Check @c06s_refused_inert.
Check @c06s_forwarded_once.
Check @c06s_send_never_touches_other_state.
Check @c06s_forwarded_then_admitted.
Check @c09s_failed_forever.
Check @c09s_failed_refusals_inert.
Check @c09s_failed_liquidation_inert.
Check @c09s_failed_check_only_books_any.
Check @c09s_failed_check_only_books.
Check @c09s_failed_check_only_books_clean.
Check @c09s_failed_check_only_books_R.
Check @c09s_failed_check_only_books_as_is.
Check @c09s_failed_history.
Check @c09s_failed_history_liq.
Check @c09s_failed_nothing_reaches_exchange.
Print Assumptions c06s_refused_inert.
Print Assumptions c06s_forwarded_once.
Print Assumptions c06s_send_never_touches_other_state.
Print Assumptions c06s_forwarded_then_admitted.
Print Assumptions c09s_failed_forever.
Print Assumptions c09s_failed_refusals_inert.
Print Assumptions c09s_failed_liquidation_inert.
Print Assumptions c09s_failed_check_only_books_any.
Print Assumptions c09s_failed_check_only_books.
Print Assumptions c09s_failed_check_only_books_clean.
Print Assumptions c09s_failed_check_only_books_R.
Print Assumptions c09s_failed_check_only_books_as_is.
Print Assumptions c09s_failed_history.
Print Assumptions c09s_failed_history_liq.
Print Assumptions c09s_failed_history_liq_clean.
Print Assumptions c09s_failed_nothing_reaches_exchange.
Print Assumptions c09s_observed_at_floats.
Print Assumptions c06s_equal_order_reappears.
