(* FloatCash.v — C04 (cash ledger) at the IEEE binary64 instance for whole-unit amounts: below 2^53 the
   float additions / subtractions / comparisons the cash operations perform are exact, so the float
   cash IS the image of an integer ledger. No rounding anywhere.
   Layout: (G1) float facts (comparisons, * -1, the sign of zero); (G2) the integer reading [zop] of an
   operation, the integer step [zstep] and its bound, the one-step theorems (K1) for ANY quirk valuation
   ([dbt] = q_liq_fail_debit qk; [clean] is dbt = false) and whole histories (K2); (G4) under [clean]
   the ledger [zledger] — read off the events the float run returned — the volume premise, and the
   same ledger with the decisions replayed in Z ([zledger_replay], the twin of [ledger] at R);
   (G5) the headline from cash 0 (K3), as a real number and bit for bit; (G6) kernel-evaluated
   examples (K4), also for the code as it is (debit on). *)
From Coq Require Import ZArith NArith List Bool String Floats Reals Lra Lia.
From Flocq Require Import Core.Raux Core.Generic_fmt Core.FLT Core.Round_NE.
From Flocq Require Import IEEE754.BinarySingleNaN IEEE754.PrimFloat.
From Alator Require Import Model.Num Model.Quirks Model.Cost Model.Exchange Model.Uist Model.Broker.
From Alator Require Import Proofs.BrokerLedgerProofs Proofs.FloatExact.
Import ListNotations.

Local Existing Instance PrimFloat.Hprec.
Local Existing Instance PrimFloat.Hmax.

(* ------------------------------------------------------------------------------------------- *)
(* (G1) comparisons of integer-valued floats are the integer comparisons                         *)

Lemma Rlt_bool_IZR a b : Rlt_bool (IZR a) (IZR b) = Z.ltb a b.
Proof.
  destruct (Z.ltb_spec a b) as [L | L].
  - apply Rlt_bool_true, IZR_lt, L.
  - apply Rlt_bool_false, IZR_le, L.
Qed.

Lemma Rle_bool_IZR a b : Rle_bool (IZR a) (IZR b) = Z.leb a b.
Proof.
  destruct (Z.leb_spec a b) as [L | L].
  - apply Rle_bool_true, IZR_le, L.
  - apply Rle_bool_false, IZR_lt, L.
Qed.

Lemma int_float_ltb x y a b : int_float x a -> int_float y b -> PrimFloat.ltb x y = Z.ltb a b.
Proof.
  intros [Fx Rx] [Fy Ry]. rewrite ltb_equiv, (Bltb_correct _ _ _ _ Fx Fy), Rx, Ry.
  apply Rlt_bool_IZR.
Qed.

Lemma int_float_leb x y a b : int_float x a -> int_float y b -> PrimFloat.leb x y = Z.leb a b.
Proof.
  intros [Fx Rx] [Fy Ry]. rewrite leb_equiv, (Bleb_correct _ _ _ _ Fx Fy), Rx, Ry.
  apply Rle_bool_IZR.
Qed.

Lemma int_float_one : int_float 1%float 1.
Proof. exact (int_float_ofZ 1 eq_refl). Qed.

Lemma int_float_1000 : int_float (float_ofZ 1000) 1000.
Proof. exact (int_float_ofZ 1000 eq_refl). Qed.

(* multiplication of integer-valued floats is exact while the product stays below 2^53 *)
Lemma mul_int_exact_strong x y a b : int_float x a -> int_float y b ->
  (Z.abs (a * b) < 2 ^ 53)%Z -> int_float (PrimFloat.mul x y) (a * b).
Proof.
  intros [Fx Rx] [Fy Ry] Hab. unfold int_float. rewrite mul_equiv.
  generalize (Bmult_correct prec emax _ _ mode_NE (Prim2B x) (Prim2B y)).
  rewrite Rx, Ry, <- mult_IZR, (round_int _ Hab).
  rewrite Rlt_bool_true by (apply int_below_emax, Hab).
  rewrite Fx, Fy. intros (H1 & H2 & _). split; assumption.
Qed.

(* the amount rebalance_cash asks for, shortfall + 1000, exceeds a negative cash balance — whether or
   not the addition of 1000 rounds *)
Lemma shortfall_request_exceeds_cash x z : int_float x z -> (z < 0)%Z -> (Z.abs z < 2 ^ 53)%Z ->
  PrimFloat.ltb x (PrimFloat.add (PrimFloat.mul x (PrimFloat.opp 1)) (float_ofZ 1000)) = true.
Proof.
  intros Hx Hneg Hb.
  assert (Hm : int_float (PrimFloat.mul x (PrimFloat.opp 1)) (z * -1)).
  { apply mul_int_exact_strong; [exact Hx | exact (int_float_opp _ _ int_float_one) | lia]. }
  destruct Hx as [Fx Rx]. destruct Hm as [Fm Rm]. destruct int_float_1000 as [Fk Rk].
  rewrite ltb_equiv, add_equiv.
  generalize (Bplus_correct prec emax _ _ mode_NE _ _ Fm Fk).
  rewrite Rm, Rk, <- plus_IZR.
  set (r := round Zaux.radix2 (SpecFloat.fexp prec emax) (round_mode mode_NE) (IZR (z * -1 + 1000))).
  assert (Lo : (IZR 1000 <= r)%R).
  { unfold r. apply round_ge_generic.
    - apply fexp_correct. reflexivity.
    - apply valid_rnd_round_mode.
    - apply int_generic. reflexivity.
    - apply IZR_le. lia. }
  assert (Hi : (r <= IZR (2 ^ 54))%R).
  { unfold r. apply round_le_generic.
    - apply fexp_correct. reflexivity.
    - apply valid_rnd_round_mode.
    - change (SpecFloat.fexp prec emax) with (FLT_exp (-1074) 53).
      apply generic_format_FLT.
      apply (FLT_spec Zaux.radix2 (-1074) 53 (IZR (2 ^ 54)) (Defs.Float Zaux.radix2 1 54)).
      + unfold Defs.F2R. cbn [Defs.Fnum Defs.Fexp]. rewrite <- (IZR_Zpower Zaux.radix2 54) by lia.
        change (Zaux.radix_val Zaux.radix2) with 2%Z. lra.
      + cbn [Defs.Fnum]. reflexivity.
      + cbn [Defs.Fexp]. lia.
    - apply IZR_le. lia. }
  rewrite Rlt_bool_true.
  - intros (H1 & H2 & _). rewrite (Bltb_correct _ _ _ _ Fx H2), H1, Rx.
    apply Rlt_bool_true. apply Rlt_le_trans with (2 := Lo). apply IZR_lt. lia.
  - apply Rle_lt_trans with (IZR (2 ^ 54)).
    + apply Rabs_le. split; [| exact Hi]. apply Rle_trans with (2 := Lo).
      apply Rle_trans with 0%R; [| apply IZR_le; lia]. rewrite <- opp_IZR. apply IZR_le. lia.
    + change 2%Z with (Zaux.radix_val Zaux.radix2) at 1.
      rewrite (IZR_Zpower Zaux.radix2 54) by lia. apply bpow_lt. reflexivity.
Qed.

(* ------------------------------------------------------------------------------------------- *)
(* (G1') the sign of zero: a float that is not -0                                                 *)

Definition poszero (x : float) : Prop := B2R (Prim2B x) = 0%R -> Bsign (Prim2B x) = false.

Lemma Bsign_true_le0 (f : binary_float prec emax) : Bsign f = true -> (B2R f <= 0)%R.
Proof.
  destruct f as [s | s | | s m e He]; cbn [Bsign B2R]; intros Hs; try lra.
  subst s. apply Rlt_le, Float_prop.F2R_lt_0. cbn. lia.
Qed.

Lemma Bsign_false_ge0 (f : binary_float prec emax) : Bsign f = false -> (0 <= B2R f)%R.
Proof.
  destruct f as [s | s | | s m e He]; cbn [Bsign B2R]; intros Hs; try lra.
  subst s. apply Rlt_le, Float_prop.F2R_gt_0. cbn. lia.
Qed.

Lemma poszero_zero : poszero 0%float.
Proof. unfold poszero. rewrite Prim2B_zero. reflexivity. Qed.

(* c + cash is not -0 when cash is not *)
Lemma add_int_poszero x y a b : int_float x a -> int_float y b ->
  (Z.abs (a + b) < 2 ^ 53)%Z -> poszero y -> poszero (PrimFloat.add x y).
Proof.
  intros [Fx Rx] [Fy Ry] Hab Py. unfold poszero in *. rewrite add_equiv.
  generalize (Bplus_correct prec emax _ _ mode_NE _ _ Fx Fy).
  rewrite Rx, Ry, <- plus_IZR, (round_int _ Hab).
  rewrite Rlt_bool_true by (apply int_below_emax, Hab).
  intros (H1 & _ & H3) H0. rewrite H1 in H0. rewrite H3, H0, Rcompare_Eq by reflexivity.
  apply eq_IZR in H0.
  destruct (Bsign (Prim2B y)) eqn:Sy; [| apply andb_false_r].
  destruct (Bsign (Prim2B x)) eqn:Sx; [| reflexivity]. exfalso.
  apply Bsign_true_le0 in Sx. apply Bsign_true_le0 in Sy. rewrite Rx in Sx. rewrite Ry in Sy.
  apply le_IZR in Sx. apply le_IZR in Sy.
  assert (b = 0)%Z by lia. subst b. specialize (Py Ry). discriminate.
Qed.

(* cash - c is not -0 when cash is not *)
Lemma sub_int_poszero x y a b : int_float x a -> int_float y b ->
  (Z.abs (a - b) < 2 ^ 53)%Z -> poszero x -> poszero (PrimFloat.sub x y).
Proof.
  intros [Fx Rx] [Fy Ry] Hab Px. unfold poszero in *. rewrite sub_equiv.
  generalize (Bminus_correct prec emax _ _ mode_NE _ _ Fx Fy).
  rewrite Rx, Ry, <- minus_IZR, (round_int _ Hab).
  rewrite Rlt_bool_true by (apply int_below_emax, Hab).
  intros (H1 & _ & H3) H0. rewrite H1 in H0. rewrite H3, H0, Rcompare_Eq by reflexivity.
  apply eq_IZR in H0.
  destruct (Bsign (Prim2B x)) eqn:Sx; [| reflexivity].
  destruct (Bsign (Prim2B y)) eqn:Sy; [reflexivity |]. exfalso.
  apply Bsign_true_le0 in Sx. apply Bsign_false_ge0 in Sy. rewrite Rx in Sx. rewrite Ry in Sy.
  apply le_IZR in Sx. apply le_IZR in Sy.
  assert (a = 0)%Z by lia. subst a. specialize (Px Rx). discriminate.
Qed.

(* an integer-valued float that is not -0 is THE float of its integer, bit for bit *)
Lemma int_float_bits x n : int_float x n -> (Z.abs n < 2 ^ 53)%Z -> poszero x -> x = float_ofZ n.
Proof.
  intros [Fx Rx] Hn Px. destruct (int_float_ofZ n Hn) as [Fy Ry].
  apply Prim2B_inj. destruct (Z.eq_dec n 0) as [-> | NZ].
  - apply B2R_Bsign_inj; try assumption; [now rewrite Rx, Ry ..|].
    rewrite (Px Rx). cbn [float_ofZ]. rewrite Prim2B_zero. reflexivity.
  - assert (S : forall f : binary_float prec emax, is_finite f = true -> B2R f = IZR n ->
                 is_finite_strict f = true).
    { intros [s | s | | s m e He]; cbn [is_finite is_finite_strict B2R]; intros Ff Rf;
        try discriminate; try reflexivity.
      exfalso. apply NZ, eq_IZR. now rewrite <- Rf. }
    apply B2R_inj; [apply S | apply S | ]; try assumption. now rewrite Rx, Ry.
Qed.

(* ------------------------------------------------------------------------------------------- *)
(* (G2) the integer reading of an operation, and the integer cash step                            *)

(* what an operation says about cash, in whole units *)
Inductive zop :=
| ZDeposit (zc : Z)                  (* OpDeposit c, c = zc *)
| ZWithdraw (zc : Z)                 (* OpWithdraw c, c = zc *)
| ZLiq (zc : Z)                      (* OpLiq c _; zc is read only when the failure debit is on *)
| ZSend                              (* OpSend _ *)
| ZCheck (svs : list (side * Z)).    (* OpCheck: side and value of each trade booked, in order *)

Definition trade_reads (t : trade float) (sv : side * Z) : Prop :=
  t_side t = fst sv /\ int_float (t_value t) (snd sv).

(* [dbt]: is the defect q_liq_fail_debit on. Under [clean] it is not, and a liquidation request
   may be any float whatsoever. *)
Definition reads (dbt : bool) (o : bop float) (zo : zop) : Prop :=
  match o, zo with
  | OpDeposit c, ZDeposit zc => int_float c zc
  | OpWithdraw c, ZWithdraw zc => int_float c zc
  | OpLiq c _, ZLiq zc => dbt = true -> int_float c zc
  | OpSend _, ZSend => True
  | OpCheck _ _, ZCheck svs => Forall2 trade_reads (trades_of o) svs
  | _, _ => False
  end.

(* the amounts of the operation are whole units (the reading under [clean]) *)
Definition integral (o : bop float) (zo : zop) : Prop := reads false o zo.

Definition zbook1 (z : Z) (sv : side * Z) : Z :=
  match fst sv with Buy => (z - snd sv)%Z | Sell => (z + snd sv)%Z end.
Definition zbook (z : Z) (svs : list (side * Z)) : Z := fold_left zbook1 svs z.

(* integer cash after one operation, given the event the run returned *)
Definition zstep (dbt : bool) (z : Z) (zo : zop) (ev : bev float) : Z :=
  match zo, ev with
  | ZDeposit zc, EvCash (DepositSuccess _) => (z + zc)%Z
  | ZWithdraw zc, EvCash (WithdrawSuccess _) => (z - zc)%Z
  | ZLiq zc, EvCash (WithdrawFailure _) => if dbt && (zc <=? z)%Z then (z - zc)%Z else z
  | ZCheck svs, _ => zbook z svs
  | _, _ => z
  end.

(* every sum the operation forms stays below 2^53 in magnitude *)
Fixpoint book_bounded (z : Z) (svs : list (side * Z)) : Prop :=
  match svs with
  | [] => True
  | sv :: r => (Z.abs (zbook1 z sv) < 2 ^ 53)%Z /\ book_bounded (zbook1 z sv) r
  end.

Definition step_bounded (dbt : bool) (z : Z) (zo : zop) (ev : bev float) : Prop :=
  match zo, ev with
  | ZDeposit zc, EvCash (DepositSuccess _) => (Z.abs (z + zc) < 2 ^ 53)%Z
  | ZWithdraw zc, EvCash (WithdrawSuccess _) => (Z.abs (z - zc) < 2 ^ 53)%Z
  | ZLiq zc, EvCash (WithdrawFailure _) => dbt && (zc <=? z)%Z = true -> (Z.abs (z - zc) < 2 ^ 53)%Z
  | ZCheck svs, _ => book_bounded z svs /\ (dbt = true -> (Z.abs (zbook z svs) < 2 ^ 53)%Z)
  | _, _ => True
  end.

(* the event the integer model predicts for a deposit / withdrawal: the broker's Ready/Failed flag
   and an integer comparison *)
Definition zevent (failed : bool) (z : Z) (o : bop float) (zo : zop) (ev : bev float) : Prop :=
  match o, zo with
  | OpDeposit c, ZDeposit _ => ev = EvCash (if failed then OperationFailure c else DepositSuccess c)
  | OpWithdraw c, ZWithdraw zc =>
      ev = EvCash (if failed then OperationFailure c
                   else if (zc <=? z)%Z then WithdrawSuccess c else WithdrawFailure c)
  | OpLiq c _, _ => ev = EvCash (WithdrawSuccess c) \/ ev = EvCash (WithdrawFailure c)
  | OpSend x, _ => ev = EvOrder (OrderSentToExchange x) \/ ev = EvOrder (OrderInvalid x)
  | OpCheck _ _, _ => ev = EvNone
  | _, _ => True
  end.


(* the integer cash over a whole history, and the bound over a whole history *)
Definition evlist : Type := list (bev float * list (uorder float)).

Fixpoint zcash (dbt : bool) (z : Z) (zops : list zop) (evs : evlist) : Z :=
  match zops, evs with
  | zo :: zr, (ev, _) :: er => zcash dbt (zstep dbt z zo ev) zr er
  | _, _ => z
  end.

Fixpoint zbounded (dbt : bool) (z : Z) (zops : list zop) (evs : evlist) : Prop :=
  match zops, evs with
  | zo :: zr, (ev, _) :: er => step_bounded dbt z zo ev /\ zbounded dbt (zstep dbt z zo ev) zr er
  | _, _ => True
  end.

Lemma brun_cons_any {F : Type} {NF : Num F} qk (b : broker F) o r b' evs :
  brun qk b (o :: r) = Ok (b', evs) ->
  exists b1 e fw evs2, bstep qk b o = Ok (b1, e, fw) /\ brun qk b1 r = Ok (b', evs2) /\
                       evs = (e, fw) :: evs2.
Proof.
  cbn [brun]. intros H.
  destruct (bstep qk b o) as [[[b1 e] fw] | s |] eqn:Hs; cbn [bind] in H; try discriminate.
  destruct (brun qk b1 r) as [[b2 evs2] | s |] eqn:Hr; cbn [bind] in H; try discriminate.
  inversion H; subst. do 4 eexists. repeat split; eauto.
Qed.

Lemma brun_length {F : Type} {NF : Num F} qk ops : forall (b : broker F) b' evs,
  brun qk b ops = Ok (b', evs) -> List.length evs = List.length ops.
Proof.
  induction ops as [| o r IH]; intros b b' evs H.
  - cbn in H. inversion H; subst. reflexivity.
  - apply brun_cons_any in H. destruct H as (b1 & e & fw & evs2 & _ & Hr & ->).
    cbn [List.length]. f_equal. exact (IH _ _ _ Hr).
Qed.

Section AtFloatCash.
Context (tbl : libm_table).
Let NFl : Num float := FloatNum tbl.
Local Existing Instance NFl.
Local Open Scope num_scope.

(* the debit at a failed liquidation is refused inside rebalance_cash: the request shortfall + 1000
   exceeds the (negative) cash. So rebalance_cash never writes cash — structurally when the defect
   q_liq_fail_debit is off, by this comparison when it is on *)
Lemma rebalance_cash_float qk (b : broker float) ord b' fw z :
  rebalance_cash qk b ord = Ok (b', fw) -> int_float (b_cash b) z ->
  (q_liq_fail_debit qk = true -> (Z.abs z < 2 ^ 53)%Z) ->
  b_cash b' = b_cash b.
Proof.
  intros H Hz Hb. unfold rebalance_cash in H.
  destruct (b_cash b <? fzero) eqn:Hneg; [| inversion H; subst; reflexivity].
  match type of H with bind ?w _ = _ => destruct w as [[[b1 ev] fw1] | s |] eqn:Hw end;
    cbn [bind] in H; try discriminate.
  assert (E : b_cash b' = b_cash b1) by (destruct ev; inversion H; subst; reflexivity).
  rewrite E. clear H E.
  apply liq_shape in Hw. destruct Hw as [(-> & _ & _) | (sells & evs & Hs & _)].
  - unfold liq_failure. destruct (q_liq_fail_debit qk) eqn:Hd; [| reflexivity].
    unfold debit.
    cbn [fltb fzero NFl FloatNum] in Hneg. rewrite (int_float_ltb _ _ _ _ Hz int_float_zero) in Hneg.
    apply Z.ltb_lt in Hneg.
    cbn [fltb fadd fmul fneg fone fofZ NFl FloatNum].
    rewrite (shortfall_request_exceeds_cash _ _ Hz Hneg (Hb eq_refl)). reflexivity.
  - apply send_orders_cash in Hs. destruct Hs as (Hc & _). exact Hc.
Qed.

(* The step and history proofs are written once, for any refinement P of [int_float] that the two
   cash-writing float operations preserve; they are instantiated below at [int_float] itself and at
   "[int_float] and not -0". *)
Section Refinement.
Context (P : float -> Z -> Prop).
Hypothesis P_int : forall x n, P x n -> int_float x n.
Hypothesis P_add : forall c x zc z, int_float c zc -> P x z ->
  (Z.abs (z + zc) < 2 ^ 53)%Z -> P (PrimFloat.add c x) (z + zc)%Z.
Hypothesis P_sub : forall c x zc z, int_float c zc -> P x z ->
  (Z.abs (z - zc) < 2 ^ 53)%Z -> P (PrimFloat.sub x c) (z - zc)%Z.

(* booking trades: the fold of float - / + over integer values is the integer fold *)
Lemma cash_after_trades_gen ts : forall svs (c : float) z,
  Forall2 trade_reads ts svs -> P c z -> book_bounded z svs ->
  P (cash_after_trades c ts) (zbook z svs).
Proof.
  unfold cash_after_trades, zbook.
  induction ts as [| t ts IH]; intros svs c z Hr Hc Hb; inversion Hr as [| ? sv ? svs' [Hs Hv] Hr']; subst;
    cbn [fold_left]; [exact Hc |].
  cbn [book_bounded] in Hb. destruct Hb as [B1 B2]. apply IH; [exact Hr' | | exact B2].
  unfold zbook1 in *. rewrite Hs. destruct (fst sv).
  - apply P_sub; assumption.
  - apply P_add; assumption.
Qed.

(* the debit at a failed liquidation request (the defect q_liq_fail_debit), in integers *)
Lemma debit_gen (b : broker float) c z zc :
  P (b_cash b) z -> int_float c zc ->
  ((zc <=? z)%Z = true -> (Z.abs (z - zc) < 2 ^ 53)%Z) ->
  P (b_cash (fst (debit b c))) (if (zc <=? z)%Z then z - zc else z)%Z.
Proof.
  intros Hz Hc Hb. unfold debit. cbn [fltb fsub NFl FloatNum].
  rewrite (int_float_ltb _ _ _ _ (P_int _ _ Hz) Hc), Z.ltb_antisym.
  destruct (zc <=? z)%Z; cbn [negb fst b_cash set_cash]; [| exact Hz].
  apply P_sub; [exact Hc | exact Hz | apply Hb; reflexivity].
Qed.

Lemma cash_step_gen qk (b : broker float) o zo z b' ev fw :
  P (b_cash b) z -> reads (q_liq_fail_debit qk) o zo ->
  bstep qk b o = Ok (b', ev, fw) -> step_bounded (q_liq_fail_debit qk) z zo ev ->
  P (b_cash b') (zstep (q_liq_fail_debit qk) z zo ev).
Proof.
  intros Hz Hr H Hb.
  destruct o as [c | c | c ord | x | resp ord]; destruct zo as [zc | zc | zc | | svs];
    cbn [reads] in Hr; try contradiction.
  - (* deposit *)
    apply bstep_deposit in H. destruct H as (-> & -> & _). unfold deposit_cash in *.
    destruct (b_failed b); cbn [fst snd zstep step_bounded] in *; [exact Hz |].
    unfold credit. cbn [b_cash set_cash fadd NFl FloatNum]. apply P_add; assumption.
  - (* withdrawal *)
    apply bstep_withdraw in H. destruct H as (-> & -> & _). unfold withdraw_cash in *.
    destruct (b_failed b); cbn [fst snd zstep step_bounded] in *; [exact Hz |].
    destruct (c >? b_cash b) eqn:Hlt; cbn [fst snd zstep step_bounded] in *; [exact Hz |].
    unfold debit. rewrite Hlt. cbn [fst b_cash set_cash fsub NFl FloatNum].
    apply P_sub; assumption.
  - (* liquidation request *)
    apply bstep_liq in H. destruct H as (e & H & ->). apply liq_shape in H.
    destruct H as [(-> & -> & _) | (sells & evs & Hs & ->)]; cbn [zstep step_bounded] in *.
    + unfold liq_failure. destruct (q_liq_fail_debit qk); cbn [andb] in *; [| exact Hz].
      apply debit_gen; [exact Hz | exact (Hr eq_refl) | exact Hb].
    + apply send_orders_cash in Hs. destruct Hs as (-> & _). exact Hz.
  - (* send_order *)
    apply bstep_send in H. destruct H as (e & H & ->). apply send_order_cases in H.
    destruct H as [(_ & -> & _) | (_ & -> & _)]; exact Hz.
  - (* check *)
    apply bstep_check in H. destruct H as (H & ->). cbn [zstep step_bounded] in *.
    destruct Hb as [Hb1 Hb2].
    assert (Hbk : P (b_cash (booked b resp)) (zbook z svs)).
    { destruct resp as [[ts row] |]; cbn [booked trades_of] in *.
      - rewrite book_trades_cash. apply cash_after_trades_gen; assumption.
      - inversion Hr; subst. exact Hz. }
    apply check_shape in H. destruct H as [(-> & _) | H]; [exact Hbk |].
    rewrite (rebalance_cash_float _ _ _ _ _ _ H (P_int _ _ Hbk) Hb2). exact Hbk.
Qed.

Lemma cash_history_gen qk ops : forall zops (b : broker float) z b' evs,
  brun qk b ops = Ok (b', evs) -> P (b_cash b) z ->
  Forall2 (reads (q_liq_fail_debit qk)) ops zops -> zbounded (q_liq_fail_debit qk) z zops evs ->
  P (b_cash b') (zcash (q_liq_fail_debit qk) z zops evs).
Proof.
  induction ops as [| o r IH]; intros zops b z b' evs H Hz Hr Hb;
    inversion Hr as [| ? zo ? zr Hr1 Hr2]; subst.
  - cbn in H. inversion H; subst. exact Hz.
  - apply brun_cons_any in H. destruct H as (b1 & e & fw & evs2 & Hs & Hrun & ->).
    cbn [zcash zbounded] in *. destruct Hb as [Hb1 Hb2].
    apply (IH _ _ _ _ _ Hrun); [| exact Hr2 | exact Hb2].
    exact (cash_step_gen _ _ _ _ _ _ _ _ Hz Hr1 Hs Hb1).
Qed.

End Refinement.

(* the two instances *)
Definition cash_float (x : float) (n : Z) : Prop := int_float x n /\ poszero x.

Lemma int_P_add c x zc z : int_float c zc -> int_float x z ->
  (Z.abs (z + zc) < 2 ^ 53)%Z -> int_float (PrimFloat.add c x) (z + zc)%Z.
Proof. intros Hc Hx Hb. rewrite Z.add_comm in *. apply add_int_exact_strong; assumption. Qed.

Lemma int_P_sub c x zc z : int_float c zc -> int_float x z ->
  (Z.abs (z - zc) < 2 ^ 53)%Z -> int_float (PrimFloat.sub x c) (z - zc)%Z.
Proof. intros Hc Hx Hb. apply sub_int_exact_strong; assumption. Qed.

Lemma cf_P_add c x zc z : int_float c zc -> cash_float x z ->
  (Z.abs (z + zc) < 2 ^ 53)%Z -> cash_float (PrimFloat.add c x) (z + zc)%Z.
Proof.
  intros Hc [Hx Px] Hb. split; [apply int_P_add; assumption |].
  rewrite Z.add_comm in Hb. exact (add_int_poszero _ _ _ _ Hc Hx Hb Px).
Qed.

Lemma cf_P_sub c x zc z : int_float c zc -> cash_float x z ->
  (Z.abs (z - zc) < 2 ^ 53)%Z -> cash_float (PrimFloat.sub x c) (z - zc)%Z.
Proof.
  intros Hc [Hx Px] Hb. split; [apply int_P_sub; assumption |].
  exact (sub_int_poszero _ _ _ _ Hx Hc Hb Px).
Qed.

(* (K1) one step, any quirk valuation: integer-valued cash stays integer-valued, and is the integer
   step of the reading *)
Theorem cash_step_exact qk (b : broker float) o zo z b' ev fw :
  int_float (b_cash b) z -> reads (q_liq_fail_debit qk) o zo ->
  bstep qk b o = Ok (b', ev, fw) -> step_bounded (q_liq_fail_debit qk) z zo ev ->
  int_float (b_cash b') (zstep (q_liq_fail_debit qk) z zo ev).
Proof. exact (cash_step_gen int_float (fun _ _ H => H) int_P_add int_P_sub qk b o zo z b' ev fw). Qed.

(* … and a cash that is not -0 stays so *)
Theorem cash_step_exact_bits qk (b : broker float) o zo z b' ev fw :
  cash_float (b_cash b) z -> reads (q_liq_fail_debit qk) o zo ->
  bstep qk b o = Ok (b', ev, fw) -> step_bounded (q_liq_fail_debit qk) z zo ev ->
  cash_float (b_cash b') (zstep (q_liq_fail_debit qk) z zo ev).
Proof. exact (cash_step_gen cash_float (fun _ _ H => proj1 H) cf_P_add cf_P_sub qk b o zo z b' ev fw). Qed.

(* (K1) the decision is the integer decision: the event of a deposit / withdrawal is determined by
   the Ready/Failed flag and, for a withdrawal, by the integer comparison zc <= z *)
Theorem cash_event_exact qk (b : broker float) o zo z b' ev fw :
  int_float (b_cash b) z -> reads (q_liq_fail_debit qk) o zo ->
  bstep qk b o = Ok (b', ev, fw) -> zevent (b_failed b) z o zo ev.
Proof.
  intros Hz Hr H.
  destruct o as [c | c | c ord | x | resp ord]; destruct zo as [zc | zc | zc | | svs];
    cbn [reads] in Hr; try contradiction; cbn [zevent].
  - apply bstep_deposit in H. destruct H as (_ & -> & _). unfold deposit_cash.
    destruct (b_failed b); reflexivity.
  - apply bstep_withdraw in H. destruct H as (_ & -> & _). unfold withdraw_cash.
    destruct (b_failed b); [reflexivity |].
    cbn [fltb NFl FloatNum]. rewrite (int_float_ltb _ _ _ _ Hz Hr), Z.ltb_antisym.
    destruct (zc <=? z)%Z; reflexivity.
  - apply bstep_liq in H. destruct H as (e & H & ->). apply liq_shape in H.
    destruct H as [(_ & -> & _) | (sells & evs & _ & ->)]; auto.
  - apply bstep_send in H. destruct H as (e & H & ->). apply send_order_cases in H.
    destruct H as [(_ & _ & -> & _) | (_ & _ & -> & _)]; auto.
  - apply bstep_check in H. destruct H as (_ & ->). reflexivity.
Qed.

(* (K2) whole histories, any quirk valuation *)
Theorem cash_history_exact qk ops zops (b : broker float) z b' evs :
  brun qk b ops = Ok (b', evs) -> int_float (b_cash b) z ->
  Forall2 (reads (q_liq_fail_debit qk)) ops zops -> zbounded (q_liq_fail_debit qk) z zops evs ->
  int_float (b_cash b') (zcash (q_liq_fail_debit qk) z zops evs).
Proof. exact (cash_history_gen int_float (fun _ _ H => H) int_P_add int_P_sub qk ops zops b z b' evs). Qed.

Theorem cash_history_exact_bits qk ops zops (b : broker float) z b' evs :
  brun qk b ops = Ok (b', evs) -> cash_float (b_cash b) z ->
  Forall2 (reads (q_liq_fail_debit qk)) ops zops -> zbounded (q_liq_fail_debit qk) z zops evs ->
  cash_float (b_cash b') (zcash (q_liq_fail_debit qk) z zops evs).
Proof.
  exact (cash_history_gen cash_float (fun _ _ H => proj1 H) cf_P_add cf_P_sub qk ops zops b z b' evs).
Qed.

End AtFloatCash.

(* ------------------------------------------------------------------------------------------- *)
(* (G4) under [clean]: the integer ledger, read off the events the run returned                   *)

Definition zsigned1 (sv : side * Z) : Z := match fst sv with Buy => (- snd sv)%Z | Sell => snd sv end.
Definition zsigned (svs : list (side * Z)) : Z := fold_right (fun sv acc => (zsigned1 sv + acc)%Z) 0%Z svs.

(* what one operation contributes: +zc for an accepted deposit, -zc for a successful withdrawal,
   -value per buy and +value per sell for a check, 0 otherwise *)
Definition zdelta_cash (zo : zop) (ev : bev float) : Z :=
  match zo, ev with
  | ZDeposit zc, EvCash (DepositSuccess _) => zc
  | ZWithdraw zc, EvCash (WithdrawSuccess _) => (- zc)%Z
  | ZCheck svs, _ => zsigned svs
  | _, _ => 0%Z
  end.

Fixpoint zledger (zops : list zop) (evs : evlist) : Z :=
  match zops, evs with
  | zo :: zr, (ev, _) :: er => (zdelta_cash zo ev + zledger zr er)%Z
  | _, _ => 0%Z
  end.

Lemma zbook_signed svs : forall z, zbook z svs = (z + zsigned svs)%Z.
Proof.
  unfold zbook. induction svs as [| sv r IH]; intros z; cbn [fold_left zsigned fold_right]; [lia |].
  fold (zsigned r). rewrite IH. unfold zbook1, zsigned1. destruct (fst sv); lia.
Qed.

Lemma zstep_clean z zo ev : zstep false z zo ev = (z + zdelta_cash zo ev)%Z.
Proof.
  destruct zo as [zc | zc | zc | | svs]; cbn [zstep zdelta_cash andb];
    try (destruct ev as [[x | x | x | x] | e |]; lia).
  destruct ev as [[x | x | x | x] | e |]; apply zbook_signed.
Qed.

Lemma zcash_clean zops : forall z evs, zcash false z zops evs = (z + zledger zops evs)%Z.
Proof.
  induction zops as [| zo zr IH]; intros z evs; cbn [zcash zledger]; [lia |].
  destruct evs as [| [ev fw] er]; [lia |]. rewrite IH, zstep_clean. lia.
Qed.

(* ------------------------------------------------------------------------------------------- *)
(* a sufficient condition for [zbounded]: |initial cash| + the total of all |amounts| < 2^53      *)

Definition svs_volume (svs : list (side * Z)) : Z :=
  fold_right (fun sv acc => (Z.abs (snd sv) + acc)%Z) 0%Z svs.

Definition zop_volume (dbt : bool) (zo : zop) : Z :=
  match zo with
  | ZDeposit zc | ZWithdraw zc => Z.abs zc
  | ZLiq zc => if dbt then Z.abs zc else 0%Z
  | ZSend => 0%Z
  | ZCheck svs => svs_volume svs
  end.

Definition zvolume (dbt : bool) (zops : list zop) : Z :=
  fold_right (fun zo acc => (zop_volume dbt zo + acc)%Z) 0%Z zops.

Lemma svs_volume_nonneg svs : (0 <= svs_volume svs)%Z.
Proof. induction svs as [| sv r IH]; cbn [svs_volume fold_right]; [lia |]. fold (svs_volume r). lia. Qed.

Lemma zop_volume_nonneg dbt zo : (0 <= zop_volume dbt zo)%Z.
Proof. destruct zo; cbn [zop_volume]; try lia; [destruct dbt; lia | apply svs_volume_nonneg]. Qed.

Lemma zvolume_nonneg dbt zops : (0 <= zvolume dbt zops)%Z.
Proof.
  induction zops as [| zo r IH]; cbn [zvolume fold_right]; [lia |]. fold (zvolume dbt r).
  pose proof (zop_volume_nonneg dbt zo). lia.
Qed.

Lemma book_bounded_of_volume svs : forall z B, (Z.abs z <= B)%Z -> (B + svs_volume svs < 2 ^ 53)%Z ->
  book_bounded z svs /\ (Z.abs (zbook z svs) <= B + svs_volume svs)%Z.
Proof.
  unfold zbook.
  induction svs as [| sv r IH]; intros z B Hz V; cbn [book_bounded fold_left svs_volume fold_right] in *.
  - split; [exact I | lia].
  - fold (svs_volume r) in *. pose proof (svs_volume_nonneg r) as Vr.
    assert (H1 : (Z.abs (zbook1 z sv) <= B + Z.abs (snd sv))%Z)
      by (unfold zbook1; destruct (fst sv); lia).
    destruct (IH (zbook1 z sv) (B + Z.abs (snd sv))%Z H1) as [I1 I2]; [lia |].
    split; [split; [lia | exact I1] | lia].
Qed.

Lemma step_of_volume dbt z zo ev B : (Z.abs z <= B)%Z -> (B + zop_volume dbt zo < 2 ^ 53)%Z ->
  step_bounded dbt z zo ev /\ (Z.abs (zstep dbt z zo ev) <= B + zop_volume dbt zo)%Z.
Proof.
  intros Hz V. destruct zo as [zc | zc | zc | | svs]; cbn [zop_volume] in V |- *.
  - destruct ev as [[x | x | x | x] | e |]; cbn [step_bounded zstep]; split; trivial; lia.
  - destruct ev as [[x | x | x | x] | e |]; cbn [step_bounded zstep]; split; trivial; lia.
  - destruct ev as [[x | x | x | x] | e |]; cbn [step_bounded zstep]; try (split; [exact I | destruct dbt; lia]).
    destruct dbt; cbn [andb]; [| split; [discriminate | lia]].
    destruct (zc <=? z)%Z; split; try discriminate; lia.
  - destruct ev as [[x | x | x | x] | e |]; cbn [step_bounded zstep]; split; trivial; lia.
  - destruct (book_bounded_of_volume svs z B Hz V) as [I1 I2].
    cbn [step_bounded zstep]. split; [split; [exact I1 | intros _; lia] | exact I2].
Qed.

Lemma zbounded_of_volume dbt zops : forall z evs B, (Z.abs z <= B)%Z -> (B + zvolume dbt zops < 2 ^ 53)%Z ->
  zbounded dbt z zops evs /\ (Z.abs (zcash dbt z zops evs) <= B + zvolume dbt zops)%Z.
Proof.
  induction zops as [| zo zr IH]; intros z evs B Hz V; cbn [zbounded zcash zvolume fold_right] in *.
  - split; [exact I | lia].
  - fold (zvolume dbt zr) in *. pose proof (zvolume_nonneg dbt zr) as Vr.
    pose proof (zop_volume_nonneg dbt zo) as Vo.
    destruct evs as [| [ev fw] er]; [split; [exact I | lia] |].
    destruct (step_of_volume dbt z zo ev B Hz) as [S1 S2]; [lia |].
    destruct (IH (zstep dbt z zo ev) er (B + zop_volume dbt zo)%Z S2) as [I1 I2]; [lia |].
    split; [split; assumption | lia].
Qed.

(* ------------------------------------------------------------------------------------------- *)
(* the same ledger with the decisions replayed in Z: the float run supplies only the Ready/Failed  *)
(* flag (which check may set through float *, /, ceil), never a comparison of cash                *)

Definition zdecide (failed : bool) (z : Z) (zo : zop) : Z :=
  match zo with
  | ZDeposit zc => if failed then 0%Z else zc
  | ZWithdraw zc => if failed then 0%Z else if (zc <=? z)%Z then (- zc)%Z else 0%Z
  | ZCheck svs => zsigned svs
  | _ => 0%Z
  end.

Lemma zdelta_of_event dbt failed z o zo ev :
  reads dbt o zo -> zevent failed z o zo ev -> zdelta_cash zo ev = zdecide failed z zo.
Proof.
  destruct o as [c | c | c ord | x | resp ord]; destruct zo as [zc | zc | zc | | svs];
    cbn [reads zevent]; intros Hr He; try contradiction; cbn [zdelta_cash zdecide].
  - subst ev. destruct failed; reflexivity.
  - subst ev. destruct failed; [reflexivity |]. destruct (zc <=? z)%Z; reflexivity.
  - destruct He as [-> | ->]; reflexivity.
  - destruct He as [-> | ->]; reflexivity.
  - subst ev. reflexivity.
Qed.

Section Ledger.
Context (tbl : libm_table).
Let NFl : Num float := FloatNum tbl.
Local Existing Instance NFl.

Fixpoint zledger_replay (b : broker float) (z : Z) (ops : list (bop float)) (zops : list zop) : Z :=
  match ops, zops with
  | o :: r, zo :: zr =>
      let d := zdecide (b_failed b) z zo in
      (d + match bstep clean b o with Ok (b1, _, _) => zledger_replay b1 (z + d) r zr | _ => 0 end)%Z
  | _, _ => 0%Z
  end.

(* (K1) one step under [clean], in one statement: the float cash after the step is the image of
   z + the operation's contribution — +zc for an accepted deposit, -zc for a successful withdrawal,
   -value per buy / +value per sell for a check, 0 otherwise; accepted / refused is the run's own event,
   that event is the one the integer decision predicts (Ready/Failed flag and zc <= z), and the
   contribution read off the event is the contribution of the integer decision *)
Theorem cash_step_clean (b : broker float) o zo z b' ev fw :
  int_float (b_cash b) z -> integral o zo ->
  bstep clean b o = Ok (b', ev, fw) -> step_bounded false z zo ev ->
  int_float (b_cash b') (z + zdelta_cash zo ev) /\
  zevent (b_failed b) z o zo ev /\
  zdelta_cash zo ev = zdecide (b_failed b) z zo.
Proof.
  intros Hz Hr H Hb.
  pose proof (cash_step_exact tbl clean b o zo z b' ev fw Hz Hr H Hb) as H1.
  cbn [q_liq_fail_debit clean] in H1. rewrite zstep_clean in H1.
  pose proof (cash_event_exact tbl clean b o zo z b' ev fw Hz Hr H) as H2.
  split; [exact H1 | split; [exact H2 | exact (zdelta_of_event _ _ _ _ _ _ Hr H2)]].
Qed.

(* (K2) whole histories under [clean]: the float cash is the image of z0 + the integer ledger *)
Theorem float_cash_ledger ops zops (b : broker float) z0 b' evs :
  brun clean b ops = Ok (b', evs) -> int_float (b_cash b) z0 ->
  Forall2 integral ops zops -> zbounded false z0 zops evs ->
  int_float (b_cash b') (z0 + zledger zops evs).
Proof.
  intros H Hz Hr Hb. rewrite <- zcash_clean.
  exact (cash_history_exact tbl clean ops zops b z0 b' evs H Hz Hr Hb).
Qed.

Corollary float_cash_ledger_of_volume ops zops (b : broker float) z0 b' evs :
  brun clean b ops = Ok (b', evs) -> int_float (b_cash b) z0 ->
  Forall2 integral ops zops -> (Z.abs z0 + zvolume false zops < 2 ^ 53)%Z ->
  int_float (b_cash b') (z0 + zledger zops evs).
Proof.
  intros H Hz Hr V. apply (float_cash_ledger ops zops b z0 b' evs H Hz Hr).
  apply (zbounded_of_volume false zops z0 evs (Z.abs z0)); [lia | exact V].
Qed.

(* the events' ledger IS the ledger of the integer decisions *)
Theorem zledger_is_replay ops : forall zops (b : broker float) z0 b' evs,
  brun clean b ops = Ok (b', evs) -> int_float (b_cash b) z0 ->
  Forall2 integral ops zops -> zbounded false z0 zops evs ->
  zledger zops evs = zledger_replay b z0 ops zops.
Proof.
  induction ops as [| o r IH]; intros zops b z0 b' evs H Hz Hr Hb;
    inversion Hr as [| ? zo ? zr Hr1 Hr2]; subst.
  - cbn in H. inversion H; subst. reflexivity.
  - apply brun_cons_any in H. destruct H as (b1 & e & fw & evs2 & Hs & Hrun & ->).
    cbn [zledger zledger_replay zbounded] in *. destruct Hb as [Hb1 Hb2]. rewrite Hs.
    pose proof (cash_event_exact tbl clean b o zo z0 b1 e fw Hz Hr1 Hs) as He.
    pose proof (zdelta_of_event _ _ _ _ _ _ Hr1 He) as Hd.
    pose proof (cash_step_exact tbl clean b o zo z0 b1 e fw Hz Hr1 Hs Hb1) as Hz1.
    cbn [q_liq_fail_debit clean] in Hz1. rewrite zstep_clean in Hz1, Hb2. rewrite Hd in Hz1, Hb2 |- *.
    f_equal. exact (IH _ _ _ _ _ Hrun Hz1 Hr2 Hb2).
Qed.

Corollary float_cash_ledger_replay ops zops (b : broker float) z0 b' evs :
  brun clean b ops = Ok (b', evs) -> int_float (b_cash b) z0 ->
  Forall2 integral ops zops -> (Z.abs z0 + zvolume false zops < 2 ^ 53)%Z ->
  int_float (b_cash b') (z0 + zledger_replay b z0 ops zops).
Proof.
  intros H Hz Hr V.
  assert (Hb : zbounded false z0 zops evs)
    by (apply (zbounded_of_volume false zops z0 evs (Z.abs z0)); [lia | exact V]).
  rewrite <- (zledger_is_replay ops zops b z0 b' evs H Hz Hr Hb).
  exact (float_cash_ledger ops zops b z0 b' evs H Hz Hr Hb).
Qed.

End Ledger.

(* ------------------------------------------------------------------------------------------- *)
(* (G5) the headline, in the property's words                                                    *)

Fixpoint deposits_accepted (zops : list zop) (evs : evlist) : Z :=
  match zops, evs with
  | zo :: zr, (ev, _) :: er =>
      (match zo, ev with ZDeposit zc, EvCash (DepositSuccess _) => zc | _, _ => 0 end
       + deposits_accepted zr er)%Z
  | _, _ => 0%Z
  end.

Fixpoint withdrawals_done (zops : list zop) (evs : evlist) : Z :=
  match zops, evs with
  | zo :: zr, (ev, _) :: er =>
      (match zo, ev with ZWithdraw zc, EvCash (WithdrawSuccess _) => zc | _, _ => 0 end
       + withdrawals_done zr er)%Z
  | _, _ => 0%Z
  end.

Definition buys_of (svs : list (side * Z)) : Z :=
  fold_right (fun sv acc => (match fst sv with Buy => snd sv | Sell => 0 end + acc)%Z) 0%Z svs.
Definition sells_of (svs : list (side * Z)) : Z :=
  fold_right (fun sv acc => (match fst sv with Buy => 0 | Sell => snd sv end + acc)%Z) 0%Z svs.

Definition buys_booked (zops : list zop) : Z :=
  fold_right (fun zo acc => (match zo with ZCheck svs => buys_of svs | _ => 0 end + acc)%Z) 0%Z zops.
Definition sells_booked (zops : list zop) : Z :=
  fold_right (fun zo acc => (match zo with ZCheck svs => sells_of svs | _ => 0 end + acc)%Z) 0%Z zops.

Lemma zsigned_split svs : zsigned svs = (sells_of svs - buys_of svs)%Z.
Proof.
  induction svs as [| sv r IH]; cbn [zsigned buys_of sells_of fold_right]; [reflexivity |].
  fold (zsigned r) (buys_of r) (sells_of r). rewrite IH. unfold zsigned1. destruct (fst sv); lia.
Qed.

Lemma zledger_split zops : forall evs, List.length evs = List.length zops ->
  zledger zops evs =
  (deposits_accepted zops evs - withdrawals_done zops evs - buys_booked zops + sells_booked zops)%Z.
Proof.
  induction zops as [| zo zr IH]; intros evs L; destruct evs as [| [ev fw] er]; try discriminate L;
    cbn [zledger deposits_accepted withdrawals_done buys_booked sells_booked fold_right]; [reflexivity |].
  fold (buys_booked zr) (sells_booked zr). cbn [List.length] in L. rewrite (IH er) by lia.
  destruct zo as [zc | zc | zc | | svs]; cbn [zdelta_cash];
    try (destruct ev as [[x | x | x | x] | e |]; lia).
  rewrite zsigned_split. destruct ev as [[x | x | x | x] | e |]; lia.
Qed.

Lemma Forall2_len {A B : Type} (R : A -> B -> Prop) l l' : Forall2 R l l' -> List.length l = List.length l'.
Proof. induction 1; cbn [List.length]; [reflexivity | now f_equal]. Qed.

Section Headline.
Context (tbl : libm_table).
Let NFl : Num float := FloatNum tbl.
Local Existing Instance NFl.

(* (K3) from cash 0: the float cash is THE binary64 number of
   Σ accepted deposits − Σ successful withdrawals − Σ values of buys + Σ values of sells,
   each once — equal as a real number (int_float) and identical as a float (bit for bit) *)
Theorem float_cash_from_zero ops zops (b : broker float) b' evs :
  b_cash b = 0%float -> brun clean b ops = Ok (b', evs) ->
  Forall2 integral ops zops -> (zvolume false zops < 2 ^ 53)%Z ->
  let total := (deposits_accepted zops evs - withdrawals_done zops evs
                - buys_booked zops + sells_booked zops)%Z in
  int_float (b_cash b') total /\ b_cash b' = float_ofZ total.
Proof.
  intros H0 H Hr V total.
  assert (L : List.length evs = List.length zops).
  { rewrite (brun_length _ _ _ _ _ H). exact (Forall2_len _ _ _ Hr). }
  destruct (zbounded_of_volume false zops 0 evs 0) as [Hb Ha]; [lia | lia |].
  assert (Hc : cash_float (b_cash b) 0) by (rewrite H0; split; [exact int_float_zero | exact poszero_zero]).
  pose proof (cash_history_exact_bits tbl clean ops zops b 0 b' evs H Hc Hr Hb) as [Hi Hp].
  cbn [q_liq_fail_debit clean] in Hi. rewrite zcash_clean in Hi, Ha.
  rewrite (zledger_split zops evs L) in Hi, Ha. fold total in Hi, Ha. rewrite Z.add_0_l in Hi, Ha.
  split; [exact Hi |]. apply int_float_bits; [exact Hi | lia | exact Hp].
Qed.

End Headline.

(* the whole-history statement for any quirk valuation (in particular the code as it is, with the
   liquidation-failure debit on), under the single volume premise *)
Corollary cash_history_exact_of_volume tbl qk ops zops (b : broker float) z0 b' evs :
  brun (NF := FloatNum tbl) qk b ops = Ok (b', evs) -> int_float (b_cash b) z0 ->
  Forall2 (reads (q_liq_fail_debit qk)) ops zops ->
  (Z.abs z0 + zvolume (q_liq_fail_debit qk) zops < 2 ^ 53)%Z ->
  int_float (b_cash b') (zcash (q_liq_fail_debit qk) z0 zops evs).
Proof.
  intros H Hz Hr V. apply (cash_history_exact tbl qk ops zops b z0 b' evs H Hz Hr).
  apply (zbounded_of_volume _ zops z0 evs (Z.abs z0)); [lia | exact V].
Qed.

(* ------------------------------------------------------------------------------------------- *)
(* (G6) non-vacuity, evaluated by the kernel: deposit 1000, a refused withdrawal of 2000, a        *)
(* withdrawal of 250, a check booking a buy worth 300 and a sell worth 120 -> 570                 *)

Definition exc_b0 : broker float := mkBroker 0%float [] [] [] [] [] false.
Definition exc_buy : trade float := mkTrade "ABC" 300%float 3%float 100 Buy.
Definition exc_sell : trade float := mkTrade "ABC" 120%float 1%float 101 Sell.
Definition exc_ops : list (bop float) :=
  [OpDeposit 1000%float; OpWithdraw 2000%float; OpWithdraw 250%float;
   OpCheck (Some ([exc_buy; exc_sell], [])) []].
Definition exc_zops : list zop :=
  [ZDeposit 1000; ZWithdraw 2000; ZWithdraw 250; ZCheck [(Buy, 300%Z); (Sell, 120%Z)]].
Definition exc_evs : evlist :=
  [(EvCash (DepositSuccess 1000%float), []); (EvCash (WithdrawFailure 2000%float), []);
   (EvCash (WithdrawSuccess 250%float), []); (EvNone, [])].
Definition exc_b1 : broker float :=
  mkBroker 570%float [("ABC"%string, 2%float)] [("ABC"%string, (-2)%float)] []
           [exc_buy; exc_sell] [] false.

(* the float run, computed *)
Example exc_run : brun (NF := FloatNum []) clean exc_b0 exc_ops = Ok (exc_b1, exc_evs).
Proof. vm_compute. reflexivity. Qed.

(* the premises *)
Example exc_integral : Forall2 integral exc_ops exc_zops.
Proof.
  unfold exc_ops, exc_zops.
  apply Forall2_cons; [exact (int_float_ofZ 1000 eq_refl) |].
  apply Forall2_cons; [exact (int_float_ofZ 2000 eq_refl) |].
  apply Forall2_cons; [exact (int_float_ofZ 250 eq_refl) |].
  apply Forall2_cons; [| apply Forall2_nil].
  cbn [integral reads trades_of].
  apply Forall2_cons; [split; [reflexivity | exact (int_float_ofZ 300 eq_refl)] |].
  apply Forall2_cons; [split; [reflexivity | exact (int_float_ofZ 120 eq_refl)] |].
  apply Forall2_nil.
Qed.

Example exc_volume : (zvolume false exc_zops < 2 ^ 53)%Z.
Proof. vm_compute. reflexivity. Qed.

(* the integer side, computed *)
Example exc_sums :
  deposits_accepted exc_zops exc_evs = 1000%Z /\ withdrawals_done exc_zops exc_evs = 250%Z /\
  buys_booked exc_zops = 300%Z /\ sells_booked exc_zops = 120%Z /\
  zledger exc_zops exc_evs = 570%Z /\ zledger_replay [] exc_b0 0 exc_ops exc_zops = 570%Z.
Proof. vm_compute. repeat split; reflexivity. Qed.

(* the headline theorem at the example: its premises hold, its conclusion is cash = 570 *)
Example exc_headline_instance :
  int_float (b_cash exc_b1) (1000 - 250 - 300 + 120) /\
  b_cash exc_b1 = float_ofZ (1000 - 250 - 300 + 120) /\
  float_ofZ (1000 - 250 - 300 + 120) = 570%float.
Proof.
  destruct (float_cash_from_zero [] exc_ops exc_zops exc_b0 exc_b1 exc_evs
              eq_refl exc_run exc_integral exc_volume) as [H1 H2].
  split; [exact H1 | split; [exact H2 | reflexivity]].
Qed.

(* the ledger theorem and the step theorem at the example *)
Example exc_ledger_instance : int_float (b_cash exc_b1) (0 + zledger exc_zops exc_evs).
Proof.
  exact (float_cash_ledger_of_volume [] exc_ops exc_zops exc_b0 0 exc_b1 exc_evs
           exc_run int_float_zero exc_integral exc_volume).
Qed.

(* the refused withdrawal is refused by the integer comparison 2000 <= 1000 = false *)
Example exc_refusal :
  let b := mkBroker 1000%float [] [] [] [] [] false in
  bstep (NF := FloatNum []) clean b (OpWithdraw 2000%float) = Ok (b, EvCash (WithdrawFailure 2000%float), []) /\
  zevent (b_failed b) 1000 (OpWithdraw 2000%float) (ZWithdraw 2000) (EvCash (WithdrawFailure 2000%float)).
Proof.
  intros b.
  assert (H : bstep (NF := FloatNum []) clean b (OpWithdraw 2000%float) =
              Ok (b, EvCash (WithdrawFailure 2000%float), [])) by (vm_compute; reflexivity).
  split; [exact H |].
  exact (cash_event_exact [] clean b (OpWithdraw 2000%float) (ZWithdraw 2000) 1000 _ _ _
           (int_float_ofZ 1000 eq_refl) (int_float_ofZ 2000 eq_refl) H).
Qed.

(* the code as it is (q_liq_fail_debit on): deposit 100, a liquidation request of 50 with no positions
   fails AND debits 50 — the float cash is the image of the integer model's 50 *)
Definition exd_ops : list (bop float) := [OpDeposit 100%float; OpLiq 50%float []].
Definition exd_zops : list zop := [ZDeposit 100; ZLiq 50].
Definition exd_evs : evlist :=
  [(EvCash (DepositSuccess 100%float), []); (EvCash (WithdrawFailure 50%float), [])].
Definition exd_b1 : broker float := mkBroker 50%float [] [] [] [] [] false.

Example exd_run : brun (NF := FloatNum []) liq_debit exc_b0 exd_ops = Ok (exd_b1, exd_evs).
Proof. vm_compute. reflexivity. Qed.

Example exd_instance :
  int_float (b_cash exd_b1) (zcash true 0 exd_zops exd_evs) /\ zcash true 0 exd_zops exd_evs = 50%Z.
Proof.
  split; [| vm_compute; reflexivity].
  apply (cash_history_exact_of_volume [] liq_debit exd_ops exd_zops exc_b0 0 exd_b1 exd_evs
           exd_run int_float_zero).
  - unfold exd_ops, exd_zops.
    apply Forall2_cons; [exact (int_float_ofZ 100 eq_refl) |].
    apply Forall2_cons; [intros _; exact (int_float_ofZ 50 eq_refl) | apply Forall2_nil].
  - vm_compute. reflexivity.
Qed.

(* ------------------------------------------------------------------------------------------- *)
Print Assumptions int_float_ltb.
Print Assumptions shortfall_request_exceeds_cash.
Print Assumptions int_float_bits.
Print Assumptions cash_step_exact.
Print Assumptions cash_step_exact_bits.
Print Assumptions cash_event_exact.
Print Assumptions cash_step_clean.
Print Assumptions cash_history_exact.
Print Assumptions cash_history_exact_of_volume.
Print Assumptions zbounded_of_volume.
Print Assumptions float_cash_ledger.
Print Assumptions float_cash_ledger_of_volume.
Print Assumptions zledger_is_replay.
Print Assumptions float_cash_ledger_replay.
Print Assumptions zledger_split.
Print Assumptions float_cash_from_zero.
Print Assumptions exc_headline_instance.
Print Assumptions exd_instance.
