(* ServerCheck.v — step-wise comparison of the server model with observed AppState transitions
   (both services), IEEE instance. *)
From Coq Require Import ZArith NArith List Bool String Floats.
From Alator Require Import Model.Num Model.Quirks Model.Exchange Model.Uist Model.Jura Model.Server
  Check.Eqb Check.ExchCheck.
Import ListNotations.

Local Instance FNs : Num float := FloatNum [].

Definition S_KIND := 0%N.     Definition S_HASNEXT := 1%N.  Definition S_OUT := 2%N.
Definition S_FETCH := 3%N.    Definition S_ID := 4%N.       Definition S_NOW := 5%N.
Definition S_INFO := 6%N.     Definition S_CLOCK := 7%N.    Definition S_EXCH := 8%N.
Definition S_OTHERS := 9%N.   Definition S_LAST := 10%N.    Definition S_KEYS := 11%N.

Definition row := quotes (quote float).
Definition quote_eqb (a b : quote float) : bool :=
  feq (q_bid a) (q_bid b) && feq (q_ask a) (q_ask b) && Z.eqb (q_date a) (q_date b)
  && String.eqb (q_symbol a) (q_symbol b).
(* rows are compared as maps; the harness sends them sorted by key and the model's rows are built
   from the same sorted dump *)
Definition row_eqb : row -> row -> bool := list_eqb (pair_eqb String.eqb quote_eqb).

(* ---- Uist service ---- *)
Definition utout : Type := (list (trade float) * list (N * uorder float))%type.
Definition u_x_tick (x : uexch float) (r : row) (perm : list nat) : option (uexch float * utout) :=
  match uist_tick x r perm with
  | (x', OutTick fl adm _) => Some (x', (map snd fl, adm))
  | _ => None
  end.
Definition u_insert (x : uexch float) (o : uorder float) : uexch float := fst (uist_step x (Insert o)).
Definition u_delete (x : uexch float) (id : N) : uexch float := fst (uist_step x (Delete (0%N, id))).
Definition u_sstep (qk : quirks) :=
  sstep (exch_init : uexch float) u_x_tick u_insert u_delete (([], []) : utout) qk false.
Definition utout_eqb (a b : utout) : bool :=
  list_eqb trade_eqb (fst a) (fst b) && list_eqb (pair_eqb N.eqb uorder_eqb) (snd a) (snd b).

(* ---- Jura service ---- *)
Definition jtout : Type := (list (fill float) * list (N * jorder float) * list N)%type.
Definition j_x_tick (qk : quirks) (x : jexch float) (r : row) (perm : list nat)
  : option (jexch float * jtout) :=
  match jura_tick qk x r perm with
  | (x', OutTick fl adm trig) => Some (x', (map snd fl, adm, trig))
  | _ => None
  end.
Definition j_insert (qk : quirks) (x : jexch float) (o : jorder float) : jexch float :=
  fst (jura_step qk x (Insert o)).
Definition j_delete (qk : quirks) (x : jexch float) (k : N * N) : jexch float :=
  fst (jura_step qk x (Delete k)).
Definition j_sstep (qk : quirks) :=
  sstep (exch_init : jexch float) (j_x_tick qk) (j_insert qk) (j_delete qk)
        (([], [], []) : jtout) qk true.
Definition jtout_eqb (a b : jtout) : bool :=
  list_eqb fill_eqb (fst (fst a)) (fst (fst b))
  && list_eqb (pair_eqb N.eqb jorder_eqb) (snd (fst a)) (snd (fst b))
  && list_eqb N.eqb (snd a) (snd b).

Section Generic.
Context {X TOut : Type} (xmask : X -> X -> N) (teq : TOut -> TOut -> bool).

Definition res_mask (m o : sres row TOut) : N :=
  match m, o with
  | RTick None, RTick None | RFetch None, RFetch None | RId None, RId None
  | RUnit None, RUnit None | RInfo None, RInfo None | RNow None, RNow None
  | RPanic, RPanic => 0%N
  | RTick (Some (h, t)), RTick (Some (h', t')) =>
      N.lor (bit S_HASNEXT (Bool.eqb h h')) (bit S_OUT (teq t t'))
  | RFetch (Some r), RFetch (Some r') => bit S_FETCH (row_eqb r r')
  | RId (Some i), RId (Some i') => bit S_ID (N.eqb i i')
  | RUnit (Some _), RUnit (Some _) => 0%N
  | RInfo (Some a), RInfo (Some a') => bit S_INFO (String.eqb a a')
  | RNow (Some (d, h)), RNow (Some (d', h')) => bit S_NOW (Z.eqb d d' && Bool.eqb h h')
  | _, _ => bit S_KIND false
  end.

Definition bt_mask (touched : bool) (m o : backtest X) : N :=
  let clock_ok := Z.eqb (bt_date m) (bt_date o) && Nat.eqb (bt_pos m) (bt_pos o)
                  && String.eqb (bt_dataset m) (bt_dataset o) in
  let xm := xmask (bt_exch m) (bt_exch o) in
  if touched then N.lor (bit S_CLOCK clock_ok) (bit S_EXCH (N.eqb xm 0))
  else bit S_OTHERS (clock_ok && N.eqb xm 0).

Definition app_mask (touched : option N) (m o : app X row) : N :=
  N.lor (bit S_LAST (N.eqb (last m) (last o)))
  (N.lor (bit S_KEYS (Nat.eqb (List.length (backtests m)) (List.length (backtests o))))
     (fold_left (fun acc kb =>
        let t := match touched with Some i => N.eqb i (fst kb) | None => false end in
        N.lor acc (match nlookup (backtests m) (fst kb) with
                   | None => bit S_KEYS false
                   | Some b => bt_mask t b (snd kb)
                   end)) (backtests o) 0%N)).

End Generic.

Definition touched_of {O K} (o : sop O K) (r : option N) : option N :=
  match o with
  | STick id _ | SFetch id | SInsert _ id | SDelete _ id | SInfo id | SNow id => Some id
  | SInit _ | SNew _ => r
  end.

Definition res_id {R T} (r : sres R T) : option N := match r with RId x => x | _ => None end.

Record usstep := mkUSStep {
  uss_pre : app (uexch float) row; uss_op : sop (uorder float) N;
  uss_obs : sres row utout; uss_post : app (uexch float) row }.

Definition usstep_mask (qk : quirks) (st : usstep) : N :=
  let '(m, r) := u_sstep qk (uss_pre st) (uss_op st) in
  match uss_obs st with
  | RPanic => res_mask utout_eqb r RPanic
  | _ => N.lor (res_mask utout_eqb r (uss_obs st))
               (app_mask (exch_mask uorder_eqb trade_eqb) (touched_of (uss_op st) (res_id (uss_obs st)))
                         m (uss_post st))
  end.

Record jsstep := mkJSStep {
  jss_pre : app (jexch float) row; jss_op : sop (jorder float) (N * N);
  jss_obs : sres row jtout; jss_post : app (jexch float) row }.

Definition jsstep_mask (qk : quirks) (st : jsstep) : N :=
  let '(m, r) := j_sstep qk (jss_pre st) (jss_op st) in
  match jss_obs st with
  | RPanic => res_mask jtout_eqb r RPanic
  | _ => N.lor (res_mask jtout_eqb r (jss_obs st))
               (app_mask (exch_mask jorder_eqb fill_eqb) (touched_of (jss_op st) (res_id (jss_obs st)))
                         m (jss_post st))
  end.
