"""tools/props_sys2.py — Props files of the session-4 system-level theorems (C06sys, C09sys, C10sys, C16perf)."""
import sys, os
sys.path.insert(0, os.path.dirname(os.path.abspath(__file__)))
from genprops import gen

IMP = """From Coq Require Import ZArith NArith List Bool String Permutation Sorted Reals Floats.
From Flocq Require Import Raux.
From Alator Require Import Model.Num Model.Quirks Model.Cost Model.Exchange Model.Uist Model.Server Model.Broker
  Model.Perf Model.Strategy Model.BrokerSys Proofs.ServerProofs Proofs.ExchangeProofs Proofs.BrokerLedgerProofs
  Proofs.BrokerLiqProofs Proofs.EndToEnd05 Proofs.EndToEnd04 Proofs.EndToEndExamples %s.
Import ListNotations.
Local Open Scope list_scope."""

which = sys.argv[1:] or ["C06", "C09", "C10", "C16", "C04"]

if "C06" in which:
    gen("C06sys", "C06 END TO END over the composition broker + eager client + Uist server + Uist exchange "
        "(Model/BrokerSys.v), for EVERY number type and every quirk valuation (no arithmetic law is used; all closed "
        "under the global context): what a send_order does to the WHOLE system. `outstanding y` are this broker's orders "
        "the exchange still holds (resting book, then buffer); `bt_frame` is everything of a backtest but its buffer. "
        "Statements only.", IMP % "Proofs.EndToEnd0609", [
        ("c06s_refused_inert", "c06s_refused_inert", "A refused order leaves the whole system — broker (cash, holdings, pending, log, quotes, state) and server (every backtest, the exchange's book and buffer) — exactly as it was.", True),
        ("c06s_forwarded_once", "c06s_forwarded_once", "A forwarded order reaches the exchange exactly once and unchanged: the broker's outstanding orders become outstanding ++ [o] (the END of its backtest's buffer), the resting book, ids, trade log and clock of that backtest and every OTHER backtest are untouched, and of the broker only the pending exposure moves.", True),
        ("c06s_send_never_touches_other_state", "c06s_send_never_touches_other_state", "Whatever send_order answers: cash, holdings, log, quotes, costs and state of the broker are unchanged, and so is every backtest but for its buffer.", True),
        ("c06s_forwarded_then_admitted", "c06s_forwarded_then_admitted", "… and the next check() (one tick) admits it: it rests in the book under a fresh id larger than every id there, was not filled by that tick (the tick's trades are the fills of the book as it was BEFORE), and whatever that check left in the buffer are market sells its own cash rebalancing issued.", True),
        ("c06s_equal_order_reappears", "c06s_equal_order_reappears", "Why the last clause is phrased so: kernel-evaluated run in which the admitted order is a price-less market sell and the same check's rebalancing forwards an EQUAL one.", True),
    ])

if "C09" in which:
    gen("C09sys", "C09, second sentence, END TO END over the composition broker + eager client + Uist server + Uist "
        "exchange (Model/BrokerSys.v), over ALL histories, for EVERY number type (closed under the global context "
        "unless marked [R]). `booked b resp` is the broker after update_quotes and book_trade of what tick + "
        "fetch_quotes returned; `app_ticked` the server after a check's tick. Statements only.", IMP % "Proofs.EndToEnd0609", [
        ("c09s_failed_forever", "c09s_failed_forever", "Once Failed, Failed after every history of deposits, withdrawals, liquidation requests, orders and checks.", True),
        ("c09s_failed_refusals_inert", "c09s_failed_refusals_inert", "In Failed, a deposit, a withdrawal and an order each leave the WHOLE system unchanged — nothing reaches the exchange.", True),
        ("c09s_failed_history", "c09s_failed_history", "… and so does any history made of them.", True),
        ("c09s_failed_liquidation_inert", "c09s_failed_liquidation_inert", "A liquidation request in Failed reaches the exchange with nothing either; the server is unchanged, and the broker too unless the recorded C04 finding (q_liq_fail_debit) debits the request.", True),
        ("c09s_failed_history_liq", "c09s_failed_history_liq", "Without that defect every history without a check leaves a Failed system unchanged.", True),
        ("c09s_failed_check_only_books_any", "c09s_failed_check_only_books_any", "In Failed a check() still reconciles: holdings, pending, log and quotes afterwards are those of booking exactly the trades and row that tick + fetch returned; the server is the one after tick + fetch — nothing was forwarded, although the rebalancing inside check ran.", True),
        ("c09s_failed_check_only_books", "c09s_failed_check_only_books", "The same with the exchange in view (no q_liq_fail_debit): the trades booked are the fills of the resting book against the clock date's row, appended to both logs; cash moves by exactly those trades; the buffer stays empty.", True),
        ("c09s_failed_check_only_books_as_is", "c09s_failed_check_only_books_as_is", "[R] For the code as it is (q_liq_fail_debit on) nothing differs inside check(): the rebalancing's request exceeds the (negative) cash, so the guarded debit refuses it.", True),
        ("c09s_failed_nothing_reaches_exchange", "c09s_failed_nothing_reaches_exchange", "ANY history from a Failed system: the server afterwards is the one obtained by the ticks of its checks alone — no order of this broker ever reaches the exchange again.", True),
        ("c09s_example", "c09s_observed_at_floats", "Non-vacuity, kernel-evaluated at the IEEE instance: an almost-all-in buy, a price collapse, Failed with a buy still in flight; deposit / withdrawal / order change nothing bit for bit; the in-flight fill is still booked; when the price recovers the liquidation's sell is refused by the gate.", True),
    ])

if "C10" in which:
    gen("C10sys", "C10 END TO END over the composition broker + eager client + Uist server + Uist exchange "
        "(Model/BrokerSys.v), [R]: a successful liquidation REALLY raises the cash — two checks later at unchanged "
        "prices (the property's `observe_at`: cash two ticks later at unchanged prices). `whole_long b`: unique symbols, "
        "positive whole quantities, every holding quoted with a positive bid. `sell_fill bid o t`: trade t is order o "
        "sold in full at that bid. Statements only.", IMP % "Proofs.EndToEnd10", [
        ("c10s_cash_raised", "c10_cash_raised_end_to_end", "A Ready broker with non-negative cash and none of its orders outstanding gets WithdrawSuccess for a request c; the row of the next clock date quotes every sold symbol at the last seen bid. Then (1) the call moves no cash and its sells — market sells of distinct held symbols, each for at most the holding — are exactly the outstanding orders; (2) the first check admits them, books nothing; (3) the second check fills every one exactly once at that bid: cash = cash0 + sum of shares x bid >= cash0 + c, nothing outstanding, pending empty, holdings reduced by the quantities sold (entry gone at zero), still Ready.", True),
        ("c10s_any_check_orders", "c10_cash_raised_any_check_orders", "The hash orders handed to the two checks are irrelevant (cash never goes negative, so the rebalancing does not run).", True),
        ("c10s_example", "c10_cash_raised_observed_at_floats", "Non-vacuity, kernel-evaluated at the IEEE instance: deposit 1000, buy 5 ABC and 30 BCD, then withdraw_cash_with_liquidation(650) with cash 165: sells ABC 5 and BCD 15, two checks later cash is 815 >= 165 + 650.", True),
    ])

if "C16" in which:
    gen("C16perf", "C16 x C14 composed, [R]: the performance report of a strategy run (StaticWeightStrategy::perf = "
        "PerformanceCalculator::calculate over the recorded history; `st_perf`). Trading alone shows up as exactly zero "
        "performance. `shifted_dates l` = d_2 … d_N, d_N (the clock after each tick). Statements only.",
        IMP % "Proofs.StrategyProofs Proofs.EndToEnd16 Proofs.EndToEnd1416", [
        ("c16p_calculate_flat", "calculate_flat", "Any history of n >= 2 snapshots with one constant value, one constant cumulative cash flow and no inflation: all returns 0, total return, CAGR, volatility, drawdown, Sharpe, best and worst all 0, values / dates / cash flows aligned one-to-one, drawdown dates = first date.", True),
        ("c16p_constant_prices", "strategy_perf_constant_prices", "END TO END: init(c) then run() on a dataset of N >= 2 dates with constant zero-spread prices, any weights, costs, hash orders and sort oracles: perf() reports N values all c, N-1 returns all 0, zero total return, CAGR, volatility, drawdown and Sharpe, and the dates are the clock dates after each tick.", True),
        ("c16p_dates", "strategy_perf_dates", "For ANY prices: the report's dates are d_2 … d_N, d_N — one per update, non-decreasing for a dataset with increasing dates.", True),
        ("c16p_one_date_panics", "strategy_perf_one_date_panics", "A run over a one-date dataset records one snapshot and perf() panics (fewer than two snapshots: modelled, excluded by C14's premise).", True),
        ("c16p_example", "strategy_perf_observed_at_floats", "Non-vacuity, kernel-evaluated at the IEEE instance (libm values supplied as a table): the 3-date constant-price run of c16_end_to_end_example reports values 1000, 1000, 1000, returns 0, 0 and zero statistics.", True),
    ])

IMPF4 = """From Coq Require Import ZArith NArith List Bool String Floats.
From Flocq Require Import IEEE754.BinarySingleNaN IEEE754.PrimFloat.
From Alator Require Import Model.Num Model.Quirks Model.Cost Model.Exchange Model.Uist Model.Broker
  Proofs.BrokerLedgerProofs Proofs.FloatExact Proofs.FloatCash.
Import ListNotations."""
if "C04" in which:
    gen("C04float", "C04 AT THE IEEE binary64 INSTANCE for whole-unit amounts — no rounding anywhere. Statements only. "
        "`int_float x n`: the binary64 value x is finite and equals the integer n (Flocq's reading of Coq's primitive "
        "float). `reads` / `integral` tie every amount of a history (deposits, withdrawals, the value of every booked "
        "trade) to its integer; `zledger` is the integer ledger read off the events the float run returned, "
        "`zledger_replay` the one that replays the decisions in Z (proved equal); `zvolume` the total of all |amounts|. "
        "Depends on the specification axioms the standard library declares for its primitive floats / 63-bit integers "
        "and on the classical real-number axioms (through Flocq).", IMPF4, [
        ("c04f_step", "cash_step_clean", "One operation of the model instance that is compared bit-for-bit with the code: cash moves by exactly the integer amount (deposit accepted, withdrawal done, trades booked: minus every buy, plus every sell), the event is the one the INTEGER comparison decides (float comparisons of integer-valued floats are exact), nothing else moves cash.", True),
        ("c04f_history", "float_cash_ledger_of_volume", "Over ALL histories, one premise on magnitudes (|initial cash| + total of all |amounts| below 2^53): the float cash IS the initial cash plus the integer ledger.", True),
        ("c04f_replay", "float_cash_ledger_replay", "… and that ledger is the one obtained by replaying the accept / refuse decisions in Z.", True),
        ("c04f_headline", "float_cash_from_zero", "HEADLINE, in the property's words, from cash 0: float cash = accepted deposits - successful withdrawals - values of buys + values of sells booked by the checks, each once — as an EQUALITY OF FLOATS (bit for bit; cash never becomes -0).", True),
        ("c04f_as_is", "cash_history_exact_of_volume", "The same for ANY quirk valuation, in particular the code as it is (recorded finding q_liq_fail_debit): one extra integer term, the forced debit of a failed liquidation request that does not exceed cash.", True),
        ("c04f_example", "exc_headline_instance", "Non-vacuity, kernel-evaluated: deposit 1000, refused withdrawal 2000, withdrawal 250, a check booking a buy worth 300 and a sell worth 120: cash = 570.", True),
    ])

IMPF16 = """From Coq Require Import ZArith NArith List Bool String Floats Reals.
From Flocq Require Import Core.Raux IEEE754.BinarySingleNaN IEEE754.PrimFloat.
From Alator Require Import Model.Num Model.Quirks Model.Cost Model.Exchange Model.Uist Model.Server Model.Broker
  Model.Perf Model.Strategy Proofs.ServerProofs Proofs.BrokerLedgerProofs Proofs.FloatExact Proofs.FloatCash
  Proofs.EndToEndExamples Proofs.FloatWorth Proofs.FloatWorthSys.
Import ListNotations.
Local Open Scope list_scope."""
if "C16f" in which:
    gen("C16float", "C16's last clause AT THE IEEE binary64 INSTANCE, for whole-unit prices: trading alone creates no value, "
        "bit for bit. Statements only. `int_float x n`: the binary64 x is finite and equals the integer n. `zp s` is the "
        "(integer) constant price of symbol s, at least 1. `wrel b zc zh` ties a float broker to integer cash zc and integer "
        "holdings zh (quotes constant at zp, bid = ask); `zworth = zc + sum qty x price` is the integer worth, `zgross` its "
        "absolute-value analogue; `finv` is the system invariant (wrel + every resting / buffered order of this broker is "
        "integer-valued unless non-finite); `small y` bounds the magnitudes in state y (a computable sum of |cash|, "
        "|holdings| x price and twice the volume of the orders the exchange holds) by 2^53; `run_small` asks this of every "
        "state an update of the run starts from. Costs never reach cash — they only decide WHICH integer share count is "
        "ordered — so whatever rounding happens in the sizing, worth is conserved exactly. Depends on the specification "
        "axioms the standard library declares for primitive floats / 63-bit integers and the classical reals (Flocq).", IMPF16, [
        ("c16f_floor_is_integer", "float_floor_int", "f64::floor as modelled (the 2^52 construction) returns, for every finite x, the float of the mathematical floor: share counts that come out of the sizing are integer-valued.", True),
        ("c16f_fill_conserves_worth", "book_trade_wrel", "One fill at the constant price: cash and the position move by exactly quantity x price (the float product is exact), the entry is dropped at zero, and the integer worth is UNCHANGED.", True),
        ("c16f_total_value", "total_value_wrel", "The broker's total value, for ANY iteration order of the holdings, is the float of the integer worth (integer sums below 2^53 are exact, hence order-independent).", True),
        ("c16f_check", "check_wrel", "A whole check() — booking what the tick returned, then whatever the cash rebalancing does — conserves the integer worth and forwards only integer-valued orders.", True),
        ("c16f_update", "sys_update_wrel", "One update of the full composition (tick, fetch, reconcile, rebalance toward the weights, snapshot): the invariant is kept, worth is conserved, and the snapshot's value is the float of the worth.", True),
        ("c16f_end_to_end", "float_c16_constant_prices_end_to_end", "END TO END: init(c) with an integer-valued deposit, run() on N dates with integer constant zero-spread prices, any weights, costs, hash orders and sort oracles: exactly N updates, N snapshots, and EVERY snapshot's value EQUALS c as a float — under the run-level magnitude premise run_small.", True),
        ("c16f_example", "float_c16_example_instance", "Non-vacuity: the kernel-evaluated 3-date run of c16_end_to_end_example meets every premise (run_small by computation) — three snapshots, each exactly 1000.", True),
        ("c16f_premise_needed_short_sale", "float_c16_counterexample_short_sale", "The magnitude premise cannot be replaced by a bound on the deposit and the prices alone: a weight of -2^50 makes the strategy sell short 2^50-odd shares (a sale of a symbol not held passes the gate whatever its size) and a later snapshot reads 1024 for a deposit of 1000 — rounding at 2^60.", True),
        ("c16f_premise_needed_infinite_order", "float_c16_counterexample_infinite_order", "… and a weight of -2^1023 puts an order for infinitely many shares on the exchange; the last snapshot is NaN.", True),
    ])

IMPF10 = """From Coq Require Import ZArith NArith List Bool String Floats Reals.
From Flocq Require Import Core.Raux IEEE754.BinarySingleNaN IEEE754.PrimFloat.
From Alator Require Import Model.Num Model.Quirks Model.Cost Model.Exchange Model.Uist Model.Broker
  Proofs.BrokerLedgerProofs Proofs.FloatExact Proofs.FloatCash Proofs.FloatWorth Proofs.FloatLiq.
Import ListNotations.
Local Open Scope list_scope.
(* the infix comparisons below are those of the IEEE instance built on the statement's own libm table *)
Local Hint Extern 0 (Num float) => match goal with t : libm_table |- _ => exact (FloatNum t) end : typeclass_instances."""
if "C10f" in which:
    gen("C10float", "C10 AT THE IEEE binary64 INSTANCE for whole-unit data: the sales queued by a successful liquidation "
        "are worth AT LEAST the request in exact integers — no tolerance. Statements only. `int_float x n`: the binary64 x "
        "is finite and equals the integer n; `zb s` is the whole-unit last seen bid of symbol s; `lrel b zh` ties the "
        "float broker to integer holdings zh (positive quantities, bids >= 1, every position worth less than 2^53); "
        "`zliq` is the integer twin of the liquidation loop, `zcdiv a b` the integer ceiling of a / b, `zvalue` the "
        "integer worth of a list of (symbol, quantity) at the bids, `znz` drops zero quantities, `sell_reads o (s, q)` "
        "says order o is a price-less market sell of q shares of s. Depends on the specification axioms the standard "
        "library declares for primitive floats / 63-bit integers and the classical reals (Flocq).", IMPF10, [
        ("c10f_integer_division", "div_ceil_int", "Integer division through floats: for integers 0 <= a < 2^53 and 0 < b, ceil(a / b) computed in binary64 is the float of the mathematical ceiling — the rounding of the quotient never moves it across an integer (a non-integer a / b is at least 1 / b away from every integer, half an ulp of the quotient is smaller).", True),
        ("c10f_loop", "liq_loop_float", "The loop, any iteration order: the float run is the integer run (remaining amount and every quantity), only market sells of distinct held symbols for at most the holding, and when nothing is left to raise the sells are worth at least the request — in exact integers.", True),
        ("c10f_call", "liquidation_float", "The call, ANY cost list: on WithdrawSuccess the forwarded orders are exactly the non-zero sells of the loop, every one accepted by the gate, each for at most the position, distinct symbols, worth at least the request in integers; on WithdrawFailure nothing is queued and the broker is unchanged.", True),
        ("c10f_verdict", "liquidation_float_verdict", "Without costs the verdict itself is the integer verdict: success iff the request is covered by cash + positions and by the positions alone.", True),
        ("c10f_rebalance", "rebalance_float", "The request of the automatic cash rebalancing (shortfall + 1000 for integer negative cash): the same, and Failed exactly on the failure branch with nothing queued.", True),
        ("c10f_example", "exl_theorem_instance", "Non-vacuity, kernel-evaluated and instantiated: ABC 5 @ 100, BCD 30 @ 10, cash 165, request 650: sells ABC 5 and BCD 15, worth 650.", True),
        ("c10f_why_whole_units", "exf_fractional_shortfall", "Why whole units: with the binary64 bid nearest 147.2 and 47 840 to raise, 47840 / bid evaluates to exactly 325, the call reports success, and 325 x bid is less than 47 840 in binary64 — for fractional data the clause holds over the reals only (Props/C10.v).", True),
    ])

if "C09f" in which:
    gen("C09float", "C09's 'Failed if and only if' AT THE IEEE binary64 INSTANCE for whole-unit data without costs. "
        "Statements only. Notation as in Props/C10float.v (`lrel`, `zhsum` = integer worth of the positions at the "
        "whole-unit bids, `zliq`, `znz`, `zvalue`, `sell_reads`). The decision the code takes in binary64 — cash < 0 and "
        "-cash + 1000 > liquidation value — is the integer decision, and what it queues when it stays Ready is worth at "
        "least the shortfall + 1000 in exact integers. Depends on the specification axioms the standard library declares "
        "for primitive floats / 63-bit integers and the classical reals (Flocq).", IMPF10.replace("Proofs.FloatLiq.", "Proofs.FloatLiq Proofs.FloatFailed."), [
        ("c09f_liquidation_value", "liquidation_value_float", "Without costs the liquidation value computed in binary64, for any iteration order, is the float of cash + integer worth of the positions.", True),
        ("c09f_failed_iff", "failed_iff_float", "The cash rebalancing of a Ready broker with negative integer cash: Failed IF AND ONLY IF cash + positions < -cash + 1000 (integers); Failed changes nothing else and queues nothing; Ready queues a non-empty list of price-less market sells, each accepted by the gate, each between one share and the position, distinct symbols, worth at least -cash + 1000 in exact integers.", True),
        ("c09f_check", "check_failed_iff_float", "The same through check(), on the state after booking what the tick returned: Failed iff the booked cash is negative and the shortfall + 1000 exceeds the liquidation value; non-negative booked cash leaves the broker as booked and sends nothing.", True),
        ("c09f_example_failed", "exf9_theorem_fail", "Non-vacuity, instantiated: ABC 5 @ 100, cash -300: 1300 > 200, Failed, nothing queued.", True),
        ("c09f_example_ready", "exf9_theorem_ready", "… and ABC 20 @ 100, cash -300: 1300 <= 1700, Ready, 13 ABC sold.", True),
    ])

IMPF13 = IMPF10.replace("Proofs.FloatLiq.", "Proofs.CostProofs Proofs.FloatLiq Proofs.FloatCost.")
if "C13f" in which:
    gen("C13float", "C13 AT THE IEEE binary64 INSTANCE for whole-unit costs (per-share and flat costs with integer-valued "
        "parameters; a percentage cost multiplies the budget by 1 - p, which is not integral, and stays over the reals). "
        "Statements only. `cost_reads c zc` ties a float cost to its integer reading; `zsum_ps` / `zsum_flat` are the sums "
        "of the per-share / flat parameters. Depends on the specification axioms the standard library declares for "
        "primitive floats / 63-bit integers and the classical reals (Flocq).", IMPF13, [
        ("c13f_integer_division", "div_floor_int", "Integer division through floats: floor(a / b) computed in binary64 is the float of the integer quotient for |a| < 2^53, b > 0.", True),
        ("c13f_net_budget_and_price", "trade_impact_total_int", "The cost model's (net budget, net price), list threaded in any order: (budget - sum of flat fees, price + sum of per-share fees) for a buy, price - sum for a sell — exact integers.", True),
        ("c13f_fees_additive", "trade_costs_int", "Fees of a trade are additive across the list: quantity x sum of per-share fees + sum of flat fees, exactly.", True),
        ("c13f_no_overspend", "no_overspend_float", "HEADLINE: n = floor(net budget / net price) is the float of the integer quotient, and n x price + every fee computed on that trade — all evaluated in binary64 — is the float of an integer that does NOT exceed the gross budget (and the binary64 comparison says so); one more share would overspend.", True),
        ("c13f_directions", "directions_float", "Net price >= gross price for buys, <= for sells; net budget <= gross budget — as binary64 comparisons.", True),
        ("c13f_negative_budget", "sized_shares_negative", "Fees larger than the budget: the sized share count is negative (at most -1) and the broker's clamp turns it into 0.0 — nothing is ordered.", True),
        ("c13f_example", "exk_theorem_instance", "Non-vacuity, instantiated: costs [per-share 1; flat 25; flat 5], budget 10 000, price 99: 99 shares, outlay 9 930.", True),
        ("c13f_why_whole_units", "exp_percentage_tight", "Why percentage costs stay over the reals: with a percentage of 2^-60, budget 1000, price 1, binary64 computes 1 - 2^-60 = 1, buys 1000 shares, and the fee is a positive number that binary64 then adds back to exactly 1000: the inequality of C13 holds of the floats and fails of the reals by 8.7e-16.", True),
    ])

IMPF11 = IMPF10.replace("Proofs.FloatLiq.", "Proofs.FloatLiq Proofs.FloatCost Proofs.FloatValue.")
if "C11f" in which:
    gen("C11float", "C11's valuation identities AT THE IEEE binary64 INSTANCE for whole-unit data. Statements only. Notation as "
        "in Props/C10float.v (`lrel`, `zhsum`) and Props/C13float.v (`cost_reads`, `zsum_flat`); `zliqsum zf zh` is the sum over "
        "the positions of quantity x bid - zf. Depends on the specification axioms the standard library declares for primitive "
        "floats / 63-bit integers and the classical reals (Flocq).", IMPF11, [
        ("c11f_position_value", "position_value_float", "A position is valued at quantity x the last seen bid — the float product is the float of the integer product.", True),
        ("c11f_total_value", "total_value_float", "Total value = cash + sum of position values, exactly, for every iteration order of the holdings …", True),
        ("c11f_total_value_any_order", "total_value_order_float", "… hence the SAME float (Leibniz equality, signs of zero included) for any two iteration orders.", True),
        ("c11f_liquidation_le_total", "liquidation_le_total_float", "With per-share and flat costs of whole-unit parameters: each position's liquidation value is quantity x bid - flat fees (per-share costs only move the price component, which is not used), the liquidation value is total value minus (number of positions) x flat fees, it never exceeds total value (binary64 comparison), equals it when there is no flat fee or nothing is held, and is strictly less otherwise.", True),
        ("c11f_liquidation_eq_total_without_costs", "liquidation_eq_total_nocosts_float", "Without trade costs liquidation value and total value are the same float.", True),
        ("c11f_example", "exv_theorem_instance", "Non-vacuity, instantiated: cash 165, ABC 5 @ 100, BCD 30 @ 10, costs [flat 5; per-share 1]: total 965, liquidation 955, both iteration orders.", True),
    ])
