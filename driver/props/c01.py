"""C01 — no look-ahead. Exchange part (driver/exch.py) + server part (driver/server.py)."""
import exch
import server


def run(res, tier, seed, replay):
    ob = exch.run_property(res, "C01", tier, seed, replay, ["C01"])
    cov_ex = dict(res.coverage)
    ob2 = server.run_property(res, "C01", tier, seed, replay, [])
    cov_srv = dict(res.coverage)
    res.coverage.update(
        evaluations=cov_ex.get("evaluations", 0) + cov_srv.get("evaluations", 0),
        distinct_nontrivial=cov_ex.get("distinct_nontrivial", 0) + cov_srv.get("distinct_nontrivial", 0),
        rule="exchange part: " + cov_ex.get("rule", "") + " || server part: " + cov_srv.get("rule", ""),
        samples=cov_ex.get("samples", []) + cov_srv.get("samples", []),
        situations=(cov_ex.get("situations", []) + cov_srv.get("situations", []))[:500],
        exchange_part={k: cov_ex.get(k) for k in ("evaluations", "distinct_nontrivial", "quirk_valuation_matched", "scenarios")},
        server_part={k: cov_srv.get(k) for k in ("evaluations", "distinct_nontrivial", "quirk_valuation_matched", "scenarios")})
    return ob
