"""C10 — broker slice; see driver/broker.py and Props/C10.v"""
import broker


def run(res, tier, seed, replay):
    return broker.run_property(res, "C10", tier, seed, replay, ["C10", "C10sys", "C10float"])
