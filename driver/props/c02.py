"""C02 — exchange slice; see driver/exch.py and Props/C02.v"""
import exch


def run(res, tier, seed, replay):
    return exch.run_property(res, "C02", tier, seed, replay, ["C02"])
