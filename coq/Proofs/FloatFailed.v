(* FloatFailed.v — C09 ("Failed if and only if") at the IEEE binary64 instance for whole-unit data without trade
   costs: integer cash, integer bids, whole-share long positions. A Ready broker with a negative whole-unit cash
   moves to Failed exactly when shortfall + 1000 exceeds cash + the worth of the positions (the liquidation value,
   which without costs is the total value) — in exact integers; otherwise it stays Ready and the sells queued are
   price-less market sells accepted by the gate, worth at least shortfall + 1000.
   Layout: (F0) the request and the liquidation value as integers; (F1) [failed_iff_float] through
   [rebalance_cash]; (F2) [check_failed_iff_float] through [check]; (F3) kernel-evaluated examples each way, with
   the theorem instantiated at them. Corollaries of FloatLiq.v. *)
From Coq Require Import ZArith NArith List Bool String Floats Reals Lra Lia Permutation.
From Flocq Require Import IEEE754.BinarySingleNaN IEEE754.PrimFloat.
From Alator Require Import Model.Num Model.Quirks Model.Cost Model.Exchange Model.Uist Model.Broker.
From Alator Require Import Proofs.BrokerLedgerProofs Proofs.BrokerLiqProofs Proofs.FloatExact Proofs.FloatCash
  Proofs.FloatWorth Proofs.FloatLiq.
Import ListNotations.

Section AtFloatFailed.
Context (tbl : libm_table).
Let NFl : Num float := FloatNum tbl.
Local Existing Instance NFl.
Local Open Scope num_scope.

Variable zb : string -> Z.

(* ------------------------------------------------------------------------------------------- *)
(* (F0) the request of the rebalancing and the liquidation value, as integers                   *)

Lemma request_float (b : broker float) zc :
  int_float (b_cash b) zc -> (zc < 0)%Z -> (- zc + 1000 < 2 ^ 53)%Z ->
  int_float (b_cash b * - fone + fofZ 1000) (- zc + 1000).
Proof.
  intros Hz Hneg Hb.
  change (@fadd float NFl) with PrimFloat.add. change (@fmul float NFl) with PrimFloat.mul.
  change (@fneg float NFl) with PrimFloat.opp. change (@fone float NFl) with 1%float.
  change (@fofZ float NFl) with float_ofZ.
  replace (- zc + 1000)%Z with (zc * -1 + 1000)%Z by lia.
  apply add_int_exact_strong; [| exact int_float_1000 | lia].
  apply mul_int_exact_strong; [exact Hz | exact (int_float_opp _ _ int_float_one) | lia].
Qed.

(* without costs the liquidation value is cash + the worth of the positions, in exact integers *)
Theorem liquidation_value_float (b : broker float) zh zc ord :
  lrel zb b zh -> NoDup (map fst zh) -> b_costs b = [] -> int_float (b_cash b) zc ->
  is_order_of ord (b_holdings b) = true ->
  (Z.abs zc + zhsum zb zh < 2 ^ 53)%Z ->
  int_float (liquidation_value b ord) (zc + zhsum zb zh).
Proof.
  intros W ND Hk Hc Ho B.
  rewrite (liq_eq_total_nocosts b ord Hk).
  exact (proj1 (total_value_lrel tbl zb b zh zc ord W ND Hc Ho B)).
Qed.

(* ------------------------------------------------------------------------------------------- *)
(* (F1) Failed if and only if, through [rebalance_cash]                                          *)

Theorem failed_iff_float (b : broker float) zh zc ord b' fw :
  lrel zb b zh -> NoDup (map fst zh) -> b_costs b = [] -> b_failed b = false ->
  int_float (b_cash b) zc -> (zc < 0)%Z ->
  (Z.abs zc + zhsum zb zh < 2 ^ 53)%Z -> (- zc + 1000 < 2 ^ 53)%Z ->
  rebalance_cash clean b ord = Ok (b', fw) ->
  let zl := znz (snd (zliq zb zh ord (- zc + 1000))) in
  (* the liquidation value is cash + worth of the positions *)
  int_float (liquidation_value b ord) (zc + zhsum zb zh) /\
  (* Failed iff shortfall + 1000 exceeds it *)
  (b_failed b' = true <-> (zc + zhsum zb zh < - zc + 1000)%Z) /\
  (* Failed: nothing queued, nothing else changed *)
  (b_failed b' = true -> fw = [] /\ b' = set_failed b) /\
  (* Ready: the sells queued *)
  (b_failed b' = false ->
     fw <> [] /\
     Forall2 sell_reads fw zl /\
     Forall (fun o => gate clean b o = GForward) fw /\
     Forall (fun sq => exists h, sget zh (fst sq) = Some h /\ (0 < snd sq <= h)%Z) zl /\
     NoDup (map fst zl) /\ incl (map fst zl) ord /\
     (- zc + 1000 <= zvalue zb zl)%Z).
Proof.
  intros W ND Hk Hf Hz Hneg B Hb H zl. unfold rebalance_cash in H.
  change (@fltb float NFl) with PrimFloat.ltb in H. change (@fzero float NFl) with 0%float in H.
  rewrite (int_float_ltb _ _ _ _ Hz int_float_zero) in H.
  destruct (Z.ltb_spec zc 0) as [_ | L]; [| lia].
  pose proof (request_float b zc Hz Hneg Hb) as Hreq.
  match type of H with bind ?w _ = _ => destruct w as [[[b1 ev] fw1] | m |] eqn:Hw end;
    cbn [bind] in H; try discriminate.
  assert (Ho : is_order_of ord (b_holdings b) = true).
  { unfold withdraw_cash_with_liquidation in Hw.
    destruct (is_order_of ord (b_holdings b)); [reflexivity | discriminate]. }
  assert (Hr : (0 <= - zc + 1000 < 2 ^ 53)%Z) by lia.
  pose proof (liq_frame _ _ _ _ _ _ _ Hw) as (_ & _ & _ & Ff & _).
  pose proof (liquidation_float_verdict tbl zb b zh zc _ (- zc + 1000)%Z ord b1 ev fw1 W ND Hk Hz B Hreq Hr Hw)
    as Hv.
  pose proof (liquidation_float tbl zb b zh _ (- zc + 1000)%Z ord b1 ev fw1 W Hf Hreq Hr Hw) as L3.
  cbv zeta in L3. fold zl in L3. clearbody zl.
  split; [exact (liquidation_value_float b zh zc ord W ND Hk Hz Ho B) |].
  destruct (Z.leb_spec (- zc + 1000) (zc + zhsum zb zh)) as [Le | Lt].
  - (* covered *)
    destruct (Z.leb_spec (- zc + 1000) (zhsum zb zh)) as [_ | Lt2]; [| lia].
    cbn [andb] in Hv. subst ev. inversion H; subst b1 fw1; clear H.
    destruct L3 as (_ & _ & _ & A1 & A2 & A3 & A4 & A5 & A6).
    split; [split; [intros Ht; congruence | lia] |].
    split; [intros Ht; congruence |]. intros _.
    split.
    + intros Efw. rewrite Efw in A1.
      assert (Ezl : zl = []) by (inversion A1; reflexivity).
      rewrite Ezl in A6. cbn [zvalue fold_right] in A6. lia.
    + repeat split; assumption.
  - (* not covered *)
    cbn [andb] in Hv. subst ev. inversion H; subst b' fw1; clear H.
    destruct L3 as (_ & -> & ->).
    split; [split; [intros _; exact Lt | intros _; reflexivity] |].
    split; [intros _; split; reflexivity |].
    cbn [set_failed b_failed]. discriminate.
Qed.

(* the same, read as a decision: Ready iff covered *)
Corollary ready_iff_float (b : broker float) zh zc ord b' fw :
  lrel zb b zh -> NoDup (map fst zh) -> b_costs b = [] -> b_failed b = false ->
  int_float (b_cash b) zc -> (zc < 0)%Z ->
  (Z.abs zc + zhsum zb zh < 2 ^ 53)%Z -> (- zc + 1000 < 2 ^ 53)%Z ->
  rebalance_cash clean b ord = Ok (b', fw) ->
  (b_failed b' = false <-> (- zc + 1000 <= zc + zhsum zb zh)%Z).
Proof.
  intros W ND Hk Hf Hz Hneg B Hb H.
  destruct (failed_iff_float b zh zc ord b' fw W ND Hk Hf Hz Hneg B Hb H) as (_ & [I1 I2] & _).
  destruct (b_failed b') eqn:E.
  - split; [discriminate |]. intros Hle. specialize (I1 eq_refl). lia.
  - split; [| reflexivity]. intros _.
    destruct (Z.lt_ge_cases (zc + zhsum zb zh) (- zc + 1000)) as [Hlt | Hge]; [| exact Hge].
    specialize (I2 Hlt). discriminate.
Qed.

(* ------------------------------------------------------------------------------------------- *)
(* (F2) … and as [check] makes it, on the state after the tick's trades are booked               *)

Theorem check_failed_iff_float (b : broker float) resp zh zc ord b' fw :
  let b1 := booked b resp in
  lrel zb b1 zh -> NoDup (map fst zh) -> b_costs b1 = [] -> b_failed b1 = false ->
  int_float (b_cash b1) zc ->
  ((zc < 0)%Z -> (Z.abs zc + zhsum zb zh < 2 ^ 53)%Z /\ (- zc + 1000 < 2 ^ 53)%Z) ->
  check clean b resp ord = Ok (b', fw) ->
  let zl := znz (snd (zliq zb zh ord (- zc + 1000))) in
  (* Failed iff the booked cash is negative and shortfall + 1000 exceeds the liquidation value *)
  (b_failed b' = true <-> (zc < 0 /\ zc + zhsum zb zh < - zc + 1000)%Z) /\
  (* a non-negative booked cash: stays Ready, nothing sent, nothing else done *)
  ((0 <= zc)%Z -> b' = b1 /\ fw = [] /\ b_failed b' = false) /\
  (* a negative booked cash *)
  ((zc < 0)%Z ->
     int_float (liquidation_value b1 ord) (zc + zhsum zb zh) /\
     (b_failed b' = true -> fw = [] /\ b' = set_failed b1) /\
     (b_failed b' = false ->
        fw <> [] /\
        Forall2 sell_reads fw zl /\
        Forall (fun o => gate clean b1 o = GForward) fw /\
        Forall (fun sq => exists h, sget zh (fst sq) = Some h /\ (0 < snd sq <= h)%Z) zl /\
        NoDup (map fst zl) /\ incl (map fst zl) ord /\
        (- zc + 1000 <= zvalue zb zl)%Z)).
Proof.
  intros b1 W ND Hk Hf Hz Hb H zl. unfold check in H. fold (booked b resp) in H. fold b1 in H.
  change (@fltb float NFl) with PrimFloat.ltb in H. change (@fzero float NFl) with 0%float in H.
  rewrite (int_float_ltb _ _ _ _ Hz int_float_zero) in H.
  destruct (Z.ltb_spec zc 0) as [Hneg | Hpos].
  - destruct (Hb Hneg) as [B1 B2].
    destruct (failed_iff_float b1 zh zc ord b' fw W ND Hk Hf Hz Hneg B1 B2 H) as (Lv & [I1 I2] & Ft & Fr).
    fold zl in Fr.
    split; [split; [intros Ht; split; [exact Hneg | exact (I1 Ht)] | intros [_ Hlt]; exact (I2 Hlt)] |].
    split; [intros Hge; lia |]. intros _.
    split; [exact Lv |]. split; [exact Ft | exact Fr].
  - inversion H; subst b' fw; clear H.
    split; [split; [intros Ht; congruence | intros [Hlt _]; lia] |].
    split; [intros _; split; [reflexivity | split; [reflexivity | exact Hf]] |].
    intros Hlt. lia.
Qed.

End AtFloatFailed.

(* ------------------------------------------------------------------------------------------- *)
(* (F3) each way, evaluated by the kernel                                                        *)

Definition exf9_q (s : string) (bid : float) : quote float := mkQuote bid bid 1%Z s.
Definition exf9_zb (s : string) : Z := 100%Z.
Definition exf9_ord : list string := ["ABC"%string].

(* holdings ABC 5 @ bid 100, cash -300: shortfall + 1000 = 1300 > 200 = liquidation value -> Failed *)
Definition exf9_fail : broker float :=
  mkBroker (-300)%float [("ABC"%string, 5%float)] [] [("ABC"%string, exf9_q "ABC" 100%float)] [] [] false.
(* holdings ABC 20 @ bid 100, cash -300: 1300 <= 1700 -> Ready, sells 13 ABC *)
Definition exf9_ready : broker float :=
  mkBroker (-300)%float [("ABC"%string, 20%float)] [] [("ABC"%string, exf9_q "ABC" 100%float)] [] [] false.

Example exf9_fail_run :
  rebalance_cash (NF := FloatNum []) clean exf9_fail exf9_ord = Ok (set_failed exf9_fail, []) /\
  liquidation_value (NF := FloatNum []) exf9_fail exf9_ord = 200%float /\
  PrimFloat.add (PrimFloat.mul (-300) (-1)) 1000 = 1300%float.
Proof. vm_compute. repeat split; reflexivity. Qed.

Example exf9_ready_run :
  rebalance_cash (NF := FloatNum []) clean exf9_ready exf9_ord =
    Ok (mkBroker (-300)%float [("ABC"%string, 20%float)] [("ABC"%string, (-13)%float)]
                 [("ABC"%string, exf9_q "ABC" 100%float)] [] [] false,
        [mkUOrder MarketSell "ABC" 13%float None]) /\
  liquidation_value (NF := FloatNum []) exf9_ready exf9_ord = 1700%float.
Proof. vm_compute. split; reflexivity. Qed.

(* the same through [check] with nothing to book *)
Example exf9_check_runs :
  check (NF := FloatNum []) clean exf9_fail None exf9_ord = Ok (set_failed exf9_fail, []) /\
  (exists b', check (NF := FloatNum []) clean exf9_ready None exf9_ord =
              Ok (b', [mkUOrder MarketSell "ABC" 13%float None]) /\ b_failed b' = false).
Proof. split; [vm_compute; reflexivity |]. eexists. split; vm_compute; reflexivity. Qed.

(* the integer side: zhsum 500 / 2000; the integer loop sells 13 shares worth 1300 *)
Example exf9_zside :
  zhsum exf9_zb [("ABC"%string, 5%Z)] = 500%Z /\ zhsum exf9_zb [("ABC"%string, 20%Z)] = 2000%Z /\
  znz (snd (zliq exf9_zb [("ABC"%string, 20%Z)] exf9_ord (- -300 + 1000))) = [("ABC"%string, 13%Z)] /\
  zvalue exf9_zb [("ABC"%string, 13%Z)] = 1300%Z.
Proof. vm_compute. repeat split; reflexivity. Qed.

(* the premises of the theorems hold at the examples *)
Lemma exf9_lrel cash n pend : (0 < n)%Z -> (100 * n < 2 ^ 53)%Z ->
  lrel exf9_zb (mkBroker cash [("ABC"%string, float_ofZ n)] pend [("ABC"%string, exf9_q "ABC" 100%float)] [] [] false)
       [("ABC"%string, n)].
Proof.
  intros Hn Hb. split.
  - unfold hrel. cbn [b_holdings].
    constructor; [split; [reflexivity | apply int_float_ofZ; cbn [snd]; lia] | constructor].
  - intros s q G. cbn [sget] in G. unfold exf9_zb.
    destruct (String.eqb_spec s "ABC") as [-> | N1]; [| discriminate].
    inversion G; subst q. repeat split; try lia.
    exists (exf9_q "ABC" 100%float). split; [reflexivity | exact (int_float_ofZ 100 eq_refl)].
Qed.

Lemma exf9_nodup n : NoDup (map fst [("ABC"%string, n : Z)]).
Proof. constructor; [intros [] | constructor]. Qed.

Lemma exf9_cash : int_float (-300)%float (-300).
Proof. exact (int_float_ofZ (-300) eq_refl). Qed.

(* (F1) at the examples, with the integer side computed: the Failed way … *)
Example exf9_theorem_fail :
  forall b' fw, rebalance_cash (NF := FloatNum []) clean exf9_fail exf9_ord = Ok (b', fw) ->
  b_failed b' = true /\ fw = [] /\ b' = set_failed exf9_fail /\ (-300 + 500 < - -300 + 1000)%Z.
Proof.
  intros b' fw H.
  pose proof (failed_iff_float [] exf9_zb exf9_fail [("ABC"%string, 5%Z)] (-300) exf9_ord b' fw
                (exf9_lrel _ 5 _ ltac:(lia) ltac:(lia)) (exf9_nodup 5) eq_refl eq_refl exf9_cash
                ltac:(lia) ltac:(vm_compute; reflexivity) ltac:(lia) H) as T.
  cbv zeta in T. destruct T as (_ & [_ I2] & Ft & _).
  replace (zhsum exf9_zb [("ABC"%string, 5%Z)]) with 500%Z in I2 by (vm_compute; reflexivity).
  assert (Hlt : (-300 + 500 < - -300 + 1000)%Z) by lia.
  pose proof (I2 Hlt) as Ht. destruct (Ft Ht) as [F1 F2].
  split; [exact Ht | split; [exact F1 | split; [exact F2 | exact Hlt]]].
Qed.

(* … and the Ready way *)
Example exf9_theorem_ready :
  forall b' fw, rebalance_cash (NF := FloatNum []) clean exf9_ready exf9_ord = Ok (b', fw) ->
  b_failed b' = false /\ fw <> [] /\ Forall2 sell_reads fw [("ABC"%string, 13%Z)] /\
  Forall (fun o => gate (NF := FloatNum []) clean exf9_ready o = GForward) fw /\
  (- -300 + 1000 <= zvalue exf9_zb [("ABC"%string, 13%Z)])%Z.
Proof.
  intros b' fw H.
  pose proof (ready_iff_float [] exf9_zb exf9_ready [("ABC"%string, 20%Z)] (-300) exf9_ord b' fw
                (exf9_lrel _ 20 _ ltac:(lia) ltac:(lia)) (exf9_nodup 20) eq_refl eq_refl exf9_cash
                ltac:(lia) ltac:(vm_compute; reflexivity) ltac:(lia) H) as [_ R].
  replace (zhsum exf9_zb [("ABC"%string, 20%Z)]) with 2000%Z in R by (vm_compute; reflexivity).
  pose proof (R ltac:(lia)) as Hr.
  pose proof (failed_iff_float [] exf9_zb exf9_ready [("ABC"%string, 20%Z)] (-300) exf9_ord b' fw
                (exf9_lrel _ 20 _ ltac:(lia) ltac:(lia)) (exf9_nodup 20) eq_refl eq_refl exf9_cash
                ltac:(lia) ltac:(vm_compute; reflexivity) ltac:(lia) H) as T.
  cbv zeta in T. destruct T as (_ & _ & _ & Fr).
  destruct (Fr Hr) as (A0 & A1 & A2 & _ & _ & _ & A6).
  replace (znz (snd (zliq exf9_zb [("ABC"%string, 20%Z)] exf9_ord (- -300 + 1000))))
    with [("ABC"%string, 13%Z)] in * by (vm_compute; reflexivity).
  split; [exact Hr | split; [exact A0 | split; [exact A1 | split; [exact A2 | exact A6]]]].
Qed.

Print Assumptions liquidation_value_float.
Print Assumptions failed_iff_float.
Print Assumptions ready_iff_float.
Print Assumptions check_failed_iff_float.
Print Assumptions exf9_fail_run.
Print Assumptions exf9_ready_run.
Print Assumptions exf9_check_runs.
Print Assumptions exf9_theorem_fail.
Print Assumptions exf9_theorem_ready.
