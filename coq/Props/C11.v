(* C11 — valuation uses the last seen bid and satisfies the portfolio identities. Statements only. *)
From Coq Require Import ZArith NArith List Bool String Permutation Reals.
From Flocq Require Import Raux.
From Alator Require Import Model.Num Model.Quirks Model.Cost Model.Exchange Model.Uist Model.Broker
  Proofs.CostProofs Proofs.BrokerLiqProofs.
Import ListNotations.
Local Existing Instance RNum.
Local Open Scope R_scope.

(* A position is valued at quantity x the bid of the last seen quote of its symbol. *)
Theorem c11_position_value :
  forall (b : broker R) (s : string) (q : quote R) (qty : R),
         sget (b_quotes b) s = Some q ->
         sget (b_holdings b) s = Some qty -> position_value b s = Some (q_bid q * qty).
Proof. exact @position_value_spec. Qed.

(* [R] total value = cash + sum of position values … *)
Theorem c11_total :
  forall (b : broker R) (ord : list string),
         total_value b ord = b_cash b + sumR (pv b) ord.
Proof. exact @total_value_sum. Qed.

(* [R] … for every iteration order of the holdings. *)
Theorem c11_total_any_order :
  forall (b : broker R) (o1 o2 : list string),
         Permutation o1 o2 -> total_value b o1 = total_value b o2.
Proof. exact @total_value_perm. Qed.

(* [R] liquidation value = cash + sum of position liquidation values … *)
Theorem c11_liq_sum :
  forall (b : broker R) (ord : list string),
         liquidation_value b ord = b_cash b + sumR (plv b) ord.
Proof. exact @liquidation_value_sum. Qed.

(* [R] … for every iteration order. *)
Theorem c11_liq_any_order :
  forall (b : broker R) (o1 o2 : list string),
         Permutation o1 o2 -> liquidation_value b o1 = liquidation_value b o2.
Proof. exact @liquidation_value_perm. Qed.

(* [R] Liquidation value never exceeds total value for a long portfolio with admissible costs. *)
Theorem c11_liq_le_total :
  forall (b : broker R) (ord : list string),
         long_portfolio b ->
         Forall cost_ok1 (b_costs b) -> liquidation_value b ord <= total_value b ord.
Proof. exact @liq_le_total. Qed.

(* Without trade costs they are equal — for every Num F (the two folds are the same computation). *)
Theorem c11_liq_eq_total_without_costs :
  forall (F : Type) (NF : Num F) (b : broker F) (ord : list string),
         b_costs b = [] -> liquidation_value b ord = total_value b ord.
Proof. exact @liq_eq_total_nocosts. Qed.

(* [R] Cost basis = net amount paid / net quantity over the trades since the position was last flat (flat_split: the independent description of that suffix) … *)
Theorem c11_cost_basis :
  forall (s : string) (log l1 l2 : list (trade R)),
         flat_split s log l1 l2 ->
         cost_basis log s =
         (if Req_bool (sumR (sq s) l2) 0 then None else Some (sumR (sv s) l2 / sumR (sq s) l2)).
Proof. exact @cost_basis_spec. Qed.

(* … such a split always exists … *)
Theorem c11_flat_split_exists :
  forall (s : string) (log : list (trade R)),
         exists l1 l2 : list (trade R), flat_split s log l1 l2.
Proof. exact @flat_split_exists. Qed.

(* … and it is undefined exactly for a flat position. *)
Theorem c11_cost_basis_undefined_iff_flat :
  forall (s : string) (log : list (trade R)),
         cost_basis log s = None <-> sumR (sq s) log = 0.
Proof. exact @cost_basis_none_iff. Qed.

(* [R] position profit = position value - quantity x cost basis. *)
Theorem c11_profit :
  forall (b : broker R) (s : string) (cost qty v : R),
         cost_basis (b_log b) s = Some cost ->
         position_qty b s = Some qty ->
         position_value b s = Some v -> qty <> 0 -> position_profit b s = Some (v - qty * cost).
Proof. exact @profit_spec. Qed.

Print Assumptions c11_position_value.
Print Assumptions c11_total.
Print Assumptions c11_total_any_order.
Print Assumptions c11_liq_sum.
Print Assumptions c11_liq_any_order.
Print Assumptions c11_liq_le_total.
Print Assumptions c11_liq_eq_total_without_costs.
Print Assumptions c11_cost_basis.
Print Assumptions c11_flat_split_exists.
Print Assumptions c11_cost_basis_undefined_iff_flat.
Print Assumptions c11_profit.
