(* ====================================================================== *)
(*  Proofs/SortProofs.v                                                     *)
(*                                                                          *)
(*  Theorems about Model/Sort.v for the exchange's comparator, which looks  *)
(*  only at its first argument:  is_less a _ := key a   ("a is a sell").    *)
(* ====================================================================== *)

From Coq Require Import List NArith ZArith Bool Lia Permutation Arith ZifyNat ZifyN.
From Alator Require Import Model.Sort.
Import ListNotations.

Ltac Zify.zify_post_hook ::= Z.div_mod_to_equations.

Set Implicit Arguments.

Section KeyFirst.

Context {A : Type}.
Variable key : A -> bool.

Definition nkey (a : A) : bool := negb (key a).
(* the comparator: is_less a b = (compare a b == Less) = "a is a sell" *)
Definition isl (a _b : A) : bool := key a.

(* ---------------------------------------------------------------------- *)
(*  sells-first                                                           *)
(* ---------------------------------------------------------------------- *)

(* every element with key true precedes every element with key false *)
Definition sells_first (r : list A) : Prop :=
  exists n, forallb key (firstn n r) = true /\ forallb nkey (skipn n r) = true.

(* boolean version *)
Fixpoint sells_first_b (r : list A) : bool :=
  match r with
  | [] => true
  | x :: t => if key x then sells_first_b t else forallb nkey t
  end.

(* working form *)
Definition SF (l : list A) : Prop :=
  exists s b, l = s ++ b /\ forallb key s = true /\ forallb nkey b = true.

Lemma SF_sells_first l : SF l <-> sells_first l.
Proof.
  split.
  - intros (s & b & -> & Hs & Hb). exists (length s).
    rewrite firstn_app, Nat.sub_diag, firstn_all, firstn_O, app_nil_r.
    rewrite skipn_app, Nat.sub_diag, skipn_all, skipn_O. simpl. auto.
  - intros (n & Hs & Hb). exists (firstn n l), (skipn n l).
    rewrite firstn_skipn. auto.
Qed.

Lemma SF_b l : sells_first_b l = true <-> SF l.
Proof.
  induction l as [|x t IH]; simpl.
  - split; auto. intros _. exists [], []. auto.
  - destruct (key x) eqn:Kx.
    + rewrite IH. split.
      * intros (s & b & -> & Hs & Hb). exists (x :: s), b. simpl. rewrite Kx, Hs. auto.
      * intros (s & b & E & Hs & Hb). destruct s as [|y s].
        -- simpl in E. subst b. simpl in Hb. unfold nkey at 1 in Hb. rewrite Kx in Hb. discriminate.
        -- simpl in E. injection E as -> ->. simpl in Hs. apply andb_prop in Hs as [_ Hs].
           exists s, b. auto.
    + split.
      * intros Hb. exists [], (x :: t). simpl. unfold nkey at 1. rewrite Kx. auto.
      * intros (s & b & E & Hs & Hb). destruct s as [|y s].
        -- simpl in E. subst b. simpl in Hb. apply andb_prop in Hb as [_ Hb]. exact Hb.
        -- simpl in E. injection E as -> ->. simpl in Hs. rewrite Kx in Hs. discriminate.
Qed.

Lemma sells_first_b_spec l : sells_first_b l = true <-> sells_first l.
Proof. rewrite SF_b. apply SF_sells_first. Qed.

Lemma SF_nil : SF [].
Proof. exists [], []. auto. Qed.

Lemma SF_intro s b : forallb key s = true -> forallb nkey b = true -> SF (s ++ b).
Proof. intros Hs Hb. exists s, b. auto. Qed.

Lemma SF_all_buys b : forallb nkey b = true -> SF b.
Proof. intros Hb. exists [], b. auto. Qed.

Lemma SF_all_sells s : forallb key s = true -> SF s.
Proof. intros Hs. exists s, []. rewrite app_nil_r. auto. Qed.

Lemma SF_sells_app s l : forallb key s = true -> SF l -> SF (s ++ l).
Proof.
  intros Hs (s' & b & -> & Hs' & Hb). exists (s ++ s'), b.
  rewrite app_assoc, forallb_app, Hs, Hs'. auto.
Qed.

Lemma SF_app_buys l b : SF l -> forallb nkey b = true -> SF (l ++ b).
Proof.
  intros (s & b' & -> & Hs & Hb') Hb. exists s, (b' ++ b).
  rewrite <- app_assoc, forallb_app, Hb, Hb'. auto.
Qed.

Lemma SF_single x : SF [x].
Proof.
  destruct (key x) eqn:K.
  - apply SF_all_sells. simpl. rewrite K. auto.
  - apply SF_all_buys. simpl. unfold nkey. rewrite K. auto.
Qed.

Lemma forallb_filter_key l : forallb key (filter key l) = true.
Proof. induction l as [|x t IH]; simpl; auto. destruct (key x) eqn:K; simpl; rewrite ?K; auto. Qed.

Lemma forallb_filter_nkey l : forallb nkey (filter nkey l) = true.
Proof. induction l as [|x t IH]; simpl; auto. destruct (nkey x) eqn:K; simpl; rewrite ?K; auto. Qed.

Lemma forallb_rev (f : A -> bool) l : forallb f (rev l) = forallb f l.
Proof.
  induction l as [|x t IH]; simpl; auto.
  rewrite forallb_app, IH. simpl. rewrite andb_true_r, andb_comm. reflexivity.
Qed.

Lemma forallb_perm (f : A -> bool) l l' : Permutation l l' -> forallb f l = forallb f l'.
Proof.
  induction 1; simpl; auto.
  - rewrite IHPermutation. reflexivity.
  - rewrite !andb_assoc. f_equal. apply andb_comm.
  - congruence.
Qed.

Lemma filter_all (f : A -> bool) l : forallb f l = true -> filter f l = l.
Proof.
  induction l as [|x t IH]; simpl; auto. intros H. apply andb_prop in H as [Hx Ht].
  rewrite Hx, IH; auto.
Qed.

Lemma filter_none (f : A -> bool) l : forallb (fun x => negb (f x)) l = true -> filter f l = [].
Proof.
  induction l as [|x t IH]; simpl; auto. intros H. apply andb_prop in H as [Hx Ht].
  apply negb_true_iff in Hx. rewrite Hx, IH; auto.
Qed.

Lemma filter_key_perm l : Permutation (filter key l ++ filter nkey l) l.
Proof.
  induction l as [|x t IH]; simpl; auto. unfold nkey at 1.
  destruct (key x); simpl.
  - apply perm_skip. exact IH.
  - apply Permutation_sym. apply Permutation_cons_app. apply Permutation_sym. exact IH.
Qed.

(* ---------------------------------------------------------------------- *)
(*  insert_tail / insertion sort                                          *)
(* ---------------------------------------------------------------------- *)

Lemma insert_tail_rev_sell x rp : key x = true -> insert_tail_rev isl x rp = rp ++ [x].
Proof. intros K. induction rp as [|e rp IH]; simpl; auto. unfold isl at 1. rewrite K, IH. auto. Qed.

Lemma insert_tail_rev_buy x rp : key x = false -> insert_tail_rev isl x rp = x :: rp.
Proof. intros K. destruct rp as [|e rp]; simpl; auto. unfold isl. rewrite K. auto. Qed.

Lemma insert_tails_fold rest rp :
  fold_left (fun rp x => insert_tail_rev isl x rp) rest rp
  = rev (filter nkey rest) ++ rp ++ filter key rest.
Proof.
  revert rp. induction rest as [|x t IH]; intros rp; simpl.
  - rewrite app_nil_r. reflexivity.
  - unfold nkey at 1. destruct (key x) eqn:K; simpl.
    + rewrite insert_tail_rev_sell by exact K. rewrite IH. rewrite <- !app_assoc. reflexivity.
    + rewrite insert_tail_rev_buy by exact K. rewrite IH. rewrite <- !app_assoc. reflexivity.
Qed.

(* closed form of the insertion loop *)
Lemma insert_tails_closed pre rest :
  insert_tails isl pre rest = rev (filter key rest) ++ pre ++ filter nkey rest.
Proof.
  unfold insert_tails. rewrite insert_tails_fold.
  rewrite !rev_app_distr, !rev_involutive, <- app_assoc. reflexivity.
Qed.

Lemma insert_tails_perm pre rest : Permutation (insert_tails isl pre rest) (pre ++ rest).
Proof.
  rewrite insert_tails_closed.
  rewrite app_assoc. rewrite (Permutation_app_comm (rev (filter key rest)) pre).
  rewrite <- app_assoc. apply Permutation_app_head.
  rewrite <- (Permutation_rev (filter key rest)). apply filter_key_perm.
Qed.

Lemma insert_tails_SF pre rest : SF pre -> SF (insert_tails isl pre rest).
Proof.
  intros H. rewrite insert_tails_closed.
  apply SF_sells_app. { rewrite forallb_rev. apply forallb_filter_key. }
  apply SF_app_buys; auto. apply forallb_filter_nkey.
Qed.

(* T0, raw form: the whole-slice insertion sort *)
Lemma insertion_sort_closed l :
  l <> [] ->
  insertion_sort_shift_left isl l 1 = Done (rev (filter key l) ++ filter nkey l).
Proof.
  intros Hl. destruct l as [|x t]; [congruence|].
  unfold insertion_sort_shift_left.
  replace ((1 =? 0)%N || (lenN (x :: t) <? 1)%N) with false.
  2:{ symmetry. apply orb_false_iff. split; [reflexivity|]. apply N.ltb_ge. unfold lenN. simpl length. lia. }
  unfold firstnN, skipnN. change (N.to_nat 1) with 1%nat. simpl firstn. simpl skipn.
  rewrite insert_tails_closed. f_equal. simpl. unfold nkey at 2.
  destruct (key x) eqn:K; simpl.
  - rewrite <- app_assoc. reflexivity.
  - reflexivity.
Qed.

(* ---------------------------------------------------------------------- *)
(*  sort4_stable                                                          *)
(* ---------------------------------------------------------------------- *)

Ltac perm_small :=
  repeat first
    [ apply Permutation_refl
    | apply perm_skip
    | apply (@Permutation_cons_app _ _ [_] _ _); simpl
    | apply (@Permutation_cons_app _ _ [_; _] _ _); simpl
    | apply (@Permutation_cons_app _ _ [_; _; _] _ _); simpl ].

Lemma sort4_stable_spec v0 v1 v2 v3 :
  Permutation (sort4_stable isl v0 v1 v2 v3) [v0; v1; v2; v3]
  /\ sells_first_b (sort4_stable isl v0 v1 v2 v3) = true.
Proof.
  unfold sort4_stable, isl.
  destruct (key v0) eqn:K0, (key v1) eqn:K1, (key v2) eqn:K2, (key v3) eqn:K3;
    repeat progress (cbn; rewrite ?K0, ?K1, ?K2, ?K3);
    (split; [ perm_small | cbn; unfold nkey; rewrite ?K0, ?K1, ?K2, ?K3; reflexivity ]).
Qed.

Lemma sort4_stable_l_spec l :
  (4 <= length l)%nat ->
  exists r, sort4_stable_l isl l = Some r /\ Permutation r (firstn 4 l) /\ SF r /\ length r = 4%nat.
Proof.
  intros Hl. destruct l as [|v0 [|v1 [|v2 [|v3 t]]]]; simpl in Hl; try lia.
  simpl. eexists. split; [reflexivity|].
  destruct (sort4_stable_spec v0 v1 v2 v3) as [Hp Hs].
  split; [exact Hp|]. split; [apply SF_b; exact Hs|]. reflexivity.
Qed.

(* ---------------------------------------------------------------------- *)
(*  bidirectional_merge                                                   *)
(* ---------------------------------------------------------------------- *)

Lemma skipn_nth_cons (l : list A) (d : A) i :
  (i < length l)%nat -> skipn i l = nth i l d :: skipn (S i) l.
Proof.
  revert i. induction l as [|x t IH]; intros i Hi; simpl in Hi; [lia|].
  destruct i as [|i]; simpl; auto. apply IH. lia.
Qed.

Lemma firstn_snoc (l : list A) (d : A) k :
  (k < length l)%nat -> firstn (S k) l = firstn k l ++ [nth k l d].
Proof.
  revert k. induction l as [|x t IH]; intros k Hk; simpl in Hk; [lia|].
  destruct k as [|k]; simpl; auto. f_equal. apply IH. lia.
Qed.

Lemma nth_skipn_ (l : list A) (d : A) i k : nth k (skipn i l) d = nth (i + k) l d.
Proof.
  revert l. induction i as [|i IH]; intros l; simpl; auto.
  destruct l as [|x t]; simpl; auto. destruct k; reflexivity.
Qed.

Section Bidir.
Variable src : list A.
Variable d : A.

Definition slice (i k : nat) : list A := firstn k (skipn i src).

Lemma slice_cons i k : (i < length src)%nat -> slice i (S k) = nth i src d :: slice (S i) k.
Proof. intros Hi. unfold slice. rewrite (skipn_nth_cons src d Hi). reflexivity. Qed.

Lemma slice_snoc i k : (i + k < length src)%nat -> slice i (S k) = slice i k ++ [nth (i + k) src d].
Proof.
  intros Hi. unfold slice. rewrite (@firstn_snoc (skipn i src) d k).
  - rewrite nth_skipn_. reflexivity.
  - rewrite skipn_length. lia.
Qed.

Fixpoint up_loop (n : nat) (lft rgt : N) (front : list A) : N * N * list A :=
  match n with
  | O => (lft, rgt, front)
  | S n' =>
    let l := nthN lft src d in
    let r := nthN rgt src d in
    if key r then up_loop n' lft (rgt + 1) (r :: front)
    else up_loop n' (lft + 1) rgt (l :: front)
  end.

Fixpoint down_loop (n : nat) (lft_end rgt_end : N) (back : list A) : N * N * list A :=
  match n with
  | O => (lft_end, rgt_end, back)
  | S n' =>
    let lr := nthN (lft_end - 1) src d in
    let rr := nthN (rgt_end - 1) src d in
    if key rr then down_loop n' (lft_end - 1) rgt_end (lr :: back)
    else down_loop n' lft_end (rgt_end - 1) (rr :: back)
  end.

Lemma bidir_split n : forall l r le re f b,
  bidir_loop isl n src d l r le re f b =
  let '(l', r', f') := up_loop n l r f in
  let '(le', re', b') := down_loop n le re b in
  (l', r', le', re', f', b').
Proof.
  induction n as [|n IH]; intros l r le re f b; simpl; auto.
  unfold isl.
  destruct (key (nthN r src d)), (key (nthN (re - 1) src d)); simpl; apply IH.
Qed.

Lemma up_compose k : forall m l r f,
  up_loop (k + m) l r f = let '(l', r', f') := up_loop k l r f in up_loop m l' r' f'.
Proof.
  induction k as [|k IH]; intros m l r f; simpl; auto.
  destruct (key (nthN r src d)); apply IH.
Qed.

Lemma down_compose k : forall m le re b,
  down_loop (k + m) le re b = let '(le', re', b') := down_loop k le re b in down_loop m le' re' b'.
Proof.
  induction k as [|k IH]; intros m le re b; simpl; auto.
  destruct (key (nthN (re - 1) src d)); apply IH.
Qed.

(* phase 1 of the forward thread: the right cursor runs over sells *)
Lemma up_sells k : forall l r f,
  (N.to_nat r + k <= length src)%nat ->
  forallb key (slice (N.to_nat r) k) = true ->
  up_loop k l r f = (l, (r + N.of_nat k)%N, rev (slice (N.to_nat r) k) ++ f).
Proof.
  induction k as [|k IH]; intros l r f Hb Hk.
  - simpl. f_equal. f_equal. lia.
  - rewrite (@slice_cons (N.to_nat r) k) in * by lia.
    simpl in Hk. apply andb_prop in Hk as [K1 K2].
    simpl. unfold nthN. rewrite K1.
    rewrite IH.
    + replace (N.to_nat (r + 1)) with (S (N.to_nat r)) by lia.
      f_equal; [f_equal; lia|]. simpl. rewrite <- app_assoc. reflexivity.
    + lia.
    + replace (N.to_nat (r + 1)) with (S (N.to_nat r)) by lia. exact K2.
Qed.

(* phase 2 of the forward thread: the right cursor sits on a buy *)
Lemma up_buy m : forall l r f,
  key (nthN r src d) = false ->
  (N.to_nat l + m <= length src)%nat ->
  up_loop m l r f = ((l + N.of_nat m)%N, r, rev (slice (N.to_nat l) m) ++ f).
Proof.
  induction m as [|m IH]; intros l r f Kr Hb.
  - simpl. f_equal. f_equal. lia.
  - simpl. rewrite Kr. rewrite IH by (auto; lia).
    rewrite (@slice_cons (N.to_nat l) m) by lia.
    replace (N.to_nat (l + 1)) with (S (N.to_nat l)) by lia.
    f_equal; [f_equal; lia|]. simpl. rewrite <- app_assoc. reflexivity.
Qed.

(* phase 1 of the backward thread: the right cursor runs over buys *)
Lemma down_buys k : forall le re b,
  (k <= N.to_nat re)%nat -> (N.to_nat re <= length src)%nat ->
  forallb nkey (slice (N.to_nat re - k) k) = true ->
  down_loop k le re b = (le, (re - N.of_nat k)%N, slice (N.to_nat re - k) k ++ b).
Proof.
  induction k as [|k IH]; intros le re b Hk Hb Hf.
  - simpl. f_equal. f_equal. lia.
  - rewrite (@slice_snoc (N.to_nat re - S k) k) in * by lia.
    rewrite forallb_app in Hf. apply andb_prop in Hf as [F1 F2].
    simpl in F2. rewrite andb_true_r in F2.
    replace (N.to_nat re - S k + k)%nat with (N.to_nat (re - 1)) in * by lia.
    unfold nkey in F2. apply negb_true_iff in F2.
    simpl. unfold nthN. rewrite F2.
    rewrite IH.
    + replace (N.to_nat (re - 1) - k)%nat with (N.to_nat re - S k)%nat by lia.
      f_equal; [f_equal; lia|]. rewrite <- app_assoc. reflexivity.
    + lia.
    + lia.
    + replace (N.to_nat (re - 1) - k)%nat with (N.to_nat re - S k)%nat by lia. exact F1.
Qed.

(* phase 2 of the backward thread: the right cursor sits on a sell *)
Lemma down_sell m : forall le re b,
  key (nthN (re - 1) src d) = true ->
  (m <= N.to_nat le)%nat -> (N.to_nat le <= length src)%nat ->
  down_loop m le re b = ((le - N.of_nat m)%N, re, slice (N.to_nat le - m) m ++ b).
Proof.
  induction m as [|m IH]; intros le re b Kr Hm Hb.
  - simpl. f_equal. f_equal. lia.
  - simpl. rewrite Kr. rewrite IH by (auto; lia).
    rewrite (@slice_snoc (N.to_nat le - S m) m) by lia.
    replace (N.to_nat le - S m + m)%nat with (N.to_nat (le - 1)) by lia.
    replace (N.to_nat (le - 1) - m)%nat with (N.to_nat le - S m)%nat by lia.
    f_equal; [f_equal; lia|]. rewrite <- app_assoc. reflexivity.
Qed.

End Bidir.

Lemma slice_app_l (l1 l2 : list A) i k :
  (i + k <= length l1)%nat -> firstn k (skipn i (l1 ++ l2)) = firstn k (skipn i l1).
Proof.
  intros H. rewrite skipn_app, firstn_app, skipn_length.
  replace (k - (length l1 - i))%nat with 0%nat by lia. rewrite firstn_O, app_nil_r. reflexivity.
Qed.

Lemma slice_app_r (l1 l2 : list A) i k :
  (length l1 <= i)%nat -> firstn k (skipn i (l1 ++ l2)) = firstn k (skipn (i - length l1) l2).
Proof.
  intros H. rewrite skipn_app. rewrite (skipn_all2 l1) by lia. reflexivity.
Qed.

Lemma forallb_firstn_ (f : A -> bool) k l : forallb f l = true -> forallb f (firstn k l) = true.
Proof.
  revert k. induction l as [|x t IH]; intros k H; destruct k; simpl; auto.
  simpl in H. apply andb_prop in H as [Hx Ht]. rewrite Hx. simpl. apply IH. exact Ht.
Qed.

Lemma forallb_skipn_ (f : A -> bool) k l : forallb f l = true -> forallb f (skipn k l) = true.
Proof.
  revert k. induction l as [|x t IH]; intros k H; destruct k; simpl; auto.
  simpl in H. apply andb_prop in H as [Hx Ht]. apply IH. exact Ht.
Qed.

Lemma lenN_div2 (l : list A) h : h = (length l / 2)%nat -> (lenN l / 2)%N = N.of_nat h.
Proof. intros ->. unfold lenN. lia. Qed.

Lemma bidirectional_merge_spec h1 s2 b2 :
  forallb key s2 = true -> forallb nkey b2 = true ->
  length h1 = (length (h1 ++ s2 ++ b2) / 2)%nat ->
  (2 <= length (h1 ++ s2 ++ b2))%nat ->
  bidirectional_merge isl (h1 ++ s2 ++ b2) = Some (s2 ++ h1 ++ b2).
Proof.
  intros Hs2 Hb2 Hh Hlen.
  remember (h1 ++ s2 ++ b2) as src eqn:Esrc.
  unfold bidirectional_merge.
  destruct src as [|d t] eqn:E; [simpl in Hlen; lia|].
  cbv beta iota. rewrite <- E in *. clear E t.
  rewrite (lenN_div2 src Hh).
  rewrite bidir_split. rewrite Nat2N.id.
  remember (length h1) as h eqn:Eh. remember (length s2) as c eqn:Ec.
  remember (length b2) as dd eqn:Ed.
  assert (Hl : length src = (h + c + dd)%nat).
  { rewrite Esrc, !app_length. lia. }
  assert (Hcd : (c + dd = h \/ c + dd = S h)%nat) by lia.
  assert (Hsl_s2 : forall k, (k <= c)%nat -> slice src h k = firstn k s2).
  { intros k Hk. unfold slice. rewrite Esrc. rewrite slice_app_r by lia.
    rewrite <- Eh, Nat.sub_diag. rewrite slice_app_l by (simpl; lia). reflexivity. }
  assert (Hsl_h1 : forall i k, (i + k <= h)%nat -> slice src i k = firstn k (skipn i h1)).
  { intros i k Hk. unfold slice. rewrite Esrc. apply slice_app_l. lia. }
  assert (Hsl_b2 : forall i k, slice src (h + c + i) k = firstn k (skipn i b2)).
  { intros i k. unfold slice. rewrite Esrc. rewrite slice_app_r by lia.
    rewrite slice_app_r by lia. f_equal. f_equal. lia. }
  assert (Hnth_h1 : forall i, (i < h)%nat -> nth i src d = nth i h1 d).
  { intros i Hi. rewrite Esrc. apply app_nth1. lia. }
  assert (Hnth_s2 : forall i, (i < c)%nat -> nth (h + i) src d = nth i s2 d).
  { intros i Hi. rewrite Esrc. rewrite app_nth2 by lia.
    rewrite app_nth1 by lia. f_equal. lia. }
  assert (Hnth_b2 : forall i, nth (h + c + i) src d = nth i b2 d).
  { intros i. rewrite Esrc. rewrite app_nth2 by lia.
    rewrite app_nth2 by lia. f_equal. lia. }
  assert (Kb2 : forall i, (i < dd)%nat -> key (nth i b2 d) = false).
  { intros i Hi. rewrite forallb_forall in Hb2. apply negb_true_iff. apply Hb2. apply nth_In. lia. }
  assert (Ks2 : forall i, (i < c)%nat -> key (nth i s2 d) = true).
  { intros i Hi. rewrite forallb_forall in Hs2. apply Hs2. apply nth_In. lia. }
  (* forward thread *)
  assert (HU : up_loop src d h 0 (N.of_nat h) []
               = (N.of_nat (h - c), N.of_nat (h + Nat.min h c),
                  rev (firstn (h - c) h1) ++ rev (firstn h s2))).
  { destruct (le_lt_dec h c) as [Hhc|Hhc].
    - rewrite up_sells.
      + rewrite Nat2N.id. rewrite Hsl_s2 by lia.
        replace (h - c)%nat with 0%nat by lia. rewrite Nat.min_l by lia. simpl.
        rewrite app_nil_r. f_equal. f_equal. lia.
      + rewrite Nat2N.id. lia.
      + rewrite Nat2N.id. rewrite Hsl_s2 by lia. apply forallb_firstn_. exact Hs2.
    - pose proof (up_compose src d c (h - c) 0 (N.of_nat h) []) as HC.
      replace (c + (h - c))%nat with h in HC by lia. rewrite HC. clear HC.
      rewrite up_sells.
      + rewrite Nat2N.id. rewrite Hsl_s2 by lia. rewrite (firstn_all2 s2) by lia.
        rewrite up_buy.
        * simpl N.to_nat. rewrite Hsl_h1 by lia. simpl skipn.
          rewrite Nat.min_r by lia. rewrite (firstn_all2 s2 (n:=h)) by lia.
          rewrite app_nil_r. f_equal. f_equal; lia.
        * unfold nthN. replace (N.to_nat (N.of_nat h + N.of_nat c)) with (h + c + 0)%nat by lia.
          rewrite Hnth_b2. apply Kb2. lia.
        * simpl. lia.
      + rewrite Nat2N.id. lia.
      + rewrite Nat2N.id. rewrite Hsl_s2 by lia. rewrite (firstn_all2 s2) by lia. exact Hs2. }
  (* backward thread *)
  assert (HD : down_loop src d h (N.of_nat h) (lenN src) []
               = (N.of_nat (Nat.min h dd), (lenN src - N.of_nat (Nat.min h dd))%N,
                  skipn (Nat.min h dd) h1 ++ skipn (dd - h) b2)).
  { unfold lenN. destruct (le_lt_dec h dd) as [Hhd|Hhd].
    - rewrite down_buys.
      + rewrite Nat2N.id. replace (length src - h)%nat with (h + c + (dd - h))%nat by lia.
        rewrite Hsl_b2. rewrite Nat.min_l by lia.
        rewrite (skipn_all2 h1) by lia.
        rewrite firstn_all2 by (rewrite skipn_length; lia).
        simpl. rewrite app_nil_r. reflexivity.
      + rewrite Nat2N.id. lia.
      + rewrite Nat2N.id. lia.
      + rewrite Nat2N.id. replace (length src - h)%nat with (h + c + (dd - h))%nat by lia.
        rewrite Hsl_b2. apply forallb_firstn_. apply forallb_skipn_. exact Hb2.
    - pose proof (down_compose src d dd (h - dd) (N.of_nat h) (N.of_nat (length src)) []) as HC.
      replace (dd + (h - dd))%nat with h in HC by lia. rewrite HC. clear HC.
      rewrite down_buys.
      + rewrite Nat2N.id. replace (length src - dd)%nat with (h + c + 0)%nat by lia.
        rewrite Hsl_b2. simpl skipn. rewrite (firstn_all2 b2) by lia.
        rewrite down_sell.
        * rewrite Nat2N.id. rewrite Hsl_h1 by lia.
          replace (h - (h - dd))%nat with dd by lia.
          rewrite firstn_all2 by (rewrite skipn_length; lia).
          rewrite Nat.min_r by lia. replace (dd - h)%nat with 0%nat by lia. simpl skipn.
          rewrite app_nil_r. f_equal. f_equal. lia.
        * unfold nthN.
          replace (N.to_nat (N.of_nat (length src) - N.of_nat dd - 1)) with (h + (c - 1))%nat by lia.
          rewrite Hnth_s2 by lia. apply Ks2. lia.
        * rewrite Nat2N.id. lia.
        * rewrite Nat2N.id. lia.
      + rewrite Nat2N.id. lia.
      + rewrite Nat2N.id. lia.
      + rewrite Nat2N.id. replace (length src - dd)%nat with (h + c + 0)%nat by lia.
        rewrite Hsl_b2. simpl skipn. rewrite (firstn_all2 b2) by lia. exact Hb2. }
  rewrite HU, HD. clear HU HD.
  destruct Hcd as [Hev|Hodd].
  - (* even length *)
    replace (lenN src mod 2 =? 0)%N with true
      by (symmetry; apply N.eqb_eq; unfold lenN; lia).
    cbn [negb andb].
    rewrite (proj2 (N.eqb_eq _ _)) by lia.
    rewrite (proj2 (N.eqb_eq _ _)) by (unfold lenN; lia).
    cbn [negb orb].
    rewrite rev_append_rev, rev_app_distr, !rev_involutive.
    rewrite (firstn_all2 s2) by lia.
    replace (h - c)%nat with dd by lia. rewrite Nat.min_r by lia.
    replace (dd - h)%nat with 0%nat by lia. simpl skipn.
    rewrite <- !app_assoc. rewrite (app_assoc (firstn dd h1)), firstn_skipn. reflexivity.
  - (* odd length *)
    replace (lenN src mod 2 =? 0)%N with false
      by (symmetry; apply N.eqb_neq; unfold lenN; lia).
    cbn [negb andb].
    destruct (Nat.eq_dec c 0) as [Hc0|Hc0]; [|destruct (Nat.eq_dec dd 0) as [Hd0|Hd0]].
    + (* no sells in the right half *)
      rewrite (proj2 (N.ltb_ge _ _)) by lia. cbn [negb].
      rewrite (proj2 (N.eqb_eq _ _)) by lia.
      rewrite (proj2 (N.eqb_eq _ _)) by (unfold lenN; lia).
      cbn [negb orb].
      rewrite rev_append_rev. cbn [rev]. rewrite rev_app_distr, !rev_involutive.
      destruct s2; [|simpl in Ec; lia]. rewrite firstn_nil. cbn [app].
      unfold nthN. replace (N.to_nat (N.of_nat (h + Nat.min h c))) with (h + c + 0)%nat by lia.
      rewrite Hnth_b2.
      replace (h - c)%nat with h by lia. rewrite (firstn_all2 h1) by lia.
      rewrite Nat.min_l by lia. rewrite (skipn_all2 h1) by lia. cbn [app].
      replace (dd - h)%nat with 1%nat by lia.
      rewrite <- app_assoc. f_equal. cbn [app].
      destruct b2 as [|x b2']; [simpl in Ed; lia|]. reflexivity.
    + (* no buys in the right half *)
      rewrite (proj2 (N.ltb_ge _ _)) by lia. cbn [negb].
      rewrite (proj2 (N.eqb_eq _ _)) by lia.
      rewrite (proj2 (N.eqb_eq _ _)) by (unfold lenN; lia).
      cbn [negb orb].
      rewrite rev_append_rev. cbn [rev]. rewrite rev_app_distr, !rev_involutive.
      destruct b2; [|simpl in Ed; lia].
      unfold nthN. replace (N.to_nat (N.of_nat (h + Nat.min h c))) with (h + h)%nat by lia.
      rewrite Hnth_s2 by lia.
      replace (h - c)%nat with 0%nat by lia. rewrite Nat.min_r by lia.
      simpl firstn. rewrite skipn_nil. replace dd with 0%nat by lia. simpl skipn.
      rewrite !app_nil_r. cbn [app].
      rewrite <- (firstn_snoc s2 d) by lia. rewrite (firstn_all2 s2) by lia. reflexivity.
    + (* both present *)
      rewrite (proj2 (N.ltb_lt _ _)) by lia. cbn [negb].
      rewrite (proj2 (N.eqb_eq _ _)) by lia.
      rewrite (proj2 (N.eqb_eq _ _)) by (unfold lenN; lia).
      cbn [negb orb].
      rewrite rev_append_rev. cbn [rev]. rewrite rev_app_distr, !rev_involutive.
      unfold nthN. rewrite Nat2N.id. rewrite Hnth_h1 by lia.
      rewrite (firstn_all2 s2) by lia.
      rewrite Nat.min_r by lia. replace (dd - h)%nat with 0%nat by lia. simpl skipn.
      rewrite <- !app_assoc. rewrite (app_assoc (firstn (h - c) h1)).
      rewrite <- (firstn_snoc h1 d) by lia.
      replace (S (h - c)) with dd by lia.
      rewrite (app_assoc (firstn dd h1)), firstn_skipn. reflexivity.
Qed.

(* ---------------------------------------------------------------------- *)
(*  small sorts                                                           *)
(* ---------------------------------------------------------------------- *)

(* normal return with a sells-first permutation of the input *)
Definition good (o : outcome A (list A)) (v : list A) : Prop :=
  exists r, o = Done r /\ Permutation r v /\ SF r.

Lemma bidir_good h1 h2 :
  SF h1 -> SF h2 ->
  length h1 = (length (h1 ++ h2) / 2)%nat -> (2 <= length (h1 ++ h2))%nat ->
  exists r, bidirectional_merge isl (h1 ++ h2) = Some r /\ Permutation r (h1 ++ h2) /\ SF r.
Proof.
  intros S1 (s2 & b2 & -> & Hs2 & Hb2) Hh Hlen.
  rewrite bidirectional_merge_spec by assumption.
  eexists. split; [reflexivity|]. split.
  - apply Permutation_app_swap_app.
  - apply SF_sells_app; [exact Hs2|]. apply SF_app_buys; assumption.
Qed.

Lemma sort8_stable_l_spec l :
  (8 <= length l)%nat ->
  exists r, sort8_stable_l isl l = Done (Some r) /\ Permutation r (firstn 8 l) /\ SF r.
Proof.
  intros Hl. unfold sort8_stable_l.
  destruct (@sort4_stable_l_spec l) as (r1 & E1 & P1 & S1 & L1); [lia|].
  destruct (@sort4_stable_l_spec (skipn 4 l)) as (r2 & E2 & P2 & S2 & L2);
    [rewrite skipn_length; lia|].
  rewrite E1, E2.
  destruct (@bidir_good r1 r2 S1 S2) as (r & E & P & S).
  - rewrite app_length. lia.
  - rewrite app_length. lia.
  - rewrite E. exists r. split; [reflexivity|]. split; [|exact S].
    rewrite P, P1, P2.
    replace 8%nat with (4 + 4)%nat by reflexivity. rewrite <- (firstn_skipn 4 (firstn (4 + 4) l)).
    rewrite firstn_firstn. rewrite Nat.min_l by lia.
    replace (skipn 4 (firstn (4 + 4) l)) with (firstn 4 (skipn 4 l)); [reflexivity|].
    rewrite firstn_skipn_comm. reflexivity.
Qed.

Lemma SF_firstn1 (l : list A) : SF (firstn 1 l).
Proof. destruct l as [|x t]; simpl; [apply SF_nil | apply SF_single]. Qed.

Lemma lenN_lt2 (v : list A) : (lenN v <? 2)%N = true -> SF v.
Proof.
  intros H. apply N.ltb_lt in H. unfold lenN in H.
  destruct v as [|x [|y t]]; simpl in H; try lia; [apply SF_nil | apply SF_single].
Qed.

Lemma small_sort_general_good sz v slen :
  (lenN v + 16 <= slen)%N ->
  good (small_sort_general_with_scratch sz isl v slen) v.
Proof.
  intros Hs. unfold small_sort_general_with_scratch.
  destruct (lenN v <? 2)%N eqn:E2.
  { exists v. split; [reflexivity|]. split; [reflexivity|]. apply lenN_lt2. exact E2. }
  apply N.ltb_ge in E2.
  rewrite (proj2 (N.ltb_ge _ _)) by lia.
  set (h := (lenN v / 2)%N).
  set (src1 := firstnN h v). set (src2 := skipnN h v).
  assert (L1 : length src1 = N.to_nat h).
  { unfold src1, firstnN. rewrite firstn_length. unfold h, lenN. lia. }
  assert (L2 : length src2 = (length v - N.to_nat h)%nat).
  { unfold src2, skipnN. apply skipn_length. }
  assert (Ev : v = src1 ++ src2).
  { unfold src1, src2, firstnN, skipnN. symmetry. apply firstn_skipn. }
  (* whatever the presorting branch, we get presorted prefixes p1, p2 *)
  assert (Hpres : forall (p1 p2 : list A) (k : nat),
             Permutation p1 (firstn k src1) -> Permutation p2 (firstn k src2) ->
             SF p1 -> SF p2 ->
             good (let h1 := insert_tails isl p1 (skipn k src1) in
                   let h2 := insert_tails isl p2 (skipn k src2) in
                   let scratch := h1 ++ h2 in
                   match bidirectional_merge isl scratch with
                   | Some r => Done r
                   | None => Panic scratch
                   end) v).
  { intros p1 p2 k P1 P2 S1 S2. cbv zeta.
    set (h1 := insert_tails isl p1 (skipn k src1)).
    set (h2 := insert_tails isl p2 (skipn k src2)).
    assert (Q1 : Permutation h1 src1).
    { unfold h1. rewrite insert_tails_perm, P1. rewrite firstn_skipn. reflexivity. }
    assert (Q2 : Permutation h2 src2).
    { unfold h2. rewrite insert_tails_perm, P2. rewrite firstn_skipn. reflexivity. }
    destruct (@bidir_good h1 h2) as (r & E & P & S).
    - apply insert_tails_SF. exact S1.
    - apply insert_tails_SF. exact S2.
    - rewrite app_length. rewrite (Permutation_length Q1), (Permutation_length Q2).
      rewrite L1, L2. unfold h, lenN in *. lia.
    - rewrite app_length. rewrite (Permutation_length Q1), (Permutation_length Q2).
      rewrite L1, L2. unfold h, lenN in *. lia.
    - rewrite E. exists r. split; [reflexivity|]. split; [|exact S].
      rewrite P, Q1, Q2, <- Ev. reflexivity. }
  destruct ((sz <=? 16)%N && (16 <=? lenN v)%N) eqn:E16.
  { apply andb_prop in E16 as [_ E16]. apply N.leb_le in E16.
    destruct (@sort8_stable_l_spec src1) as (p1 & Ep1 & P1 & S1).
    { rewrite L1. unfold h, lenN in *. lia. }
    destruct (@sort8_stable_l_spec src2) as (p2 & Ep2 & P2 & S2).
    { rewrite L2. unfold h, lenN in *. lia. }
    rewrite Ep1, Ep2. apply Hpres; assumption. }
  destruct (8 <=? lenN v)%N eqn:E8.
  { apply N.leb_le in E8.
    destruct (@sort4_stable_l_spec src1) as (p1 & Ep1 & P1 & S1 & _).
    { rewrite L1. unfold h, lenN in *. lia. }
    destruct (@sort4_stable_l_spec src2) as (p2 & Ep2 & P2 & S2 & _).
    { rewrite L2. unfold h, lenN in *. lia. }
    rewrite Ep1, Ep2. apply Hpres; assumption. }
  apply Hpres; try reflexivity; apply SF_firstn1.
Qed.

Lemma small_sort_good sz v slen :
  (lenN v + 16 <= slen)%N -> good (small_sort true sz isl v slen) v.
Proof. intros H. unfold small_sort. apply small_sort_general_good. exact H. Qed.

(* ---------------------------------------------------------------------- *)
(*  choose_pivot                                                          *)
(* ---------------------------------------------------------------------- *)

Lemma median3_in v d a b c :
  median3 isl v d a b c = a \/ median3 isl v d a b c = b \/ median3 isl v d a b c = c.
Proof.
  unfold median3.
  destruct (Bool.eqb _ _); [|auto].
  destruct (xorb _ _); auto.
Qed.

Lemma median3_rec_range fuel : forall v d a b c n,
  (N.to_nat n < fuel)%nat -> (1 <= n)%N ->
  exists i, median3_rec isl fuel v d a b c n = Some i
            /\ ((a <= i < a + n) \/ (b <= i < b + n) \/ (c <= i < c + n))%N.
Proof.
  induction fuel as [|f IH]; intros v d a b c n Hf Hn; [lia|].
  simpl. unfold PSEUDO_MEDIAN_REC_THRESHOLD.
  destruct (64 <=? n * 8)%N eqn:E.
  - apply N.leb_le in E.
    assert (H8 : (1 <= n / 8)%N) by lia.
    assert (Hf8 : (N.to_nat (n / 8) < f)%nat) by lia.
    destruct (IH v d a (a + n / 8 * 4)%N (a + n / 8 * 7)%N (n / 8)%N Hf8 H8) as (a' & Ea & Ra).
    destruct (IH v d b (b + n / 8 * 4)%N (b + n / 8 * 7)%N (n / 8)%N Hf8 H8) as (b' & Eb & Rb).
    destruct (IH v d c (c + n / 8 * 4)%N (c + n / 8 * 7)%N (n / 8)%N Hf8 H8) as (c' & Ec & Rc).
    rewrite Ea, Eb, Ec. eexists. split; [reflexivity|].
    destruct (median3_in v d a' b' c') as [-> | [-> | ->]]; lia.
  - eexists. split; [reflexivity|].
    destruct (median3_in v d a b c) as [-> | [-> | ->]]; lia.
Qed.

Lemma choose_pivot_spec v :
  (8 <= lenN v)%N -> exists pos, choose_pivot isl v = Done pos /\ (pos < lenN v)%N.
Proof.
  intros H8. unfold choose_pivot.
  destruct v as [|d t] eqn:E; [unfold lenN in H8; simpl in H8; lia|].
  rewrite <- E in *. clear E t.
  rewrite (proj2 (N.ltb_ge _ _)) by lia.
  unfold PSEUDO_MEDIAN_REC_THRESHOLD.
  destruct (lenN v <? 64)%N eqn:E64.
  - eexists. split; [reflexivity|].
    destruct (median3_in v d 0%N (lenN v / 8 * 4)%N (lenN v / 8 * 7)%N) as [-> | [-> | ->]]; lia.
  - apply N.ltb_ge in E64.
    destruct (@median3_rec_range (S (N.to_nat (lenN v / 8))) v d 0%N (lenN v / 8 * 4)%N
                                 (lenN v / 8 * 7)%N (lenN v / 8)%N) as (i & Ei & Ri); [lia|lia|].
    rewrite Ei. exists i. split; [reflexivity|]. lia.
Qed.

(* ---------------------------------------------------------------------- *)
(*  stable_partition (any comparison)                                     *)
(* ---------------------------------------------------------------------- *)

Lemma stable_partition_spec v slen pos gl (less : A -> A -> bool) :
  (lenN v <= slen)%N -> (pos < lenN v)%N ->
  exists pre p post,
    v = pre ++ p :: post /\ lenN pre = pos /\
    stable_partition v slen pos gl less =
    Done (filter (fun e => less e p) pre ++ (if gl then [p] else []) ++ filter (fun e => less e p) post,
          filter (fun e => negb (less e p)) pre ++ (if gl then [] else [p])
                 ++ filter (fun e => negb (less e p)) post).
Proof.
  intros Hs Hp. unfold stable_partition.
  rewrite (proj2 (N.ltb_ge _ _)) by lia. rewrite (proj2 (N.leb_gt _ _)) by lia. cbn [orb].
  destruct (skipnN pos v) as [|p post] eqn:E.
  - exfalso. assert (L : length (skipnN pos v) = 0%nat) by (rewrite E; reflexivity).
    unfold skipnN in L. rewrite skipn_length in L. unfold lenN in Hp. lia.
  - exists (firstnN pos v), p, post. split; [|split].
    + rewrite <- E. unfold firstnN, skipnN. symmetry. apply firstn_skipn.
    + unfold lenN, firstnN. rewrite firstn_length. unfold lenN in Hp. lia.
    + reflexivity.
Qed.

Lemma filter_perm_gen (f : A -> bool) l :
  Permutation (filter f l ++ filter (fun e => negb (f e)) l) l.
Proof.
  induction l as [|x t IH]; simpl; auto.
  destruct (f x); simpl.
  - apply perm_skip. exact IH.
  - apply Permutation_sym. apply Permutation_cons_app. apply Permutation_sym. exact IH.
Qed.

(* ---------------------------------------------------------------------- *)
(*  merge                                                                 *)
(* ---------------------------------------------------------------------- *)

Lemma merge_up_buys l b : forallb nkey b = true -> merge_up isl l b = l ++ b.
Proof.
  intros Hb. induction l as [|a l IH].
  - destruct b; reflexivity.
  - destruct b as [|y b'].
    + simpl. rewrite app_nil_r. reflexivity.
    + simpl in Hb. apply andb_prop in Hb as [Ky Hb'].
      simpl. unfold isl at 1. unfold nkey in Ky. rewrite Ky. simpl.
      f_equal. apply IH.
Qed.

Lemma merge_up_spec s b : forall l,
  forallb key s = true -> forallb nkey b = true -> merge_up isl l (s ++ b) = s ++ l ++ b.
Proof.
  induction s as [|x s IH]; intros l Hs Hb.
  - simpl. apply merge_up_buys. exact Hb.
  - simpl in Hs. apply andb_prop in Hs as [Kx Hs].
    destruct l as [|a l].
    + reflexivity.
    + simpl. unfold isl at 1. rewrite Kx. simpl. f_equal.
      apply (IH (a :: l) Hs Hb).
Qed.

Lemma merge_down_sells rl rs : forallb key rs = true -> merge_down_rev isl rl rs = rl ++ rs.
Proof.
  intros Hs. induction rl as [|a rl IH].
  - destruct rs; reflexivity.
  - destruct rs as [|y rs'].
    + simpl. rewrite app_nil_r. reflexivity.
    + simpl in Hs. apply andb_prop in Hs as [Ky Hs'].
      simpl. unfold isl at 1. rewrite Ky.
      f_equal. apply IH.
Qed.

Lemma merge_down_spec rb rs : forall rl,
  forallb nkey rb = true -> forallb key rs = true ->
  merge_down_rev isl rl (rb ++ rs) = rb ++ rl ++ rs.
Proof.
  induction rb as [|x rb IH]; intros rl Hb Hs.
  - simpl. apply merge_down_sells. exact Hs.
  - simpl in Hb. apply andb_prop in Hb as [Kx Hb].
    destruct rl as [|a rl].
    + reflexivity.
    + simpl. unfold isl at 1. unfold nkey in Kx. apply negb_true_iff in Kx. rewrite Kx. f_equal.
      apply (IH (a :: rl) Hb Hs).
Qed.

Lemma lenN_0 (l : list A) : (lenN l =? 0)%N = true -> l = [].
Proof. intros H. apply N.eqb_eq in H. destruct l; [reflexivity | unfold lenN in H; simpl in H; lia]. Qed.

Lemma merge_spec l r slen :
  SF l -> SF r -> (N.min (lenN l) (lenN r) <= slen)%N ->
  Permutation (merge isl l r slen) (l ++ r) /\ SF (merge isl l r slen).
Proof.
  intros Sl Sr Hs. unfold merge.
  destruct (lenN l =? 0)%N eqn:E0.
  { apply lenN_0 in E0. subst l. simpl. split; [reflexivity | exact Sr]. }
  destruct (lenN r =? 0)%N eqn:E1.
  { apply lenN_0 in E1. subst r. simpl. rewrite app_nil_r. split; [reflexivity | exact Sl]. }
  rewrite (proj2 (N.ltb_ge _ _)) by lia. cbn [orb].
  destruct Sr as (s2 & b2 & -> & Hs2 & Hb2).
  assert (R : Permutation (s2 ++ l ++ b2) (l ++ s2 ++ b2) /\ SF (s2 ++ l ++ b2)).
  { split; [apply Permutation_app_swap_app|].
    apply SF_sells_app; [exact Hs2|]. apply SF_app_buys; assumption. }
  destruct (lenN l <=? lenN (s2 ++ b2))%N.
  - rewrite merge_up_spec by assumption. exact R.
  - rewrite rev_app_distr. rewrite merge_down_spec by (rewrite forallb_rev; assumption).
    rewrite !rev_app_distr, !rev_involutive, <- app_assoc. exact R.
Qed.

(* ---------------------------------------------------------------------- *)
(*  find_existing_run                                                     *)
(* ---------------------------------------------------------------------- *)

Lemma forallb_ext_ (f g : A -> bool) l : (forall e, f e = g e) -> forallb f l = forallb g l.
Proof. intros H. induction l as [|x t IH]; simpl; [reflexivity | rewrite H, IH; reflexivity]. Qed.

Lemma run_extend_spec desc : forall prev l,
  (run_extend isl desc prev l <= lenN l)%N /\
  forallb (fun e => Bool.eqb (key e) desc) (firstnN (run_extend isl desc prev l) l) = true.
Proof.
  intros prev l. revert prev. induction l as [|e l IH]; intros prev; cbn [run_extend].
  - split; [unfold lenN; simpl; lia | reflexivity].
  - unfold isl at 1 3. destruct (Bool.eqb (key e) desc) eqn:E.
    + destruct (IH e) as [H1 H2]. split.
      * unfold lenN in *. simpl length. lia.
      * unfold firstnN in *.
        replace (N.to_nat (1 + run_extend isl desc e l)) with (S (N.to_nat (run_extend isl desc e l))) by lia.
        simpl. rewrite E, H2. reflexivity.
    + split; [unfold lenN; simpl length; lia | reflexivity].
Qed.

Lemma find_existing_run_spec v :
  (fst (find_existing_run isl v) <= lenN v)%N /\
  (v <> [] -> 1 <= fst (find_existing_run isl v))%N /\
  SF (if snd (find_existing_run isl v)
      then rev (firstnN (fst (find_existing_run isl v)) v)
      else firstnN (fst (find_existing_run isl v)) v).
Proof.
  destruct v as [|x0 [|x1 t]].
  - simpl. split; [unfold lenN; simpl; lia|]. split; [congruence | apply SF_nil].
  - simpl. split; [unfold lenN; simpl; lia|]. split; [lia | apply SF_single].
  - unfold find_existing_run. cbn [fst snd]. change (isl x1 x0) with (key x1).
    destruct (run_extend_spec (key x1) x1 t) as [H1 H2].
    set (k := run_extend isl (key x1) x1 t) in *.
    split; [unfold lenN in *; simpl length; lia|]. split; [lia|].
    unfold firstnN in *. replace (N.to_nat (2 + k)) with (S (S (N.to_nat k))) by lia.
    cbn [firstn].
    destruct (key x1) eqn:K1.
    + (* strictly descending: x0, then sells; reversed *)
      cbn [rev]. rewrite <- app_assoc. apply SF_sells_app.
      * rewrite forallb_rev. rewrite (@forallb_ext_ key (fun e => Bool.eqb (key e) true)); [exact H2|].
        intros e. destruct (key e); reflexivity.
      * cbn [app]. apply (@SF_sells_app [x1]); [simpl; rewrite K1; reflexivity | apply SF_single].
    + (* non-descending: x0, then buys *)
      assert (Hb : forallb nkey (x1 :: firstn (N.to_nat k) t) = true).
      { simpl. unfold nkey at 1. rewrite K1. simpl. rewrite (@forallb_ext_ nkey (fun e => Bool.eqb (key e) false)); [exact H2|].
        intros e. unfold nkey. destruct (key e); reflexivity. }
      destruct (key x0) eqn:K0.
      * apply (@SF_intro [x0]); [simpl; rewrite K0; reflexivity | exact Hb].
      * apply SF_all_buys. cbn [forallb]. unfold nkey at 1. rewrite K0. exact Hb.
Qed.

(* ---------------------------------------------------------------------- *)
(*  sqrt_approx                                                           *)
(* ---------------------------------------------------------------------- *)

Lemma sqrt_approx_bounds n :
  (4096 < n)%N -> (1 <= sqrt_approx n /\ sqrt_approx n <= n - n / 2)%N.
Proof.
  intros Hn. unfold sqrt_approx, div_ceil.
  rewrite N.log2_lor. change (N.log2 1) with 0%N. rewrite N.max_l by lia.
  set (L := N.log2 n).
  assert (HL : (12 <= L)%N).
  { change 12%N with (N.log2 4096). apply N.log2_le_mono. lia. }
  assert (Hspec : (2 ^ L <= n)%N) by (apply N.log2_spec; lia).
  set (sh := ((L + 2 - 1) / 2)%N).
  assert (Hsh : (6 <= sh /\ 2 * sh <= L + 1)%N) by (unfold sh; lia).
  rewrite N.shiftl_mul_pow2, N.shiftr_div_pow2, N.mul_1_l.
  set (p := (2 ^ sh)%N).
  assert (Hp64 : (64 <= p)%N).
  { change 64%N with (2 ^ 6)%N. apply N.pow_le_mono_r; lia. }
  assert (Hpp : (p * p <= 2 * n)%N).
  { unfold p. rewrite <- N.pow_add_r. transitivity (2 ^ (L + 1))%N.
    - apply N.pow_le_mono_r; lia.
    - rewrite N.pow_add_r. change (2 ^ 1)%N with 2%N. lia. }
  assert (Hdiv : (n / p <= n / 64)%N).
  { apply N.div_le_compat_l. lia. }
  assert (Hp32 : (32 * p <= n)%N) by nia.
  remember (n / p)%N as q eqn:Eq. clear Eq Hpp. clearbody p. lia.
Qed.

(* ---------------------------------------------------------------------- *)
(*  drift::sort, relative to a quicksort that is already known to be good *)
(* ---------------------------------------------------------------------- *)

Lemma good_perm o v1 v2 : good o v1 -> Permutation v1 v2 -> good o v2.
Proof. intros (r & E & P & S) H. exists r. split; [exact E|]. split; [rewrite P; exact H | exact S]. Qed.

Lemma stack_elems_cons (r : @run A) d st :
  stack_elems ((r, d) :: st) = stack_elems st ++ run_elems r.
Proof.
  unfold stack_elems. simpl. rewrite concat_app. simpl. rewrite app_nil_r. reflexivity.
Qed.

Lemma lenN_app (l1 l2 : list A) : lenN (l1 ++ l2) = (lenN l1 + lenN l2)%N.
Proof. unfold lenN. rewrite app_length. lia. Qed.

Lemma lenN_perm (l1 l2 : list A) : Permutation l1 l2 -> lenN l1 = lenN l2.
Proof. intros H. unfold lenN. rewrite (Permutation_length H). reflexivity. Qed.

(* the bottom entry of the run stack is the initial dummy run *)
Fixpoint bot_empty (stack : list (@run A * N)) : Prop :=
  match stack with
  | [] => True
  | [(r, _)] => run_elems r = []
  | _ :: st => bot_empty st
  end.

Lemma bot_empty_single_elems stack :
  bot_empty stack -> (length stack <= 1)%nat -> stack_elems stack = [].
Proof.
  destruct stack as [|[r d] [|e st]]; simpl; intros H L; try lia.
  - reflexivity.
  - rewrite stack_elems_cons. rewrite H. reflexivity.
Qed.

Section DriftProofs.

Variable qs : list A -> N -> option A -> outcome A (list A).
Variable slen : N.
Variable eager : bool.
Variable bound : nat.     (* length of the slice handed to drift::sort *)

Hypothesis Hqs : forall v' limit,
  (length v' <= bound)%nat -> (eager = true -> (lenN v' <= 32)%N) -> (lenN v' <= slen)%N ->
  good (qs v' limit None) v'.
Hypothesis Hslen : (48 <= slen)%N.
Hypothesis Hhalf : (N.of_nat bound - N.of_nat bound / 2 <= slen)%N.

Definition run_ok (r : @run A) : Prop :=
  (run_sorted r = true -> SF (run_elems r)) /\
  (run_sorted r = false -> eager = false /\ (lenN (run_elems r) <= slen)%N).

Lemma run_ok_sorted l : SF l -> run_ok (mkRun l true).
Proof. intros H. split; simpl; [auto | discriminate]. Qed.

(* an unsorted run (or an already sorted one) made sells-first *)
Lemma sort_run_good (r : @run A) :
  run_ok r -> (length (run_elems r) <= bound)%nat ->
  good (if run_sorted r then Done (run_elems r) else stable_quicksort qs (run_elems r)) (run_elems r).
Proof.
  intros [Hs Hu] Hb. destruct (run_sorted r).
  - exists (run_elems r). split; [reflexivity|]. split; [reflexivity | auto].
  - destruct (Hu eq_refl) as [He Hl]. unfold stable_quicksort. apply Hqs; auto.
    intros E. rewrite E in He. discriminate.
Qed.

Lemma logical_merge_good (left right : @run A) :
  run_ok left -> run_ok right ->
  (length (run_elems left ++ run_elems right) <= bound)%nat ->
  exists r, logical_merge isl qs slen left right = Done r
            /\ Permutation (run_elems r) (run_elems left ++ run_elems right)
            /\ run_ok r.
Proof.
  intros Ol Or Hb. unfold logical_merge.
  rewrite app_length in Hb.
  destruct (negb (lenN (run_elems left) + lenN (run_elems right) <=? slen)%N
            || run_sorted left || run_sorted right) eqn:C.
  - destruct (@sort_run_good left Ol) as (l' & El & Pl & Sl); [lia|].
    destruct (@sort_run_good right Or) as (r' & Er & Pr & Sr); [lia|].
    rewrite El. cbn [bind_ctx]. rewrite Er. cbn [bind_ctx].
    destruct (@merge_spec l' r' slen Sl Sr) as [Pm Sm].
    { rewrite (lenN_perm Pl), (lenN_perm Pr). unfold lenN. lia. }
    eexists. split; [reflexivity|]. split.
    + cbn [run_elems]. rewrite Pm, Pl, Pr. reflexivity.
    + apply run_ok_sorted. exact Sm.
  - apply orb_false_iff in C as [C C3]. apply orb_false_iff in C as [C1 C2].
    apply negb_false_iff in C1. apply N.leb_le in C1.
    eexists. split; [reflexivity|]. split; [reflexivity|].
    split; cbn [run_sorted run_elems]; [discriminate|]. intros _.
    destruct Ol as [_ Ol]. destruct (Ol C2) as [He _]. split; [exact He|].
    rewrite lenN_app. exact C1.
Qed.

Lemma create_run_good v mgrl :
  v <> [] -> (1 <= mgrl)%N -> (eager = false -> (mgrl <= slen)%N) -> (length v <= bound)%nat ->
  exists r rest, create_run true isl qs v mgrl eager = Done (r, rest)
                 /\ Permutation (run_elems r ++ rest) v
                 /\ run_ok r /\ run_elems r <> [].
Proof.
  intros Hv Hm Hms Hb. unfold create_run.
  assert (Hlen : (1 <= lenN v)%N).
  { destruct v; [congruence | unfold lenN; simpl; lia]. }
  destruct (find_existing_run isl v) as [rl wr] eqn:EF.
  pose proof (find_existing_run_spec v) as (F1 & F2 & F3).
  rewrite EF in F1, F2, F3. cbn [fst snd] in F1, F2, F3. specialize (F2 Hv).
  destruct ((mgrl <=? lenN v)%N && (mgrl <=? rl)%N) eqn:C.
  - (* an existing run is long enough *)
    apply andb_prop in C as [C1 C2]. rewrite C1, C2. apply N.leb_le in C2.
    eexists. eexists. split; [reflexivity|]. cbn [run_elems]. split; [|split].
    + unfold firstnN, skipnN.
      transitivity (firstn (N.to_nat rl) v ++ skipn (N.to_nat rl) v);
        [|rewrite firstn_skipn; reflexivity].
      apply Permutation_app_tail.
      destruct wr; [symmetry; apply Permutation_rev | reflexivity].
    + apply run_ok_sorted. exact F3.
    + intros E.
      assert (L : length (firstnN rl v) = 0%nat).
      { destruct wr; [rewrite <- rev_length|]; rewrite E; reflexivity. }
      unfold firstnN in L. rewrite firstn_length in L. unfold lenN in *. lia.
  - assert (Enone : (if (mgrl <=? lenN v)%N
                     then if (mgrl <=? rl)%N
                          then Some (mkRun (if wr then rev (firstnN rl v) else firstnN rl v) true,
                                     skipnN rl v)
                          else None
                     else None) = None).
    { destruct (mgrl <=? lenN v)%N, (mgrl <=? rl)%N; simpl in C; try discriminate; reflexivity. }
    rewrite Enone. clear Enone.
    destruct eager eqn:Eeager.
    + (* eager: small-sort a chunk *)
      set (n := N.min (small_sort_threshold true) (lenN v)).
      assert (Hn : (1 <= n <= 32)%N /\ (n <= lenN v)%N).
      { unfold n, small_sort_threshold, SMALL_SORT_GENERAL_THRESHOLD. lia. }
      assert (Lp : length (firstnN n v) = N.to_nat n).
      { unfold firstnN. rewrite firstn_length. unfold lenN in *. lia. }
      destruct (@Hqs (firstnN n v) 0%N) as (p & Ep & Pp & Sp).
      * rewrite Lp. unfold lenN in *. lia.
      * intros _. unfold lenN. rewrite Lp. lia.
      * unfold lenN. rewrite Lp. lia.
      * rewrite Ep. cbn [bind_ctx]. eexists. eexists. split; [reflexivity|].
        cbn [run_elems]. split; [|split].
        -- rewrite Pp. unfold firstnN, skipnN. rewrite firstn_skipn. reflexivity.
        -- apply run_ok_sorted. exact Sp.
        -- intros E. rewrite E in Pp. apply Permutation_length in Pp. rewrite Lp in Pp.
           simpl in Pp. lia.
    + (* lazy: an unsorted run of min_good_run_len *)
      set (n := N.min mgrl (lenN v)).
      assert (Lp : length (firstnN n v) = N.to_nat n).
      { unfold firstnN. rewrite firstn_length. unfold n, lenN in *. lia. }
      eexists. eexists. split; [reflexivity|]. cbn [run_elems]. split; [|split].
      * unfold firstnN, skipnN. rewrite firstn_skipn. reflexivity.
      * split; cbn [run_sorted run_elems]; [discriminate|]. intros _. split; [exact Eeager|].
        unfold lenN. rewrite Lp. specialize (Hms eq_refl). unfold n. lia.
      * intros E. rewrite E in Lp. simpl in Lp. unfold n in Lp. lia.
Qed.

Lemma collapse_good dd after : forall stack prev,
  Forall run_ok (map fst stack) -> run_ok prev ->
  (length (stack_elems stack ++ run_elems prev) <= bound)%nat ->
  bot_empty stack ->
  exists stack' prev',
    collapse isl qs slen stack prev dd after = Done (stack', prev')
    /\ Permutation (stack_elems stack' ++ run_elems prev') (stack_elems stack ++ run_elems prev)
    /\ Forall run_ok (map fst stack') /\ run_ok prev' /\ bot_empty stack'
    /\ (stack <> [] -> stack' <> [])
    /\ (dd = 0%N -> (length stack' <= 1)%nat).
Proof.
  induction stack as [|[left depth] st IH]; intros prev Hst Hp Hb Hbot.
  - exists [], prev. simpl.
    split; [reflexivity|]. split; [reflexivity|]. split; [constructor|]. split; [exact Hp|].
    split; [exact I|]. split; [congruence | intros _; lia].
  - destruct st as [|e2 st'].
    + exists [(left, depth)], prev.
      split; [reflexivity|]. split; [reflexivity|]. split; [exact Hst|]. split; [exact Hp|].
      split; [exact Hbot|]. split; [congruence | intros _; simpl; lia].
    + cbn [collapse]. destruct (dd <=? depth)%N eqn:C.
      * rewrite stack_elems_cons in Hb. rewrite <- app_assoc in Hb.
        inversion Hst as [|? ? Hl Hst']; subst.
        destruct (@logical_merge_good left prev Hl Hp) as (m & Em & Pm & Om).
        { rewrite app_length in Hb. lia. }
        rewrite Em. cbn [bind_ctx].
        destruct (IH m Hst' Om) as (stack' & prev' & E & P & F & O & B & NE & L1).
        { rewrite app_length in *. rewrite (Permutation_length Pm). exact Hb. }
        { exact Hbot. }
        exists stack', prev'. split; [exact E|]. split.
        { rewrite P, Pm. rewrite (stack_elems_cons left depth). rewrite <- app_assoc. reflexivity. }
        split; [exact F|]. split; [exact O|]. split; [exact B|]. split; [|exact L1].
        intros _. apply NE. congruence.
      * exists ((left, depth) :: e2 :: st'), prev.
        split; [reflexivity|]. split; [reflexivity|]. split; [exact Hst|]. split; [exact Hp|].
        split; [exact Hbot|]. split; [congruence|].
        intros ->. apply N.leb_gt in C. lia.
Qed.

Lemma drift_loop_good len sf mgrl : forall fuel stack prev scan_idx rest,
  len = N.of_nat bound ->
  (1 <= mgrl)%N -> (eager = false -> (mgrl <= slen)%N) ->
  (length rest < fuel)%nat ->
  scan_idx = lenN (stack_elems stack ++ run_elems prev) ->
  len = (scan_idx + lenN rest)%N ->
  Forall run_ok (map fst stack) -> run_ok prev -> bot_empty stack ->
  (stack = [] -> run_elems prev = []) ->
  good (drift_loop true isl qs slen fuel len sf mgrl eager stack prev scan_idx rest)
       (stack_elems stack ++ run_elems prev ++ rest).
Proof.
  induction fuel as [|fuel IH]; intros stack prev scan_idx rest Hlen Hm Hms Hf Hscan Hsum Hst Hp Hbot Hnil;
    [lia|].
  cbn [drift_loop].
  assert (Hbnd : (length (stack_elems stack ++ run_elems prev) + length rest <= bound)%nat).
  { unfold lenN in *. lia. }
  destruct (scan_idx <? len)%N eqn:C.
  - (* another run *)
    apply N.ltb_lt in C.
    assert (Hrest : rest <> []).
    { intros ->. unfold lenN in Hsum. simpl in Hsum. lia. }
    destruct (@create_run_good rest mgrl Hrest Hm Hms) as (next & rest' & Ec & Pc & Oc & NEc); [lia|].
    rewrite Ec. cbn [bind_ctx].
    set (dd := merge_tree_depth _ _ _ _).
    destruct (@collapse_good dd (run_elems next ++ rest') stack prev Hst Hp) as
        (stack' & prev' & Ecl & Pcl & Fcl & Ocl & Bcl & NEcl & _); [lia | exact Hbot |].
    rewrite Ecl. cbn [bind_ctx].
    rewrite (proj2 (N.leb_gt _ _)) by lia.
    assert (Lc : (length (run_elems next) + length rest' = length rest)%nat).
    { rewrite <- app_length. apply Permutation_length. exact Pc. }
    assert (Lnext : (1 <= length (run_elems next))%nat).
    { destruct (run_elems next); [congruence | simpl; lia]. }
    eapply good_perm.
    + apply IH; auto.
      * lia.
      * rewrite stack_elems_cons. rewrite lenN_app. rewrite (lenN_perm Pcl). unfold run_len. lia.
      * unfold run_len, lenN in *. lia.
      * cbn [map fst]. constructor; assumption.
      * destruct stack' as [|e st']; [|exact Bcl]. cbn [bot_empty].
        destruct stack as [|e0 st0]; [|exfalso; apply NEcl; congruence].
        simpl in Pcl. rewrite (Hnil eq_refl) in Pcl. apply Permutation_nil. symmetry. exact Pcl.
      * discriminate.
    + rewrite stack_elems_cons. rewrite <- app_assoc.
      rewrite (app_assoc (stack_elems stack')), Pcl, <- app_assoc.
      rewrite Pc. reflexivity.
  - (* the final dummy run: collapse everything *)
    apply N.ltb_ge in C.
    assert (Hrest : rest = []).
    { destruct rest; [reflexivity | unfold lenN in Hsum; simpl in Hsum; lia]. }
    subst rest. cbn [bind_ctx run_elems app].
    destruct (@collapse_good 0%N [] stack prev Hst Hp) as
        (stack' & prev' & Ecl & Pcl & Fcl & Ocl & Bcl & NEcl & L1); [simpl in Hbnd; lia | exact Hbot |].
    rewrite Ecl. cbn [bind_ctx].
    rewrite (proj2 (N.leb_le _ _)) by lia.
    rewrite stack_elems_cons. rewrite (bot_empty_single_elems _ Bcl (L1 eq_refl)) in *.
    cbn [app] in *. rewrite !app_nil_r.
    eapply good_perm; [|exact Pcl].
    destruct Ocl as [Os Ou]. destruct (run_sorted prev') eqn:Es.
    + exists (run_elems prev'). split; [reflexivity|]. split; [reflexivity | auto].
    + destruct (Ou eq_refl) as [He Hl]. unfold stable_quicksort. apply Hqs; auto.
      * rewrite (Permutation_length Pcl). simpl in Hbnd. lia.
      * intros E. rewrite E in He. discriminate.
Qed.

Lemma drift_sort_good v :
  length v = bound -> good (drift_sort true isl qs slen v eager) v.
Proof.
  intros Hb. unfold drift_sort.
  destruct (lenN v <? 2)%N eqn:E2.
  { exists v. split; [reflexivity|]. split; [reflexivity|]. apply lenN_lt2. exact E2. }
  apply N.ltb_ge in E2.
  set (mgrl := if (lenN v <=? 64 * 64)%N then N.min (lenN v - lenN v / 2) 64 else sqrt_approx (lenN v)).
  assert (Hm : (1 <= mgrl /\ mgrl <= slen)%N).
  { unfold mgrl. destruct (lenN v <=? 64 * 64)%N eqn:E.
    - unfold lenN in *. lia.
    - apply N.leb_gt in E. destruct (@sqrt_approx_bounds (lenN v)) as [S1 S2]; [lia|].
      unfold lenN in *. lia. }
  eapply good_perm.
  - apply (@drift_loop_good (lenN v) (merge_tree_scale_factor (lenN v)) mgrl
                            (S (S (length v))) [] (mkRun [] true) 0%N v).
    + unfold lenN. rewrite Hb. reflexivity.
    + lia.
    + intros _. lia.
    + lia.
    + reflexivity.
    + lia.
    + constructor.
    + apply run_ok_sorted. apply SF_nil.
    + exact I.
    + reflexivity.
  - reflexivity.
Qed.

End DriftProofs.

(* ---------------------------------------------------------------------- *)
(*  quicksort                                                             *)
(* ---------------------------------------------------------------------- *)

Lemma skipnN_cons_bound (v : list A) pos p post :
  skipnN pos v = p :: post -> (pos < lenN v)%N /\ v = firstnN pos v ++ p :: post.
Proof.
  intros E. split.
  - assert (L : length (skipnN pos v) = S (length post)) by (rewrite E; reflexivity).
    unfold skipnN in L. rewrite skipn_length in L. unfold lenN. lia.
  - rewrite <- E. unfold firstnN, skipnN. symmetry. apply firstn_skipn.
Qed.

Lemma stable_partition_eq v slen pos gl (less : A -> A -> bool) p post :
  (lenN v <= slen)%N -> skipnN pos v = p :: post ->
  stable_partition v slen pos gl less =
  Done (filter (fun e => less e p) (firstnN pos v) ++ (if gl then [p] else [])
               ++ filter (fun e => less e p) post,
        filter (fun e => negb (less e p)) (firstnN pos v) ++ (if gl then [] else [p])
               ++ filter (fun e => negb (less e p)) post).
Proof.
  intros Hs E. destruct (@skipnN_cons_bound v pos p post E) as [Hp _].
  unfold stable_partition.
  rewrite (proj2 (N.ltb_ge _ _)) by lia. rewrite (proj2 (N.leb_gt _ _)) by lia. cbn [orb].
  rewrite E. reflexivity.
Qed.

Lemma filter_const_true (g : A -> bool) l : (forall e, g e = true) -> filter g l = l.
Proof. intros H. induction l as [|x t IH]; simpl; [reflexivity | rewrite H, IH; reflexivity]. Qed.

Lemma filter_const_false (g : A -> bool) l : (forall e, g e = false) -> filter g l = [].
Proof. intros H. induction l as [|x t IH]; simpl; [reflexivity | rewrite H, IH; reflexivity]. Qed.

Lemma normal_partition_eq v slen pos p post :
  (lenN v <= slen)%N -> skipnN pos v = p :: post ->
  stable_partition v slen pos false isl =
  Done (filter key (firstnN pos v) ++ filter key post,
        filter nkey (firstnN pos v) ++ p :: filter nkey post).
Proof. intros Hs E. rewrite (@stable_partition_eq v slen pos false isl p post Hs E). reflexivity. Qed.

Lemma equal_partition_buy v slen pos p post :
  (lenN v <= slen)%N -> skipnN pos v = p :: post -> key p = false ->
  stable_partition v slen pos true (fun a b => negb (isl b a)) = Done (v, []).
Proof.
  intros Hs E K. rewrite (@stable_partition_eq v slen pos true (fun a b => negb (isl b a)) p post Hs E).
  destruct (@skipnN_cons_bound v pos p post E) as [_ Ev].
  rewrite !(@filter_const_true (fun e => negb (isl p e))) by (intros e; unfold isl; rewrite K; reflexivity).
  rewrite !(@filter_const_false (fun e => negb (negb (isl p e)))) by (intros e; unfold isl; rewrite K; reflexivity).
  cbn [app]. rewrite <- Ev. reflexivity.
Qed.

Lemma equal_partition_sell v slen pos p post :
  (lenN v <= slen)%N -> skipnN pos v = p :: post -> key p = true ->
  stable_partition v slen pos true (fun a b => negb (isl b a)) = Done ([p], firstnN pos v ++ post).
Proof.
  intros Hs E K. rewrite (@stable_partition_eq v slen pos true (fun a b => negb (isl b a)) p post Hs E).
  rewrite !(@filter_const_false (fun e => negb (isl p e))) by (intros e; unfold isl; rewrite K; reflexivity).
  rewrite !(@filter_const_true (fun e => negb (negb (isl p e)))) by (intros e; unfold isl; rewrite K; reflexivity).
  reflexivity.
Qed.

Lemma normal_partition_perm pre p post :
  Permutation ((filter key pre ++ filter key post) ++ filter nkey pre ++ p :: filter nkey post)
              (pre ++ p :: post).
Proof.
  rewrite <- (filter_key_perm pre) at 3. rewrite <- (filter_key_perm post) at 3.
  rewrite <- !app_assoc. apply Permutation_app_head.
  rewrite Permutation_app_swap_app. apply Permutation_app_head.
  symmetry. apply Permutation_middle.
Qed.

Lemma good_nil o : good o [] -> o = Done [].
Proof. intros (r & E & P & _). apply Permutation_sym, Permutation_nil in P. subst r. exact E. Qed.

Lemma quicksort_good sz slen : (48 <= slen)%N -> forall fuel v limit la,
  (length v < fuel)%nat -> (lenN v <= slen)%N ->
  (forall p, la = Some p -> key p = false -> forallb nkey v = true) ->
  good (quicksort true sz isl fuel slen v limit la) v.
Proof.
  intros Hslen. induction fuel as [|fuel IH]; intros v limit la Hf Hs Hla; [lia|].
  cbn [quicksort].
  destruct (lenN v <=? small_sort_threshold true)%N eqn:Et.
  { apply N.leb_le in Et. unfold small_sort_threshold, SMALL_SORT_GENERAL_THRESHOLD in Et.
    apply small_sort_good. lia. }
  apply N.leb_gt in Et. unfold small_sort_threshold, SMALL_SORT_GENERAL_THRESHOLD in Et.
  destruct (limit =? 0)%N.
  { (* fallback: eager driftsort *)
    apply (@drift_sort_good (quicksort true sz isl fuel slen) slen true (length v)).
    - intros v' limit' Hb He Hl. apply IH.
      + specialize (He eq_refl). unfold lenN in *. lia.
      + exact Hl.
      + discriminate.
    - exact Hslen.
    - unfold lenN in Hs. lia.
    - reflexivity. }
  destruct (@choose_pivot_spec v) as (pos & Epos & Hpos); [lia|].
  rewrite Epos. cbn [bind_ctx].
  destruct (skipnN pos v) as [|p post] eqn:Esk.
  { exfalso. assert (L : length (skipnN pos v) = 0%nat) by (rewrite Esk; reflexivity).
    unfold skipnN in L. rewrite skipn_length in L. unfold lenN in Hpos. lia. }
  destruct (@skipnN_cons_bound v pos p post Esk) as [_ Ev].
  remember (firstnN pos v) as pre eqn:Epre.
  assert (Lv : length v = (length pre + S (length post))%nat).
  { rewrite Ev. rewrite app_length. reflexivity. }
  (* the three ways the loop body can go *)
  assert (Hequal_buys :
            forallb nkey v = true ->
            good (bind_ctx (stable_partition v slen pos true (fun a b => negb (isl b a)))
                           (fun p0 => p0)
                           (fun '(l, r) =>
                              bind_ctx (quicksort true sz isl fuel slen r (limit - 1) None)
                                       (fun p0 => l ++ p0) (fun r' => Done (l ++ r')))) v).
  { intros Hb.
    assert (Kp : key p = false).
    { rewrite Ev in Hb. rewrite forallb_app in Hb. apply andb_prop in Hb as [_ Hb].
      simpl in Hb. apply andb_prop in Hb as [Hb _]. apply negb_true_iff. exact Hb. }
    rewrite (@equal_partition_buy v slen pos p post Hs Esk Kp). cbn [bind_ctx].
    rewrite (@good_nil (quicksort true sz isl fuel slen [] (limit - 1) None)).
    - cbn [bind_ctx]. rewrite app_nil_r. exists v. split; [reflexivity|]. split; [reflexivity|].
      apply SF_all_buys. exact Hb.
    - apply IH; [simpl; lia | unfold lenN; simpl; lia | discriminate]. }
  assert (Hnormal :
            (forall lap, la = Some lap -> key lap = true) ->
            good (bind_ctx
                    (bind_ctx (stable_partition v slen pos false isl) (fun p0 => p0)
                              (fun '(l, r) =>
                                 match l with
                                 | [] => Done (l ++ r, None)
                                 | _ => Done (l ++ r, Some (l, r))
                                 end))
                    (fun p0 => p0)
                    (fun '(v1, normal) =>
                       match normal with
                       | None =>
                         bind_ctx (stable_partition v1 slen pos true (fun a b => negb (isl b a)))
                                  (fun p0 => p0)
                                  (fun '(l, r) =>
                                     bind_ctx (quicksort true sz isl fuel slen r (limit - 1) None)
                                              (fun p0 => l ++ p0) (fun r' => Done (l ++ r')))
                       | Some (l, r) =>
                         bind_ctx (quicksort true sz isl fuel slen r (limit - 1) (Some p))
                                  (fun p0 => l ++ p0)
                                  (fun r' =>
                                     bind_ctx (quicksort true sz isl fuel slen l (limit - 1) la)
                                              (fun p0 => p0 ++ r') (fun l' => Done (l' ++ r')))
                       end)) v).
  { intros Hlap.
    rewrite (@normal_partition_eq v slen pos p post Hs Esk). rewrite <- Epre. cbn [bind_ctx].
    destruct (filter key pre ++ filter key post) as [|x l0] eqn:El.
    - (* left_partition_len == 0: no sell besides possibly the pivot *)
      cbn [bind_ctx app].
      apply app_eq_nil in El as [El1 El2].
      assert (Bpre : forallb nkey pre = true).
      { clear - El1. induction pre as [|y t IHt]; simpl in *; [reflexivity|].
        unfold nkey at 1. destruct (key y); [discriminate | simpl; auto]. }
      assert (Bpost : forallb nkey post = true).
      { clear - El2. induction post as [|y t IHt]; simpl in *; [reflexivity|].
        unfold nkey at 1. destruct (key y); [discriminate | simpl; auto]. }
      rewrite (@filter_all nkey pre Bpre), (@filter_all nkey post Bpost). rewrite <- Ev.
      destruct (key p) eqn:Kp.
      + rewrite (@equal_partition_sell v slen pos p post Hs Esk Kp). rewrite <- Epre. cbn [bind_ctx].
        destruct (IH (pre ++ post) (limit - 1)%N None) as (r' & Er & Pr & Sr).
        * rewrite app_length. lia.
        * unfold lenN in *. rewrite app_length. lia.
        * discriminate.
        * rewrite Er. cbn [bind_ctx]. eexists. split; [reflexivity|]. split.
          -- cbn [app]. rewrite Pr. rewrite Ev. apply Permutation_middle.
          -- apply (@SF_sells_app [p]); [simpl; rewrite Kp; reflexivity | exact Sr].
      + apply Hequal_buys. rewrite Ev. rewrite forallb_app. rewrite Bpre. simpl.
        unfold nkey at 1. rewrite Kp. exact Bpost.
    - (* proper partition: sells (without the pivot) | buys and the pivot *)
      cbn [bind_ctx].
      remember (x :: l0) as l eqn:Edl.
      set (r := filter nkey pre ++ p :: filter nkey post).
      assert (Pv : Permutation (l ++ r) v).
      { rewrite Ev. rewrite <- El. apply normal_partition_perm. }
      assert (Ll : (1 <= length l)%nat) by (rewrite Edl; simpl; lia).
      assert (Lr : (1 <= length r)%nat) by (unfold r; rewrite app_length; simpl; lia).
      assert (Llr : (length l + length r = length v)%nat).
      { rewrite <- app_length. apply Permutation_length. exact Pv. }
      assert (Sl : forallb key l = true).
      { rewrite <- El. rewrite forallb_app, !forallb_filter_key. reflexivity. }
      destruct (IH r (limit - 1)%N (Some p)) as (r' & Er & Pr & Sr).
      * lia.
      * unfold lenN in *. lia.
      * intros p0 E0 K0. injection E0 as <-. unfold r. rewrite forallb_app. simpl.
        rewrite !forallb_filter_nkey. unfold nkey at 1. rewrite K0. reflexivity.
      * destruct (IH l (limit - 1)%N la) as (l' & Elq & Pl & _).
        -- lia.
        -- unfold lenN in *. lia.
        -- intros lap E0 K0. rewrite (Hlap lap E0) in K0. discriminate.
        -- rewrite Er. cbn [bind_ctx]. rewrite Elq. cbn [bind_ctx].
           eexists. split; [reflexivity|]. split.
           ++ rewrite Pl, Pr. exact Pv.
           ++ apply SF_sells_app; [|exact Sr]. rewrite (forallb_perm key Pl). exact Sl. }
  destruct la as [lap|].
  - change (isl lap p) with (key lap). destruct (key lap) eqn:Klap.
    + cbn [negb]. apply Hnormal. intros lap' E. injection E as <-. exact Klap.
    + cbn [negb bind_ctx]. apply Hequal_buys. apply (Hla lap eq_refl Klap).
  - apply Hnormal. discriminate.
Qed.

(* ---------------------------------------------------------------------- *)
(*  Entry points                                                          *)
(* ---------------------------------------------------------------------- *)

Lemma scratch_len_bounds sz len :
  (48 <= scratch_len sz len)%N /\ (len - len / 2 <= scratch_len sz len)%N.
Proof.
  unfold scratch_len, SMALL_SORT_GENERAL_SCRATCH_LEN, SMALL_SORT_GENERAL_THRESHOLD.
  set (a := N.max (N.max (len - len / 2) (N.min len (8000000 / sz))) (32 + 16)).
  assert (Ha : (48 <= a /\ len - len / 2 <= a)%N) by (unfold a; lia).
  destruct (a <=? 4096 / sz)%N eqn:E; [apply N.leb_le in E|]; lia.
Qed.

Lemma closed_form_good l : good (Done (rev (filter key l) ++ filter nkey l)) l.
Proof.
  eexists. split; [reflexivity|]. split.
  - rewrite <- (Permutation_rev (filter key l)). apply filter_key_perm.
  - apply SF_intro; [rewrite forallb_rev; apply forallb_filter_key | apply forallb_filter_nkey].
Qed.

Lemma stable_sort_good sz v : (0 < sz)%N -> good (stable_sort true sz isl v) v.
Proof.
  intros Hsz. unfold stable_sort.
  rewrite (proj2 (N.eqb_neq _ _)) by lia.
  destruct (lenN v <? 2)%N eqn:E2.
  { exists v. split; [reflexivity|]. split; [reflexivity|]. apply lenN_lt2. exact E2. }
  apply N.ltb_ge in E2.
  destruct (lenN v <=? 20)%N eqn:E20.
  { rewrite insertion_sort_closed.
    - apply closed_form_good.
    - intros ->. unfold lenN in E2. simpl in E2. lia. }
  unfold driftsort_main.
  destruct (scratch_len_bounds sz (lenN v)) as [B1 B2].
  apply (@drift_sort_good (quicksort true sz isl (S (length v)) (scratch_len sz (lenN v)))
                          (scratch_len sz (lenN v))
                          (lenN v <=? small_sort_threshold true * 2)%N (length v)).
  - intros v' limit Hb _ Hl. apply quicksort_good; [exact B1 | lia | exact Hl | discriminate].
  - exact B1.
  - exact B2.
  - reflexivity.
Qed.

(* ====================================================================== *)
(*  Theorems                                                              *)
(* ====================================================================== *)

(* T0: on the `len <= 20` path (insertion sort) the result is: the sells in
   REVERSE input order, then the buys in input order. *)
Theorem T0_closed_form_le20 :
  forall (sz : N) (l : list A),
    (0 < sz)%N -> (length l <= 20)%nat ->
    std_sort_by sz (fun a _ => key a) l
    = Some (rev (filter key l) ++ filter (fun a => negb (key a)) l).
Proof.
  intros sz l Hsz Hl. change (fun a _ : A => key a) with isl.
  change (fun a => negb (key a)) with nkey.
  unfold std_sort_by, std_sort_by_outcome, stable_sort.
  rewrite (proj2 (N.eqb_neq _ _)) by lia.
  destruct l as [|x [|y t]].
  - reflexivity.
  - simpl. unfold nkey. destruct (key x); reflexivity.
  - replace (lenN (x :: y :: t) <? 2)%N with false
      by (symmetry; apply N.ltb_ge; unfold lenN; simpl length; lia).
    replace (lenN (x :: y :: t) <=? 20)%N with true
      by (symmetry; apply N.leb_le; unfold lenN; lia).
    rewrite insertion_sort_closed by discriminate. reflexivity.
Qed.

(* T1-T3 restricted to the `len <= 20` path, from the closed form alone *)
Theorem T1_perm_le20 :
  forall (sz : N) (l r : list A),
    (length l <= 20)%nat ->
    std_sort_by sz (fun a _ => key a) l = Some r -> Permutation r l.
Proof.
  intros sz l r Hl H. destruct (N.eq_dec sz 0) as [->|Hsz].
  - unfold std_sort_by, std_sort_by_outcome, stable_sort in H. simpl in H. injection H as <-. reflexivity.
  - rewrite T0_closed_form_le20 in H by (auto; lia). injection H as <-.
    destruct (closed_form_good l) as (r & E & P & _). injection E as <-. exact P.
Qed.

Theorem T2_sells_first_le20 :
  forall (sz : N) (l r : list A),
    (0 < sz)%N -> (length l <= 20)%nat ->
    std_sort_by sz (fun a _ => key a) l = Some r ->
    sells_first r /\ sells_first_b r = true.
Proof.
  intros sz l r Hsz Hl H. rewrite T0_closed_form_le20 in H by auto. injection H as <-.
  destruct (closed_form_good l) as (r & E & _ & S). injection E as <-.
  split; [apply SF_sells_first | apply SF_b]; exact S.
Qed.

Theorem T3_total_le20 :
  forall (sz : N) (l : list A),
    (length l <= 20)%nat -> exists r, std_sort_by sz (fun a _ => key a) l = Some r.
Proof.
  intros sz l Hl. destruct (N.eq_dec sz 0) as [->|Hsz].
  - exists l. reflexivity.
  - eexists. apply T0_closed_form_le20; [lia | exact Hl].
Qed.

(* The general theorems, all lengths (insertion sort and driftsort paths). *)

Lemma std_sort_by_good sz l :
  (0 < sz)%N ->
  exists r, std_sort_by sz (fun a _ => key a) l = Some r /\ Permutation r l /\ SF r.
Proof.
  intros Hsz. change (fun a _ : A => key a) with isl.
  destruct (@stable_sort_good sz l Hsz) as (r & E & P & S).
  exists r. unfold std_sort_by, std_sort_by_outcome. rewrite E. auto.
Qed.

(* T1: the result is a permutation of the input *)
Theorem T1_perm :
  forall (sz : N) (l r : list A),
    std_sort_by sz (fun a _ => key a) l = Some r -> Permutation r l.
Proof.
  intros sz l r H. destruct (N.eq_dec sz 0) as [->|Hsz].
  - unfold std_sort_by, std_sort_by_outcome, stable_sort in H. simpl in H. injection H as <-. reflexivity.
  - destruct (@std_sort_by_good sz l) as (r' & E & P & _); [lia|].
    rewrite E in H. injection H as <-. exact P.
Qed.

(* T2: in the result every sell precedes every buy (for a non-zero-sized
   element type; for size_of = 0 Rust's sort returns immediately) *)
Theorem T2_sells_first :
  forall (sz : N) (l r : list A),
    (0 < sz)%N ->
    std_sort_by sz (fun a _ => key a) l = Some r ->
    sells_first r /\ sells_first_b r = true.
Proof.
  intros sz l r Hsz H.
  destruct (@std_sort_by_good sz l Hsz) as (r' & E & _ & S).
  rewrite E in H. injection H as <-.
  split; [apply SF_sells_first | apply SF_b]; exact S.
Qed.

(* T3: the model always returns normally for this comparator: no panic
   (panic_on_ord_violation is never reached), no abort, fuel suffices *)
Theorem T3_total :
  forall (sz : N) (l : list A), exists r, std_sort_by sz (fun a _ => key a) l = Some r.
Proof.
  intros sz l. destruct (N.eq_dec sz 0) as [->|Hsz].
  - exists l. reflexivity.
  - destruct (@std_sort_by_good sz l) as (r & E & _); [lia|]. exists r. exact E.
Qed.

End KeyFirst.

Print Assumptions T0_closed_form_le20.
Print Assumptions T1_perm_le20.
Print Assumptions T2_sells_first_le20.
Print Assumptions T3_total_le20.
Print Assumptions T1_perm.
Print Assumptions T2_sells_first.
Print Assumptions T3_total.
