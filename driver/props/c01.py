"""C01 — exchange slice; see driver/exch.py and Props/C01.v"""
import exch


def run(res, tier, seed, replay):
    return exch.run_property(res, "C01", tier, seed, replay, ["C01"])
