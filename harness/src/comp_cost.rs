//! BrokerCost: trade_impact_total and calc on the real code.
use crate::util::*;
use alator::broker::BrokerCost;
use rotala::exchange::uist_v1::{Trade, TradeType};
use serde_json::{json, Value};

pub fn costs_of(v: &Value) -> Vec<BrokerCost> {
    arr(v)
        .iter()
        .map(|c| {
            let k = s(&c[0]);
            let x = bf(&c[1]);
            match k.as_str() {
                "ps" => BrokerCost::per_share(x),
                "pct" => BrokerCost::pct_of_value(x),
                "flat" => BrokerCost::flat(x),
                _ => panic!("bad cost kind"),
            }
        })
        .collect()
}

pub fn run(sc: &Value) -> Value {
    let costs = costs_of(&sc["costs"]);
    let budget = bf(&sc["budget"]);
    let price = bf(&sc["price"]);
    let is_buy = b(&sc["is_buy"]);
    let qty = bf(&sc["qty"]);
    let value = bf(&sc["value"]);
    let (nb, np) = BrokerCost::trade_impact_total(&costs, &budget, &price, is_buy);
    let trade = Trade::new("X", value, qty, 0, TradeType::Buy);
    let calcs: Vec<Value> = costs.iter().map(|c| fb(c.calc(trade.clone()))).collect();
    let singles: Vec<Value> = costs
        .iter()
        .map(|c| {
            let (a, bb) = c.trade_impact(&budget, &price, is_buy);
            json!([fb(a), fb(bb)])
        })
        .collect();
    json!({
        "net_budget": fb(nb), "net_price": fb(np),
        "calcs": calcs, "singles": singles,
        "floor": fb((nb / np).floor()), "ceil": fb((nb / np).ceil()),
    })
}
