#!/usr/bin/env python3
"""tools/seed.py <Cxx> <A|B> [extra props...] — development aid: confirm a seeded change produced by a sub-agent in
its scratch worktree (/tmp/seed_<Cxx>), run our checks against it in /repo, undo, and record it in /verif/seeded/."""
import json
import os
import shutil
import subprocess
import sys
import time

prop, lab = sys.argv[1], sys.argv[2]
extra = sys.argv[3:]
wt = os.environ.get("SEED_WT") or ("/tmp/seedr_%s_%s" % (prop, lab) if os.path.isdir("/tmp/seedr_%s_%s" % (prop, lab)) else None) or ("/tmp/seed2_%s" % prop if lab in ("C", "D") and os.path.isdir("/tmp/seed2_%s" % prop) else "/tmp/seed_%s" % prop)
out = os.path.join(wt, "out")
env = dict(os.environ, CARGO_NET_OFFLINE="true", CARGO_TARGET_DIR=os.path.join(wt, "target"))


def sh(cmd, cwd=None, timeout=3000):
    p = subprocess.run(cmd, shell=True, cwd=cwd, env=env, stdout=subprocess.PIPE, stderr=subprocess.STDOUT, text=True, timeout=timeout)
    return p.returncode, p.stdout


diff = os.path.join(out, "%s.diff" % lab)
demo_name = "seed_demo_%s" % lab.lower()
# locate the demo test the agent left in the worktree
rc, found = sh("find . -path ./target -prune -o -name '%s.rs' -print" % demo_name, cwd=wt)
demo_path = found.strip().split("\n")[0] if found.strip() else None
assert demo_path, "no demo test found"
crate = "rotala" if demo_path.startswith("./rotala") else "alator"
meta = dict(property=prop, label=lab, patch=os.path.basename(diff), demo=demo_path, crate=crate, ran=[])


def note(cmd, rc, tail):
    meta["ran"].append(dict(cmd=cmd, rc=rc, tail=tail[-400:]))


# bring the scratch worktree to /repo's current HEAD (keeps out/ and the demo files, which are untracked)
head = subprocess.run("git -C /repo rev-parse HEAD", shell=True, capture_output=True, text=True).stdout.strip()
sh("git checkout -q -- . ; git checkout -q --detach %s" % head, cwd=wt)
rc, o = sh("git apply --check %s" % diff, cwd=wt)
note("git apply --check", rc, o)
if rc != 0:
    print("PATCH DOES NOT APPLY to current HEAD:", o[-300:])
    meta["confirmed"] = False
else:
    demo_cmd = "cargo test --offline -p %s --test %s" % (crate, demo_name)
    rc0, o0 = sh(demo_cmd, cwd=wt)
    note("clean tree: " + demo_cmd, rc0, o0)
    sh("git apply %s" % diff, cwd=wt)
    rc1, o1 = sh(demo_cmd, cwd=wt)
    note("with change: " + demo_cmd, rc1, o1)
    # the existing suite, demos excluded
    rc2, o2 = sh("cargo test --offline --workspace --lib --bins; cargo test --offline -p rotala --test uist_test --test jura_test; cargo test --offline -p alator --test staticweight_test", cwd=wt)
    # the baseline's http::jura::tests::test_single_trade_loop fails about one run in ten on random data (DESIGN 8.2)
    bad = [l for l in o2.split("\n") if l.startswith("test ") and l.rstrip().endswith("FAILED")
           and "jura::tests::test_single_trade_loop" not in l]
    failed = bool(bad) or "error[" in o2 or "could not compile" in o2
    note("with change: existing suite", 1 if failed else 0, "\n".join(l for l in o2.split("\n") if "test result" in l or "FAILED" in l or "failed" in l))
    sh("git checkout -q -- .", cwd=wt)
    meta["confirmed"] = (rc0 == 0 and rc1 != 0 and not failed)
    print("demo clean rc=%d, with change rc=%d, suite %s" % (rc0, rc1, "FAILS" if failed else "passes"))
# our checks against the change, in /repo
results = {}
if meta.get("confirmed") or "--force" in extra:
    # /repo is patched only while this lock is held; anything else that builds from /repo takes it too
    # (flock /tmp/repo.lock ./check …)
    import fcntl
    lockf = open("/tmp/repo.lock", "w")
    fcntl.flock(lockf, fcntl.LOCK_EX)
    st = subprocess.run("git -C /repo status --porcelain", shell=True, capture_output=True, text=True).stdout.strip()
    assert not st, "/repo not clean: " + st
    subprocess.run("git -C /repo apply %s" % diff, shell=True, check=True)
    try:
        for p in [prop] + [e for e in extra if e.startswith("C")]:
            t = time.time()
            r = subprocess.run("./check %s" % p, shell=True, cwd="/verif", capture_output=True, text=True, timeout=3000,
                               env=dict(os.environ, VERIF_EVIDENCE_DIR="/tmp/verif_evidence_seeded"))
            lines = [l for l in r.stdout.split("\n") if l.startswith("VIOLATION")]
            results[p] = dict(exit=r.returncode, violation_lines=lines, wall_s=round(time.time() - t, 1))
            rep = None
            for l in lines:
                path = l.split("replay=")[1].split()[0]
                try:
                    rj = json.load(open(path))
                    rep = dict(kind=rj.get("kind"), failure=rj.get("failure"), found_in=rj.get("found_in"))
                    if rep["failure"] is None and "no_longer_checks" in rj:
                        rep["no_longer_checks"] = rj["no_longer_checks"].get("first_mismatches", [])[:2]
                    if "error" in rj:
                        rep["error"] = rj["error"][:300]
                    if "problems" in rj:
                        rep["problems"] = [x[:300] for x in rj["problems"]]
                except Exception as e:
                    rep = dict(unreadable=str(e))
            results[p]["replay_summary"] = rep
            print(p, "exit", r.returncode, lines, json.dumps(rep)[:400] if rep else "")
    finally:
        subprocess.run("git -C /repo checkout -- .", shell=True, check=True)
        fcntl.flock(lockf, fcntl.LOCK_UN)
meta["our_checks"] = results
meta["caught_by"] = [p for p, r in results.items() if r["exit"] != 0]
d = "/verif/seeded/%s_%s" % (prop, lab)
os.makedirs(d, exist_ok=True)
shutil.copy(diff, os.path.join(d, "patch.diff"))
shutil.copy(os.path.join(wt, demo_path), os.path.join(d, os.path.basename(demo_path)))
md = os.path.join(out, "%s.md" % lab)
if os.path.exists(md):
    shutil.copy(md, os.path.join(d, "notes.md"))
    meta["needs_to_manifest"] = open(md).read()[:1500]
json.dump(meta, open(os.path.join(d, "meta.json"), "w"), indent=1)
print("recorded in", d, "confirmed:", meta.get("confirmed"), "caught_by:", meta["caught_by"])
