(* Check/SortCheck.v -- boolean checker relating an observed sorted buffer to the
   model of `slice::sort_by` (Model/Sort.v).  Definitions only. *)
From Coq Require Import List NArith Bool.
From Alator Require Import Model.Sort.
Import ListNotations.

Fixpoint list_eqb {A} (eqb : A -> A -> bool) (l1 l2 : list A) : bool :=
  match l1, l2 with
  | [], [] => true
  | x :: t1, y :: t2 => eqb x y && list_eqb eqb t1 t2
  | _, _ => false
  end.

(* [sorted_observed] is exactly what rustc 1.95.0's `buffer.sort_by(|a, _b| if key a
   { Less } else { Greater })` leaves in the buffer, for elements of [sz] bytes *)
Definition std_perm_ok {A} (eqb : A -> A -> bool) (sz : N) (key : A -> bool)
           (buffer sorted_observed : list A) : bool :=
  match std_sort_by sz (fun a _ => key a) buffer with
  | Some r => list_eqb eqb r sorted_observed
  | None => false
  end.
