#!/bin/bash
# usage: run_cases.sh <profile> [jobs] [timeout_per_file_seconds]
# Compiles validate/cases/cases_<profile>_*.v (each prints one verdict per case) and summarises.
cd "$(dirname "$0")/.."
profile=$1; jobs=${2:-12}; tmo=${3:-3000}
ls validate/cases/cases_${profile}_*.v | xargs -P "$jobs" -I{} sh -c \
  'f={}; timeout '"$tmo"' coqc -Q /tmp/sortwork Alator "$f" > "${f%.v}.out" 2>&1; echo "exit $?" >> "${f%.v}.out"'
python3 validate/summarise.py "$profile"
