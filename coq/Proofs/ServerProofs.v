(* ServerProofs.v — proofs about the server model (Model/Server.v) for the defect-free valuation
   [clean] and for EVERY exchange (x_init, x_tick, x_insert, x_delete are section parameters). *)

From Coq Require Import ZArith NArith List Bool String Lia Permutation.
From Coq Require Import Sorted.
From Alator Require Import Model.Quirks Model.Server.
Import ListNotations.

(* ---------- generic facts about nlookup / nupsert ---------- *)

Lemma nlookup_upsert_same {A} (l : list (N * A)) k a : nlookup (nupsert l k a) k = Some a.
Proof.
  induction l as [|[k' a'] l IH]; cbn [nupsert nlookup].
  - rewrite N.eqb_refl. reflexivity.
  - destruct (N.eqb k k') eqn:E; cbn [nlookup].
    + rewrite N.eqb_refl. reflexivity.
    + rewrite E. exact IH.
Qed.

Lemma nlookup_upsert_other {A} (l : list (N * A)) k a k' :
  k' <> k -> nlookup (nupsert l k a) k' = nlookup l k'.
Proof.
  intros Hne. induction l as [|[k0 a0] l IH]; cbn [nupsert nlookup].
  - destruct (N.eqb k' k) eqn:E; [apply N.eqb_eq in E; contradiction | reflexivity].
  - destruct (N.eqb k k0) eqn:E; cbn [nlookup].
    + apply N.eqb_eq in E; subst k0.
      destruct (N.eqb k' k) eqn:E2; [apply N.eqb_eq in E2; contradiction | reflexivity].
    + destruct (N.eqb k' k0); [reflexivity | exact IH].
Qed.

Lemma nlookup_none_notin {A} (l : list (N * A)) k :
  nlookup l k = None <-> ~ In k (map fst l).
Proof.
  induction l as [|[k0 a0] l IH]; cbn [nlookup map fst In].
  - split; [intros _ H; exact H | reflexivity].
  - destruct (N.eqb k k0) eqn:E.
    + apply N.eqb_eq in E; subst k0. split; [discriminate | intros H; exfalso; apply H; left; reflexivity].
    + apply N.eqb_neq in E. rewrite IH. split.
      * intros H [H1 | H1]; [apply E; symmetry; exact H1 | exact (H H1)].
      * intros H H1. apply H. right. exact H1.
Qed.

Lemma nlookup_some_in {A} (l : list (N * A)) k :
  nlookup l k <> None <-> In k (map fst l).
Proof.
  rewrite nlookup_none_notin. split.
  - intros H. destruct (in_dec N.eq_dec k (map fst l)) as [Hi | Hn]; [exact Hi | contradiction].
  - intros H Hn. exact (Hn H).
Qed.

Lemma keys_upsert_present {A} (l : list (N * A)) k a :
  nlookup l k <> None -> map fst (nupsert l k a) = map fst l.
Proof.
  induction l as [|[k0 a0] l IH]; cbn [nupsert nlookup map fst]; intros H.
  - contradiction.
  - destruct (N.eqb k k0) eqn:E; cbn [map fst].
    + apply N.eqb_eq in E; subst k0. reflexivity.
    + rewrite (IH H). reflexivity.
Qed.

Lemma keys_upsert_absent {A} (l : list (N * A)) k a :
  nlookup l k = None -> map fst (nupsert l k a) = map fst l ++ [k].
Proof.
  induction l as [|[k0 a0] l IH]; cbn [nupsert nlookup map fst List.app]; intros H.
  - reflexivity.
  - destruct (N.eqb k k0) eqn:E; cbn [map fst].
    + discriminate.
    + rewrite (IH H). reflexivity.
Qed.

Lemma NoDup_snoc {A} (l : list A) (x : A) : NoDup l -> ~ In x l -> NoDup (l ++ [x]).
Proof.
  intros Hnd Hni. induction Hnd as [|y l Hy Hnd IH]; cbn [List.app].
  - constructor; [intros H; exact H | constructor].
  - constructor.
    + intros Hin. apply in_app_or in Hin. destruct Hin as [Hin | [Hin | []]].
      * exact (Hy Hin).
      * apply Hni. left. symmetry; exact Hin.
    + apply IH. intros H. apply Hni. right. exact H.
Qed.

Section ServerProofs.
Context {X Row Ordr Key TOut : Type}.
Context (x_init : X) (x_tick : X -> Row -> list nat -> option (X * TOut))
        (x_insert : X -> Ordr -> X) (x_delete : X -> Key -> X) (empty_out : TOut) (is_jura : bool).

Notation step := (sstep x_init x_tick x_insert x_delete empty_out clean is_jura).
Notation run := (srun x_init x_tick x_insert x_delete empty_out clean is_jura).
Notation tick1 := (bt_tick x_tick empty_out clean is_jura).

(* ---------- state invariant ---------- *)
Definition SInv (s : app X Row) : Prop :=
  NoDup (map fst (backtests s)) /\ Forall (fun k => (k <= last s)%N) (map fst (backtests s)).

Definition created (r : sres Row TOut) : list N := match r with RId (Some i) => [i] | _ => [] end.
Definition is_create (o : sop Ordr Key) : Prop := exists name, o = SInit name \/ o = SNew name.
Definition names (o : sop Ordr Key) : option N :=
  match o with
  | STick id _ | SFetch id | SInsert _ id | SDelete _ id | SInfo id | SNow id => Some id
  | SInit _ | SNew _ => None
  end.

(* the shape of one step: nothing changes, or a present backtest is replaced (same dataset name),
   or a fresh backtest is created *)
Definition created_app (s : app X Row) (name : string) (d0 : Z) : app X Row :=
  mkApp (nupsert (backtests s) (N.succ (last s)) (mkBacktest d0 0 x_init name))
        (N.succ (last s)) (datasets s).

Lemma step_create_unfold s o name :
  (o = SInit name \/ o = SNew name) -> step s o = create_backtest x_init s name true.
Proof. intros [H | H]; subst o; reflexivity. Qed.

Lemma step_shape s o :
  (fst (step s o) = s /\ created (snd (step s o)) = []) \/
  (exists id b b', names o = Some id /\ nlookup (backtests s) id = Some b /\
     fst (step s o) = with_backtest s id b' /\ bt_dataset b' = bt_dataset b /\
     created (snd (step s o)) = []) \/
  (exists name d d0, (o = SInit name \/ o = SNew name) /\
     slookup (datasets s) name = Some d /\ get_date d 0 = Some d0 /\
     step s o = (created_app s name d0, RId (Some (N.succ (last s))))).
Proof.
  destruct o as [id perm | id | name | name | o id | k id | id | id].
  - cbn [sstep]. destruct (nlookup (backtests s) id) as [b|] eqn:Hb; [| left; split; reflexivity].
    destruct (slookup (datasets s) (bt_dataset b)) as [d|] eqn:Hd; [| left; split; reflexivity].
    destruct (tick1 d b perm) as [[b' r]|] eqn:Ht; [| left; split; reflexivity].
    right; left. exists id, b, b'. cbn [fst snd names created].
    split; [reflexivity|]. split; [exact Hb|]. split; [reflexivity|]. split; [| reflexivity].
    unfold bt_tick in Ht.
    destruct (match get_quotes d (bt_date b) with
              | Some row => x_tick (bt_exch b) row perm
              | None => Some (bt_exch b, empty_out) end) as [[x' out]|]; [| discriminate].
    inversion Ht; subst. reflexivity.
  - cbn [sstep]. destruct (nlookup (backtests s) id) as [b|] eqn:Hb; [| left; split; reflexivity].
    destruct (slookup (datasets s) (bt_dataset b)) as [d|] eqn:Hd; left; split; reflexivity.
  - rewrite (step_create_unfold s (SInit name) name (or_introl eq_refl)). unfold create_backtest.
    destruct (slookup (datasets s) name) as [d|] eqn:Hd; [| left; split; reflexivity].
    destruct (get_date d 0) as [d0|] eqn:Hd0; [| left; split; reflexivity].
    right; right. exists name, d, d0. repeat split; auto.
  - rewrite (step_create_unfold s (SNew name) name (or_intror eq_refl)). unfold create_backtest.
    destruct (slookup (datasets s) name) as [d|] eqn:Hd; [| left; split; reflexivity].
    destruct (get_date d 0) as [d0|] eqn:Hd0; [| left; split; reflexivity].
    right; right. exists name, d, d0. repeat split; auto.
  - cbn [sstep]. destruct (nlookup (backtests s) id) as [b|] eqn:Hb; [| left; split; reflexivity].
    right; left. exists id, b. eexists. cbn [fst snd names created].
    split; [reflexivity|]. split; [exact Hb|]. split; [reflexivity|]. split; reflexivity.
  - cbn [sstep]. destruct (nlookup (backtests s) id) as [b|] eqn:Hb; [| left; split; reflexivity].
    right; left. exists id, b. eexists. cbn [fst snd names created].
    split; [reflexivity|]. split; [exact Hb|]. split; [reflexivity|]. split; reflexivity.
  - cbn [sstep]. destruct (nlookup (backtests s) id) as [b|] eqn:Hb; left; split; reflexivity.
  - cbn [sstep]. destruct (nlookup (backtests s) id) as [b|] eqn:Hb; [| left; split; reflexivity].
    destruct (slookup (datasets s) (bt_dataset b)) as [d|] eqn:Hd; left; split; reflexivity.
Qed.


Lemma run_cons s o r :
  run s (o :: r) = (fst (run (fst (step s o)) r), snd (step s o) :: snd (run (fst (step s o)) r)).
Proof.
  cbn [srun]. destruct (step s o) as [s' x]. cbn [fst snd].
  destruct (run s' r) as [s'' xs]. reflexivity.
Qed.

Lemma sinv_create ds : SInv (app_create ds).
Proof. split; cbn [app_create backtests last map]; constructor. Qed.

Lemma sinv_single name d s : app_single x_init name d = Some s -> SInv s.
Proof.
  unfold app_single. destruct (get_date d 0) as [d0|]; [| discriminate].
  intros H; inversion H; subst; clear H.
  split; cbn [backtests last map fst].
  - constructor; [intros [] | constructor].
  - constructor; [lia | constructor].
Qed.

Lemma sinv_absent s : SInv s -> nlookup (backtests s) (N.succ (last s)) = None.
Proof.
  intros [_ Hall]. apply nlookup_none_notin. intros Hin.
  rewrite Forall_forall in Hall. specialize (Hall _ Hin). lia.
Qed.

Lemma sinv_present_le s j : SInv s -> nlookup (backtests s) j <> None -> (j <= last s)%N.
Proof.
  intros [_ Hall] Hj. apply nlookup_some_in in Hj.
  rewrite Forall_forall in Hall. exact (Hall _ Hj).
Qed.

Lemma sinv_with_backtest s id b :
  SInv s -> nlookup (backtests s) id <> None -> SInv (with_backtest s id b).
Proof.
  intros Hs Hid. unfold SInv, with_backtest. cbn [backtests last].
  rewrite (keys_upsert_present _ _ _ Hid). exact Hs.
Qed.

Lemma sinv_created s name d0 : SInv s -> SInv (created_app s name d0).
Proof.
  intros Hs. pose proof (sinv_absent s Hs) as Habs. destruct Hs as [Hnd Hall].
  unfold SInv, created_app. cbn [backtests last].
  rewrite (keys_upsert_absent _ _ _ Habs). split.
  - apply NoDup_snoc; [exact Hnd |]. apply nlookup_none_notin. exact Habs.
  - apply Forall_app. split.
    + eapply Forall_impl; [| exact Hall]. cbn beta. intros a Ha. lia.
    + constructor; [lia | constructor].
Qed.

Lemma sinv_step s o : SInv s -> SInv (fst (step s o)).
Proof.
  intros Hs.
  destruct (step_shape s o) as [[Hf _] | [(id & b & b' & Hn & Hb & Hf & _) | (name & d & d0 & Ho & Hd & Hd0 & Hst)]].
  - rewrite Hf. exact Hs.
  - rewrite Hf. apply sinv_with_backtest; [exact Hs |]. rewrite Hb. discriminate.
  - rewrite Hst. cbn [fst]. apply sinv_created. exact Hs.
Qed.

Lemma sinv_run s ops : SInv s -> SInv (fst (run s ops)).
Proof.
  revert s. induction ops as [|o r IH]; intros s Hs.
  - exact Hs.
  - rewrite run_cons. cbn [fst]. apply IH. apply sinv_step. exact Hs.
Qed.

Lemma datasets_step s o : datasets (fst (step s o)) = datasets s.
Proof.
  destruct (step_shape s o) as [[Hf _] | [(id & b & b' & Hn & Hb & Hf & _) | (name & d & d0 & Ho & Hd & Hd0 & Hst)]].
  - rewrite Hf. reflexivity.
  - rewrite Hf. reflexivity.
  - rewrite Hst. reflexivity.
Qed.

Lemma datasets_run s ops : datasets (fst (run s ops)) = datasets s.
Proof.
  revert s. induction ops as [|o r IH]; intros s.
  - reflexivity.
  - rewrite run_cons. cbn [fst]. rewrite IH. apply datasets_step.
Qed.

(* ---------- C08: ids ---------- *)

Lemma create_names_none o : is_create o -> names o = None.
Proof. intros [name [H | H]]; subst o; reflexivity. Qed.

Lemma create_fresh s o i :
  SInv s -> is_create o -> snd (step s o) = RId (Some i) ->
  nlookup (backtests s) i = None /\ (last s < i)%N.
Proof.
  intros Hs Hc Hr. pose proof (create_names_none o Hc) as Hnn.
  destruct (step_shape s o) as [[_ Hcr] | [(id & b & b' & Hn & _) | (name & d & d0 & Ho & Hd & Hd0 & Hst)]].
  - rewrite Hr in Hcr. cbn [created] in Hcr. discriminate.
  - rewrite Hnn in Hn. discriminate.
  - rewrite Hst in Hr. cbn [snd] in Hr. inversion Hr; subst i. split.
    + apply sinv_absent. exact Hs.
    + lia.
Qed.

Lemma create_name_inj (o : sop Ordr Key) n1 n2 :
  (o = SInit n1 \/ o = SNew n1) -> (o = SInit n2 \/ o = SNew n2) -> n1 = n2.
Proof. intros [H1 | H1] [H2 | H2]; subst o; congruence. Qed.

Lemma create_spec s o name s' i :
  (o = SInit name \/ o = SNew name) -> SInv s -> step s o = (s', RId (Some i)) ->
  exists d d0, slookup (datasets s) name = Some d /\ get_date d 0 = Some d0 /\
    nlookup (backtests s') i = Some (mkBacktest d0 0 x_init name) /\
    (forall j, j <> i -> nlookup (backtests s') j = nlookup (backtests s) j) /\
    last s' = i.
Proof.
  intros Ho Hs Hst.
  destruct (step_shape s o) as [[_ Hcr] | [(id & b & b' & Hn & _) | (name' & d & d0 & Ho' & Hd & Hd0 & Hst')]].
  - rewrite Hst in Hcr. cbn [snd created] in Hcr. discriminate.
  - rewrite (create_names_none o (ex_intro _ name Ho)) in Hn. discriminate.
  - pose proof (create_name_inj o name name' Ho Ho') as Hnm. subst name'.
    rewrite Hst in Hst'. inversion Hst'; subst s' i; clear Hst'.
    exists d, d0. split; [exact Hd |]. split; [exact Hd0 |].
    unfold created_app. cbn [backtests last]. split; [| split].
    + apply nlookup_upsert_same.
    + intros j Hj. apply nlookup_upsert_other. exact Hj.
    + reflexivity.
Qed.

(* ids returned along any history are pairwise distinct and distinct from those present initially *)
Lemma fresh_ids s ops :
  SInv s -> NoDup (map fst (backtests s) ++ flat_map created (snd (run s ops))).
Proof.
  revert s. induction ops as [|o r IH]; intros s Hs.
  - cbn [srun snd flat_map]. rewrite app_nil_r. exact (proj1 Hs).
  - rewrite run_cons. cbn [snd flat_map].
    pose proof (IH _ (sinv_step s o Hs)) as IH'.
    destruct (step_shape s o) as [[Hf Hcr] | [(id & b & b' & Hn & Hb & Hf & _ & Hcr) | (name & d & d0 & Ho & Hd & Hd0 & Hst)]].
    + rewrite Hcr. cbn [List.app]. rewrite Hf in IH' |- *. exact IH'.
    + rewrite Hcr. cbn [List.app]. rewrite Hf in IH' |- *.
      unfold with_backtest in IH' at 1. cbn [backtests] in IH'.
      rewrite keys_upsert_present in IH' by (rewrite Hb; discriminate). exact IH'.
    + rewrite Hst in IH' |- *. cbn [fst snd created] in IH' |- *.
      unfold created_app in IH' at 1. cbn [backtests] in IH'.
      rewrite (keys_upsert_absent _ _ _ (sinv_absent s Hs)) in IH'.
      rewrite <- app_assoc in IH'. exact IH'.
Qed.

(* ---------- C08: isolation ---------- *)

Lemma step_frame s o j :
  SInv s -> names o <> Some j -> nlookup (backtests s) j <> None ->
  nlookup (backtests (fst (step s o))) j = nlookup (backtests s) j.
Proof.
  intros Hs Hn Hj.
  destruct (step_shape s o) as [[Hf _] | [(id & b & b' & Hn' & Hb & Hf & _) | (name & d & d0 & Ho & Hd & Hd0 & Hst)]].
  - rewrite Hf. reflexivity.
  - rewrite Hf. unfold with_backtest. cbn [backtests].
    apply nlookup_upsert_other. intros E. subst id. exact (Hn Hn').
  - rewrite Hst. cbn [fst]. unfold created_app. cbn [backtests].
    apply nlookup_upsert_other. pose proof (sinv_present_le s j Hs Hj). lia.
Qed.

Lemma step_local s1 s2 o j :
  names o = Some j -> datasets s1 = datasets s2 ->
  nlookup (backtests s1) j = nlookup (backtests s2) j ->
  snd (step s1 o) = snd (step s2 o) /\
  nlookup (backtests (fst (step s1 o))) j = nlookup (backtests (fst (step s2 o))) j.
Proof.
  intros Hn Hds Hl.
  destruct o as [id perm | id | name | name | o id | k id | id | id];
    cbn [names] in Hn; try discriminate; inversion Hn; subst id; clear Hn;
    cbn [sstep]; rewrite Hl; try rewrite Hds.
  - destruct (nlookup (backtests s2) j) as [b|] eqn:Hb; [| split; [reflexivity | cbn [fst]; congruence]].
    destruct (slookup (datasets s2) (bt_dataset b)) as [d|] eqn:Hd; [| split; [reflexivity | cbn [fst]; congruence]].
    destruct (tick1 d b perm) as [[b' r]|] eqn:Ht; [| split; [reflexivity | cbn [fst]; congruence]].
    split; [reflexivity |]. cbn [fst]. unfold with_backtest. cbn [backtests].
    rewrite !nlookup_upsert_same. reflexivity.
  - destruct (nlookup (backtests s2) j) as [b|] eqn:Hb; [| split; [reflexivity | cbn [fst]; congruence]].
    destruct (slookup (datasets s2) (bt_dataset b)) as [d|] eqn:Hd; (split; [reflexivity | cbn [fst]; congruence]).
  - destruct (nlookup (backtests s2) j) as [b|] eqn:Hb; [| split; [reflexivity | cbn [fst]; congruence]].
    split; [reflexivity |]. cbn [fst]. unfold with_backtest. cbn [backtests].
    rewrite !nlookup_upsert_same. reflexivity.
  - destruct (nlookup (backtests s2) j) as [b|] eqn:Hb; [| split; [reflexivity | cbn [fst]; congruence]].
    split; [reflexivity |]. cbn [fst]. unfold with_backtest. cbn [backtests].
    rewrite !nlookup_upsert_same. reflexivity.
  - destruct (nlookup (backtests s2) j) as [b|] eqn:Hb; (split; [reflexivity | cbn [fst]; congruence]).
  - destruct (nlookup (backtests s2) j) as [b|] eqn:Hb; [| split; [reflexivity | cbn [fst]; congruence]].
    destruct (slookup (datasets s2) (bt_dataset b)) as [d|] eqn:Hd; (split; [reflexivity | cbn [fst]; congruence]).
Qed.

(* requests naming an unknown backtest or dataset are rejected without changing any state *)
Definition rejection (r : sres Row TOut) : Prop :=
  match r with
  | RTick None | RFetch None | RId None | RUnit None | RInfo None | RNow None => True
  | _ => False
  end.

Lemma unknown_backtest s o id :
  names o = Some id -> nlookup (backtests s) id = None ->
  fst (step s o) = s /\ rejection (snd (step s o)).
Proof.
  intros Hn Hl.
  destruct o as [id' perm | id' | name | name | o id' | k id' | id' | id'];
    cbn [names] in Hn; try discriminate; inversion Hn; subst id'; clear Hn;
    cbn [sstep]; rewrite Hl; split; cbn [fst snd rejection]; solve [reflexivity | exact I].
Qed.

Lemma unknown_dataset s o name :
  (o = SInit name \/ o = SNew name) -> slookup (datasets s) name = None ->
  step s o = (s, RId None).
Proof.
  intros Ho Hd. rewrite (step_create_unfold s o name Ho). unfold create_backtest.
  rewrite Hd. reflexivity.
Qed.

(* noninterference over histories *)
Definition names_b (j : N) (o : sop Ordr Key) : bool :=
  match names o with Some i => N.eqb i j | None => false end.
Fixpoint responses (j : N) (s : app X Row) (ops : list (sop Ordr Key)) : list (sres Row TOut) :=
  match ops with
  | [] => []
  | o :: r => let '(s', x) := step s o in
              if names_b j o then x :: responses j s' r else responses j s' r
  end.

Lemma names_b_true j o : names_b j o = true -> names o = Some j.
Proof.
  unfold names_b. destruct (names o) as [i|]; [| discriminate].
  intros H. apply N.eqb_eq in H. subst i. reflexivity.
Qed.

Lemma names_b_false j o : names_b j o = false -> names o <> Some j.
Proof.
  unfold names_b. intros H E. rewrite E in H. rewrite N.eqb_refl in H. discriminate.
Qed.

Lemma responses_cons j s o r :
  responses j s (o :: r) =
  if names_b j o then snd (step s o) :: responses j (fst (step s o)) r
  else responses j (fst (step s o)) r.
Proof. cbn [responses]. destruct (step s o) as [s' x]. reflexivity. Qed.

Lemma nlookup_upsert_present {A} (l : list (N * A)) k a j :
  nlookup l j <> None -> nlookup (nupsert l k a) j <> None.
Proof.
  intros H. destruct (N.eq_dec j k) as [E | E].
  - subst j. rewrite nlookup_upsert_same. discriminate.
  - rewrite (nlookup_upsert_other l k a j E). exact H.
Qed.

Lemma present_step s o j :
  nlookup (backtests s) j <> None -> nlookup (backtests (fst (step s o))) j <> None.
Proof.
  intros Hj.
  destruct (step_shape s o) as [[Hf _] | [(id & b & b' & Hn' & Hb & Hf & _) | (name & d & d0 & Ho & Hd & Hd0 & Hst)]].
  - rewrite Hf. exact Hj.
  - rewrite Hf. unfold with_backtest. cbn [backtests]. apply nlookup_upsert_present. exact Hj.
  - rewrite Hst. cbn [fst]. unfold created_app. cbn [backtests].
    apply nlookup_upsert_present. exact Hj.
Qed.

Lemma noninterference_gen j ops : forall s1 s2,
  SInv s1 -> datasets s1 = datasets s2 ->
  nlookup (backtests s1) j = nlookup (backtests s2) j ->
  nlookup (backtests s1) j <> None ->
  responses j s1 ops = responses j s2 (filter (names_b j) ops) /\
  nlookup (backtests (fst (run s1 ops))) j
  = nlookup (backtests (fst (run s2 (filter (names_b j) ops)))) j.
Proof.
  induction ops as [|o r IH]; intros s1 s2 Hs Hds Hl Hj.
  - cbn [filter responses srun fst]. split; [reflexivity | exact Hl].
  - cbn [filter]. rewrite (responses_cons j s1 o r). rewrite (run_cons s1 o r). cbn [fst].
    destruct (names_b j o) eqn:Hn.
    + rewrite (responses_cons j s2 o). rewrite (run_cons s2 o). cbn [fst]. rewrite Hn.
      pose proof (names_b_true j o Hn) as Hn'.
      destruct (step_local s1 s2 o j Hn' Hds Hl) as [Hr Hl'].
      assert (Hds' : datasets (fst (step s1 o)) = datasets (fst (step s2 o))).
      { rewrite !datasets_step. exact Hds. }
      destruct (IH (fst (step s1 o)) (fst (step s2 o)) (sinv_step s1 o Hs) Hds' Hl'
                   (present_step s1 o j Hj)) as [IH1 IH2].
      split; [| exact IH2]. rewrite Hr, IH1. reflexivity.
    + pose proof (names_b_false j o Hn) as Hn'.
      assert (Hds' : datasets (fst (step s1 o)) = datasets s2).
      { rewrite datasets_step. exact Hds. }
      assert (Hl' : nlookup (backtests (fst (step s1 o))) j = nlookup (backtests s2) j).
      { rewrite (step_frame s1 o j Hs Hn' Hj). exact Hl. }
      exact (IH (fst (step s1 o)) s2 (sinv_step s1 o Hs) Hds' Hl' (present_step s1 o j Hj)).
Qed.

Lemma noninterference s j ops :
  SInv s -> nlookup (backtests s) j <> None ->
  responses j s ops = responses j s (filter (names_b j) ops) /\
  nlookup (backtests (fst (run s ops))) j = nlookup (backtests (fst (run s (filter (names_b j) ops)))) j.
Proof.
  intros Hs Hj. apply noninterference_gen; [exact Hs | reflexivity | reflexivity | exact Hj].
Qed.


(* ---------- C07: the clock ---------- *)
(* backtest b has performed k ticks on dataset d *)
Definition clock_ok (d : dataset Row) (b : backtest X) (k : nat) : Prop :=
  bt_pos b = k /\ get_date d (Nat.min k (List.length (ds_dates d) - 1)) = Some (bt_date b).

Lemma clock_fresh d d0 name : get_date d 0 = Some d0 -> clock_ok d (mkBacktest d0 0 x_init name) 0.
Proof.
  intros H. split; cbn [bt_pos bt_date]; [reflexivity |]. rewrite Nat.min_0_l. exact H.
Qed.

(* bt_tick under [clean] *)
Lemma tick1_unfold d b perm :
  tick1 d b perm =
  match (match get_quotes d (bt_date b) with
         | Some row => x_tick (bt_exch b) row perm
         | None => Some (bt_exch b, empty_out)
         end) with
  | None => None
  | Some (x', out) =>
      Some (mkBacktest
              (if has_next d (S (bt_pos b))
               then match get_date d (S (bt_pos b)) with Some dt => dt | None => bt_date b end
               else bt_date b)
              (S (bt_pos b)) x' (bt_dataset b),
            (has_next d (S (bt_pos b)), out))
  end.
Proof. unfold bt_tick. destruct is_jura; reflexivity. Qed.

Lemma clock_advance (d : dataset Row) date k :
  get_date d (Nat.min k (List.length (ds_dates d) - 1)) = Some date ->
  get_date d (Nat.min (S k) (List.length (ds_dates d) - 1))
  = Some (if has_next d (S k)
          then match get_date d (S k) with Some dt => dt | None => date end
          else date).
Proof.
  intros H. unfold has_next.
  destruct (Nat.ltb (S k) (List.length (ds_dates d))) eqn:E.
  - apply Nat.ltb_lt in E. rewrite Nat.min_l by lia.
    destruct (get_date d (S k)) as [dt|] eqn:G; [reflexivity |].
    unfold get_date in G. apply nth_error_None in G. lia.
  - apply Nat.ltb_ge in E. rewrite Nat.min_r by lia.
    rewrite Nat.min_r in H by lia. exact H.
Qed.

(* one tick: matches against exactly the row of the current date, advances the clock, reports has_next *)
Lemma tick1_spec d b perm b' hn out k :
  clock_ok d b k -> tick1 d b perm = Some (b', (hn, out)) ->
  clock_ok d b' (S k) /\ hn = Nat.ltb (S k) (List.length (ds_dates d)) /\ bt_dataset b' = bt_dataset b /\
  match get_quotes d (bt_date b) with
  | Some row => x_tick (bt_exch b) row perm = Some (bt_exch b', out)
  | None => bt_exch b' = bt_exch b /\ out = empty_out
  end.
Proof.
  intros [Hp Hd] Ht. rewrite tick1_unfold in Ht.
  destruct (get_quotes d (bt_date b)) as [row|] eqn:Hq.
  - destruct (x_tick (bt_exch b) row perm) as [[x' o']|] eqn:Hx; [| discriminate].
    injection Ht as Hb' Hhn Hout. subst b' hn out. cbn [bt_exch bt_dataset].
    split; [| split; [| split]].
    + split; cbn [bt_pos bt_date]; [rewrite Hp; reflexivity |].
      rewrite Hp. apply clock_advance. exact Hd.
    + rewrite Hp. reflexivity.
    + reflexivity.
    + reflexivity.
  - injection Ht as Hb' Hhn Hout. subst b' hn out. cbn [bt_exch bt_dataset].
    split; [| split; [| split]].
    + split; cbn [bt_pos bt_date]; [rewrite Hp; reflexivity |].
      rewrite Hp. apply clock_advance. exact Hd.
    + rewrite Hp. reflexivity.
    + reflexivity.
    + split; reflexivity.
Qed.

(* number of successful ticks on j in a history *)
Fixpoint ticks_on (j : N) (s : app X Row) (ops : list (sop Ordr Key)) : nat :=
  match ops with
  | [] => 0
  | o :: r => let '(s', x) := step s o in
              (match o, x with STick i _, RTick (Some _) => if N.eqb i j then 1 else 0 | _, _ => 0 end)
              + ticks_on j s' r
  end.

Definition tick_count (j : N) (o : sop Ordr Key) (x : sres Row TOut) : nat :=
  match o, x with STick i _, RTick (Some _) => if N.eqb i j then 1 else 0 | _, _ => 0 end.

Lemma ticks_on_cons j s o r :
  ticks_on j s (o :: r) = tick_count j o (snd (step s o)) + ticks_on j (fst (step s o)) r.
Proof. cbn [ticks_on]. destruct (step s o) as [s' x]. reflexivity. Qed.

Lemma tick_count_other j o x : names o <> Some j -> tick_count j o x = 0.
Proof.
  intros Hn. destruct o as [id perm | id | name | name | o id | k id | id | id]; try reflexivity.
  cbn [names] in Hn. unfold tick_count.
  destruct (N.eqb id j) eqn:E.
  - apply N.eqb_eq in E. subst id. exfalso. apply Hn. reflexivity.
  - destruct x as [[r|] | r | r | r | r | r |]; reflexivity.
Qed.

Lemma clock_step s j b d k o :
  SInv s -> nlookup (backtests s) j = Some b -> slookup (datasets s) (bt_dataset b) = Some d ->
  clock_ok d b k ->
  exists b', nlookup (backtests (fst (step s o))) j = Some b' /\ bt_dataset b' = bt_dataset b /\
             clock_ok d b' (k + tick_count j o (snd (step s o))).
Proof.
  intros Hs Hb Hd Hc.
  destruct (names_b j o) eqn:Hnb.
  - apply names_b_true in Hnb.
    destruct o as [id perm | id | name | name | o id | kk id | id | id];
      cbn [names] in Hnb; try discriminate; inversion Hnb; subst id; clear Hnb; cbn [sstep]; rewrite Hb.
    + rewrite Hd. destruct (tick1 d b perm) as [[b' [hn out]]|] eqn:Ht.
      * destruct (tick1_spec d b perm b' hn out k Hc Ht) as (Hc' & _ & Hds & _).
        exists b'. cbn [fst snd tick_count]. rewrite N.eqb_refl.
        unfold with_backtest. cbn [backtests]. rewrite nlookup_upsert_same.
        split; [reflexivity |]. split; [exact Hds |].
        replace (k + 1)%nat with (S k) by lia. exact Hc'.
      * exists b. cbn [fst snd tick_count]. rewrite Nat.add_0_r.
        split; [exact Hb |]. split; [reflexivity | exact Hc].
    + rewrite Hd. exists b. cbn [fst snd tick_count]. rewrite Nat.add_0_r.
      split; [exact Hb |]. split; [reflexivity | exact Hc].
    + eexists. cbn [fst snd tick_count]. rewrite Nat.add_0_r.
      unfold with_backtest. cbn [backtests]. rewrite nlookup_upsert_same.
      split; [reflexivity |]. split; [reflexivity | exact Hc].
    + eexists. cbn [fst snd tick_count]. rewrite Nat.add_0_r.
      unfold with_backtest. cbn [backtests]. rewrite nlookup_upsert_same.
      split; [reflexivity |]. split; [reflexivity | exact Hc].
    + exists b. cbn [fst snd tick_count]. rewrite Nat.add_0_r.
      split; [exact Hb |]. split; [reflexivity | exact Hc].
    + rewrite Hd. exists b. cbn [fst snd tick_count]. rewrite Nat.add_0_r.
      split; [exact Hb |]. split; [reflexivity | exact Hc].
  - apply names_b_false in Hnb. exists b.
    rewrite (tick_count_other j o _ Hnb). rewrite Nat.add_0_r.
    rewrite (step_frame s o j Hs Hnb) by (rewrite Hb; discriminate).
    split; [exact Hb |]. split; [reflexivity | exact Hc].
Qed.

(* after any history the clock of backtest j has advanced by exactly the number of its ticks;
   no other operation moves it *)
Lemma clock_run s j b d k ops :
  SInv s -> nlookup (backtests s) j = Some b -> slookup (datasets s) (bt_dataset b) = Some d ->
  clock_ok d b k ->
  exists b', nlookup (backtests (fst (run s ops))) j = Some b' /\ bt_dataset b' = bt_dataset b /\
             clock_ok d b' (k + ticks_on j s ops).
Proof.
  revert s b k. induction ops as [|o r IH]; intros s b k Hs Hb Hd Hc.
  - exists b. cbn [srun fst ticks_on]. rewrite Nat.add_0_r.
    split; [exact Hb |]. split; [reflexivity | exact Hc].
  - rewrite run_cons, ticks_on_cons. cbn [fst].
    destruct (clock_step s j b d k o Hs Hb Hd Hc) as (b1 & Hb1 & Hds1 & Hc1).
    assert (Hd1 : slookup (datasets (fst (step s o))) (bt_dataset b1) = Some d).
    { rewrite datasets_step, Hds1. exact Hd. }
    destruct (IH (fst (step s o)) b1 _ (sinv_step s o Hs) Hb1 Hd1 Hc1) as (b2 & Hb2 & Hds2 & Hc2).
    exists b2. split; [exact Hb2 |]. split; [rewrite Hds2; exact Hds1 |].
    rewrite Nat.add_assoc. exact Hc2.
Qed.

(* what the clock-reading operations answer *)
Lemma now_spec s j b d k :
  nlookup (backtests s) j = Some b -> slookup (datasets s) (bt_dataset b) = Some d -> clock_ok d b k ->
  step s (SNow j) = (s, RNow (Some (bt_date b, Nat.ltb k (List.length (ds_dates d))))).
Proof.
  intros Hb Hd [Hp _]. cbn [sstep]. rewrite Hb, Hd. unfold has_next. rewrite Hp. reflexivity.
Qed.

Lemma fetch_spec s j b d :
  nlookup (backtests s) j = Some b -> slookup (datasets s) (bt_dataset b) = Some d ->
  step s (SFetch j) = (s, RFetch (get_quotes d (bt_date b))).
Proof. intros Hb Hd. cbn [sstep]. rewrite Hb, Hd. reflexivity. Qed.

Notation cloop := (client_loop x_init x_tick x_insert x_delete empty_out clean is_jura).

Lemma client_loop_S fuel s id perms done :
  cloop (S fuel) s id perms done =
  match step s (SNow id) with
  | (_, RNow (Some (_, true))) =>
      match step s (STick id (perms done)) with
      | (s', RTick (Some _)) => cloop fuel s' id perms (S done)
      | _ => None
      end
  | (_, RNow (Some (_, false))) => Some (s, done)
  | _ => None
  end.
Proof. reflexivity. Qed.

Lemma tick_step_unfold s j b d perm :
  nlookup (backtests s) j = Some b -> slookup (datasets s) (bt_dataset b) = Some d ->
  step s (STick j perm) =
  match tick1 d b perm with
  | None => (s, RPanic)
  | Some (b', r) => (with_backtest s j b', RTick (Some r))
  end.
Proof. intros Hb Hd. cbn [sstep]. rewrite Hb, Hd. reflexivity. Qed.

Lemma client_loop_count fuel s j b d k perms done s' n :
  SInv s -> nlookup (backtests s) j = Some b -> slookup (datasets s) (bt_dataset b) = Some d ->
  clock_ok d b k -> (k <= List.length (ds_dates d))%nat ->
  client_loop x_init x_tick x_insert x_delete empty_out clean is_jura fuel s j perms done = Some (s', n) ->
  (n = done + (List.length (ds_dates d) - k))%nat.
Proof.
  revert s b k done. induction fuel as [|fuel IH]; intros s b k done Hs Hb Hd Hc Hk Hl.
  - cbn [client_loop] in Hl. discriminate.
  - rewrite client_loop_S in Hl. rewrite (now_spec s j b d k Hb Hd Hc) in Hl.
    destruct (Nat.ltb k (List.length (ds_dates d))) eqn:E.
    + apply Nat.ltb_lt in E.
      rewrite (tick_step_unfold s j b d (perms done) Hb Hd) in Hl.
      destruct (tick1 d b (perms done)) as [[b' [hn out]]|] eqn:Ht; [| discriminate].
      destruct (tick1_spec d b (perms done) b' hn out k Hc Ht) as (Hc' & _ & Hds & _).
      assert (Hb' : nlookup (backtests (with_backtest s j b')) j = Some b').
      { unfold with_backtest. cbn [backtests]. apply nlookup_upsert_same. }
      assert (Hd' : slookup (datasets (with_backtest s j b')) (bt_dataset b') = Some d).
      { unfold with_backtest. cbn [datasets]. rewrite Hds. exact Hd. }
      assert (Hs' : SInv (with_backtest s j b')).
      { apply sinv_with_backtest; [exact Hs |]. rewrite Hb. discriminate. }
      pose proof (IH (with_backtest s j b') b' (S k) (S done) Hs' Hb' Hd' Hc' E Hl) as Hn.
      lia.
    + apply Nat.ltb_ge in E. inversion Hl; subst. lia.
Qed.

Lemma tick1_not_none d b perm :
  (forall x row p, x_tick x row p <> None) -> tick1 d b perm <> None.
Proof.
  intros Hx. rewrite tick1_unfold.
  destruct (get_quotes d (bt_date b)) as [row|].
  - destruct (x_tick (bt_exch b) row perm) as [[x' o']|] eqn:E; [discriminate |].
    exfalso. exact (Hx _ _ _ E).
  - discriminate.
Qed.

Lemma client_loop_terminates fuel s j b d k perms done :
  SInv s -> nlookup (backtests s) j = Some b -> slookup (datasets s) (bt_dataset b) = Some d ->
  clock_ok d b k -> (k <= List.length (ds_dates d))%nat ->
  (forall x row p, x_tick x row p <> None) ->
  (List.length (ds_dates d) - k < fuel)%nat ->
  exists s', client_loop x_init x_tick x_insert x_delete empty_out clean is_jura fuel s j perms done
             = Some (s', (done + (List.length (ds_dates d) - k))%nat).
Proof.
  intros Hs Hb Hd Hc Hk Hx. revert s b k done Hs Hb Hd Hc Hk.
  induction fuel as [|fuel IH]; intros s b k done Hs Hb Hd Hc Hk Hf.
  - lia.
  - rewrite client_loop_S. rewrite (now_spec s j b d k Hb Hd Hc).
    destruct (Nat.ltb k (List.length (ds_dates d))) eqn:E.
    + apply Nat.ltb_lt in E.
      rewrite (tick_step_unfold s j b d (perms done) Hb Hd).
      destruct (tick1 d b (perms done)) as [[b' [hn out]]|] eqn:Ht;
        [| exfalso; exact (tick1_not_none d b (perms done) Hx Ht)].
      destruct (tick1_spec d b (perms done) b' hn out k Hc Ht) as (Hc' & _ & Hds & _).
      assert (Hb' : nlookup (backtests (with_backtest s j b')) j = Some b').
      { unfold with_backtest. cbn [backtests]. apply nlookup_upsert_same. }
      assert (Hd' : slookup (datasets (with_backtest s j b')) (bt_dataset b') = Some d).
      { unfold with_backtest. cbn [datasets]. rewrite Hds. exact Hd. }
      assert (Hs' : SInv (with_backtest s j b')).
      { apply sinv_with_backtest; [exact Hs |]. rewrite Hb. discriminate. }
      assert (Hf' : (List.length (ds_dates d) - S k < fuel)%nat) by lia.
      destruct (IH (with_backtest s j b') b' (S k) (S done) Hs' Hb' Hd' Hc' E Hf') as [s' Hs''].
      exists s'. rewrite Hs''. f_equal. f_equal. lia.
    + apply Nat.ltb_ge in E. exists s. f_equal. f_equal. lia.
Qed.

(* dates: with strictly increasing dates, the row matched by tick m+1 (m < N) is that of date index m,
   which is strictly later than every date of smaller index *)
Lemma increasing_nth (l : list Z) i j di dj :
  StronglySorted Z.lt l -> (i < j)%nat -> nth_error l i = Some di -> nth_error l j = Some dj -> (di < dj)%Z.
Proof.
  intros Hs. revert i j. induction Hs as [|a l Hs IH Hall]; intros i j Hij Hi Hj.
  - destruct i; cbn [nth_error] in Hi; discriminate.
  - destruct j as [|j']; [lia |]. cbn [nth_error] in Hj.
    destruct i as [|i']; cbn [nth_error] in Hi.
    + inversion Hi; subst a. rewrite Forall_forall in Hall. apply Hall.
      eapply nth_error_In. exact Hj.
    + apply (IH i' j'); [lia | exact Hi | exact Hj].
Qed.

End ServerProofs.

(* ---------- refutation witnesses for the two server defects (outside the section) ---------- *)
(* a trivial exchange: X := unit *)
(* with q_init_no_bump, two consecutive `init`s on a fresh state return the same id and the second
   replaces the backtest created by the first *)
Lemma c08_refuted_q_init_no_bump :
  let qk := mkQuirks true false false false false false false false false false false false in
  let ds := [("A"%string, mkDataset [1%Z; 2%Z] [(1%Z, tt); (2%Z, tt)])] in
  let st := sstep tt (fun x _ _ => Some (x, tt)) (fun x (_:unit) => x) (fun x (_:unit) => x) tt qk false in
  let s0 := app_create ds in
  let '(s1, r1) := st s0 (SInit "A"%string) in
  let '(s2, r2) := st s1 (SInit "A"%string) in
  r1 = RId (Some 1%N) /\ r2 = RId (Some 1%N).
Proof. vm_compute. repeat split; reflexivity. Qed.

(* with q_jura_pos_stuck the clock parks on the second date and has_next stays true for ever *)
Lemma c07_refuted_q_jura_pos_stuck :
  let qk := mkQuirks false true false false false false false false false false false false in
  let ds := [("A"%string, mkDataset [1%Z; 2%Z; 3%Z] [(1%Z, tt); (2%Z, tt); (3%Z, tt)])] in
  let st := sstep tt (fun x _ _ => Some (x, tt)) (fun x (_:unit) => x) (fun x (_:unit) => x) tt qk true in
  let s0 := app_create ds in
  let '(s1, _) := st s0 (SNew "A"%string) in
  let '(s2, _) := st s1 (STick 1%N []) in
  let '(s3, _) := st s2 (STick 1%N []) in
  let '(s4, r4) := st s3 (STick 1%N []) in
  let '(s5, r5) := st s4 (STick 1%N []) in
  r4 = RTick (Some (true, tt)) /\ r5 = RTick (Some (true, tt)) /\
  option_map (fun b => (bt_date b, bt_pos b)) (nlookup (backtests s5) 1%N) = Some (2%Z, 0%nat).
Proof. vm_compute. repeat split; reflexivity. Qed.
