(* EndToEndExamples.v — non-vacuity: the end-to-end theorems' premises are met by concrete systems, evaluated by the
   kernel at the IEEE instance (the instance that is compared with the code). *)
From Coq Require Import ZArith NArith List Bool String Floats.
From Alator Require Import Model.Num Model.Quirks Model.Cost Model.Exchange Model.Uist Model.Server Model.Penelope
  Model.Broker Model.Perf Model.Strategy Model.BrokerSys.
Import ListNotations.
Open Scope string_scope.
Local Instance FNx : Num float := FloatNum [].

(* a 3-date dataset with constant zero-spread prices, ABC missing on the second date *)
Definition ex_calls : list (float * float * Z * string) :=
  [(100%float, 100%float, 1%Z, "ABC"); (10%float, 10%float, 1%Z, "BCD");
   (10%float, 10%float, 2%Z, "BCD");
   (100%float, 100%float, 3%Z, "ABC"); (10%float, 10%float, 3%Z, "BCD")].
Definition ex_d := load ex_calls.
Definition ex_app : option (uapp (F:=float)) := app_single exch_init "D" ex_d.
Definition ex_q0 : smap (quote float) :=
  match get_quotes ex_d 1%Z with Some row => row | None => [] end.
Definition ex_s0 := mkStrategy (broker_init [PctOfValue 0x1.47ae147ae147bp-7%float] ex_q0) [("ABC", 0.5%float); ("BCD", 0.25%float)] 0%float [].


Definition buflen (y : sys float) : nat :=
  match nlookup (backtests (sy_app y)) 0%N with Some b => List.length (buffer (bt_exch b)) | None => 99 end.
Definition idperm (y : sys float) : list nat := seq 0 (buflen y).
(* one update with the identity permutation of whatever is in the buffer and, for the holdings order after booking
   (not known in advance), the first candidate the model accepts *)
Definition try_update (y : sys float) : res (sys float) :=
  match sys_update clean y (idperm y) ["ABC"; "BCD"] with
  | Ok y' => Ok y'
  | _ => match sys_update clean y (idperm y) ["BCD"; "ABC"] with
         | Ok y' => Ok y'
         | _ => match sys_update clean y (idperm y) ["ABC"] with Ok y' => Ok y' | _ =>
                match sys_update clean y (idperm y) ["BCD"] with Ok y' => Ok y' | _ => sys_update clean y (idperm y) [] end end
         end
  end.
Definition ex_start : res (sys float) :=
  match ex_app with
  | None => BadOracle
  | Some a => bind (st_init clean ex_s0 1000%float []) (fun '(s1, fw) => Ok (mkSys s1 (forward clean a 0%N fw) 0%N))
  end.
Definition show (y : sys float) :=
  (map fst (b_holdings (st_brkr (sy_strat y))),
   map (fun sn => (sn_date sn, sn_value sn)) (st_history (sy_strat y)), sys_has_next clean y).

(* C16 end to end, observed at the IEEE instance: a 3-date dataset with constant zero-spread prices and a gap (ABC is
   not quoted on date 2), 1 % costs, weights 0.5 / 0.25, deposit 1000: three updates, three snapshots, each worth
   exactly the 1000 deposited; positions are opened along the way. The premises of c16_constant_prices_end_to_end
   (fresh backtest, broker holding the first row, constant dataset) are met by construction. *)
Example c16_end_to_end_observed_at_floats :
  bind ex_start (fun y0 => bind (try_update y0) (fun y1 => bind (try_update y1) (fun y2 => bind (try_update y2) (fun y3 =>
    Ok (show y3))))) =
  Ok (["BCD"; "ABC"], [(2%Z, 1000%float); (3%Z, 1000%float); (3%Z, 1000%float)], Some false).
Proof. vm_compute. reflexivity. Qed.

(* C05 / C04 end to end, observed at the IEEE instance: offsetting resting orders, a market order, checks *)
Definition ex_b0 : bsys float :=
  match ex_app with
  | Some a => mkBSys (broker_init [] ex_q0) a 0%N
  | None => mkBSys (broker_init [] ex_q0) (mkApp [] 0%N []) 0%N
  end.
Definition mk_o (t : otype) (s : string) (q : float) (p : option float) : uorder float := mkUOrder t s q p.
Definition ex_ops1 : list (bsop float) :=
  [BSDeposit 10000%float;
   BSSend (mk_o LimitBuy "BCD" 10%float (Some 5%float));      (* rests: the ask never falls to 5 *)
   BSSend (mk_o LimitSell "BCD" 10%float (Some 50%float));    (* rests: the bid never reaches 50 *)
   BSSend (mk_o MarketBuy "BCD" 3%float None)].
Definition pend_of (y : bsys float) := b_pending (bs_brkr y).
Definition out_of (y : bsys float) := map (fun o => (uo_type o, uo_shares o)) (outstanding y).
Example c05_pending_observed_at_floats :
  (* after the three orders: pending nets to +3 while all three are outstanding (in the buffer) *)
  bind (bs_run clean ex_b0 ex_ops1) (fun y => Ok (pend_of y, List.length (outstanding y))) = Ok ([("BCD", 3%float)], 3%nat)
  /\
  (* one check admits them (sells first), a second fills the market buy: pending is 0 again for BCD and the ENTRY IS
     GONE although two offsetting orders still rest; the trade is in both logs; cash moved by its value *)
  (bind (bs_run clean ex_b0 (ex_ops1 ++ [BSCheck [1; 0; 2]%nat []; BSCheck [] ["BCD"]]))
       (fun y => Ok (pend_of y, out_of y, b_holdings (bs_brkr y), b_cash (bs_brkr y),
                     List.length (b_log (bs_brkr y)),
                     match nlookup (backtests (bs_app y)) 0%N with Some b => List.length (xlog (bt_exch b)) | None => 99%nat end))
  = Ok ([], [(LimitSell, 10%float); (LimitBuy, 10%float)], [("BCD", 3%float)], 9970%float, 1%nat, 1%nat)).
Proof. vm_compute. split; reflexivity. Qed.
