(* JsonProofs.v — C20: the JSON tree layer of the two HTTP services keeps the meaning of every
   request/response value (round trips), and the handler layer is faithful to the in-process call.
   All proofs are by computation on the definitions of Model/Json.v. *)
From Coq Require Import ZArith NArith List Bool String Lia.
From Alator Require Import Model.Num Model.Quirks Model.Exchange Model.Uist Model.Jura Model.Server Model.Json.
Import ListNotations.
Local Open Scope string_scope.

Section JsonProofs.
Context {F : Type}.

(* ---- helpers ---- *)
Lemma omap_all_map {A B} (e : A -> B) (d : B -> option A) (l : list A) :
  (forall a, d (e a) = Some a) -> omap_all d (map e l) = Some l.
Proof.
  intros H. induction l as [|a l IH]; [reflexivity|].
  cbn [map omap_all]. rewrite H, IH. reflexivity.
Qed.

Lemma rt_N (n : N) : dec_nat (F:=F) (enc_N n) = Some n.
Proof.
  unfold dec_nat, enc_N.
  assert (H : (0 <=? Z.of_N n)%Z = true) by (apply Z.leb_le, N2Z.is_nonneg).
  rewrite H, N2Z.id. reflexivity.
Qed.

Lemma rt_opt {A} (e : A -> json F) (d : json F -> option A) (o : option A) :
  (forall a, d (e a) = Some a) -> (forall a, e a <> JNull) ->
  dec_opt d (enc_opt e o) = Some o.
Proof.
  intros H Hn. destruct o as [a|]; [|reflexivity].
  cbn [enc_opt]. unfold dec_opt. specialize (H a). specialize (Hn a).
  destruct (e a); try congruence; rewrite H; reflexivity.
Qed.

Lemma rt_opt_N (o : option N) : dec_opt (F:=F) dec_nat (enc_opt enc_N o) = Some o.
Proof. apply rt_opt; [apply rt_N| unfold enc_N; discriminate]. Qed.

Lemma rt_opt_num (o : option F) : dec_opt dec_num (enc_opt (@JNum F) o) = Some o.
Proof. apply rt_opt; [reflexivity| discriminate]. Qed.

Lemma rt_opt_str (o : option string) : dec_opt (F:=F) dec_str (enc_opt (@JStr F) o) = Some o.
Proof. apply rt_opt; [reflexivity| discriminate]. Qed.

Lemma rt_otype (t : otype) : otype_of_name (otype_name t) = Some t.
Proof. destruct t; reflexivity. Qed.

Lemma rt_tif (t : tif) : tif_of_name (tif_name t) = Some t.
Proof. destruct t; reflexivity. Qed.

(* ---- round trips: orders, trades, fills and quotes keep their meaning ---- *)
Lemma rt_uorder (o : option N * uorder F) : dec_uorder (enc_uorder o) = Some o.
Proof.
  destruct o as [id [t sy sh p]].
  unfold dec_uorder, enc_uorder.
  cbn [fst snd uo_type uo_symbol uo_shares uo_price].
  cbn [jget String.eqb Ascii.eqb Bool.eqb obind dec_str dec_num].
  rewrite rt_opt_N, rt_otype, rt_opt_num. reflexivity.
Qed.


Ltac jred := cbn [jget String.eqb Ascii.eqb Bool.eqb obind dec_str dec_num dec_int dec_bool fst snd].

Lemma rt_trade (t : trade F) : dec_trade (enc_trade t) = Some t.
Proof.
  destruct t as [sy v q d sd].
  unfold dec_trade, enc_trade. cbn [t_symbol t_value t_quantity t_date t_side]. jred.
  destruct sd; reflexivity.
Qed.

Lemma rt_quote (q : quote F) : dec_quote (enc_quote q) = Some q.
Proof.
  destruct q as [b a d sy].
  unfold dec_quote, enc_quote. cbn [q_bid q_ask q_date q_symbol]. jred. reflexivity.
Qed.

Lemma rt_row (r : quotes (quote F)) : dec_row (enc_row r) = Some r.
Proof.
  unfold dec_row, enc_row. jred.
  apply (omap_all_map (fun kq : string * quote F => (fst kq, enc_quote (snd kq)))
                      (fun kv => obind (dec_quote (snd kv)) (fun q => Some (fst kv, q)))).
  intros [k q]. cbn [fst snd]. rewrite rt_quote. reflexivity.
Qed.

Lemma rt_utick (r : utick (F:=F)) : dec_utick (enc_utick r) = Some r.
Proof.
  destruct r as [h [ts os]].
  unfold dec_utick, enc_utick. jred.
  rewrite (omap_all_map enc_trade dec_trade ts rt_trade). jred.
  rewrite (omap_all_map (fun io : N * uorder F => enc_uorder (Some (fst io), snd io))
             (fun j => obind (dec_uorder j) (fun io =>
                match fst io with Some i => Some (i, snd io) | None => None end)) os).
  - reflexivity.
  - intros [i o]. cbn [fst snd]. rewrite rt_uorder. reflexivity.
Qed.

Lemma rt_init (i : N) : dec_init (F:=F) (enc_init i) = Some i.
Proof. unfold dec_init, enc_init. jred. apply rt_N. Qed.

Lemma rt_info (s : string) : dec_info (F:=F) (enc_info s) = Some s.
Proof. unfold dec_info, enc_info. jred. reflexivity. Qed.

Lemma rt_now (r : Z * bool) : dec_now (F:=F) (enc_now r) = Some r.
Proof. destruct r as [n h]. unfold dec_now, enc_now. jred. reflexivity. Qed.

Lemma rt_unit (u : unit) : dec_unit (F:=F) (enc_unit u) = Some u.
Proof. destruct u. reflexivity. Qed.

Lemma rt_uinsert (o : uorder F) : dec_uinsert (enc_uinsert o) = Some o.
Proof. unfold dec_uinsert, enc_uinsert. jred. rewrite rt_uorder. reflexivity. Qed.

Lemma rt_udelete (i : N) : dec_udelete (F:=F) (enc_udelete i) = Some i.
Proof. unfold dec_udelete, enc_udelete. jred. apply rt_N. Qed.

Lemma rt_jtype (t : jtype F) : dec_jtype (enc_jtype t) = Some t.
Proof.
  destruct t as [tf | px m k]; unfold dec_jtype, enc_jtype; jred.
  - rewrite rt_tif. reflexivity.
  - destruct k; reflexivity.
Qed.

Lemma rt_jwire (o : jwire F) : dec_jwire (enc_jwire o) = Some o.
Proof.
  destruct o as [a b px sz ro cl t].
  unfold dec_jwire, enc_jwire.
  cbn [jw_asset jw_is_buy jw_limit_px jw_sz jw_reduce_only jw_cloid jw_type]. jred.
  rewrite rt_N. jred. rewrite rt_opt_str. jred. rewrite rt_jtype. reflexivity.
Qed.

Lemma rt_fwire (x : fwire) : dec_fwire (F:=F) (enc_fwire x) = Some x.
Proof.
  destruct x as [c o px sd sz t].
  unfold dec_fwire, enc_fwire. cbn [fw_coin fw_oid fw_px fw_side fw_sz fw_time]. jred.
  rewrite rt_N. reflexivity.
Qed.

Lemma rt_jtick (r : jtick (F:=F)) : dec_jtick (enc_jtick clean r) = Some r.
Proof.
  destruct r as [h [[fl os] tr]].
  unfold dec_jtick, enc_jtick. cbn [clean q_jura_http_drops_triggered List.app]. jred.
  rewrite (omap_all_map enc_fwire dec_fwire fl rt_fwire). jred.
  rewrite (omap_all_map enc_jwire dec_jwire os rt_jwire). jred.
  rewrite (omap_all_map enc_N dec_nat tr rt_N). reflexivity.
Qed.

Lemma rt_jinsert (o : jwire F) : dec_jinsert (enc_jinsert o) = Some o.
Proof. unfold dec_jinsert, enc_jinsert. jred. apply rt_jwire. Qed.

Lemma rt_jdelete (k : N * N) : dec_jdelete (F:=F) (enc_jdelete k) = Some k.
Proof.
  destruct k as [a i]. unfold dec_jdelete, enc_jdelete. jred.
  rewrite rt_N. jred. rewrite rt_N. reflexivity.
Qed.

(* with the defect the triggered ids are lost in transport *)
Lemma rt_jtick_defect qk (r : jtick (F:=F)) :
  q_jura_http_drops_triggered qk = true ->
  dec_jtick (enc_jtick qk r) = Some (fst r, (fst (fst (snd r)), snd (fst (snd r)), [])).
Proof.
  intros Hq. destruct r as [h [[fl os] tr]].
  unfold dec_jtick, enc_jtick. rewrite Hq. cbn [List.app]. jred.
  rewrite (omap_all_map enc_fwire dec_fwire fl rt_fwire). jred.
  rewrite (omap_all_map enc_jwire dec_jwire os rt_jwire). jred.
  reflexivity.
Qed.

(* ---- the handler layer ---- *)
Lemma receive_respond {A} (e : A -> json F) (d : json F -> option A) err (r : option A) :
  (forall a, d (e a) = Some a) -> receive d (respond e err r) = Some r.
Proof.
  intros H. destruct r as [a|]; unfold receive, respond, bad_request; cbn [fst snd Nat.eqb].
  - rewrite H. reflexivity.
  - reflexivity.
Qed.

Lemma respond_status {A} (e : A -> json F) err (r : option A) :
  fst (respond e err r) = (match r with Some _ => 200 | None => 400 end)%nat.
Proof. destruct r; reflexivity. Qed.

(* the Uist service: response to each kind of result of the server model, and what the client decodes *)
Definition u_respond (r : sres (quotes (quote F)) (list (trade F) * list (N * uorder F))) : response (F:=F) :=
  match r with
  | RTick x => respond enc_utick "UnknownBacktest" x
  | RFetch x => respond enc_row "UnknownBacktest" x
  | RId x => respond enc_init "UnknownDataset" x
  | RUnit x => respond enc_unit "UnknownBacktest" x
  | RInfo x => respond enc_info "UnknownBacktest" x
  | RNow x => respond enc_now "UnknownBacktest" x
  | RPanic => (500%nat, JNull)
  end.
(* the client decodes according to the endpoint it called *)
Definition u_receive (o : sop (uorder F) N) (resp : response (F:=F))
  : option (sres (quotes (quote F)) (list (trade F) * list (N * uorder F))) :=
  match o with
  | STick _ _ => option_map (@RTick _ _) (receive dec_utick resp)
  | SFetch _ => option_map (@RFetch _ _) (receive dec_row resp)
  | SInit _ | SNew _ => option_map (@RId _ _) (receive dec_init resp)
  | SInsert _ _ | SDelete _ _ => option_map (@RUnit _ _) (receive dec_unit resp)
  | SInfo _ => option_map (@RInfo _ _) (receive dec_info resp)
  | SNow _ => option_map (@RNow _ _) (receive dec_now resp)
  end.

(* the result constructor is determined by the endpoint (or the call panicked) *)
Definition res_matches {Row TOut Ordr Key} (o : sop Ordr Key) (r : sres Row TOut) : Prop :=
  match o, r with
  | _, RPanic => True
  | STick _ _, RTick _ => True
  | SFetch _, RFetch _ => True
  | SInit _, RId _ | SNew _, RId _ => True
  | SInsert _ _, RUnit _ | SDelete _ _, RUnit _ => True
  | SInfo _, RInfo _ => True
  | SNow _, RNow _ => True
  | _, _ => False
  end.

(* decoding the response to a result of the endpoint's kind gives the result back *)
Lemma u_receive_respond (o : sop (uorder F) N) r :
  res_matches o r -> r <> RPanic -> u_receive o (u_respond r) = Some r.
Proof.
  intros Hm Hp.
  destruct o, r; cbn [res_matches] in Hm; try contradiction; try congruence;
    cbn [u_receive u_respond].
  - rewrite (receive_respond enc_utick dec_utick); [reflexivity | exact rt_utick].
  - rewrite (receive_respond enc_row dec_row); [reflexivity | exact rt_row].
  - rewrite (receive_respond enc_init dec_init); [reflexivity | exact rt_init].
  - rewrite (receive_respond enc_init dec_init); [reflexivity | exact rt_init].
  - rewrite (receive_respond enc_unit dec_unit); [reflexivity | exact rt_unit].
  - rewrite (receive_respond enc_unit dec_unit); [reflexivity | exact rt_unit].
  - rewrite (receive_respond enc_info dec_info); [reflexivity | exact rt_info].
  - rewrite (receive_respond enc_now dec_now); [reflexivity | exact rt_now].
Qed.

Lemma u_respond_400 r :
  r <> RPanic ->
  (fst (u_respond r) = 400%nat <->
   match r with
   | RTick None | RFetch None | RId None | RUnit None | RInfo None | RNow None => True
   | _ => False
   end).
Proof.
  intros Hp. destruct r as [x|x|x|x|x|x|]; try congruence;
    cbn [u_respond]; rewrite respond_status; destruct x; split; intros H;
    try discriminate; try contradiction; try exact I; reflexivity.
Qed.

Context (x_init : uexch F)
        (x_tick : uexch F -> quotes (quote F) -> list nat -> option (uexch F * (list (trade F) * list (N * uorder F))))
        (x_insert : uexch F -> uorder F -> uexch F) (x_delete : uexch F -> N -> uexch F).
Notation ustep := (sstep x_init x_tick x_insert x_delete ([], []) clean false).
Notation urun := (srun x_init x_tick x_insert x_delete ([], []) clean false).

Lemma ustep_shape s (o : sop (uorder F) N) : res_matches o (snd (ustep s o)).
Proof.
  destruct o; cbn [sstep]; unfold create_backtest;
    repeat match goal with
           | |- context [match ?x with _ => _ end] => destruct x
           end; exact I.
Qed.

(* one request *)
Lemma u_handler_faithful s (o : sop (uorder F) N) :
  snd (ustep s o) <> RPanic -> u_receive o (u_respond (snd (ustep s o))) = Some (snd (ustep s o)).
Proof. intros Hp. apply u_receive_respond; [apply ustep_shape | exact Hp]. Qed.

(* HTTP 400 exactly where the in-process call reports an unknown backtest or dataset *)
Lemma u_handler_400 s (o : sop (uorder F) N) :
  snd (ustep s o) <> RPanic ->
  (fst (u_respond (snd (ustep s o))) = 400%nat <->
   match snd (ustep s o) with
   | RTick None | RFetch None | RId None | RUnit None | RInfo None | RNow None => True
   | _ => False
   end).
Proof. apply u_respond_400. Qed.

(* every request sequence: the decoded response stream equals the in-process result stream *)
Fixpoint zip_receive (ops : list (sop (uorder F) N)) (rs : list (response (F:=F))) :=
  match ops, rs with
  | o :: ops', r :: rs' => u_receive o r :: zip_receive ops' rs'
  | _, _ => []
  end.

Lemma u_transport_faithful s (ops : list (sop (uorder F) N)) :
  Forall (fun r => r <> RPanic) (snd (urun s ops)) ->
  zip_receive ops (map u_respond (snd (urun s ops))) = map Some (snd (urun s ops)).
Proof.
  revert s. induction ops as [|o ops IH]; intros s H; [reflexivity|].
  cbn [srun] in *.
  pose proof (u_handler_faithful s o) as Ho.
  destruct (ustep s o) as [s' x] eqn:Es.
  specialize (IH s').
  destruct (urun s' ops) as [s'' xs] eqn:Er.
  cbn [fst snd map zip_receive] in *.
  inversion H as [|? ? Hx Hxs]; subst.
  rewrite (Ho Hx), (IH Hxs). reflexivity.
Qed.

End JsonProofs.
