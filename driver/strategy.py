"""Strategy slice (StaticWeightStrategy over the real broker/client/server/exchange stack): generators,
trace -> Gallina, step-wise correspondence of init / update / withdrawals, direct reading of C16 (including
whole `run()` calls)."""
import random

from common import *
import exch
import broker as B

IMPORTS = ("From Alator Require Import Model.Num Model.Quirks Model.Cost Model.Exchange Model.Uist Model.Broker "
           "Model.Perf Model.Strategy Check.Eqb Check.ExchCheck Check.ServerCheck Check.BrokerCheck Check.StrategyCheck.")
TASPECTS = {0: "kind", 1: "ncf", 2: "history", 3: "broker", 4: "calls", 5: "event"}
STRAT_FLAGS = ["q_strategy_ncf_self_add", "q_diff_break", "q_diff_direction_flip", "q_liq_ceil_precedence",
               "q_liq_fail_debit", "q_limit_panics"]


def tmask_names(m):
    return [n for b, n in TASPECTS.items() if m & (1 << b)]


def gen_strategy_scenario(rng, style=None, with_liq=True):
    n = rng.choice([1, 2, 3, 5, 8, 12])
    style = style or rng.choice(["calm", "jumpy", "const", "const"])
    prices = B.gen_prices(rng, n, style)
    ds = B.dataset_from(prices, n, B.gen_date_base(rng))
    # how the Penelope is loaded: by date (as the crate's own tests do), or one symbol at a time — then every date
    # after the first symbol's is met again out of order; add_quote must not list it twice. Done only when the
    # symbol loaded first is quoted on every date, so the dates still first appear in increasing order.
    if rng.random() < 0.4:
        all_dates = sorted({q[2] for q in ds})
        full = [sy for sy in B.SYMS if sorted(q[2] for q in ds if q[3] == sy) == all_dates]
        if full:
            first = rng.choice(full)
            order_ = [first] + [sy for sy in B.SYMS if sy != first]
            ds = sorted(ds, key=lambda q: (order_.index(q[3]), q[2]))
    costs = B.gen_costs(rng)
    k = rng.choice([1, 2, 3])
    syms = rng.sample(B.SYMS, k)
    raw = [rng.choice([0.1, 0.2, 0.25, 0.3, 0.5]) for _ in syms]
    tot = sum(raw)
    ws = [[s, f2b(w if tot <= 1 else w / tot)] for s, w in zip(syms, raw)]
    if rng.random() < 0.15:
        ws.append(["NOPE", f2b(0.1)])
    ops = []
    if rng.random() < 0.92:
        ops.append(dict(op="init", x=f2b(rng.choice([1000.0, 10000.0, 100000.0, 12345.5]))))
    m = rng.randint(0, n + 2)
    for _ in range(m):
        r = rng.random()
        if r < 0.6:
            ops.append(dict(op="update"))
        elif r < 0.75:
            ops.append(dict(op="withdraw", x=f2b(rng.choice([10.0, 100.0, 500.0, 1e7]))))
        elif r < 0.85 and with_liq and style != "const":
            ops.append(dict(op="withdraw_liq", x=f2b(rng.choice([100.0, 5000.0, 2e4, 1e7]))))
        elif r < 0.92:
            ops.append(dict(op="init", x=f2b(rng.choice([500.0, 1000.0]))))
        else:
            ops.append(dict(op="update"))
    ops.append(dict(op="run"))
    if rng.random() < 0.5:
        ops.append(dict(op="update"))      # an update past the end
    ops.append(dict(op="perf"))
    return dict(dataset=ds, costs=costs, lazy=False, weights=ws, ops=ops, extra_syms=["NOPE"], style=style)


def g_snap(s):
    return gc("mkSnap", gz(s["date"]), gf(s["value"]), gf(s["ncf"]), gf(s["infl"]))


def g_strategy(sn, costs_name, ws_name):
    return gc("mkStrategy", B.g_broker(sn["broker"], costs_name), ws_name, gf(sn["ncf"]),
              gl([g_snap(h) for h in sn["history"]]))


def strategy_steps(sc, tr, idx):
    costs_name, ws_name = "costs_%d" % idx, "ws_%d" % idx
    defs = "Definition %s : list (cost float) := %s.\nDefinition %s : list (string * float) := %s." % (
        costs_name, gl([B.g_cost(c) for c in sc["costs"]]),
        ws_name, gl([gt(gs(w[0]), gf(w[1])) for w in tr["weights_order"]]))
    terms, steps = [], []
    for k, r in enumerate(tr["results"]):
        op = sc["ops"][k]
        pre, panic = tr["snaps"][k], "panic" in r
        post = pre if panic else tr["snaps"][k + 1]
        calls = r["calls"]
        o = op["op"]
        st = dict(pre=pre, post=post, op=op, res=r.get("res"), panic=panic, calls=calls, panic_msg=r.get("panic"),
                  costs=sc["costs"])
        steps.append(st)
        g_calls = gl([exch.g_uorder(c["order"]) for c in calls if c.get("call") == "insert_order"])
        if o == "init":
            gop = gc("TInit", gf(op["x"]), B.g_strs(B.positions(post["broker"])))
            gobs = "TOPanic" if panic else "TOUnit"
        elif o == "update":
            resp = B.check_resp(calls)
            gresp = "None" if resp is None else "(Some %s)" % gt(gl([exch.g_trade(t) for t in resp[0]]),
                                                                 gl([exch.g_quote(q) for q in resp[1]]))
            nows = [c for c in calls if c.get("effect") == "now"]
            now = nows[0]["now"] if nows else 0
            gop = gc("TUpdate", gresp, gz(now), B.g_strs(B.positions(post["broker"])))
            gobs = "TOPanic" if panic else "TOUnit"
        elif o == "withdraw":
            gop = gc("TWithdraw", gf(op["x"]))
            gobs = "TOPanic" if panic else gc("TOSuccess", gb(r["res"]["ev"] == "WithdrawSuccess"))
        elif o == "withdraw_liq":
            gop = gc("TWithdrawLiq", gf(op["x"]), B.g_strs(B.positions(pre["broker"])))
            gobs = "TOPanic" if panic else gc("TOSuccess", gb(r["res"]["ev"] == "WithdrawSuccess"))
        else:
            continue      # run / perf: judged by the direct reading below
        terms.append((k, gc("mkTStep", g_strategy(pre, costs_name, ws_name), gop, gobs,
                            g_strategy(post, costs_name, ws_name), g_calls)))
    return defs, terms, steps


YASPECTS = {0: "sys-kind", 1: "sys-strategy", 2: "sys-server"}
SYS_IMPORTS = IMPORTS.replace("Check.StrategyCheck.", "Check.StrategyCheck Check.SystemCheck.").replace(
    "Model.Uist Model.Broker", "Model.Uist Model.Server Model.Penelope Model.Broker")


def dataset_term(sc):
    """the Penelope the scenario's add_quote calls build: Model/Penelope.v's load of the same script"""
    return "(load %s)" % gl([gt(gf(bid), gf(ask), gz(date), gs(sym)) for bid, ask, date, sym in sc["dataset"]])


def g_sys(sn, costs_name, ws_name, ds_name):
    srv = sn["server"]
    app = gc("mkApp", gl([gt(gn(0), gc("mkBacktest", gz(srv["date"]), "%d%%nat" % srv["pos"], exch.g_usnap(srv["exch"]), gs("D")))]),
             gn(1), gl([gt(gs("D"), ds_name)]))
    return gc("mkSys", g_strategy(sn, costs_name, ws_name), app, gn(0))


def system_terms(sc, tr, idx):
    """one ystep per update(): the composed model from the observed pre-state of strategy AND server"""
    costs_name, ws_name, ds_name = "costs_%d" % idx, "ws_%d" % idx, "dset_%d" % idx
    defs = "Definition %s : dataset (quotes (quote float)) := %s." % (ds_name, dataset_term(sc))
    terms = []
    for k, r in enumerate(tr["results"]):
        if sc["ops"][k]["op"] != "update":
            continue
        pre, panic = tr["snaps"][k], "panic" in r
        post = pre if panic else tr["snaps"][k + 1]
        ticks = [c for c in r["calls"] if c.get("effect") == "tick" and not c.get("err")]
        adm = ticks[0]["admitted"] if ticks else []
        perm = exch.compute_perm(pre["server"]["exch"]["buffer"], adm, exch.ukey)
        terms.append((k, gc("mkYStep", g_sys(pre, costs_name, ws_name, ds_name), "(map N.to_nat %s)" % exch.g_perm(perm),
                            B.g_strs(B.positions(post["broker"])), g_sys(post, costs_name, ws_name, ds_name), gb(panic))))
    return defs, terms


def oracle_c16(sc, steps):
    dates = sorted(set(q[2] for q in sc["dataset"]))
    N = len(dates)
    dep, wd_plain, wd_liq = 0.0, 0.0, 0.0
    const = sc.get("style") == "const"
    for k, st in enumerate(steps):
        op = st["op"]
        o = op["op"]
        if st["panic"]:
            if o == "perf" and len(st["pre"]["history"]) < 2:
                break
            if o in ("init", "update", "run") and "zero value" in (st["panic_msg"] or ""):
                break          # diff on a portfolio of zero value panics by design (no deposit made)
            if o in ("update", "run", "init"):
                return dict(step=k, op=o, what="strategy panicked: %s" % st["panic_msg"])
            break
        pre, post = st["pre"], st["post"]
        h0, h1 = pre["history"], post["history"]
        if o == "init" and not pre["broker"]["failed"]:
            dep += b2f(op["x"])
        if o == "withdraw" and st["res"]["ev"] == "WithdrawSuccess":
            wd_plain += b2f(op["x"])
        if o == "withdraw_liq" and st["res"]["ev"] == "WithdrawSuccess":
            wd_liq += b2f(op["x"])
        want_ncf = dep - wd_plain - wd_liq
        if not B.close(b2f(post["ncf"]), want_ncf, 1e-12, 1e-9):
            return dict(step=k, op=o, what="net_cash_flow is %r; cumulative successful deposits minus withdrawals is %r"
                        % (b2f(post["ncf"]), want_ncf))
        if o == "update":
            if len(h1) != len(h0) + 1:
                return dict(step=k, what="an update recorded %d snapshots" % (len(h1) - len(h0)))
            s = h1[-1]
            if s["date"] != post["server"]["date"]:
                return dict(step=k, what="snapshot dated %d, the clock after the tick shows %d" % (s["date"], post["server"]["date"]))
            if not exch.feq_bits(s["value"], post["broker"]["total_value"]):
                return dict(step=k, what="snapshot value differs from the broker's total value at that moment")
            if not B.close(b2f(s["ncf"]), want_ncf, 1e-12, 1e-9):
                return dict(step=k, what="snapshot carries net_cash_flow %r, should be %r" % (b2f(s["ncf"]), want_ncf))
        elif o == "run":
            k0 = pre["server"]["pos"]
            want = max(0, N - k0)
            if len(h1) - len(h0) != want:
                return dict(step=k, what="run() from clock position %d of %d dates performed %d updates, should perform %d"
                            % (k0, N, len(h1) - len(h0), want))
            for i, s in enumerate(h1[len(h0):]):
                if s["date"] != dates[min(k0 + i + 1, N - 1)]:
                    return dict(step=k, what="snapshot %d of the run is dated %d, the clock after that tick shows %d"
                                % (i, s["date"], dates[min(k0 + i + 1, N - 1)]))
            if h1 and not exch.feq_bits(h1[-1]["value"], post["broker"]["total_value"]) and want > 0:
                return dict(step=k, what="last snapshot's value differs from the broker's total value")
        elif len(h1) != len(h0):
            return dict(step=k, op=o, what="an operation other than update/run recorded a snapshot")
        ds = [s["date"] for s in h1]
        if ds != sorted(ds):
            return dict(step=k, what="snapshot dates decrease")
        if const and wd_liq == 0.0 and not post["broker"]["failed"]:
            for s in h1[len(h0):]:
                if not B.close(b2f(s["value"]), dep - wd_plain, 1e-9, 1e-6):
                    return dict(step=k, what="constant prices, zero spread: snapshot value %r differs from the cash deposited %r"
                                % (b2f(s["value"]), dep - wd_plain))
    return None


def run_property(res, prop, tier, seed, replay, prop_files):
    ob = obligations_or_violation(res, prop_files)
    wd = workdir("C16_strat")
    rng = random.Random(seed + 17)
    n = tier_size(tier, 160, 3000)
    if replay and json.load(open(replay)).get("component") == "strategy":
        scs = [json.load(open(replay))["scenario"]]
    else:
        scs = [s for s in load_corpus(prop) if "weights" in s] + [gen_strategy_scenario(rng) for _ in range(n)]
    trs = run_harness_sharded("strategy", scs, wd)
    defs, terms, steps, idxmap = [], [], [], []
    for i, (sc, tr) in enumerate(zip(scs, trs)):
        if "snaps" not in tr:
            if isinstance(tr, dict) and "panic" in tr:
                raise ImplementationPanic(tr["panic"], sc, "setting up strategy scenario %d (builder, client, dataset)" % i)
            raise RuntimeError("harness-level failure on strategy scenario %d: %s" % (i, str(tr)[:500]))
        d, t, s = strategy_steps(sc, tr, i)
        defs.append(d)
        terms.append([x[1] for x in t])
        idxmap.append([x[0] for x in t])
        steps.append(s)
    cache = {}
    have_sys = os.path.exists(os.path.join(COQ, "Check", "SystemCheck.v"))
    sys_defs, sys_terms, sys_idx = [], [], []
    if have_sys:
        for i, (sc, tr) in enumerate(zip(scs, trs)):
            d, t = system_terms(sc, tr, i)
            sys_defs.append(defs[i] + "\n" + d)
            sys_terms.append([x[1] for x in t])
            sys_idx.append([x[0] for x in t])

    def eval_fn(val):
        val = frozenset(val)
        if val not in cache:
            r = eval_steps(wd, "t", IMPORTS, terms, "tstep_mask %s" % g_quirks(val), sc_defs=defs)
            out = [(sc, idxmap[sc][st], tmask_names(m)) for sc, st, m in sorted(r)]
            if have_sys:
                r2 = eval_steps(wd, "y", SYS_IMPORTS, sys_terms, "ystep_mask %s" % g_quirks(val), sc_defs=sys_defs)
                out += [(sc, sys_idx[sc][st], [n for b, n in YASPECTS.items() if m & (1 << b)]) for sc, st, m in sorted(r2)]
            cache[val] = sorted(out)
        return cache[val]

    def run_witness(sc):
        tr = run_harness("strategy", [sc], wd, tag="w")[0]
        return strategy_steps(sc, tr, 0)[2]

    def shrink(sc, f):
        best, bestf = sc, f
        changed = True
        while changed and len(best["ops"]) > 1:
            changed = False
            for i in range(len(best["ops"]) - 1, -1, -1):
                cand = dict(best, ops=best["ops"][:i] + best["ops"][i + 1:])
                try:
                    ff = oracle_c16(cand, run_witness(cand))
                except Exception:
                    ff = None
                if ff:
                    best, bestf, changed = cand, ff, True
                    break
        return best, bestf
    slice_verdict(res, prop, eval_fn=eval_fn, relevant=STRAT_FLAGS, scenarios=scs, traces_steps=steps,
                  oracle=oracle_c16, run_witness=run_witness, component="strategy",
                  theorem_hint="Props/C16.v (theorems about Model/Strategy.v)", shrink=shrink)
    # whole run() calls and perf are judged by the direct reading on every run (they are not model-checked
    # step by step: the intermediate hash orders inside one run() call are not observable)
    direct = [(i, f) for i, (sc, st) in enumerate(zip(scs, steps)) for f in [oracle_c16(sc, st)] if f]
    if direct and not res.violations:
        i, f = direct[0]
        sc, f = shrink(scs[i], f)
        res.violation(dict(kind="property-fails-on-implementation", component="strategy", failure=f, scenario=sc), "direct")
    keys = set()
    n_steps = 0
    for sc, st in zip(scs, steps):
        n_steps += len(st)
        for s in st:
            o = s["op"]["op"]
            if s["panic"]:
                keys.add((o, "panic"))
                continue
            sent = len([c for c in s["calls"] if c.get("call") == "insert_order"])
            dh = len(s["post"]["history"]) - len(s["pre"]["history"])
            keys.add((o, sc.get("style"), min(sent, 3), min(dh, 4), "failed" if s["post"]["broker"]["failed"] else "ready",
                      min(len(s["post"]["broker"]["holdings"]), 3)))
    s0 = scs[len(scs) // 2]
    res.coverage.update(
        evaluations=n_steps, distinct_nontrivial=len(keys),
        rule="seeded strategy runs over generated datasets (1-12 dates; calm / jumpy / constant zero-spread prices; "
             "gaps), weight maps of 1-4 symbols (incl. unquoted), cost lists, init / update / withdraw / "
             "withdraw-with-liquidation interleavings, a final run() and an update past the end; init, update and "
             "withdrawals compared step by step with the model from the implementation's own pre-state (all "
             "fields); whole run() calls judged by the direct reading of C16. distinct_nontrivial counts distinct "
             "(operation, price style, orders sent, snapshots added, state, holdings) situations",
        samples=[dict(weights=[[w[0], show_f(w[1])] for w in s0["weights"]], style=s0["style"],
                      ops=[{k: (show_f(v) if k == "x" else v) for k, v in o.items()} for o in s0["ops"][:8]])],
        traces_validated_against_impl=len(scs), scenarios=len(scs), direct_reading_failures=len(direct),
        composed_model_update_steps=sum(len(t) for t in sys_terms),
        op_mix={k: sum(1 for sc in scs for o in sc["ops"] if o["op"] == k)
                for k in ("init", "update", "withdraw", "withdraw_liq", "run", "perf")})
    return ob
