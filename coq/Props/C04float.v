(* C04 AT THE IEEE binary64 INSTANCE for whole-unit amounts — no rounding anywhere. Statements only. `int_float x n`: the binary64 value x is finite and equals the integer n (Flocq's reading of Coq's primitive float). `reads` / `integral` tie every amount of a history (deposits, withdrawals, the value of every booked trade) to its integer; `zledger` is the integer ledger read off the events the float run returned, `zledger_replay` the one that replays the decisions in Z (proved equal); `zvolume` the total of all |amounts|. Depends on the specification axioms the standard library declares for its primitive floats / 63-bit integers and on the classical real-number axioms (through Flocq). *)
From Coq Require Import ZArith NArith List Bool String Floats.
From Flocq Require Import IEEE754.BinarySingleNaN IEEE754.PrimFloat.
From Alator Require Import Model.Num Model.Quirks Model.Cost Model.Exchange Model.Uist Model.Broker
  Proofs.BrokerLedgerProofs Proofs.FloatExact Proofs.FloatCash.
Import ListNotations.

(* One operation of the model instance that is compared bit-for-bit with the code: cash moves by exactly the integer amount (deposit accepted, withdrawal done, trades booked: minus every buy, plus every sell), the event is the one the INTEGER comparison decides (float comparisons of integer-valued floats are exact), nothing else moves cash. *)
Theorem c04f_step :
  forall (tbl : libm_table) (b : broker float) (o : bop float) 
           (zo : zop) (z : Z) (b' : broker float) (ev : bev float) (fw : list (uorder float)),
         int_float (@b_cash float b) z ->
         integral o zo ->
         @bstep float (FloatNum tbl) clean b o =
         @Ok (broker float * bev float * list (uorder float)) (b', ev, fw) ->
         step_bounded false z zo ev ->
         int_float (@b_cash float b') (z + zdelta_cash zo ev) /\
         zevent (@b_failed float b) z o zo ev /\
         zdelta_cash zo ev = zdecide (@b_failed float b) z zo.
Proof. exact @cash_step_clean. Qed.

(* Over ALL histories, one premise on magnitudes (|initial cash| + total of all |amounts| below 2^53): the float cash IS the initial cash plus the integer ledger. *)
Theorem c04f_history :
  forall (tbl : libm_table) (ops : list (bop float)) (zops : list zop) 
           (b : broker float) (z0 : Z) (b' : broker float)
           (evs : list (bev float * list (uorder float))),
         @brun float (FloatNum tbl) clean b ops =
         @Ok (broker float * list (bev float * list (uorder float))) (b', evs) ->
         int_float (@b_cash float b) z0 ->
         @Forall2 (bop float) zop integral ops zops ->
         (Z.abs z0 + zvolume false zops < 2 ^ 53)%Z ->
         int_float (@b_cash float b') (z0 + zledger zops evs).
Proof. exact @float_cash_ledger_of_volume. Qed.

(* … and that ledger is the one obtained by replaying the accept / refuse decisions in Z. *)
Theorem c04f_replay :
  forall (tbl : libm_table) (ops : list (bop float)) (zops : list zop) 
           (b : broker float) (z0 : Z) (b' : broker float)
           (evs : list (bev float * list (uorder float))),
         @brun float (FloatNum tbl) clean b ops =
         @Ok (broker float * list (bev float * list (uorder float))) (b', evs) ->
         int_float (@b_cash float b) z0 ->
         @Forall2 (bop float) zop integral ops zops ->
         (Z.abs z0 + zvolume false zops < 2 ^ 53)%Z ->
         int_float (@b_cash float b') (z0 + zledger_replay tbl b z0 ops zops).
Proof. exact @float_cash_ledger_replay. Qed.

(* HEADLINE, in the property's words, from cash 0: float cash = accepted deposits - successful withdrawals - values of buys + values of sells booked by the checks, each once — as an EQUALITY OF FLOATS (bit for bit; cash never becomes -0). *)
Theorem c04f_headline :
  forall (tbl : libm_table) (ops : list (bop float)) (zops : list zop)
           (b b' : broker float) (evs : list (bev float * list (uorder float))),
         @b_cash float b = 0%float ->
         @brun float (FloatNum tbl) clean b ops =
         @Ok (broker float * list (bev float * list (uorder float))) (b', evs) ->
         @Forall2 (bop float) zop integral ops zops ->
         (zvolume false zops < 2 ^ 53)%Z ->
         let total :=
           (deposits_accepted zops evs - withdrawals_done zops evs - buys_booked zops +
            sells_booked zops)%Z in
         int_float (@b_cash float b') total /\ @b_cash float b' = float_ofZ total.
Proof. exact @float_cash_from_zero. Qed.

(* The same for ANY quirk valuation, in particular the code as it is (recorded finding q_liq_fail_debit): one extra integer term, the forced debit of a failed liquidation request that does not exceed cash. *)
Theorem c04f_as_is :
  forall (tbl : libm_table) (qk : quirks) (ops : list (bop float)) 
           (zops : list zop) (b : broker float) (z0 : Z) (b' : broker float)
           (evs : list (bev float * list (uorder float))),
         @brun float (FloatNum tbl) qk b ops =
         @Ok (broker float * list (bev float * list (uorder float))) (b', evs) ->
         int_float (@b_cash float b) z0 ->
         @Forall2 (bop float) zop (reads (q_liq_fail_debit qk)) ops zops ->
         (Z.abs z0 + zvolume (q_liq_fail_debit qk) zops < 2 ^ 53)%Z ->
         int_float (@b_cash float b') (zcash (q_liq_fail_debit qk) z0 zops evs).
Proof. exact @cash_history_exact_of_volume. Qed.

(* Non-vacuity, kernel-evaluated: deposit 1000, refused withdrawal 2000, withdrawal 250, a check booking a buy worth 300 and a sell worth 120: cash = 570. *)
Theorem c04f_example :
  int_float (@b_cash float exc_b1) (1000 - 250 - 300 + 120) /\
         @b_cash float exc_b1 = float_ofZ (1000 - 250 - 300 + 120) /\
         float_ofZ (1000 - 250 - 300 + 120) = 570%float.
Proof. exact @exc_headline_instance. Qed.

Print Assumptions c04f_step.
Print Assumptions c04f_history.
Print Assumptions c04f_replay.
Print Assumptions c04f_headline.
Print Assumptions c04f_as_is.
Print Assumptions c04f_example.
