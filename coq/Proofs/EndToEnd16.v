(* EndToEnd16.v — C16's last sentence as ONE theorem about the full composition
   strategy + broker + eager client + Uist server + Uist exchange (Model/Strategy.v), at F := R, clean:
   "trading alone creates no value: with constant prices and zero spread every snapshot's portfolio
    value equals the cash deposited". *)
From Coq Require Import ZArith NArith List Bool String Reals Lra Lia Permutation.
From Flocq Require Import Raux.
From Alator Require Import Model.Num Model.Quirks Model.Cost Model.Exchange Model.Uist Model.Server
  Model.Broker Model.Perf Model.Strategy
  Proofs.ServerProofs Proofs.BrokerLedgerProofs Proofs.BrokerLiqProofs Proofs.UistProofs
  Proofs.ExchangeProofs Proofs.ExchangeCorollaries Proofs.StrategyProofs.
Import ListNotations.

Section EndToEnd16.
Local Existing Instance RNum.
Local Open Scope R_scope.

Variable price : string -> R.

Notation utick1 := (bt_tick (X:=uexch R) (Row:=quotes (quote R)) (TOut:=utout) ux_tick ([], []) clean false).

(* ---------------- constant, zero-spread prices ---------------- *)
Definition row_const (row : quotes (quote R)) : Prop :=
  forall k q, In (k, q) row -> q_ask q = price k /\ q_bid q = price k.
Definition dataset_const (d : dataset (quotes (quote R))) : Prop :=
  forall date row, get_quotes d date = Some row -> row_const row.
Definition quotes_const (m : smap (quote R)) : Prop :=
  forall k q, sget m k = Some q -> q_ask q = price k /\ q_bid q = price k.

(* every key of m is a key of m' *)
Definition qsub (m m' : smap (quote R)) : Prop := forall s, sget m s <> None -> sget m' s <> None.

(* the broker half of the invariant *)
Definition binv (br : broker R) : Prop :=
  quotes_const (b_quotes br) /\ keys_nodup (b_holdings br) /\
  (forall s h, sget (b_holdings br) s = Some h -> sget (b_quotes br) s <> None).

(* the invariant of the composed system: the broker only ever stores constant quotes, holds only quoted
   symbols, and every order of its backtest still in the exchange (book or buffer) is for a quoted symbol *)
Definition sys_inv (y : sys R) : Prop :=
  SInv (sy_app y) /\
  exists b d k,
    nlookup (backtests (sy_app y)) (sy_id y) = Some b /\
    slookup (datasets (sy_app y)) (bt_dataset b) = Some d /\
    clock_ok d b k /\ dataset_const d /\
    ExchangeProofs.Inv (bt_exch b) /\
    quotes_const (b_quotes (st_brkr (sy_strat y))) /\
    keys_nodup (b_holdings (st_brkr (sy_strat y))) /\
    (forall s h, sget (b_holdings (st_brkr (sy_strat y))) s = Some h ->
                 sget (b_quotes (st_brkr (sy_strat y))) s <> None) /\
    (forall e, In e (book (bt_exch b)) -> sget (b_quotes (st_brkr (sy_strat y))) (uo_symbol (e_ord e)) <> None) /\
    (forall o, In o (buffer (bt_exch b)) -> sget (b_quotes (st_brkr (sy_strat y))) (uo_symbol o) <> None).

(* ---------------- string maps ---------------- *)
Lemma sset_keeps {A} (m : smap A) k a s : sget m s <> None -> sget (sset m k a) s <> None.
Proof.
  intros H. destruct (string_dec s k) as [E|E].
  - subst s. rewrite sget_sset_same. discriminate.
  - rewrite sget_sset_other by exact E. exact H.
Qed.

Lemma sget_some_key {A} (m : smap A) s h : sget m s = Some h -> In s (map fst m).
Proof. intros H. apply sget_in in H. change s with (fst (s, h)). apply in_map. exact H. Qed.

Lemma supd_keys m k v s : In s (map fst (supd m k v)) -> s = k \/ In s (map fst m).
Proof.
  unfold supd. destruct (Req_bool v 0); intros H.
  - right. exact (in_keys_sremove m k s H).
  - exact (in_keys_sset m k v s H).
Qed.

(* ---------------- update_quotes ---------------- *)
Definition qfold (row : list (string * quote R)) (m : smap (quote R)) : smap (quote R) :=
  fold_left (fun m kq => sset m (fst kq) (snd kq)) row m.

Lemma qfold_qsub row : forall m, qsub m (qfold row m).
Proof.
  unfold qsub, qfold. induction row as [|[k q] row IH]; intros m s H; cbn [fold_left fst snd].
  - exact H.
  - apply IH. apply sset_keeps. exact H.
Qed.

Lemma sset_const m k q :
  quotes_const m -> q_ask q = price k /\ q_bid q = price k -> quotes_const (sset m k q).
Proof.
  intros Hm Hq k' q' H. destruct (string_dec k' k) as [E|E].
  - subst k'. rewrite sget_sset_same in H. inversion H; subst q'. exact Hq.
  - rewrite sget_sset_other in H by exact E. exact (Hm _ _ H).
Qed.

Lemma qfold_const row : forall m, row_const row -> quotes_const m -> quotes_const (qfold row m).
Proof.
  unfold qfold. induction row as [|[k q] row IH]; intros m Hr Hm; cbn [fold_left fst snd].
  - exact Hm.
  - apply IH.
    + intros k' q' Hin. apply Hr. right. exact Hin.
    + apply sset_const; [exact Hm|]. apply Hr. left. reflexivity.
Qed.

Lemma update_quotes_quotes (b : broker R) row : b_quotes (update_quotes b row) = qfold row (b_quotes b).
Proof. reflexivity. Qed.

(* ---------------- book_trade ---------------- *)
Lemma book_trade_quotes (b : broker R) t : b_quotes (book_trade b t) = b_quotes b.
Proof. unfold book_trade. destruct (t_side t); reflexivity. Qed.

Lemma book_trades_quotes ts : forall b : broker R, b_quotes (fold_left book_trade ts b) = b_quotes b.
Proof.
  induction ts as [|t ts IH]; intros b; cbn [fold_left]; [reflexivity|].
  rewrite IH. apply book_trade_quotes.
Qed.

Lemma book_trades_keys ts : forall (b : broker R) s,
  In s (map fst (b_holdings (fold_left book_trade ts b))) ->
  In s (map fst (b_holdings b)) \/ exists t, In t ts /\ t_symbol t = s.
Proof.
  induction ts as [|t ts IH]; intros b s H; cbn [fold_left] in H.
  - left. exact H.
  - destruct (IH _ _ H) as [Hk|(t' & Hin & Hs)].
    + rewrite book_trade_holdings_eq in Hk. apply supd_keys in Hk.
      destruct Hk as [Hk|Hk].
      * right. exists t. split; [left; reflexivity|]. symmetry. exact Hk.
      * left. exact Hk.
    + right. exists t'. split; [right; exact Hin | exact Hs].
Qed.

(* ---------------- the gate: forwarded orders are for quoted symbols ---------------- *)
Lemma gate_forward_quoted qk (b : broker R) o :
  gate qk b o = GForward -> sget (b_quotes b) (uo_symbol o) <> None.
Proof.
  unfold gate. intros H E. rewrite E in H. destruct (b_failed b); discriminate.
Qed.

Lemma send_orders_fw_quoted qk os : forall (b : broker R) b' evs fw,
  send_orders qk b os = Ok (b', evs, fw) ->
  forall o, In o fw -> sget (b_quotes b) (uo_symbol o) <> None.
Proof.
  induction os as [|o0 r IH]; intros b b' evs fw H o Hin.
  - cbn [send_orders] in H. inversion H; subst. contradiction.
  - apply send_orders_cons in H.
    destruct H as (b1 & ev1 & fw1 & evs2 & fw2 & Hs & Hr & _ & ->).
    apply send_order_cases in Hs.
    destruct Hs as [(_ & -> & _ & ->)|(Hg & -> & _ & ->)].
    + cbn [Datatypes.app] in Hin. exact (IH _ _ _ _ Hr o Hin).
    + cbn [Datatypes.app In] in Hin. destruct Hin as [Hin|Hin].
      * subst o0. apply gate_forward_quoted with (qk := qk). exact Hg.
      * exact (IH _ _ _ _ Hr o Hin).
Qed.

(* ---------------- check / trade_to_target: frames ---------------- *)
Lemma check_frame (b : broker R) resp ord b' fw :
  check clean b resp ord = Ok (b', fw) ->
  b_cash b' = b_cash (booked b resp) /\ b_holdings b' = b_holdings (booked b resp) /\
  b_quotes b' = b_quotes (booked b resp) /\
  forall o, In o fw -> sget (b_quotes (booked b resp)) (uo_symbol o) <> None.
Proof.
  intros H. apply check_clean_sends in H. destruct H as (sells & evs & b1 & Hs & Hb).
  pose proof (send_orders_fw_quoted _ _ _ _ _ _ Hs) as Hq.
  apply send_orders_cash in Hs. destruct Hs as (Hc & Hh & _ & Hqu & _ & _).
  destruct Hb as [->| ->]; cbn [set_failed b_cash b_holdings b_quotes]; repeat split; assumption.
Qed.

Lemma ttt_frame (b : broker R) ws ord b2 fw :
  trade_to_target clean b ws ord = Ok (b2, fw) ->
  is_order_of ord (b_holdings b) = true /\
  b_cash b2 = b_cash b /\ b_holdings b2 = b_holdings b /\ b_quotes b2 = b_quotes b /\
  forall o, In o fw -> sget (b_quotes b) (uo_symbol o) <> None.
Proof.
  intros H.
  assert (Ho : is_order_of ord (b_holdings b) = true).
  { unfold trade_to_target, diff_orders in H.
    destruct (is_order_of ord (b_holdings b)) eqn:E; [reflexivity|].
    cbn [negb bind] in H. discriminate. }
  apply trade_to_target_shape in H. destruct H as (orders & evs & Hs).
  pose proof (send_orders_fw_quoted _ _ _ _ _ _ Hs) as Hq.
  apply send_orders_cash in Hs. destruct Hs as (Hc & Hh & _ & Hqu & _ & _).
  repeat split; assumption.
Qed.

(* ---------------- what the broker is told after a tick ---------------- *)
Definition resp_ok (br : broker R) (resp : option (list (trade R) * list (string * quote R))) : Prop :=
  match resp with
  | None => True
  | Some (ts, row) =>
      row_const row /\
      forall t, In t ts -> t_value t = price (t_symbol t) * t_quantity t /\
                           sget (b_quotes br) (t_symbol t) <> None
  end.

Lemma booked_inv (br : broker R) resp :
  binv br -> resp_ok br resp ->
  binv (booked br resp) /\ qsub (b_quotes br) (b_quotes (booked br resp)) /\
  worth price (booked br resp) = worth price br.
Proof.
  intros (Hqc & Hnd & Hheld) Hr. destruct resp as [[ts row]|]; cbn [booked].
  2:{ split; [exact (conj Hqc (conj Hnd Hheld))|]. split; [intros s H; exact H | reflexivity]. }
  destruct Hr as [Hrow Hts].
  assert (Hq : b_quotes (fold_left book_trade ts (update_quotes br row)) = qfold row (b_quotes br)).
  { rewrite book_trades_quotes. apply update_quotes_quotes. }
  assert (Hsub : qsub (b_quotes br) (qfold row (b_quotes br))) by apply qfold_qsub.
  destruct (book_trades_worth price (update_quotes br row) ts Hnd) as [Hw Hk].
  { intros t Hin. exact (proj1 (Hts t Hin)). }
  unfold binv. rewrite Hq. split; [|split; [exact Hsub | exact Hw]].
  split; [apply qfold_const; assumption|]. split; [exact Hk|].
  intros s h Hs. apply sget_some_key in Hs. apply book_trades_keys in Hs.
  destruct Hs as [Hs|(t & Hin & Hs)].
  - apply Hsub. cbn [update_quotes b_holdings] in Hs.
    destruct (in_keys_sget _ _ Hs) as [h' Hh']. exact (Hheld _ _ Hh').
  - apply Hsub. subst s. exact (proj2 (Hts t Hin)).
Qed.

Lemma binv_priced (br : broker R) : binv br -> priced price br [].
Proof.
  intros (Hqc & _ & Hheld). split.
  - intros s h Hs. destruct (sget (b_quotes br) s) as [q|] eqn:Hq.
    + exists q. split; [reflexivity|]. exact (proj2 (Hqc _ _ Hq)).
    + exfalso. exact (Hheld _ _ Hs Hq).
  - intros t [].
Qed.

Lemma binv_frame (b b' : broker R) :
  b_holdings b' = b_holdings b -> b_quotes b' = b_quotes b -> binv b -> binv b'.
Proof. unfold binv. intros -> ->. exact (fun H => H). Qed.

(* one strategy update under constant prices: invariant, worth, forwarded orders, snapshot *)
Lemma st_update_const (s : strategy R) resp now ord s' fw :
  binv (st_brkr s) -> resp_ok (st_brkr s) resp ->
  st_update clean s resp now ord = Ok (s', fw) ->
  binv (st_brkr s') /\ qsub (b_quotes (st_brkr s)) (b_quotes (st_brkr s')) /\
  worth price (st_brkr s') = worth price (st_brkr s) /\
  (forall o, In o fw -> sget (b_quotes (st_brkr s')) (uo_symbol o) <> None) /\
  st_history s' = st_history s ++ [mkSnap now (worth price (st_brkr s)) (st_ncf s) fzero].
Proof.
  intros Hb Hr H. apply st_update_shape in H.
  destruct H as (b1 & fw1 & b2 & fw2 & Hc & Ht & -> & ->). cbn [st_brkr st_history].
  destruct (booked_inv _ _ Hb Hr) as (Hbk & Hsub & Hw).
  apply check_frame in Hc. destruct Hc as (Hc1 & Hh1 & Hq1 & Hfw1).
  apply ttt_frame in Ht. destruct Ht as (Ho & Hc2 & Hh2 & Hq2 & Hfw2).
  assert (Hb2 : binv b2).
  { apply (binv_frame (booked (st_brkr s) resp)); [congruence | congruence | exact Hbk]. }
  assert (Hw2 : worth price b2 = worth price (st_brkr s)).
  { rewrite <- Hw. apply worth_frame; congruence. }
  split; [exact Hb2|]. split; [rewrite Hq2, Hq1; exact Hsub|]. split; [exact Hw2|]. split.
  - intros o Hin. rewrite Hq2. apply in_app_or in Hin. destruct Hin as [Hin|Hin].
    + rewrite Hq1. exact (Hfw1 o Hin).
    + exact (Hfw2 o Hin).
  - rewrite (total_value_worth price b2 ord); [rewrite Hw2; reflexivity | | |].
    + exact (proj1 (proj2 Hb2)).
    + rewrite Hh2. exact Ho.
    + exact (binv_priced b2 Hb2).
Qed.

(* ---------------- the exchange side of one tick ---------------- *)
Lemma ux_tick_facts (x : uexch R) row perm x' trades adm :
  ExchangeProofs.Inv x -> row_const row -> ux_tick x row perm = Some (x', (trades, adm)) ->
  ExchangeProofs.Inv x' /\
  (forall t, In t trades -> t_value t = price (t_symbol t) * t_quantity t /\
                            exists e, In e (book x) /\ t_symbol t = uo_symbol (e_ord e)) /\
  (forall e, In e (book x') -> In e (book x) \/ In (e_ord e) (buffer x)) /\
  buffer x' = [].
Proof.
  intros HI Hrow H. unfold ux_tick in H.
  destruct (uist_tick x row perm) as [x1 o] eqn:Ht.
  destruct o as [|fl adm1 trig| |]; try discriminate.
  inversion H; subst x1 trades adm1; clear H.
  pose proof (uist_fills_at_price price x row perm x' fl adm trig HI Hrow (fun _ _ => I) Ht) as Hval.
  destruct (uist_tick_spec x row perm x' fl adm trig HI Ht) as (Hfl & _ & Hbk & Hadm).
  destruct (tick_spec uist_asset uo_symbol uist_is_sell uist_decide x row perm x' fl adm trig HI Ht)
    as (sorted & Hap & Hperm & _ & Hrest).
  cbv zeta in Hrest. destruct Hrest as (_ & _ & _ & _ & Hbuf & _).
  split; [|split; [|split]].
  - pose proof (inv_step uist_asset uo_symbol uist_is_sell uist_decide x (Tick row perm) HI) as Hi.
    cbn [step] in Hi. unfold uist_tick in Ht. rewrite Ht in Hi. exact Hi.
  - intros t Hin. apply in_map_iff in Hin. destruct Hin as ([i t'] & Ht' & Hin).
    cbn [snd] in Ht'. subst t'. split; [exact (Hval i t Hin)|].
    rewrite Hfl in Hin. apply in_flat_map in Hin. destruct Hin as (e & He & Hin).
    exists e. split; [exact He|].
    unfold utrade in Hin.
    destruct (lookup row (uo_symbol (e_ord e))) as [q|]; [|contradiction].
    destruct (uist_fires (e_ord e) q); [|contradiction].
    destruct Hin as [Hin|[]]. inversion Hin; subst i t.
    exact (proj1 (uist_trade_fields (e_ord e) q)).
  - intros e Hin. rewrite Hbk in Hin. apply in_app_or in Hin. destruct Hin as [Hin|Hin].
    + left. apply filter_In in Hin. exact (proj1 Hin).
    + right. apply in_map_iff in Hin. destruct Hin as (p & <- & Hp).
      cbn [fresh_entry e_ord]. rewrite Hap in Hadm.
      apply (Permutation_in _ Hperm). rewrite <- Hadm. apply in_map. exact Hp.
  - exact Hbuf.
Qed.

Lemma utick1_facts (d : dataset (quotes (quote R))) (b : backtest (uexch R)) perm b1 hn trades adm k :
  clock_ok d b k -> dataset_const d -> ExchangeProofs.Inv (bt_exch b) ->
  utick1 d b perm = Some (b1, (hn, (trades, adm))) ->
  ExchangeProofs.Inv (bt_exch b1) /\
  (forall t, In t trades -> t_value t = price (t_symbol t) * t_quantity t /\
                            exists e, In e (book (bt_exch b)) /\ t_symbol t = uo_symbol (e_ord e)) /\
  (forall e, In e (book (bt_exch b1)) -> In e (book (bt_exch b)) \/ In (e_ord e) (buffer (bt_exch b))) /\
  (forall o, In o (buffer (bt_exch b1)) -> In o (buffer (bt_exch b))).
Proof.
  intros Hc Hdc HI Ht.
  destruct (tick1_spec _ _ _ d b perm b1 hn (trades, adm) k Hc Ht) as (_ & _ & _ & Hx).
  destruct (get_quotes d (bt_date b)) as [row|] eqn:Hq.
  - destruct (ux_tick_facts _ _ _ _ _ _ HI (Hdc _ _ Hq) Hx) as (H1 & H2 & H3 & H4).
    split; [exact H1|]. split; [exact H2|]. split; [exact H3|].
    intros o Hin. rewrite H4 in Hin. contradiction.
  - destruct Hx as [Hx Ho]. inversion Ho; subst trades adm. rewrite Hx.
    split; [exact HI|]. split; [intros t []|]. split; [intros e Hin; left; exact Hin|].
    intros o Hin. exact Hin.
Qed.

(* ---------------- forwarding orders: what the backtest's exchange looks like afterwards ---------------- *)
Lemma forward_exch os : forall (a : uapp (F:=R)) id b,
  nlookup (backtests a) id = Some b ->
  exists b', nlookup (backtests (forward clean a id os)) id = Some b' /\
    bproj b' = bproj b /\
    book (bt_exch b') = book (bt_exch b) /\ next_id (bt_exch b') = next_id (bt_exch b) /\
    buffer (bt_exch b') = buffer (bt_exch b) ++ os.
Proof.
  induction os as [|o os IH]; intros a id b Hb; rewrite forward_unfold; cbn [fold_left].
  - exists b. rewrite app_nil_r. repeat split; solve [assumption | reflexivity].
  - set (b1 := mkBacktest (bt_date b) (bt_pos b) (ux_insert (bt_exch b) o) (bt_dataset b)).
    assert (E : fst (usstep clean a (SInsert o id)) = with_backtest a id b1).
    { unfold usstep. cbn [sstep]. rewrite Hb. reflexivity. }
    rewrite E, <- forward_unfold.
    assert (Hb1 : nlookup (backtests (with_backtest a id b1)) id = Some b1).
    { unfold with_backtest. cbn [backtests]. apply nlookup_upsert_same. }
    destruct (IH _ _ _ Hb1) as (b' & H1 & H2 & H3 & H4 & H5).
    exists b'. split; [exact H1|]. split; [rewrite H2; reflexivity|].
    split; [rewrite H3; reflexivity|]. split; [rewrite H4; reflexivity|].
    rewrite H5. unfold b1. cbn [bt_exch]. unfold ux_insert, uist_step. cbn [step fst buffer].
    rewrite <- app_assoc. reflexivity.
Qed.

Lemma inv_same_book (x x' : uexch R) :
  book x' = book x -> next_id x' = next_id x -> ExchangeProofs.Inv x -> ExchangeProofs.Inv x'.
Proof. unfold ExchangeProofs.Inv. intros -> ->. exact (fun H => H). Qed.

(* ---------------- one update of the composition, opened up ---------------- *)
Lemma sys_update_shape (y : sys R) perm ord y' b d k :
  SInv (sy_app y) -> nlookup (backtests (sy_app y)) (sy_id y) = Some b ->
  slookup (datasets (sy_app y)) (bt_dataset b) = Some d -> clock_ok d b k ->
  sys_update clean y perm ord = Ok y' ->
  exists b1 hn trades adm s' fw,
    utick1 d b perm = Some (b1, (hn, (trades, adm))) /\
    st_update clean (sy_strat y)
      (match get_quotes d (bt_date b1) with Some row => Some (trades, row) | None => None end)
      (bt_date b1) ord = Ok (s', fw) /\
    y' = mkSys s' (forward clean (with_backtest (sy_app y) (sy_id y) b1) (sy_id y) fw) (sy_id y).
Proof.
  intros Hs Hb Hd Hc H. unfold sys_update in H.
  rewrite (us_tick _ _ _ _ perm Hb Hd) in H.
  destruct (utick1 d b perm) as [[b1 [hn [trades adm]]]|] eqn:Ht.
  2:{ cbv beta iota in H.
      destruct (usstep clean (sy_app y) (SFetch (sy_id y))) as [a2 rf]. discriminate. }
  cbv beta iota in H.
  destruct (tick1_spec _ _ _ d b perm b1 hn (trades, adm) k Hc Ht) as (Hc1 & _ & Hds1 & _).
  set (a1 := with_backtest (sy_app y) (sy_id y) b1) in *.
  assert (Hb1 : nlookup (backtests a1) (sy_id y) = Some b1).
  { unfold a1, with_backtest. cbn [backtests]. apply nlookup_upsert_same. }
  assert (Hd1 : slookup (datasets a1) (bt_dataset b1) = Some d).
  { unfold a1, with_backtest. cbn [datasets]. rewrite Hds1. exact Hd. }
  rewrite (us_fetch a1 _ _ _ Hb1 Hd1) in H. cbv beta iota in H.
  rewrite (us_now a1 _ _ _ _ Hb1 Hd1 Hc1) in H. cbv beta iota in H.
  match type of H with bind ?u _ = _ => destruct u as [[s' fw]|e|] eqn:Hu end;
    cbn [bind] in H; try discriminate.
  inversion H; subst y'; clear H.
  exists b1, hn, trades, adm, s', fw. split; [reflexivity|]. split; [|reflexivity].
  destruct (get_quotes d (bt_date b1)); exact Hu.
Qed.


(* (T1) one update preserves the invariant and the worth, and its snapshot shows exactly the worth *)
Lemma sys_update_const : forall (y : sys R) perm ord y',
  sys_inv y -> sys_update clean y perm ord = Ok y' ->
  sys_inv y' /\ worth price (st_brkr (sy_strat y')) = worth price (st_brkr (sy_strat y)) /\
  exists sn, st_history (sy_strat y') = st_history (sy_strat y) ++ [sn] /\
             sn_value sn = worth price (st_brkr (sy_strat y)).
Proof.
  intros y perm ord y' (Hs & b & d & k & Hb & Hd & Hc & Hdc & HI & Hqc & Hnd & Hheld & Hbook & Hbuf) H.
  destruct (sys_update_clock y perm ord y' b d k Hs Hb Hd Hc H)
    as (Hid & Hs' & Hds' & b' & Hb' & Hbd' & Hc' & _).
  destruct (sys_update_shape y perm ord y' b d k Hs Hb Hd Hc H)
    as (b1 & hn & trades & adm & s' & fw & Ht & Hu & Hy).
  destruct (utick1_facts d b perm b1 hn trades adm k Hc Hdc HI Ht) as (HI1 & Htr & Hbk1 & Hbf1).
  set (br := st_brkr (sy_strat y)) in *.
  assert (Hbi : binv br) by exact (conj Hqc (conj Hnd Hheld)).
  assert (Hr : resp_ok br (match get_quotes d (bt_date b1) with
                           | Some row => Some (trades, row) | None => None end)).
  { destruct (get_quotes d (bt_date b1)) as [row|] eqn:Hq; cbn [resp_ok]; [|exact I].
    split; [exact (Hdc _ _ Hq)|]. intros t Hin. destruct (Htr t Hin) as (Hv & e & He & Hsym).
    split; [exact Hv|]. rewrite Hsym. exact (Hbook e He). }
  destruct (st_update_const (sy_strat y) _ _ ord s' fw Hbi Hr Hu) as (Hbi' & Hsub & Hw & Hfw & Hh).
  set (a1 := with_backtest (sy_app y) (sy_id y) b1) in *.
  assert (Hb1 : nlookup (backtests a1) (sy_id y) = Some b1).
  { unfold a1, with_backtest. cbn [backtests]. apply nlookup_upsert_same. }
  destruct (forward_exch fw a1 (sy_id y) b1 Hb1) as (b2 & Hb2 & _ & Hbk2 & Hn2 & Hbf2).
  subst y'. cbn [sy_strat sy_app sy_id] in *.
  rewrite Hb2 in Hb'. inversion Hb'; subst b'; clear Hb'.
  destruct Hbi' as (Hqc' & Hnd' & Hheld').
  split; [|split; [exact Hw|]].
  - split; [exact Hs'|]. exists b2, d, (S k). cbn [sy_strat sy_app sy_id].
    split; [exact Hb2|]. split; [rewrite Hds', Hbd'; exact Hd|]. split; [exact Hc'|].
    split; [exact Hdc|]. split; [exact (inv_same_book _ _ Hbk2 Hn2 HI1)|].
    split; [exact Hqc'|]. split; [exact Hnd'|]. split; [exact Hheld'|]. split.
    + intros e Hin. rewrite Hbk2 in Hin. apply Hsub.
      destruct (Hbk1 e Hin) as [He|He]; [exact (Hbook e He) | exact (Hbuf _ He)].
    + intros o Hin. rewrite Hbf2 in Hin. apply in_app_or in Hin. destruct Hin as [Hin|Hin].
      * apply Hsub. exact (Hbuf o (Hbf1 o Hin)).
      * exact (Hfw o Hin).
  - eexists. split; [exact Hh|]. reflexivity.
Qed.

(* (T2) the whole run *)
Theorem sys_run_const : forall fuel (y : sys R) perms ords i y' n,
  sys_inv y -> sys_run clean fuel y perms ords i = Ok (y', n) ->
  sys_inv y' /\
  exists new, st_history (sy_strat y') = st_history (sy_strat y) ++ new /\
              Forall (fun sn => sn_value sn = worth price (st_brkr (sy_strat y))) new.
Proof.
  induction fuel as [|fuel IH]; intros y perms ords i y' n Hinv H.
  - cbn [sys_run] in H. discriminate.
  - pose proof Hinv as (_ & b & d & k & Hb & Hd & Hc & _).
    rewrite sys_run_S, (sys_has_next_spec y b d k Hb Hd Hc) in H.
    destruct (Nat.ltb k (List.length (ds_dates d))).
    + destruct (sys_update clean y (perms i) (ords i)) as [y1|e|] eqn:Hu; cbn [bind] in H; try discriminate.
      destruct (sys_update_const y _ _ y1 Hinv Hu) as (Hinv1 & Hw1 & sn & Hh1 & Hv1).
      destruct (IH y1 perms ords (S i) y' n Hinv1 H) as (Hinv' & new & Hh & Hall).
      split; [exact Hinv'|]. exists (sn :: new).
      split; [rewrite Hh, Hh1, <- app_assoc; reflexivity|].
      constructor; [exact Hv1|]. rewrite <- Hw1. exact Hall.
    + inversion H; subst y' n. split; [exact Hinv|]. exists [].
      split; [rewrite app_nil_r; reflexivity | constructor].
Qed.

(* ---------------- the start state ---------------- *)
Lemma st_init_start costs q0 ws c ord0 s1 fw :
  quotes_const q0 ->
  st_init clean (mkStrategy (broker_init costs q0) ws 0 []) c ord0 = Ok (s1, fw) ->
  binv (st_brkr s1) /\ worth price (st_brkr s1) = c /\ st_history s1 = [] /\
  forall o, In o fw -> sget (b_quotes (st_brkr s1)) (uo_symbol o) <> None.
Proof.
  intros Hq0 H.
  pose proof (st_init_worth price _ _ _ _ _ H) as Hw.
  pose proof (st_init_history _ _ _ _ _ _ H) as [Hh _].
  apply st_init_shape in H. destruct H as (b2 & Ht & ->). cbn [st_brkr st_history] in *.
  apply ttt_frame in Ht. destruct Ht as (_ & _ & Hh2 & Hq2 & Hfw).
  assert (Eh : b_holdings (st_brkr (st_deposit clean (mkStrategy (broker_init costs q0) ws 0 []) c)) = [])
    by reflexivity.
  assert (Eq : b_quotes (st_brkr (st_deposit clean (mkStrategy (broker_init costs q0) ws 0 []) c)) = q0)
    by reflexivity.
  rewrite Eh in Hh2. rewrite Eq in Hq2, Hfw.
  split; [|split; [|split]].
  - unfold binv. rewrite Hh2, Hq2. split; [exact Hq0|]. split; [constructor|].
    intros s h Hs. cbn [sget] in Hs. discriminate.
  - rewrite Hw. unfold worth, broker_init. cbn [b_cash b_holdings b_failed fold_right fzero RNum]. lra.
  - exact Hh.
  - rewrite Hq2. exact Hfw.
Qed.

Lemma sys_inv_start (a : uapp (F:=R)) id b d s1 fw :
  SInv a -> nlookup (backtests a) id = Some b -> slookup (datasets a) (bt_dataset b) = Some d ->
  clock_ok d b 0 -> bt_exch b = exch_init -> dataset_const d ->
  binv (st_brkr s1) -> (forall o, In o fw -> sget (b_quotes (st_brkr s1)) (uo_symbol o) <> None) ->
  exists b', nlookup (backtests (forward clean a id fw)) id = Some b' /\
             slookup (datasets (forward clean a id fw)) (bt_dataset b') = Some d /\
             clock_ok d b' 0 /\ SInv (forward clean a id fw) /\
             sys_inv (mkSys s1 (forward clean a id fw) id).
Proof.
  intros Hs Hb Hd Hc Hx Hdc (Hqc & Hnd & Hheld) Hfw.
  destruct (forward_gen a id fw id Hs) as (_ & Hs' & Hds').
  destruct (forward_exch fw a id b Hb) as (b' & Hb' & Hp & Hbk & Hn & Hbf).
  rewrite Hx in Hbk, Hn, Hbf. cbn [exch_init book buffer next_id Datatypes.app] in Hbk, Hn, Hbf.
  assert (Hbd : bt_dataset b' = bt_dataset b) by (unfold bproj in Hp; congruence).
  assert (Hd' : slookup (datasets (forward clean a id fw)) (bt_dataset b') = Some d)
    by (rewrite Hds', Hbd; exact Hd).
  assert (Hc' : clock_ok d b' 0%nat) by exact (clock_ok_proj d b b' 0%nat Hp Hc).
  exists b'. split; [exact Hb'|]. split; [exact Hd'|]. split; [exact Hc'|]. split; [exact Hs'|].
  split; [exact Hs'|]. exists b', d, 0%nat. cbn [sy_app sy_id sy_strat].
  split; [exact Hb'|]. split; [exact Hd'|]. split; [exact Hc'|]. split; [exact Hdc|].
  split; [apply (inv_same_book exch_init); [exact Hbk | exact Hn | apply inv_init]|].
  split; [exact Hqc|]. split; [exact Hnd|]. split; [exact Hheld|]. split.
  - intros e Hin. rewrite Hbk in Hin. contradiction.
  - intros o Hin. rewrite Hbf in Hin. exact (Hfw o Hin).
Qed.

(* (T3) from a fresh start: N updates, N snapshots, every one valued exactly the cash deposited *)
Theorem c16_constant_prices_end_to_end :
  forall (a : uapp (F:=R)) id b d costs q0 ws c ord0 s1 fw fuel perms ords y' n,
    SInv a -> nlookup (backtests a) id = Some b -> slookup (datasets a) (bt_dataset b) = Some d ->
    clock_ok d b 0 -> bt_exch b = exch_init -> dataset_const d ->
    quotes_const q0 ->
    let s0 := mkStrategy (broker_init costs q0) ws 0 [] in
    st_init clean s0 c ord0 = Ok (s1, fw) ->
    sys_run clean fuel (mkSys s1 (forward clean a id fw) id) perms ords 0 = Ok (y', n) ->
    n = List.length (ds_dates d) /\
    List.length (st_history (sy_strat y')) = List.length (ds_dates d) /\
    Forall (fun sn => sn_value sn = c) (st_history (sy_strat y')).
Proof.
  intros a id b d costs q0 ws c ord0 s1 fw fuel perms ords y' n Hs Hb Hd Hc Hx Hdc Hq0 s0 Hi Hrun.
  destruct (st_init_start costs q0 ws c ord0 s1 fw Hq0 Hi) as (Hbi & Hw & Hh & Hfw).
  destruct (sys_inv_start a id b d s1 fw Hs Hb Hd Hc Hx Hdc Hbi Hfw)
    as (b' & Hb' & Hd' & Hc' & Hs' & Hinv).
  destruct (sys_run_const fuel _ perms ords 0%nat y' n Hinv Hrun) as (_ & new & Hnew & Hall).
  destruct (sys_run_count fuel (mkSys s1 (forward clean a id fw) id) perms ords 0%nat y' n b' d 0%nat
              Hs' Hb' Hd' Hc' (Nat.le_0_l _) Hrun) as (Hn & Hlen & _).
  cbn [sy_strat] in Hnew, Hall, Hlen. rewrite Hh in Hnew, Hlen. cbn [Datatypes.app List.length] in Hnew, Hlen.
  split; [lia|]. split; [lia|].
  rewrite Hnew. rewrite Hw in Hall. exact Hall.
Qed.

(* ---------------- (T4) with interleaved plain withdrawals ---------------- *)
(* a history of the composition: updates (with their oracles) and plain withdrawals *)
Inductive yop :=
| YUpdate (perm : list nat) (ord : list string)
| YWithdraw (x : R).

Definition ystep (y : sys R) (o : yop) : res (sys R) :=
  match o with
  | YUpdate perm ord => sys_update clean y perm ord
  | YWithdraw x => Ok (mkSys (fst (st_withdraw (sy_strat y) x)) (sy_app y) (sy_id y))
  end.

Fixpoint yrun (y : sys R) (ops : list yop) : res (sys R) :=
  match ops with [] => Ok y | o :: r => bind (ystep y o) (fun y1 => yrun y1 r) end.

(* what one operation pays out: x for a successful plain withdrawal, else nothing *)
Definition ypaid (y : sys R) (o : yop) : R :=
  match o with
  | YUpdate _ _ => 0
  | YWithdraw x => if snd (st_withdraw (sy_strat y) x) then x else 0
  end.

(* total successfully withdrawn over a history *)
Fixpoint ywithdrawn (y : sys R) (ops : list yop) : R :=
  match ops with
  | [] => 0
  | o :: r => ypaid y o + match ystep y o with Ok y1 => ywithdrawn y1 r | _ => 0 end
  end.

(* the values the snapshots of a history must show, starting from worth w: each update shows the
   worth at that moment, each successful withdrawal lowers it by its amount *)
Fixpoint yvalues (y : sys R) (ops : list yop) (w : R) : list R :=
  match ops with
  | [] => []
  | o :: r =>
      match ystep y o with
      | Ok y1 => match o with
                 | YUpdate _ _ => w :: yvalues y1 r w
                 | YWithdraw _ => yvalues y1 r (w - ypaid y o)
                 end
      | _ => []
      end
  end.

Lemma st_withdraw_frame (s : strategy R) x :
  b_holdings (st_brkr (fst (st_withdraw s x))) = b_holdings (st_brkr s) /\
  b_quotes (st_brkr (fst (st_withdraw s x))) = b_quotes (st_brkr s).
Proof.
  unfold st_withdraw, withdraw_cash.
  destruct (b_failed (st_brkr s)); cbn [fst st_brkr]; [split; reflexivity|].
  unfold debit.
  destruct (fltb (b_cash (st_brkr s)) x); cbn [fst st_brkr]; split; reflexivity.
Qed.

(* one step of such a history: invariant kept, worth lowered by exactly what was paid out, and an
   update (only an update) records one snapshot, valued at the worth *)
Lemma ystep_const (y : sys R) o y1 :
  sys_inv y -> ystep y o = Ok y1 ->
  sys_inv y1 /\
  worth price (st_brkr (sy_strat y1)) = worth price (st_brkr (sy_strat y)) - ypaid y o /\
  exists new, st_history (sy_strat y1) = st_history (sy_strat y) ++ new /\
              map (@sn_value R) new =
              match o with YUpdate _ _ => [worth price (st_brkr (sy_strat y))] | YWithdraw _ => [] end.
Proof.
  intros Hinv H. destruct o as [perm ord|x]; cbn [ystep ypaid] in *.
  - destruct (sys_update_const y perm ord y1 Hinv H) as (Hinv1 & Hw & sn & Hh & Hv).
    split; [exact Hinv1|]. split; [rewrite Hw; lra|].
    exists [sn]. split; [exact Hh|]. cbn [map]. rewrite Hv. reflexivity.
  - inversion H; subst y1; clear H. cbn [sy_strat].
    destruct Hinv as (Hs & b & d & k & Hb & Hd & Hc & Hdc & HI & Hqc & Hnd & Hheld & Hbook & Hbuf).
    destruct (st_withdraw_frame (sy_strat y) x) as [Eh Eq].
    split; [|split].
    + split; [exact Hs|]. exists b, d, k. cbn [sy_strat sy_app sy_id]. rewrite Eh, Eq.
      repeat (split; [assumption|]). assumption.
    + apply st_withdraw_worth.
    + exists []. split; [rewrite app_nil_r; apply st_withdraw_history | reflexivity].
Qed.

(* (T4) the analogue of T2 for histories of updates and plain withdrawals *)
Theorem yrun_const : forall ops (y y' : sys R),
  sys_inv y -> yrun y ops = Ok y' ->
  sys_inv y' /\
  worth price (st_brkr (sy_strat y')) = worth price (st_brkr (sy_strat y)) - ywithdrawn y ops /\
  exists new, st_history (sy_strat y') = st_history (sy_strat y) ++ new /\
              map (@sn_value R) new = yvalues y ops (worth price (st_brkr (sy_strat y))).
Proof.
  induction ops as [|o r IH]; intros y y' Hinv H; cbn [yrun ywithdrawn yvalues] in *.
  - inversion H; subst y'. split; [exact Hinv|]. split; [lra|].
    exists []. split; [rewrite app_nil_r; reflexivity | reflexivity].
  - destruct (ystep y o) as [y1|e|] eqn:Hs; cbn [bind] in H; try discriminate.
    destruct (ystep_const y o y1 Hinv Hs) as (Hinv1 & Hw1 & new1 & Hh1 & Hv1).
    destruct (IH y1 y' Hinv1 H) as (Hinv' & Hw & new & Hh & Hv).
    split; [exact Hinv'|]. split; [rewrite Hw, Hw1; lra|].
    exists (new1 ++ new). split; [rewrite Hh, Hh1, <- app_assoc; reflexivity|].
    rewrite map_app, Hv1, Hv, Hw1. destruct o as [perm ord|x]; cbn [ypaid Datatypes.app].
    + rewrite Rminus_0_r. reflexivity.
    + reflexivity.
Qed.

(* every snapshot = the worth at the start - successful plain withdrawals so far *)
Corollary yrun_snapshot (y y1 y2 : sys R) pre perm ord :
  sys_inv y -> yrun y pre = Ok y1 -> sys_update clean y1 perm ord = Ok y2 ->
  exists sn, st_history (sy_strat y2) = st_history (sy_strat y1) ++ [sn] /\
             sn_value sn = worth price (st_brkr (sy_strat y)) - ywithdrawn y pre.
Proof.
  intros Hinv Hpre Hu.
  destruct (yrun_const pre y y1 Hinv Hpre) as (Hinv1 & Hw1 & _).
  destruct (sys_update_const y1 perm ord y2 Hinv1 Hu) as (_ & _ & sn & Hh & Hv).
  exists sn. split; [exact Hh|]. rewrite Hv. exact Hw1.
Qed.

(* from the fresh start of T3: every snapshot = cash deposited - successful plain withdrawals so far *)
Corollary c16_constant_prices_with_withdrawals :
  forall (a : uapp (F:=R)) id b d costs q0 ws c ord0 s1 fw pre y1 perm ord y2,
    SInv a -> nlookup (backtests a) id = Some b -> slookup (datasets a) (bt_dataset b) = Some d ->
    clock_ok d b 0 -> bt_exch b = exch_init -> dataset_const d ->
    quotes_const q0 ->
    let s0 := mkStrategy (broker_init costs q0) ws 0 [] in
    let y0 := mkSys s1 (forward clean a id fw) id in
    st_init clean s0 c ord0 = Ok (s1, fw) ->
    yrun y0 pre = Ok y1 -> sys_update clean y1 perm ord = Ok y2 ->
    exists sn, st_history (sy_strat y2) = st_history (sy_strat y1) ++ [sn] /\
               sn_value sn = c - ywithdrawn y0 pre.
Proof.
  intros a id b d costs q0 ws c ord0 s1 fw pre y1 perm ord y2 Hs Hb Hd Hc Hx Hdc Hq0 s0 y0 Hi Hpre Hu.
  destruct (st_init_start costs q0 ws c ord0 s1 fw Hq0 Hi) as (Hbi & Hw & _ & Hfw).
  destruct (sys_inv_start a id b d s1 fw Hs Hb Hd Hc Hx Hdc Hbi Hfw) as (_ & _ & _ & _ & _ & Hinv).
  destruct (yrun_snapshot y0 y1 y2 pre perm ord Hinv Hpre Hu) as (sn & Hh & Hv).
  exists sn. split; [exact Hh|]. rewrite Hv. unfold y0. cbn [sy_strat]. rewrite Hw. reflexivity.
Qed.

End EndToEnd16.

Print Assumptions sys_update_const.
Print Assumptions sys_run_const.
Print Assumptions c16_constant_prices_end_to_end.
Print Assumptions yrun_const.
Print Assumptions c16_constant_prices_with_withdrawals.
