#!/usr/bin/env python3
"""Regenerates the seeded-changes table of DESIGN.md §8.5 from seeded/*/meta.json."""
import glob
import json
import os
import re

V = os.path.dirname(os.path.dirname(os.path.abspath(__file__)))
rows = ["| seeded change | breaks | confirmed (demo fails with / passes without, suite passes) | caught by | how it is reported |", "|---|---|---|---|---|"]
for f in sorted(glob.glob(os.path.join(V, "seeded", "*", "meta.json"))):
    m = json.load(open(f))
    name = os.path.basename(os.path.dirname(f))
    how = []
    for p, r in m.get("our_checks", {}).items():
        if r["exit"] != 0:
            rep = r.get("replay_summary") or {}
            fl = rep.get("failure") or {}
            w = fl.get("what") if isinstance(fl, dict) else None
            if w:
                how.append("%s: failing input found — %s" % (p, w[:110]))
            else:
                how.append("%s: %s" % (p, "; ".join(l.split("replay=")[1].split("/")[-1] for l in r["violation_lines"])[:120]))
    rows.append("| %s | %s | %s | %s | %s |" % (name, m["property"], "yes" if m.get("confirmed") else "NO",
                                            ", ".join(m.get("caught_by", [])) or "**missed**", "<br>".join(how) or "—"))
s = open(os.path.join(V, "DESIGN.md")).read()
tbl = "\n".join(rows)
if "SEEDED_TABLE" in s:
    s = s.replace("SEEDED_TABLE", "<!-- seeded-table-begin -->\n" + tbl + "\n<!-- seeded-table-end -->")
else:
    s = re.sub(r"<!-- seeded-table-begin -->.*<!-- seeded-table-end -->", "<!-- seeded-table-begin -->\n" + tbl.replace("\\", "\\\\") + "\n<!-- seeded-table-end -->", s, flags=re.S)
open(os.path.join(V, "DESIGN.md"), "w").write(s)
print(tbl)
