(* EndToEndCor.v — C01 end to end for the two concrete services, over datasets built by Penelope::add_quote:
   the premises of Proofs/EndToEnd.v's theorem (rows carry their own date, dates increase, the decision dates a
   fill with its quote) are discharged, so what remains is the loading script's dates not going back and the
   client's politeness. *)
From Coq Require Import ZArith NArith List Bool String Sorted.
From Alator Require Import Model.Num Model.Quirks Model.Exchange Model.Uist Model.Jura Model.Server Model.Tagged
  Model.Penelope Proofs.PenelopeProofs Proofs.EndToEnd.
Import ListNotations.

Section Cor.
Context {F : Type} {NF : Num F}.

Lemma load_dataset_ok (calls : list (F * F * Z * string)) :
  StronglySorted Z.le (map c_date calls) -> dataset_ok (@q_date F) (load calls).
Proof.
  intros Hs. split; [apply load_sorted; exact Hs|].
  intros date row k q Hg Hin. exact (proj1 (load_rows_own_date calls date row k q Hg Hin)).
Qed.

(* every dataset of the server was loaded by a script whose dates never go back *)
Definition loaded_in_order (ds : list (string * dataset (quotes (quote F)))) : Prop :=
  forall name d, In (name, d) ds ->
    exists calls, d = load calls /\ StronglySorted Z.le (map c_date calls).

Lemma loaded_datasets_ok ds : loaded_in_order ds -> datasets_ok (@q_date F) ds.
Proof.
  intros H name d Hin. destruct (H name d Hin) as (calls & -> & Hs). apply load_dataset_ok. exact Hs.
Qed.

(* Uist service *)
Theorem c01_uist_end_to_end :
  forall ds ops s' rs,
    loaded_in_order ds ->
    t_run uist_asset uo_symbol uist_is_sell (uist_decide (F:=F)) clean false (app_create ds) ops = (s', rs) ->
    polite [] (combine ops rs) = true ->
    forall id p hn fl adm trig i t z,
      In (STick id p, RTick (Some (hn, (fl, adm, trig)))) (combine ops rs) ->
      In (i, (t, z)) fl -> (z < t_date t)%Z.
Proof.
  intros ds ops s' rs Hl. apply (c01_end_to_end uist_asset uo_symbol uist_is_sell uist_decide q_date t_date false).
  - apply uist_decide_dates_fills.
  - apply loaded_datasets_ok. exact Hl.
Qed.

(* Jura service *)
Theorem c01_jura_end_to_end :
  forall ds ops s' rs,
    loaded_in_order ds ->
    t_run jo_asset jura_sym jura_is_sell (jura_decide (F:=F) clean) clean true (app_create ds) ops = (s', rs) ->
    polite [] (combine ops rs) = true ->
    forall id p hn fl adm trig i t z,
      In (STick id p, RTick (Some (hn, (fl, adm, trig)))) (combine ops rs) ->
      In (i, (t, z)) fl -> (z < f_time t)%Z.
Proof.
  intros ds ops s' rs Hl.
  apply (c01_end_to_end jo_asset jura_sym jura_is_sell (jura_decide clean) q_date f_time true).
  - apply jura_decide_dates_fills.
  - apply loaded_datasets_ok. exact Hl.
Qed.

End Cor.

(* C16: a dataset loaded with bid = ask = price(symbol) on every call is a constant zero-spread dataset *)
From Coq Require Import Reals.
From Alator Require Import Proofs.EndToEnd16.
Lemma load_dataset_const (price : string -> R) (calls : list (R * R * Z * string)) :
  (forall b a d s, In (b, a, d, s) calls -> a = price s /\ b = price s) ->
  dataset_const price (load calls).
Proof.
  intros Hc date row Hg k q Hin.
  pose proof (load_row_member_shown calls date row k q Hg Hin) as Hs.
  rewrite load_shows_last_call in Hs.
  clear Hg Hin. induction calls as [|c calls IH]; cbn [last_call] in Hs; [discriminate|].
  destruct (last_call calls date k) as [q'|] eqn:El.
  - injection Hs as ->. apply IH; [|reflexivity]. intros b a d s Hi. apply (Hc b a d s). right. exact Hi.
  - destruct (Z.eqb date (c_date c) && String.eqb k (c_sym c)) eqn:E; [|discriminate].
    injection Hs as <-. destruct c as [[[b a] d] s]. apply andb_true_iff in E. destruct E as [_ E].
    apply String.eqb_eq in E. cbn [c_sym snd] in E. subst s. cbn [c_quote q_ask q_bid].
    apply (Hc b a d k). left. reflexivity.
Qed.
