"""C20 — the JSON server is a faithful transport. Theorems: Props/C20.v (handler layer + JSON-tree round trips).
Correspondence, three ways: (1) every scenario is run in-process and through the actix handlers with real JSON
bodies and the two runs compared (structure exact, floats to 1e-12 relative, 400 exactly at None); (2) the HTTP
runs are compared step by step with the server model; (3) every JSON body serde produced or accepted is compared,
as a tree, with the model's encoders/decoders (field names, tagging, nulls, numbers)."""
import copy
import random

from common import *
import exch
import server

IMPORTS = ("From Alator Require Import Model.Num Model.Quirks Model.Exchange Model.Uist Model.Jura Model.Server "
           "Model.Json Check.Eqb Check.ExchCheck Check.ServerCheck Check.JsonCheck.")
C20_FLAGS = ["q_jura_http_drops_triggered", "q_init_no_bump", "q_jura_pos_stuck", "q_jura_sell_triggers_inverted"]


def g_json(x):
    if x is None:
        return "JNull"
    if isinstance(x, bool):
        return gc("JBool", gb(x))
    if isinstance(x, int):
        return gc("JInt", gz(x))
    if isinstance(x, float):
        return gc("JNum", gf(f2b(x)))
    if isinstance(x, str):
        return gc("JStr", gs(x))
    if isinstance(x, list):
        return gc("JArr", gl([g_json(v) for v in x]))
    if isinstance(x, dict):
        return gc("JObj", gl([gt(gs(k), g_json(v)) for k, v in x.items()]))
    raise ValueError(x)


def g_jwire(o):
    return gc("mkJWire", gn(o["asset"]), gb(o["is_buy"]), gs(o["limit_px"]), gs(o["sz"]), gb(o["reduce_only"]),
              go(o["cloid"], gs), exch.g_jtype(o["order_type"]))


def g_fwire(f):
    return gc("mkFWire", gs(f["coin"]), gn(f["oid"]), gs(f["px_str"]), gs(f["side"]), gs(f["sz_str"]), gz(f["time"]))


def json_cases(sc, tr_http, tr_direct):
    """-> list of (description, jcase term)"""
    out = []
    kind = sc["kind"]
    for k, r in enumerate(tr_http["results"]):
        if "panic" in r:
            break
        op = sc["ops"][k]
        o = op["op"]
        if r.get("req_text"):
            raw = json.loads(r["req_text"])
            if o == "insert":
                if kind == "uist":
                    oo = op["order"]
                    out.append(((k, "insert-request"), gc("CUInsert", gt(go(oo.get("order_id"), gn), exch.g_uorder(oo)), g_json(raw))))
                else:
                    pb = server.find_bt(tr_http["snaps"][k + 1], op["id"])
                    if pb and "some" in r and pb["exch"]["buffer"]:
                        out.append(((k, "insert-request"), gc("CJInsert", g_jwire(pb["exch"]["buffer"][-1]), g_json(raw))))
                        if r.get("ser_text"):
                            # … and the crate's own serialisation of that order (request bodies of orders given as JSON
                            # are the scenario's JSON, so Serialize is read here)
                            out.append(((k, "insert-request-serialised"),
                                        gc("CJInsert", g_jwire(pb["exch"]["buffer"][-1]), g_json(json.loads(r["ser_text"])))))
            elif o == "delete":
                if kind == "uist":
                    out.append(((k, "delete-request"), gc("CUDelete", gn(op["order_id"]), g_json(raw))))
                else:
                    out.append(((k, "delete-request"), gc("CJDelete", gt(gn(op["asset"]), gn(op["order_id"])), g_json(raw))))
        if "some" not in r or "text" not in r:
            continue
        raw = json.loads(r["text"])
        v = r["some"]
        if o == "tick":
            if kind == "uist":
                term = gt(gb(v["has_next"]), gt(gl([exch.g_trade(t) for t in v["trades"]]),
                          gl([gt(gn(x["id"] if x["id"] is not None else 2 ** 64), exch.g_uorder(x)) for x in v["admitted"]])))
                out.append(((k, "tick-response"), gc("CUTick", term, g_json(raw))))
            else:
                rd = tr_direct["results"][k] if k < len(tr_direct["results"]) else {}
                trig = (rd.get("some") or {}).get("triggered") or []
                term = gt(gb(v["has_next"]), gt(gl([g_fwire(f) for f in v["fills"]]),
                                                gl([g_jwire(x) for x in v["admitted"]]), gl([gn(i) for i in trig])))
                out.append(((k, "tick-response"), gc("CJTick", term, g_json(raw))))
        elif o == "fetch":
            out.append(((k, "fetch-response"), gc("CURow", server.g_row(v), g_json(raw))))
        elif o == "init":
            out.append(((k, "init-response"), gc("CInit", gn(v), g_json(raw))))
        elif o == "info":
            out.append(((k, "info-response"), gc("CInfo", gs(v["dataset"]), g_json(raw))))
        elif o == "now":
            out.append(((k, "now-response"), gc("CNow", gt(gz(v["now"]), gb(v["has_next"])), g_json(raw))))
        elif o in ("insert", "delete"):
            out.append(((k, "unit-response"), gc("CUnit", g_json(raw))))
    return out


def run(res, tier, seed, replay):
    ob = obligations_or_violation(res, ["C20"])
    wd = workdir("C20")
    rng = random.Random(seed + 19)
    n = tier_size(tier, 40, 800)
    if replay and json.load(open(replay)).get("component") == "server":
        base = [json.load(open(replay))["scenario"]]
    else:
        base = [s for s in load_corpus("C20") if "datasets" in s]
        for i in range(n):
            for kind in ("uist", "jura"):
                base.append(server.gen_server_scenario(rng, kind, weird=(i % 5 == 4), run_to_end=(i % 3 == 0)))
    direct = [dict(copy.deepcopy(s), mode="direct") for s in base]
    http = [dict(copy.deepcopy(s), mode="http") for s in base]
    trs_d = run_harness_sharded("server", direct, wd)
    trs_h, defs, terms, steps = server.run_servers(wd, http)
    # (3) JSON trees
    jcases, jwhere = [], []
    for i, (sc, th, td) in enumerate(zip(http, trs_h, trs_d)):
        for desc, term in json_cases(sc, th, td):
            jcases.append(term)
            jwhere.append((i, desc))
    amask = server.SPROJ["C20"]
    cache = {}
    srv_eval = server.make_eval(wd, http, defs, terms,
                                lambda mism: [(sc, st, server.smask_names(m & amask)) for sc, st, m in mism if m & amask])

    def eval_fn(val):
        val = frozenset(val)
        if val not in cache:
            m = list(srv_eval(val))
            bad = eval_cases(wd, "json_%d" % len(cache), IMPORTS, jcases, "(fun c => N.eqb (jcase_mask %s c) 0)" % g_quirks(val))
            m += [(jwhere[i][0], jwhere[i][1][0], ["json-tree:" + jwhere[i][1][1]]) for i in bad]
            cache[val] = m
        return cache[val]
    pairs = {}

    def oracle(sc, st):
        i = pairs.get(id(sc))
        if i is None:
            d = dict(copy.deepcopy(sc), mode="direct")
            h = dict(copy.deepcopy(sc), mode="http")
            td, th = run_harness("server", [d, h], wd, tag="w")
            return server.oracle_c20(d, td, th)
        return server.oracle_c20(direct[i], trs_d[i], trs_h[i])
    for i, sc in enumerate(http):
        pairs[id(sc)] = i

    def run_witness(sc):
        return None
    slice_verdict(res, "C20", eval_fn=eval_fn, relevant=C20_FLAGS, scenarios=http, traces_steps=steps,
                  oracle=oracle, run_witness=run_witness, component="server",
                  theorem_hint="Props/C20.v (theorems about Model/Json.v and the handler layer)")
    # (1) the direct reading itself, on every scenario of every run
    failures = [(i, f) for i in range(len(http)) for f in [server.oracle_c20(direct[i], trs_d[i], trs_h[i])] if f]
    opens = [o["flag"] for o in known_findings()[0] if o["property"] == "C20"]
    if failures and not res.violations:
        i, f = failures[0]
        known = "q_jura_http_drops_triggered" in opens and "no field carrying them" in f.get("what", "")
        if not known:
            res.violation(dict(kind="property-fails-on-implementation", component="server", failure=f,
                               scenario=http[i]), "direct")
    keys = set()
    n_steps = 0
    for sc, st in zip(http, steps):
        n_steps += len(st)
        for s in st:
            keys.add((sc["kind"], s["op"]["op"], "400" if (not s["some"] and not s["panic"]) else "200"))
    kinds = {}
    for _, d in jwhere:
        kinds[d[1]] = kinds.get(d[1], 0) + 1
    res.coverage.update(
        evaluations=n_steps + len(jcases), distinct_nontrivial=len(keys) + len(kinds),
        rule="seeded request sequences over both services (init / fetch_quotes / insert_order / delete_order / "
             "tick / info / now; unknown ids and datasets; all order variants incl. all eight Jura constructors and "
             "deserialised orders) executed twice — in-process and through actix_web::test with real JSON bodies — "
             "and compared (structure exact, floats 1e-12, 400 exactly at None); the HTTP run compared step by step "
             "with the server model; every JSON body compared as a tree with the model's encoders/decoders. "
             "distinct_nontrivial = distinct (service, request, status) + distinct JSON message kinds",
        samples=[dict(kind=http[0]["kind"], ops=http[0]["ops"][:6])],
        traces_validated_against_impl=len(http), json_trees_checked=len(jcases), json_kinds=kinds,
        direct_vs_http_failures=len(failures))
    # (4) the Jura service's own reqwest client over real HTTP, in lockstep with the model (driver/server.py)
    if not replay or json.load(open(replay)).get("component") == "jura-client":
        jc = server.run_jclient_lockstep(res, "C20", tier, seed, wd, replay=replay)
        res.coverage.update(jc)
        res.coverage["evaluations"] += jc["jclient_lockstep_requests"]
    res.assumptions += ["serde_json's text layer (number printing/parsing) and actix routing/extractors are exercised, not modelled",
                        "Mutex atomicity of handlers is read off the code"]
    return ob
