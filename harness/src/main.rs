//! verif-harness <component> <scenarios.json> <traces.json>
//! Runs every scenario of the input file against the real crates and writes one trace per
//! scenario. Nothing is written to stdout (JuraV1::tick prints its book there).
mod client;
mod comp_broker;
mod comp_cost;
mod comp_exch;
mod comp_perf;
mod comp_sched;
mod comp_server;
mod comp_strategy;
mod util;

use serde_json::Value;
use std::fs;

fn main() {
    let args: Vec<String> = std::env::args().collect();
    if args.len() != 4 {
        eprintln!("usage: verif-harness <component> <in.json> <out.json>");
        std::process::exit(2);
    }
    if std::env::var("VERIF_HARNESS_TRACE").is_err() {
        std::panic::set_hook(Box::new(|_| {}));
    }
    let comp = args[1].as_str();
    let input: Value = serde_json::from_str(&fs::read_to_string(&args[2]).expect("read input"))
        .expect("parse input");
    let scenarios = input.as_array().expect("array of scenarios");
    let mut out = Vec::with_capacity(scenarios.len());
    for sc in scenarios {
        let r = util::catch(|| match comp {
            "cost" => comp_cost::run(sc),
            "sched" => comp_sched::run(sc),
            "exch" => comp_exch::run(sc),
            "server" => comp_server::run(sc),
            "broker" => comp_broker::run(sc),
            "perf" => comp_perf::run(sc),
            "strategy" => comp_strategy::run(sc),
            _ => panic!("unknown component {comp}"),
        });
        out.push(match r {
            Ok(v) => v,
            Err(m) => util::panic_json(&m),
        });
    }
    fs::write(&args[3], serde_json::to_string(&Value::Array(out)).unwrap()).expect("write");
}
