(* ====================================================================== *)
(*  Proofs/SortExchange.v                                                   *)
(*                                                                          *)
(*  Connects the model of `slice::sort_by` (Model/Sort.v, Proofs/SortProofs)*)
(*  to the exchange skeleton (Model/Exchange.v), in which the sort of the   *)
(*  order buffer is an oracle argument [perm : list nat].                   *)
(* ====================================================================== *)

From Coq Require Import List NArith ZArith Bool Lia Permutation Arith.
From Coq Require String.
From Alator Require Import Model.Sort Proofs.SortProofs.
From Alator Require Import Model.Exchange Model.ExchangeStd.
Import ListNotations.

(* ---------------------------------------------------------------------- *)
(*  (S1)  index permutations                                              *)
(* ---------------------------------------------------------------------- *)

Lemma nth_opt_nth_error {A} (l : list A) n : nth_opt l n = nth_error l n.
Proof.
  revert n. induction l as [|a l IH]; intros [|n]; simpl; auto.
Qed.

Lemma mem_nat_In n l : mem_nat n l = true <-> In n l.
Proof.
  induction l as [|m l IH]; simpl.
  - split; [discriminate | tauto].
  - rewrite orb_true_iff, IH, Nat.eqb_eq. split; intros [H|H]; auto.
Qed.

Lemma nodup_nat_NoDup l : nodup_nat l = true <-> NoDup l.
Proof.
  induction l as [|n l IH]; simpl.
  - split; [constructor | reflexivity].
  - rewrite andb_true_iff, negb_true_iff, IH. split.
    + intros [Hn Hl]. constructor; [|exact Hl].
      intros Hin. apply mem_nat_In in Hin. congruence.
    + intros H. inversion H as [|? ? Hn Hl]; subst. split; [|exact Hl].
      destruct (mem_nat n l) eqn:E; [|reflexivity]. apply mem_nat_In in E. contradiction.
Qed.

Definition valid_perm_P (n : nat) (p : list nat) : Prop :=
  length p = n /\ Forall (fun i => i < n) p /\ NoDup p.

Lemma valid_perm_spec n p : valid_perm n p = true <-> valid_perm_P n p.
Proof.
  unfold valid_perm, valid_perm_P.
  rewrite !andb_true_iff, Nat.eqb_eq, nodup_nat_NoDup, forallb_forall, Forall_forall.
  split.
  - intros [[H1 H2] H3]. split; [exact H1|]. split; [|exact H3].
    intros i Hi. apply Nat.ltb_lt. apply H2. exact Hi.
  - intros [H1 [H2 H3]]. split; [split|]; [exact H1| |exact H3].
    intros i Hi. apply Nat.ltb_lt. apply H2. exact Hi.
Qed.

(* [pick] on in-range indices is a [map] *)
Lemma pick_map {A} (l : list A) (d : A) p :
  Forall (fun i => i < length l) p -> pick l p = Some (map (fun i => nth i l d) p).
Proof.
  induction p as [|i p IH]; intros H; simpl; [reflexivity|].
  inversion H as [|? ? Hi Hp]; subst.
  rewrite (IH Hp). rewrite nth_opt_nth_error.
  rewrite (nth_error_nth' l d Hi). reflexivity.
Qed.

Lemma apply_perm_map {A} (l : list A) (d : A) p :
  valid_perm_P (length l) p -> apply_perm l p = Some (map (fun i => nth i l d) p).
Proof.
  intros H. unfold apply_perm. rewrite (proj2 (valid_perm_spec _ _) H).
  apply pick_map. apply H.
Qed.

Lemma map_nth_seq {A} (l : list A) (d : A) :
  map (fun i => nth i l d) (seq 0 (length l)) = l.
Proof.
  induction l as [|a l IH]; simpl; [reflexivity|].
  f_equal. rewrite <- seq_shift, map_map. exact IH.
Qed.

Lemma NoDup_map_inj_on {B C} (f : B -> C) (l : list B) :
  NoDup l -> (forall x y, In x l -> In y l -> f x = f y -> x = y) -> NoDup (map f l).
Proof.
  induction l as [|a l IH]; intros Hnd Hinj; simpl; [constructor|].
  inversion Hnd as [|? ? Ha Hl]; subst. constructor.
  - intros Hin. apply in_map_iff in Hin as (y & Hy & Hyl).
    assert (y = a) by (apply Hinj; simpl; auto). subst y. contradiction.
  - apply IH; [exact Hl|]. intros x y Hx Hy. apply Hinj; simpl; auto.
Qed.

(* lifting under a common head *)
Lemma valid_perm_skip n p : valid_perm_P n p -> valid_perm_P (S n) (0 :: map S p).
Proof.
  intros (H1 & H2 & H3). split; [|split].
  - simpl. rewrite map_length. lia.
  - constructor; [lia|]. apply Forall_forall. intros i Hi.
    apply in_map_iff in Hi as (j & <- & Hj). rewrite Forall_forall in H2. specialize (H2 j Hj). lia.
  - constructor.
    + intros Hin. apply in_map_iff in Hin as (j & Hj & _). discriminate.
    + apply NoDup_map_inj_on; [exact H3|]. intros x y _ _ E. injection E. auto.
Qed.

(* composition: q = p2 o p1 *)
Lemma valid_perm_compose n p1 p2 :
  valid_perm_P n p1 -> valid_perm_P n p2 ->
  valid_perm_P n (map (fun i => nth i p2 0) p1).
Proof.
  intros (L1 & F1 & N1) (L2 & F2 & N2). split; [|split].
  - rewrite map_length. exact L1.
  - apply Forall_forall. intros k Hk. apply in_map_iff in Hk as (i & <- & Hi).
    rewrite Forall_forall in F1, F2. apply F2. apply nth_In. rewrite L2. apply F1. exact Hi.
  - apply NoDup_map_inj_on; [exact N1|]. intros x y Hx Hy E.
    rewrite Forall_forall in F1.
    apply (proj1 (NoDup_nth p2 0) N2); rewrite ?L2; auto.
Qed.

Lemma perm_of_permutation_valid {A} (d : A) (l l' : list A) :
  Permutation l' l ->
  exists p, valid_perm_P (length l) p /\ l' = map (fun i => nth i l d) p.
Proof.
  induction 1 as [|x l1' l1 HP IH|x y l0|l1 l2 l3 HP12 IH12 HP23 IH23].
  - exists []. split; [|reflexivity]. split; [reflexivity|]. split; constructor.
  - destruct IH as (p & Hv & ->). exists (0 :: map S p). split.
    + apply valid_perm_skip. exact Hv.
    + simpl. rewrite map_map. reflexivity.
  - exists (1 :: 0 :: map (fun i => S (S i)) (seq 0 (length l0))). split.
    + split; [|split].
      * simpl. rewrite map_length, seq_length. reflexivity.
      * simpl. constructor; [lia|]. constructor; [lia|]. apply Forall_forall. intros i Hi.
        apply in_map_iff in Hi as (j & <- & Hj). apply in_seq in Hj. lia.
      * constructor.
        { intros [E|Hin]; [discriminate|]. apply in_map_iff in Hin as (j & Hj & _). discriminate. }
        constructor.
        { intros Hin. apply in_map_iff in Hin as (j & Hj & _). discriminate. }
        apply NoDup_map_inj_on; [apply seq_NoDup|]. intros a b _ _ E. injection E. auto.
    + simpl. rewrite map_map. simpl. rewrite map_nth_seq. reflexivity.
  - destruct IH12 as (p1 & Hv1 & E1). destruct IH23 as (p2 & Hv2 & E2).
    assert (L23 : length l2 = length l3) by (apply Permutation_length; exact HP23).
    rewrite L23 in Hv1.
    exists (map (fun i => nth i p2 0) p1). split.
    + apply valid_perm_compose; assumption.
    + rewrite E1, map_map. apply map_ext_in. intros i Hi.
      destruct Hv1 as (_ & F1 & _). rewrite Forall_forall in F1. specialize (F1 i Hi).
      destruct Hv2 as (Lp2 & _ & _).
      rewrite E2.
      rewrite (nth_indep _ d (nth 0 l3 d)) by (rewrite map_length; lia).
      rewrite (map_nth (fun i0 => nth i0 l3 d) p2 0 i). reflexivity.
Qed.

(* (S1) *)
Lemma perm_of_permutation {A} (l l' : list A) :
  Permutation l' l -> exists p, apply_perm l p = Some l'.
Proof.
  intros HP. destruct l as [|d l0].
  - apply Permutation_sym, Permutation_nil in HP. subst l'. exists []. reflexivity.
  - destruct (@perm_of_permutation_valid A d (d :: l0) l' HP) as (p & Hv & ->).
    exists p. apply apply_perm_map. exact Hv.
Qed.

(* ---------------------------------------------------------------------- *)
(*  (S2)  the two "sells first" notions agree                             *)
(* ---------------------------------------------------------------------- *)

Lemma all_buys_sells_first {Ord} (is_sell : Ord -> bool) r :
  forallb (fun o => negb (is_sell o)) r = true -> Exchange.sells_first is_sell r = true.
Proof.
  induction r as [|o r IH]; simpl; [reflexivity|]. intros H.
  apply andb_prop in H as [_ H]. rewrite H, orb_true_r. simpl. apply IH. exact H.
Qed.

Lemma sells_first_agree {Ord} (is_sell : Ord -> bool) r :
  Exchange.sells_first is_sell r = true <-> SortProofs.sells_first_b is_sell r = true.
Proof.
  induction r as [|o r IH]; simpl; [tauto|].
  destruct (is_sell o); simpl.
  - exact IH.
  - rewrite andb_true_iff. split.
    + intros [H _]. exact H.
    + intros H. split; [exact H | apply all_buys_sells_first; exact H].
Qed.

Lemma sells_first_agree_prop {Ord} (is_sell : Ord -> bool) r :
  Exchange.sells_first is_sell r = true <-> SortProofs.sells_first is_sell r.
Proof. rewrite sells_first_agree. apply sells_first_b_spec. Qed.

(* ---------------------------------------------------------------------- *)
(*  (S3)  the oracle-free machine                                         *)
(* ---------------------------------------------------------------------- *)

Section OracleFree.

Context {Ord Qt T : Type}.
Context (asset_of : Ord -> N) (sym_of : Ord -> String.string) (is_sell : Ord -> bool).
Context (decide : entry Ord -> Qt -> action Ord T).

Notation tick := (tick asset_of sym_of is_sell decide).
Notation step := (step asset_of sym_of is_sell decide).
Notation run := (Exchange.run asset_of sym_of is_sell decide).
Notation walk := (walk asset_of sym_of decide).
Notation tick_sorted := (tick_sorted asset_of sym_of is_sell decide).
Notation tick_std := (tick_std asset_of sym_of is_sell decide).
Notation step_std := (step_std asset_of sym_of is_sell decide).
Notation run_std := (run_std asset_of sym_of is_sell decide).
Notation erase := (@erase Ord Qt).
Notation op_std := (op_std Ord Qt).


Lemma tick_of_sorted s qs perm sorted :
  apply_perm (buffer s) perm = Some sorted -> tick s qs perm = tick_sorted s qs sorted.
Proof.
  intros E. unfold Exchange.tick, tick_sorted.
  destruct (walk qs (book s)) as [[[[bk fl] dl] ins]|]; [|reflexivity].
  rewrite E. reflexivity.
Qed.


Theorem tick_std_refines (sz : N) :
  (0 < sz)%N -> forall s qs, exists perm, tick s qs perm = tick_std sz s qs.
Proof.
  intros Hsz s qs.
  destruct (@std_sort_by_good Ord is_sell sz (buffer s) Hsz) as (r & E & P & _).
  destruct (@perm_of_permutation Ord (buffer s) r P) as (perm & Hperm).
  exists perm. unfold tick_std. rewrite E. apply tick_of_sorted. exact Hperm.
Qed.

Theorem tick_std_no_bad_oracle (sz : N) :
  (0 < sz)%N -> forall s qs, snd (tick_std sz s qs) <> OutBadOracle.
Proof.
  intros Hsz s qs.
  destruct (@std_sort_by_good Ord is_sell sz (buffer s) Hsz) as (r & E & _ & S).
  unfold tick_std. rewrite E. unfold tick_sorted.
  apply SF_b, sells_first_agree in S. rewrite S.
  destruct (walk qs (book s)) as [[[[bk fl] dl] ins]|]; simpl; discriminate.
Qed.





Theorem step_std_refines (sz : N) :
  (0 < sz)%N -> forall s o_std, exists o, erase o = o_std /\ step s o = step_std sz s o_std.
Proof.
  intros Hsz s [x|k|qs].
  - exists (Insert x). split; reflexivity.
  - exists (Delete k). split; reflexivity.
  - destruct (tick_std_refines sz Hsz s qs) as (perm & E).
    exists (Tick qs perm). split; [reflexivity | exact E].
Qed.

(* every run of the oracle-free machine is a run of the oracle machine with suitable oracles *)
Theorem run_std_refines (sz : N) :
  (0 < sz)%N -> forall ops_std s,
    exists ops, map erase ops = ops_std /\ run s ops = run_std sz s ops_std.
Proof.
  intros Hsz. induction ops_std as [|o_std r IH]; intros s.
  - exists []. split; reflexivity.
  - destruct (step_std_refines sz Hsz s o_std) as (o & Eo & Es).
    destruct (step_std sz s o_std) as [s' x] eqn:Est.
    destruct (IH s') as (ops & Eops & Erun).
    exists (o :: ops). split.
    + simpl. rewrite Eo, Eops. reflexivity.
    + simpl. rewrite Es, Est, Erun. reflexivity.
Qed.

Theorem run_std_no_bad_oracle (sz : N) :
  (0 < sz)%N -> forall ops_std s, ~ In OutBadOracle (snd (run_std sz s ops_std)).
Proof.
  intros Hsz. induction ops_std as [|o r IH]; intros s; simpl; [tauto|].
  destruct (step_std sz s o) as [s' x] eqn:Est.
  specialize (IH s'). destruct (run_std sz s' r) as [s'' xs]. simpl in *.
  intros [E|Hin]; [|exact (IH Hin)]. subst x.
  destruct o as [y|k|qs]; simpl in Est; try (injection Est as _ E; discriminate).
  pose proof (tick_std_no_bad_oracle sz Hsz s qs) as H. rewrite Est in H. apply H. reflexivity.
Qed.

(* the exact admission order for batches of at most 20 orders (insertion-sort path):
   the sells in REVERSE insertion order, then the buys in insertion order *)
Theorem tick_std_admits_le20 (sz : N) s qs bk fl dl ins :
  (0 < sz)%N -> (List.length (buffer s) <= 20)%nat ->
  walk qs (book s) = Some (bk, fl, dl, ins) ->
  snd (tick_std sz s qs) =
  OutTick fl
          (number (next_id s + N.of_nat (List.length ins))%N
                  (rev (filter is_sell (buffer s))
                       ++ filter (fun o => negb (is_sell o)) (buffer s)))
          (map fst (number (next_id s) ins)).
Proof.
  intros Hsz Hl Hw. unfold tick_std.
  rewrite (@T0_closed_form_le20 Ord is_sell sz (buffer s) Hsz Hl).
  unfold tick_sorted. rewrite Hw.
  destruct (@closed_form_good Ord is_sell (buffer s)) as (r & E & _ & S).
  injection E as <-. apply SF_b, sells_first_agree in S.
  change (nkey is_sell) with (fun o => negb (is_sell o)) in S. rewrite S. reflexivity.
Qed.

End OracleFree.

Print Assumptions perm_of_permutation.
Print Assumptions sells_first_agree.
Print Assumptions tick_of_sorted.
Print Assumptions tick_std_refines.
Print Assumptions tick_std_no_bad_oracle.
Print Assumptions run_std_refines.
Print Assumptions run_std_no_bad_oracle.
Print Assumptions tick_std_admits_le20.
