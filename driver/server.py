"""Server slice (AppState of http/uist.rs and http/jura.rs, direct and through the actix handlers):
generators, trace -> Gallina, step-wise correspondence, direct readings of C07 / C08 / C01 (server
part) / C20."""
import copy
import random

from common import *
import exch

IMPORTS = ("From Alator Require Import Model.Num Model.Quirks Model.Exchange Model.Uist Model.Jura Model.Server "
           "Check.Eqb Check.ExchCheck Check.ServerCheck.")

SASPECTS = {0: "kind", 1: "has_next", 2: "tick_out", 3: "fetch", 4: "id", 5: "now", 6: "info", 7: "clock",
            8: "exch", 9: "others", 10: "last", 11: "keys", 12: "dataset_dates", 13: "dataset_rows",
            14: "dataset_has_next"}
P_DATES, P_ROWS, P_HASNEXT = 1 << 12, 1 << 13, 1 << 14
P_ALL = P_DATES | P_ROWS | P_HASNEXT
S_KIND, S_HASNEXT, S_OUT, S_FETCH, S_ID, S_NOW, S_INFO, S_CLOCK, S_EXCH, S_OTHERS, S_LAST, S_KEYS = [1 << i for i in range(12)]
SERVER_FLAGS = ["q_init_no_bump", "q_jura_pos_stuck", "q_jura_sell_triggers_inverted"]


def smask_names(m):
    return [n for b, n in SASPECTS.items() if m & (1 << b)]


# ------------------------------------------------------------------------------------------------
# generators


def gen_dataset(rng, name, kind, n_dates=None, weird=False, dyadic=True, allow_raw=True):
    syms = exch.SYMS if kind == "uist" else [str(a) for a in exch.ASSETS]
    n = n_dates if n_dates is not None else rng.choice([1, 1, 2, 2, 3, 4, 5, 8])
    date = rng.choice([100, 1000, 1633021200])
    quotes = []
    for _ in range(n):
        present = [s for s in syms if rng.random() > 0.25] or [syms[0]]
        for s in present:
            bid = rng.choice(exch.GRID)
            ask = bid + rng.choice([0.0, 0.5, 1.0])
            quotes.append([f2b(bid), f2b(ask), date, s])
        date += rng.choice([1, 1, 2, 86400])
    style = rng.choice(["date_major", "date_major", "symbol_major", "interleaved", "late_correction"])
    if style == "symbol_major":
        # loaded one symbol at a time: every date after the first symbol's is met again, out of order
        quotes = sorted(quotes, key=lambda q: (syms.index(q[3]), q[2]))
        if quotes and {q[2] for q in quotes if q[3] == quotes[0][3]} != {q[2] for q in quotes}:
            # keep first-appearance order of the dates increasing: give the first symbol a quote on every date
            have = {q[2] for q in quotes if q[3] == quotes[0][3]}
            extra = [[f2b(rng.choice(exch.GRID)), f2b(rng.choice(exch.GRID) + 1.0), d, quotes[0][3]]
                     for d in sorted({q[2] for q in quotes} - have)]
            quotes = sorted([q for q in quotes if q[3] == quotes[0][3]] + extra, key=lambda q: q[2]) + \
                [q for q in quotes if q[3] != quotes[0][3]]
    elif style == "interleaved" and len(quotes) > 2:
        # dates in order, but each date's quotes for the second half of the symbols come after the next date's first half
        first = [q for q in quotes if syms.index(q[3]) < (len(syms) + 1) // 2]
        second = [q for q in quotes if syms.index(q[3]) >= (len(syms) + 1) // 2]
        ds_ = sorted({q[2] for q in quotes})
        if {q[2] for q in first} == set(ds_):
            quotes = first + second
    elif style == "late_correction" and quotes:
        # a corrected quote for an earlier (date, symbol) arrives last: add_quote overwrites, date list unchanged
        q = list(rng.choice(quotes))
        q[0] = f2b(b2f(q[0]) + 1)
        q[1] = f2b(b2f(q[1]) + 1)
        quotes.append(q)
    if weird and quotes:
        # re-quote an earlier (date, symbol): add_quote overwrites; and an out-of-order date
        q = list(rng.choice(quotes))
        q[0] = f2b(b2f(q[0]) + 1)
        quotes.append(q)
        if rng.random() < 0.5:
            quotes.append([f2b(95.0), f2b(96.0), quotes[0][2] - 5, syms[0]])
    dates = []
    for q in quotes:
        if q[2] not in dates:
            dates.append(q[2])
    if allow_raw and not weird and style == "date_major" and len(dates) >= 2 and rng.random() < 0.3:
        # the dataset arrives as JSON instead of through add_quote (Penelope derives Deserialize): date list and rows
        # are separate fields, and one listed date has no row (a holiday in the feed). The clock still has to walk
        # every listed date; on that date nothing is matched and nothing is shown.
        hole = rng.choice(dates)
        rows = [[d, [q for q in quotes if q[2] == d]] for d in dates if d != hole]
        return dict(name=name, quotes=[], style="json_with_hole", raw=dict(dates=dates, rows=rows))
    return dict(name=name, quotes=quotes, style=style)


def gen_server_scenario(rng, kind, mode="direct", weird=False, multi=True, n_ops=None, malformed=False,
                        run_to_end=False):
    names = ["A", "B", "C"][:rng.choice([1, 2, 3]) if multi else 1]
    if len(names) >= 2 and rng.random() < 0.35:
        # dataset names are arbitrary strings: a pair symbol, a space, a literal percent or plus sign (over HTTP the name
        # travels as one percent-encoded path segment)
        names = names[:-1] + [rng.choice(["BTC/USDT", "my data", "50%", "a+b", "x%2Fy"])]
    dss = [gen_dataset(rng, nm, kind, weird=weird and rng.random() < 0.5) for nm in names]
    start = rng.choice(["create", "single:A"])
    ops = []
    ids = [0] if start.startswith("single") else []
    last = 1 if start.startswith("single") else 0
    inserted = {i: 0 for i in ids}
    if start == "create" or rng.random() < 0.6:
        nm = rng.choice(names)
        ops.append(dict(op=rng.choice(["init", "new"]), name=nm))
        last += 1
        ids.append(last)
        inserted[last] = 0
    n_ops = n_ops or rng.randint(8, 36)
    for _ in range(n_ops):
        r = rng.random()
        bid = rng.choice(ids) if (ids and rng.random() < 0.9) else rng.choice([last + 1, 77, 0])
        if r < 0.38:
            ops.append(dict(op="tick", id=bid))
        elif r < 0.48:
            ops.append(dict(op="fetch", id=bid))
        elif r < 0.56 and kind == "uist":
            ops.append(dict(op="now", id=bid))
        elif r < 0.78:
            o = exch.gen_uist_order(rng, malformed) if kind == "uist" else exch.gen_jura_order(rng, malformed)
            if kind == "jura" and "ctor" in o and mode == "http":
                pass
            ops.append(dict(op="insert", id=bid, order=o))
            inserted[bid] = inserted.get(bid, 0) + 1
        elif r < 0.84:
            oid = rng.randrange(inserted.get(bid, 0) + 2)
            d = dict(op="delete", id=bid, order_id=oid)
            if kind == "jura":
                d["asset"] = rng.choice(exch.ASSETS)
            ops.append(d)
        elif r < 0.94 and multi:
            nm = rng.choice(names + (["ZZ"] if rng.random() < 0.25 else []))
            opn = rng.choice(["init", "new"]) if mode == "direct" else "init"
            ops.append(dict(op=opn, name=nm))
            if nm != "ZZ":
                last += 1
                ids.append(last)
                inserted[last] = 0
        else:
            ops.append(dict(op="info", id=bid))
    if run_to_end and ids:
        for _ in range(10):
            ops.append(dict(op="tick", id=ids[-1]))
            ops.append(dict(op="fetch", id=ids[-1]))
    return dict(kind=kind, mode=mode, datasets=dss, start=start, ops=ops)


# ------------------------------------------------------------------------------------------------
# trace -> Gallina


def g_row(row):
    return gl([exch.g_quote(q) for q in row])


def g_dataset(dump):
    return gc("mkDataset", gl([gz(d) for d in dump["dates"]]),
              gl([gt(gz(r["date"]), g_row(r["row"])) for r in dump["rows"]]))


def g_pstep(d_sc, dump):
    calls = gl([gt(gf(q[0]), gf(q[1]), gz(q[2]), gs(q[3])) for q in d_sc["quotes"]])
    return gc("mkPStep", calls, g_dataset(dump), gb(dump["has_next_at_len"]), gb(dump["has_next_before_len"]))


def dataset_terms(sc, tr):
    dumps = {d["name"]: d["dump"] for d in tr["datasets"]}
    return [g_pstep(d, dumps[d["name"]]) for d in sc["datasets"] if d["name"] in dumps and "raw" not in d]


def g_app(kind, snap, ds_name):
    gsnap = exch.g_usnap if kind == "uist" else exch.g_jsnap
    bts = gl([gt(gn(b["key"]), gc("mkBacktest", gz(b["date"]), "%d%%nat" % b["pos"], gsnap(b["exch"]), gs(b["dataset"])))
              for b in snap["backtests"]])
    return gc("mkApp", bts, gn(snap["last"]), ds_name)


def find_bt(snap, key):
    for b in snap["backtests"]:
        if b["key"] == key:
            return b
    return None


def server_steps(sc, tr, idx):
    """-> (definition of the datasets term, list of step terms, python steps)"""
    kind = sc["kind"]
    ds_name = "ds_%d" % idx
    ds_def = "Definition %s : list (string * dataset row) := %s." % (
        ds_name, gl([gt(gs(d["name"]), g_dataset(d["dump"])) for d in tr["datasets"]
                     if not (sc["start"].startswith("single:") and d["name"] != sc["start"][7:])]))
    terms, steps = [], []
    mk = "mkUSStep" if kind == "uist" else "mkJSStep"
    for k, r in enumerate(tr["results"]):
        op = sc["ops"][k]
        pre = tr["snaps"][k]
        panic = isinstance(r, dict) and "panic" in r
        post = pre if panic else tr["snaps"][k + 1]
        o = op["op"]
        some = (not panic) and "some" in r
        val = r.get("some") if some else None
        if o == "tick":
            b = find_bt(pre, op["id"])
            perm = []
            if b is not None and some:
                perm = exch.compute_perm(b["exch"]["buffer"], val["admitted"], exch.ukey if kind == "uist" else exch.jkey)
            elif b is not None:
                perm = list(range(len(b["exch"]["buffer"])))
            gop = gc("STick", gn(op["id"]), "(map N.to_nat %s)" % exch.g_perm(perm))
            if some:
                if kind == "uist":
                    out = gt(gl([exch.g_trade(t) for t in val["trades"]]),
                             gl([gt(gn(x["id"] if x["id"] is not None else 2 ** 64), exch.g_uorder(x)) for x in val["admitted"]]))
                else:
                    pb = find_bt(post, op["id"])
                    n = len(val["admitted"])
                    tail = pb["exch"]["book"][len(pb["exch"]["book"]) - n:] if (pb and n) else []
                    trig = val["triggered"]
                    if trig is None:   # http response has no such field: take what the exchange did
                        pb0 = find_bt(pre, op["id"])
                        trig = list(range(pb0["exch"]["next_id"], pb["exch"]["next_id"] - n)) if (pb0 and pb) else []
                    out = gt(gl([exch.g_fill(f) for f in val["fills"]]),
                             gl([gt(gn(e["id"]), exch.g_jorder(x)) for e, x in zip(tail, val["admitted"])]),
                             gl([gn(i) for i in trig]))
                gobs = gc("RTick", "(Some %s)" % gt(gb(val["has_next"]), out))
            else:
                gobs = "RPanic" if panic else "(RTick None)"
        elif o == "fetch":
            gop = gc("SFetch", gn(op["id"]))
            gobs = "RPanic" if panic else gc("RFetch", go(val if some else None, g_row))
        elif o in ("init", "new"):
            gop = gc("SInit" if o == "init" else "SNew", gs(op["name"]))
            gobs = "RPanic" if panic else gc("RId", go(val if some else None, gn))
        elif o == "insert":
            if kind == "uist":
                oo = op["order"]
                gord = exch.g_uorder(dict(type=oo["type"], symbol=oo["symbol"], shares=oo["shares"], price=oo["price"]))
            else:
                # the parsed form of what was inserted: read it from the post-state buffer
                pb = find_bt(post, op["id"])
                if pb is not None and some and pb["exch"]["buffer"]:
                    gord = exch.g_jorder(pb["exch"]["buffer"][-1])
                else:
                    gord = exch.g_jorder(jura_parsed_guess(op["order"]))
            gop = gc("SInsert", gord, gn(op["id"]))
            gobs = "RPanic" if panic else gc("RUnit", "(Some tt)" if some else "None")
        elif o == "delete":
            key = gn(op["order_id"]) if kind == "uist" else gt(gn(op["asset"]), gn(op["order_id"]))
            gop = gc("SDelete", key, gn(op["id"]))
            gobs = "RPanic" if panic else gc("RUnit", "(Some tt)" if some else "None")
        elif o == "info":
            gop = gc("SInfo", gn(op["id"]))
            gobs = "RPanic" if panic else gc("RInfo", go(val["dataset"] if some else None, gs))
        elif o == "now":
            gop = gc("SNow", gn(op["id"]))
            gobs = "RPanic" if panic else gc("RNow", go(val if some else None, lambda v: gt(gz(v["now"]), gb(v["has_next"]))))
        else:
            raise ValueError(o)
        terms.append(gc(mk, g_app(kind, pre, ds_name), gop, gobs, g_app(kind, post, ds_name)))
        steps.append(dict(pre=pre, op=op, result=r, post=post, panic=panic, some=some, val=val))
    return ds_def, terms, steps


def jura_parsed_guess(o):
    """parsed form of a scenario Jura order that never reached an exchange (unknown backtest)"""
    def p(s):
        try:
            return f2b(float(s))
        except ValueError:
            return None
    if "ctor" in o:
        c = o["ctor"]
        is_buy = c.endswith("buy")
        if c.startswith("market"):
            ot = dict(Limit=dict(tif="Ioc"))
        elif c.startswith("limit"):
            ot = dict(Limit=dict(tif="Gtc"))
        else:
            ot = dict(Trigger=dict(trigger_px=p(o["limit_px"]), is_market=True, tpsl="Sl" if c.startswith("stop") else "Tp"))
        return dict(asset=o["asset"], is_buy=is_buy, limit_px_parsed=p(o["limit_px"]), sz_parsed=p(o["sz"]),
                    reduce_only=False, cloid=None, order_type=ot)
    return dict(asset=o["asset"], is_buy=o["is_buy"], limit_px_parsed=p(o["limit_px"]), sz_parsed=p(o["sz"]),
                reduce_only=o["reduce_only"], cloid=o["cloid"], order_type=o["order_type"])


def run_servers(wd, scs):
    trs = run_harness_sharded("server", scs, wd)
    defs, terms, steps = [], [], []
    for i, (sc, tr) in enumerate(zip(scs, trs)):
        if "snaps" not in tr:
            if isinstance(tr, dict) and "panic" in tr:
                raise ImplementationPanic(tr["panic"], sc, "setting up server scenario %d (datasets loaded, AppState::%s)"
                                          % (i, "single" if str(sc.get("start", "")).startswith("single") else "create"))
            raise RuntimeError("harness-level failure on server scenario %d: %s" % (i, str(tr)[:500]))
        d, t, s = server_steps(sc, tr, i)
        defs.append(d)
        terms.append(t)
        steps.append(s)
    return trs, defs, terms, steps


IMPORTS_PEN = ("From Alator Require Import Model.Num Model.Exchange Model.Uist Model.Server Model.Penelope "
               "Check.Eqb Check.ExchCheck Check.ServerCheck Check.PenelopeCheck.")
DATASET_STEP = 1000000      # pseudo step index of "dataset k of the scenario was loaded"


def make_eval(wd, scs, defs, terms, project, pterms=None):
    u_idx = [i for i, sc in enumerate(scs) if sc["kind"] == "uist"]
    j_idx = [i for i, sc in enumerate(scs) if sc["kind"] == "jura"]
    cache = {}
    pen = []
    if pterms is not None:
        # the datasets themselves: Model/Penelope.v's load of the script vs what the real Penelope shows
        # (independent of every quirk flag)
        r = eval_steps(wd, "pen", IMPORTS_PEN, pterms, "pstep_mask")
        pen = [(a, DATASET_STEP + b, m) for a, b, m in r]

    def eval_fn(val):
        val = frozenset(val)
        if val not in cache:
            mism = []
            q = g_quirks(val)
            if u_idx:
                r = eval_steps(wd, "su", IMPORTS, [terms[i] for i in u_idx], "usstep_mask %s" % q,
                               sc_defs=[defs[i] for i in u_idx])
                mism += [(u_idx[a], b, m) for a, b, m in r]
            if j_idx:
                r = eval_steps(wd, "sj", IMPORTS, [terms[i] for i in j_idx], "jsstep_mask %s" % q,
                               sc_defs=[defs[i] for i in j_idx])
                mism += [(j_idx[a], b, m) for a, b, m in r]
            cache[val] = project(sorted(mism + pen))
        return cache[val]
    return eval_fn


# ------------------------------------------------------------------------------------------------
# direct readings


def ds_dump(tr, name):
    for d in tr["datasets"]:
        if d["name"] == name:
            return d["dump"]
    return None


def rows_of(dump):
    return {r["date"]: r["row"] for r in dump["rows"]}


def script_dates(sc, name):
    """the distinct dates of a dataset's loading script in order of first appearance (what "the dataset's dates"
    means to the person who loaded it), or None"""
    for d in sc.get("datasets", []):
        if d["name"] == name:
            if "raw" in d:
                return list(d["raw"]["dates"])
            out = []
            for q in d["quotes"]:
                if q[2] not in out:
                    out.append(q[2])
            return out
    return None


def dataset_dates(sc, tr, name):
    """dates a backtest on this dataset must visit: the script's distinct dates when they first appear in
    increasing order (the property's d1 < ... < dN), else whatever the implementation reports"""
    dump = ds_dump(tr, name)
    exp = script_dates(sc, name)
    if exp is not None and exp == sorted(exp):
        return exp
    return dump["dates"] if dump else None


def oracle_c07(sc, steps, tr):
    """clock walks the dataset: per backtest, count ticks since creation"""
    ticks = {}
    # backtests present at the start
    for b in steps[0]["pre"]["backtests"] if steps else []:
        ticks[b["key"]] = b["pos"]
    for k, st in enumerate(steps):
        if st["panic"]:
            break
        op, post = st["op"], st["post"]
        o = op["op"]
        if o in ("init", "new"):
            if st["some"]:
                ticks[st["val"]] = 0
            continue
        bid = op["id"]
        b_pre = find_bt(st["pre"], bid)
        if b_pre is None:
            continue
        dump = ds_dump(tr, b_pre["dataset"])
        if dump is None:
            continue
        dates = dataset_dates(sc, tr, b_pre["dataset"])
        N = len(dates)
        rows = rows_of(dump)
        kt = ticks.get(bid, 0)
        b_post = find_bt(post, bid)
        if dump["dates"] != dates:
            return dict(step=k, what="dataset %s was loaded with the distinct dates %s but the backtest is made to walk %s"
                        % (b_pre["dataset"], dates, dump["dates"]))
        if o == "tick" and not st["some"]:
            return dict(step=k, what="tick on the existing backtest %d (dataset %s, clock date %s) was refused"
                        % (bid, b_pre["dataset"], b_pre["date"]))
        if o == "tick" and st["some"]:
            kt += 1
            ticks[bid] = kt
            want_hn = kt < N
            if st["val"]["has_next"] != want_hn:
                return dict(step=k, what="tick %d of a %d-date dataset reported has_next=%s" % (kt, N, st["val"]["has_next"]))
            if sc.get("mode") != "http" and st["result"].get("shadow_ok") is False:
                return dict(step=k, what="tick %d did not match orders against exactly the quotes of date %s" % (kt, b_pre["date"]))
        want_date = dates[min(kt, N - 1)]
        if b_post["date"] != want_date or b_post["pos"] != kt:
            return dict(step=k, what="after %d ticks the clock should show date %d (position %d)" % (kt, want_date, kt),
                        got_date=b_post["date"], got_pos=b_post["pos"], dates=dates)
        if o == "fetch":
            want = rows.get(want_date)
            got = st["val"] if st["some"] else None
            if json.dumps(want, sort_keys=True) != json.dumps(got, sort_keys=True):
                return dict(step=k, what="fetch_quotes does not show the quotes of the current clock date %d" % want_date,
                            got=got)
            if got and dates == sorted(dates) and any(q["date"] > want_date for q in got):
                return dict(step=k, what="client was shown a quote dated after the clock")
        if o == "now":
            if not st["some"] or st["val"]["now"] != want_date or st["val"]["has_next"] != (kt < N):
                return dict(step=k, what="now should answer (%d, %s)" % (want_date, kt < N), got=st["val"])
    return None


def fresh_exch(e):
    return e["book"] == [] and e["buffer"] == [] and e["next_id"] == 0 and e["log"] == []


def oracle_c08(sc, steps, tr):
    returned = set()
    for k, st in enumerate(steps):
        if st["panic"]:
            break
        op, pre, post = st["op"], st["pre"], st["post"]
        o = op["op"]
        pre_by = {b["key"]: b for b in pre["backtests"]}
        post_by = {b["key"]: b for b in post["backtests"]}
        touched = None
        if o in ("init", "new"):
            known = ds_dump(tr, op["name"]) is not None and not (
                sc["start"].startswith("single:") and op["name"] != sc["start"][7:])
            if st["some"] != known:
                return dict(step=k, what="creation on %s dataset answered %s" % ("a known" if known else "an unknown", st["result"]))
            if st["some"]:
                i = st["val"]
                if i in returned or i in pre_by:
                    return dict(step=k, what="init/new_backtest returned id %d which %s" % (
                        i, "an earlier call returned" if i in returned else "already names a backtest"), id=i)
                returned.add(i)
                touched = i
                nb = post_by.get(i)
                dump = ds_dump(tr, op["name"])
                if nb is None or nb["date"] != dump["dates"][0] or nb["pos"] != 0 or not fresh_exch(nb["exch"]) \
                        or nb["dataset"] != op["name"]:
                    return dict(step=k, what="new backtest is not fresh at the first date with an empty book", got=nb)
            else:
                if json.dumps(pre, sort_keys=True) != json.dumps(post, sort_keys=True):
                    return dict(step=k, what="rejected request changed state")
        else:
            bid = op["id"]
            if bid not in pre_by:
                if st["some"]:
                    return dict(step=k, what="request naming unknown backtest %d was not rejected" % bid)
                if sc.get("mode") == "http" and st["result"].get("status") != 400:
                    return dict(step=k, what="unknown backtest did not give HTTP 400", status=st["result"].get("status"))
                if json.dumps(pre, sort_keys=True) != json.dumps(post, sort_keys=True):
                    return dict(step=k, what="rejected request changed state")
            touched = bid
        for key, b in pre_by.items():
            if key != touched and json.dumps(post_by.get(key), sort_keys=True) != json.dumps(b, sort_keys=True):
                return dict(step=k, what="operation on backtest %s disturbed backtest %d" % (touched, key))
        for key in post_by:
            if key not in pre_by and key != touched:
                return dict(step=k, what="a backtest appeared that no call created", key=key)
    return None


def oracle_c01_server(sc, steps, tr):
    """a fill's date is strictly later than the clock when its order was submitted (while the client
    has not ticked past has_next = false; datasets with increasing dates whose rows carry their date)"""
    kind = sc["kind"]
    submitted_at = {}     # (backtest, content key) -> list of clock dates, in submission order
    id_clock = {}         # (backtest, order id) -> clock date at submission
    over = set()          # backtests ticked after has_next was reported false
    stopped = {}          # backtest -> the last tick reported has_next = false
    for k, st in enumerate(steps):
        if st["panic"]:
            break
        op, pre, post = st["op"], st["pre"], st["post"]
        o = op["op"]
        if o not in ("insert", "tick") or not st["some"]:
            continue
        bid = op["id"]
        b_pre, b_post = find_bt(pre, bid), find_bt(post, bid)
        dump = ds_dump(tr, b_pre["dataset"])
        dates = dump["dates"]
        if dates != sorted(set(dates)) or any(q["date"] != r["date"] for r in dump["rows"] for q in r["row"]):
            return None
        if o == "insert":
            okey = exch.ukey(b_post["exch"]["buffer"][-1]) if kind == "uist" else exch.jkey(b_post["exch"]["buffer"][-1])
            submitted_at.setdefault((bid, okey), []).append(b_pre["date"])
            continue
        # tick: a client that stops once has_next is false never issues a tick after such a report
        if stopped.get(bid):
            over.add(bid)
        stopped[bid] = not st["val"]["has_next"]
        n = len(st["val"]["admitted"])
        tail = b_post["exch"]["book"][len(b_post["exch"]["book"]) - n:] if n else []
        for e in tail:
            okey = exch.ukey({kk: v for kk, v in e.items()}) if kind == "uist" else exch.jkey(e["order"])
            lst = submitted_at.get((bid, okey))
            if lst:
                id_clock[(bid, e["id"])] = lst.pop(0)
        if bid in over:
            continue
        if kind == "jura":
            fills = [(f["oid"], f["time"]) for f in st["val"]["fills"]]
        else:
            post_ids = set(e["id"] for e in b_post["exch"]["book"])
            gone = [e["id"] for e in b_pre["exch"]["book"] if e["id"] not in post_ids]
            fills = list(zip(gone, [t["date"] for t in st["val"]["trades"]])) if len(gone) == len(st["val"]["trades"]) else []
        for oid, fdate in fills:
            c = id_clock.get((bid, oid))
            if c is not None and not fdate > c:
                return dict(step=k, what="fill dated %d is not strictly later than the clock %d at which the order was submitted" % (fdate, c),
                            backtest=bid, order_id=oid)
    return None


def rel_close(a, b, tol=1e-12):
    x, y = b2f(a), b2f(b)
    if x == y or (math.isnan(x) and math.isnan(y)):
        return True
    if math.isinf(x) or math.isinf(y) or math.isnan(x) or math.isnan(y):
        return False
    return abs(x - y) <= tol * max(abs(x), abs(y))


FLOAT_KEYS = {"bid", "ask", "shares", "price", "value", "quantity", "px", "sz", "limit_px_parsed", "sz_parsed", "trigger_px"}


def json_close(a, b, path=""):
    """structural equality; floats (bit patterns under known keys) within 1e-12 relative"""
    if isinstance(a, dict) and isinstance(b, dict):
        if set(a) != set(b):
            return path + ": keys %s vs %s" % (sorted(a), sorted(b))
        for k in a:
            if k in FLOAT_KEYS and isinstance(a[k], int) and isinstance(b[k], int):
                if not rel_close(a[k], b[k]):
                    return "%s.%s: %r vs %r" % (path, k, b2f(a[k]), b2f(b[k]))
            elif k in ("px_str", "sz_str", "limit_px", "sz"):
                continue   # textual forms: their parsed values are compared
            else:
                r = json_close(a[k], b[k], path + "." + k)
                if r:
                    return r
        return None
    if isinstance(a, list) and isinstance(b, list):
        if len(a) != len(b):
            return path + ": lengths %d vs %d" % (len(a), len(b))
        for i, (x, y) in enumerate(zip(a, b)):
            r = json_close(x, y, "%s[%d]" % (path, i))
            if r:
                return r
        return None
    return None if a == b else "%s: %r vs %r" % (path, a, b)


def oracle_c20(sc_direct, tr_direct, tr_http, jura_triggered_required=True):
    """the same request sequence in-process and over HTTP"""
    kind = sc_direct["kind"]
    for k, (rd, rh) in enumerate(zip(tr_direct["results"], tr_http["results"])):
        op = sc_direct["ops"][k]
        if "panic" in rd or "panic" in rh:
            if ("panic" in rd) != ("panic" in rh):
                return dict(step=k, op=op, what="one of the two runs panicked")
            break
        if op["op"] == "now":
            # `now` goes through the handler in both runs (AppState has no method for it); the in-process answer is the
            # backtest's clock read from the state (what TestClient::now returns), recorded by the harness as "inproc"
            ip = rd.get("inproc")
            if ip is not None:
                if ("some" in ip) != ("some" in rh):
                    return dict(step=k, op=op, what="HTTP now answered %s where the in-process clock reading is %s" % (
                        rh.get("status"), "a result" if "some" in ip else "None"))
                if "some" in ip:
                    r = json_close(ip["some"], rh["some"])
                    if r:
                        return dict(step=k, op=op, what="HTTP now differs from the in-process clock (backtest.date, "
                                    "dataset.has_next(backtest.pos)): " + r, in_process=ip["some"], http=rh["some"])
                elif rh.get("status") != 400:
                    return dict(step=k, op=op, what="unknown backtest/dataset must give HTTP 400", status=rh.get("status"))
            continue
        if op["op"] == "new":
            continue   # new_backtest has no HTTP route
        if ("some" in rd) != ("some" in rh):
            return dict(step=k, op=op, what="HTTP answered %s where the in-process call answered %s" % (
                rh.get("status"), "a result" if "some" in rd else "None"))
        if "some" not in rd:
            if rh.get("status") != 400:
                return dict(step=k, op=op, what="unknown backtest/dataset must give HTTP 400", status=rh.get("status"))
        else:
            a, b = copy.deepcopy(rd["some"]), copy.deepcopy(rh["some"])
            if kind == "jura" and op["op"] == "tick":
                if b.get("triggered") is None:
                    if jura_triggered_required and a.get("triggered"):
                        return dict(step=k, op=op, what="in-process tick returned triggered order ids %s; the HTTP "
                                    "TickResponse has no field carrying them" % a["triggered"])
                    a.pop("triggered", None)
                    b.pop("triggered", None)
            r = json_close(a, b)
            if r:
                return dict(step=k, op=op, what="decoded HTTP result differs from the in-process result: " + r)
        r = json_close(tr_direct["snaps"][k + 1], tr_http["snaps"][k + 1])
        if r:
            return dict(step=k, op=op, what="server state after the request differs between HTTP and in-process: " + r)
    if len(tr_direct["results"]) != len(tr_http["results"]):
        return dict(what="runs have different lengths")
    return None


# ------------------------------------------------------------------------------------------------
# the crate's own in-process client (uistv1_client::TestClient), in lockstep with the oracle-free model

IMPORTS_CLIENT = ("From Alator Require Import Model.Num Model.Quirks Model.Exchange Model.Uist Model.Server "
                  "Model.Penelope Check.Eqb Check.ExchCheck Check.ServerCheck Check.ClientCheck.")


def gen_client_scenario(rng, n_ops=None, big_batches=False):
    """one TestClient::single over one dataset; further backtests through init; every endpoint of the trait"""
    ds = gen_dataset(rng, "A", "uist", weird=rng.random() < 0.2, allow_raw=False)
    ids = [0]
    last = 1
    ops = []
    n_ops = n_ops or rng.randint(10, 40)
    for _ in range(n_ops):
        r = rng.random()
        bid = rng.choice(ids) if rng.random() < 0.92 else rng.choice([last + 1, 77])
        if r < 0.30:
            ops.append(dict(op="tick", id=bid))
        elif r < 0.42:
            ops.append(dict(op="now", id=bid))
        elif r < 0.50:
            ops.append(dict(op="fetch", id=bid))
        elif r < 0.78:
            if big_batches and rng.random() < 0.3:
                for o in exch.uist_batch(rng, rng.choice([21, 22, 33, 47, 64, 65]), rng.choice(exch.ARRANGEMENTS)):
                    ops.append(dict(op="insert", id=bid, order=o))
            else:
                ops.append(dict(op="insert", id=bid, order=exch.gen_uist_order(rng, False)))
        elif r < 0.84:
            ops.append(dict(op="delete", id=bid, order_id=rng.randrange(6)))
        elif r < 0.93:
            nm = rng.choice(["A", "A", "A", "ZZ"])
            ops.append(dict(op="init", name=nm))
            if nm == "A":
                last += 1
                ids.append(last)
        else:
            ops.append(dict(op="info", id=bid))
    return dict(kind="uclient", datasets=[ds], ops=ops)


def gen_long_client_scenario(rng, rounds=30, per_round=40):
    """one backtest driven far beyond anything the other histories reach: rounds x (per_round market orders, one tick) —
    a couple of thousand executed trades on one exchange, one tick of more than a thousand orders (capacity limits,
    counters, logs that are trimmed or re-allocated only show at such sizes; what lies beyond — a limit of ten thousand,
    say — is out of reach of a check that has to end in minutes, DESIGN 8.7). Used in the thorough tier and whenever the
    sources differ from the recorded fingerprint."""
    quotes = [[f2b(100.0), f2b(101.0), 1000 + i, "ABC"] for i in range(rounds + 3)]
    ops = []
    for r in range(rounds):
        t = "MarketBuy" if r % 3 else "MarketSell"
        for k in range(per_round):
            ops.append(dict(op="insert", id=0, order=dict(type=t, symbol="ABC", shares=f2b(float(1 + (k % 7))), price=None, via="json")))
        ops.append(dict(op="tick", id=0))
    for k in range(1030):
        ops.append(dict(op="insert", id=0, order=dict(type="MarketSell" if k % 2 else "MarketBuy", symbol="ABC", shares=f2b(float(1 + (k % 5))), price=None, via="json")))
    ops += [dict(op="tick", id=0), dict(op="tick", id=0), dict(op="now", id=0)]
    return dict(kind="uclient", datasets=[dict(name="A", quotes=quotes, style="date_major")], ops=ops, long_run=True)


def oracle_long_history(sc, tr):
    """direct reading on a long history (every order is a market order for a symbol quoted on every date, two ticks
    follow the last order): every order is executed, so the ticks must have reported exactly one trade per order, for
    its quantity — what a broker's cash and holdings ledgers are built from (C04, C05, C03)"""
    if not sc.get("long_run") or any(isinstance(r, dict) and "panic" in r for r in tr["results"]):
        return None
    sent = [b2f(op["order"]["shares"]) for op in sc["ops"] if op["op"] == "insert"]
    got = [b2f(t["quantity"]) for op, r in zip(sc["ops"], tr["results"]) if op["op"] == "tick" and "some" in r
           for t in r["some"]["trades"]]
    if len(got) != len(sent) or sorted(got) != sorted(sent):
        return dict(what="%d market orders for a symbol quoted on every date were sent to one backtest, the ticks reported %d "
                         "trades: executions are missing from (or duplicated in) what the client is told" % (len(sent), len(got)))
    return None


def run_long_history(res, prop, wd, seed, rounds, per_round, lockstep=True):
    """the long history alone (C04 / C05: their ledgers are built from what the ticks report). With lockstep (thorough
    tier) the model runs the whole history and every response is compared; without (quick tier) only the direct reading
    is applied to what the real code answered — a search for a failing input that costs a second, claims nothing when it
    finds none, and is neither part of the proof nor of the correspondence."""
    sc = gen_long_client_scenario(random.Random(seed + 29), rounds=rounds, per_round=per_round)
    tr = run_harness("server", [sc], wd, tag="long")[0]
    failing = eval_cases(wd, "client_long", IMPORTS_CLIENT, [g_ccase(sc, tr)], "ccase_ok", per_shard_min=1) if lockstep else []
    cov = dict(long_history_requests=len(tr["results"]), long_history_mismatching=len(failing) if lockstep else None,
               long_history_mode="lockstep with the model + direct reading" if lockstep else
               "direct reading only (failing-input search on the real code; not evidence that the property holds)")
    f = oracle_long_history(sc, tr)
    if f:
        res.violation(dict(kind="property-fails-on-implementation", component="uist-client", found_in="long history",
                           failure=f, scenario=dict(sc, ops="%d requests: %d rounds of %d market orders and a tick (regenerate with "
                                                            "server.gen_long_client_scenario)" % (len(sc["ops"]), rounds, per_round))), "violation")
    elif failing:
        res.violation(dict(kind="correspondence-or-refuted-theorem", component="uist-client",
                           no_longer_checks=dict(theorem="Props/%s.v" % prop, lockstep="long history: responses differ from the model's"),
                           scenario=None), "unproved", no_input=True)
    return cov


def g_client_res(op, r):
    """observed response of the client as an sres term"""
    o = op["op"]
    if isinstance(r, dict) and "panic" in r:
        return "RPanic"
    some = "some" in r
    val = r.get("some")
    if o == "tick":
        if not some:
            return gc("RTick", "None")
        out = gt(gl([exch.g_trade(t) for t in val["trades"]]),
                 gl([gt(gn(x["id"] if x["id"] is not None else 2 ** 64), exch.g_uorder(x)) for x in val["admitted"]]))
        return gc("RTick", "(Some %s)" % gt(gb(val["has_next"]), out))
    if o == "fetch":
        return gc("RFetch", go(val if some else None, g_row))
    if o == "init":
        return gc("RId", go(val if some else None, gn))
    if o in ("insert", "delete"):
        return gc("RUnit", "(Some tt)" if some else "None")
    if o == "info":
        return gc("RInfo", go(val["dataset"] if some else None, gs))
    if o == "now":
        return gc("RNow", go(val if some else None, lambda v: gt(gz(v["now"]), gb(v["has_next"]))))
    raise ValueError(o)


def g_client_op(op):
    o = op["op"]
    if o == "tick":
        return gc("STick", gn(op["id"]), "[]")
    if o == "fetch":
        return gc("SFetch", gn(op["id"]))
    if o == "init":
        return gc("SInit", gs(op["name"]))
    if o == "insert":
        oo = op["order"]
        return gc("SInsert", exch.g_uorder(dict(type=oo["type"], symbol=oo["symbol"], shares=oo["shares"], price=oo["price"])),
                  gn(op["id"]))
    if o == "delete":
        return gc("SDelete", gn(op["order_id"]), gn(op["id"]))
    if o == "info":
        return gc("SInfo", gn(op["id"]))
    if o == "now":
        return gc("SNow", gn(op["id"]))
    raise ValueError(o)


def g_ccase(sc, tr):
    d = sc["datasets"][0]
    calls = gl([gt(gf(q[0]), gf(q[1]), gz(q[2]), gs(q[3])) for q in d["quotes"]])
    hist = gl([gt(g_client_op(op), g_client_res(op, r)) for op, r in zip(sc["ops"], tr["results"])])
    return gc("mkCCase", gn(int(tr.get("order_size", 1))), gs(d["name"]), calls, hist)


def client_responses_for(sc, tr, bid):
    return [(k, op, r) for k, (op, r) in enumerate(zip(sc["ops"], tr["results"])) if op.get("id") == bid]


def oracle_client(prop, sc, tr, run_one):
    """direct readings on a TestClient history. C08: the responses for one backtest id do not depend on what is
    interleaved on other ids (the same history with the other ids' requests removed gives the same responses), and
    unknown ids are rejected. C07/C01: `now` shows date index min(k, N-1) and has_next iff k < N after k ticks."""
    ops, res = sc["ops"], tr["results"]
    if any(isinstance(r, dict) and "panic" in r for r in res):
        return None
    ids = sorted({op["id"] for op in ops if "id" in op})
    created = {0}
    nxt = 1
    for op, r in zip(ops, res):
        if op["op"] == "init" and "some" in r:
            created.add(r["some"])
    if prop == "C08":
        for op, r, k in zip(ops, res, range(len(ops))):
            if "id" in op and op["id"] not in created and "some" in r:
                return dict(step=k, what="a request naming the unknown backtest %d was answered instead of rejected" % op["id"], op=op)
        for bid in ids:
            if bid not in created:
                continue
            proj = dict(sc, ops=[op for op in ops if op["op"] == "init" or op.get("id") == bid])
            tr2 = run_one(proj)
            a = [r for _, _, r in client_responses_for(sc, tr, bid)]
            b = [r for _, _, r in client_responses_for(proj, tr2, bid)]
            for j, (x, y) in enumerate(zip(a, b)):
                if json.dumps(x, sort_keys=True) != json.dumps(y, sort_keys=True):
                    k = client_responses_for(sc, tr, bid)[j][0]
                    return dict(step=k, what="the response to request %d on backtest %d differs from the response to the same "
                                "request when the requests on other backtests are left out" % (j, bid),
                                with_others=x, alone=y, op=ops[k])
        return None
    # clock readings
    dates = script_dates(sc, sc["datasets"][0]["name"])
    if dates != sorted(dates):
        return None
    N = len(dates)
    ticks = {}
    for k, (op, r) in enumerate(zip(ops, res)):
        bid = op.get("id")
        if bid not in created:
            continue
        if op["op"] == "tick" and "some" in r:
            ticks[bid] = ticks.get(bid, 0) + 1
            if r["some"]["has_next"] != (ticks[bid] < N):
                return dict(step=k, what="tick %d of a %d-date dataset reported has_next=%s" % (ticks[bid], N, r["some"]["has_next"]))
        if op["op"] == "now" and "some" in r:
            kt = ticks.get(bid, 0)
            want = dict(now=dates[min(kt, N - 1)], has_next=kt < N)
            if r["some"] != want:
                return dict(step=k, what="after %d ticks `now` on backtest %d should answer %s" % (kt, bid, want), got=r["some"])
    return None


def run_client_lockstep(res, prop, tier, seed, wd):
    """-> coverage dict; reports a violation on res when the lockstep comparison fails"""
    rng = random.Random(seed + 23)
    n = tier_size(tier, 40, 600)
    scs = [gen_client_scenario(rng, big_batches=(i % 4 == 3)) for i in range(n)]
    if tier == "thorough":
        scs.append(gen_long_client_scenario(rng, rounds=225, per_round=50))     # > 11 000 trades on one exchange
    elif scale() > 1:
        scs.append(gen_long_client_scenario(rng))
    # the same kind of history through the crate's reqwest Client over real HTTP on the loopback interface
    n_http = tier_size(tier, 8, 120)
    http_scs = [dict(gen_client_scenario(rng, big_batches=(i % 4 == 3)), kind="uhttpclient") for i in range(n_http)]
    http_trs = run_harness_sharded("server", http_scs, wd)
    skipped = [t.get("skipped") for t in http_trs if isinstance(t, dict) and "skipped" in t]
    if skipped or any("results" not in t for t in http_trs):
        http_note = "loopback HTTP unavailable in this environment (%s): the reqwest client was not exercised" % (
            skipped[0] if skipped else str(http_trs[0])[:120])
        http_scs, http_trs = [], []
    else:
        http_note = "%d histories through uistv1_client::Client (reqwest) against an actix HttpServer on 127.0.0.1" % len(http_scs)
    trs = run_harness_sharded("server", scs, wd)
    scs, trs = scs + http_scs, trs + http_trs
    terms = [g_ccase(sc, tr) for sc, tr in zip(scs, trs)]
    failing = eval_cases(wd, "client", IMPORTS_CLIENT, terms, "ccase_ok", per_shard_min=3)
    cov = dict(client_lockstep_http=http_note, client_lockstep_histories=len(scs), client_lockstep_requests=sum(len(t["results"]) for t in trs),
               client_lockstep_mismatching=len(failing),
               client_lockstep_rule="uistv1_client::TestClient::single over a Penelope loaded from the scenario's script, "
                                    "requests through the UistClient trait on several backtests (init), compared response by "
                                    "response with the model running the WHOLE history from its own initial state (no "
                                    "re-synchronisation, no sort oracle: Model/ExchangeStd.v)")
    if failing:
        def run_one(sc):
            t = run_harness("server", [sc], wd, tag="cw")[0]
            if "results" not in t:          # loopback gone in between: fall back to the in-process client
                t = run_harness("server", [dict(sc, kind="uclient")], wd, tag="cw")[0]
            return t
        found = None
        for i in failing:
            f = oracle_long_history(scs[i], trs[i]) or oracle_client(prop, scs[i], trs[i], run_one)
            if f:
                found = (i, f)
                break
        i0 = failing[0]
        detail = eval_term(wd, "client_detail", IMPORTS_CLIENT, "ccase_mismatches %s" % terms[i0])
        broken = dict(theorem="Props/%s.v" % prop, lockstep_mismatches_first_history=detail[-600:],
                      histories_mismatching=len(failing))
        if found:
            i, f = found
            res.violation(dict(kind="property-fails-on-implementation", component="uist-client", found_in="client history %d" % i,
                               failure=f, scenario=scs[i], correspondence=broken), "violation")
        else:
            res.violation(dict(kind="correspondence-or-refuted-theorem", component="uist-client", no_longer_checks=broken,
                               scenario=scs[i0]), "unproved", no_input=True)
    return cov


# ------------------------------------------------------------------------------------------------
# the Jura service's own client (jurav1_client::Client, reqwest: the only client the module has), in lockstep with
# the oracle-free model

IMPORTS_JCLIENT = ("From Alator Require Import Model.Num Model.Quirks Model.Exchange Model.Uist Model.Jura Model.Server "
                   "Model.Penelope Check.Eqb Check.ExchCheck Check.ServerCheck Check.JClientCheck.")


def script_rows(d):
    """what a loading script leaves behind: (dates in order of first appearance, {date: {symbol: (bid, ask)}})"""
    dates, rows = [], {}
    for bid, ask, date, sym in d["quotes"]:
        if date not in rows:
            dates.append(date)
            rows[date] = {}
        rows[date][sym] = (b2f(bid), b2f(ask))
    return dates, rows


def gen_jclient_order(rng, asset, q):
    """one Jura order of any kind — the eight constructors and the variants only a deserialised order can have
    (explicit tif, reduce_only, cloid, non-market triggers, trigger_px different from limit_px) — with its limit /
    trigger price placed around the quote q = (bid, ask) it is likely to meet: exactly at, one grid step inside and
    outside the fill / firing condition, and at the IOC slippage boundary (computed with the same doubles). Trigger
    prices stay on the half grid (they are JSON numbers on the wire; limits and sizes are strings)."""
    bid, ask = q if q else (100.0, 100.5)
    sz = rng.choice(["1", "10.0", "25.5", "100", repr(float(rng.randint(1, 500)))])
    is_buy = rng.random() < 0.5
    ref = ask if is_buy else bid
    kind = rng.choice(["ioc", "ioc", "gtc", "gtc", "trigger", "trigger"])
    step = rng.choice([-1.0, -0.5, 0.0, 0.0, 0.5, 1.0])
    if kind == "ioc":
        k = rng.random()
        if k < 0.4:         # buy fills iff ask <= px * 1.1, sell iff px * 0.9 <= bid
            px = ref / (1.1 if is_buy else 0.9)
            if rng.random() < 0.5:
                px = math.nextafter(px, 0.0 if is_buy else 1e9)
        elif k < 0.65:
            px = ref + step
        elif k < 0.85:
            px = ref * (0.8 if is_buy else 1.25)      # beyond the slippage: marked, then expires
        else:
            px = rng.choice(exch.GRID)
        ctor, ot = "market", dict(Limit=dict(tif="Ioc"))
    elif kind == "gtc":
        px = ref + step
        ctor, ot = "limit", dict(Limit=dict(tif="Gtc"))
    else:
        tpsl = rng.choice(["Tp", "Sl"])
        trig = ref + step
        is_market = rng.random() < 0.6
        px = trig if rng.random() < 0.5 else ref + rng.choice([-1.0, 0.0, 1.0, 20.0, -20.0])
        ctor = ("stop" if tpsl == "Sl" else "takeprofit") if (is_market and px == trig) else None
        ot = dict(Trigger=dict(trigger_px=f2b(trig), is_market=is_market, tpsl=tpsl))
    if ctor and rng.random() < 0.5:
        return dict(ctor="%s_%s" % (ctor, "buy" if is_buy else "sell"), asset=asset, sz=sz, limit_px=exch.fmt_px(px))
    return dict(asset=asset, is_buy=is_buy, limit_px=exch.fmt_px(px), sz=sz, reduce_only=rng.random() < 0.2,
                cloid=rng.choice([None, None, "c1", "xyz"]), order_type=ot)


def gen_jclient_scenario(rng, n_ops=None, big_batch=False):
    """one Jura server (AppState::single on dataset A, or AppState::create over 1-3 datasets) and a history of 10-60
    requests through every method of the JuraClient trait on 1-3 backtests: inits (unknown datasets too), inserts of
    every order kind placed around the quotes of the date they will meet, deletes of valid / stale / unknown ids and
    of a valid id under the wrong asset, ticks (run past the end of the dataset), fetch_quotes, info, and requests
    naming backtests that do not exist"""
    single = rng.random() < 0.5
    names = ["A"] if single else ["A", "B", "C"][:rng.choice([1, 2, 3])]
    dss = [gen_dataset(rng, nm, "jura", n_dates=rng.choice([1, 2, 3, 4, 5, 8, 12]), weird=rng.random() < 0.15, allow_raw=False) for nm in names]
    loaded = {d["name"]: script_rows(d) for d in dss}
    ids, last = ([0], 1) if single else ([], 0)
    ds_of = {0: "A"} if single else {}
    pos = {i: 0 for i in ids}
    sent = {i: [] for i in ids}          # assets of the orders sent to a backtest, in order (ids are given in about this order)
    deleted = []
    ops = []
    max_bt = rng.choice([1, 2, 3])

    def do_init(nm):
        nonlocal last
        ops.append(dict(op="init", name=nm))
        if nm in loaded:
            last += 1
            ids.append(last)
            ds_of[last], pos[last], sent[last] = nm, 0, []

    def do_insert(bid, o=None):
        if o is None:
            asset = rng.choice(exch.ASSETS + ([3] if rng.random() < 0.08 else []))
            q = None
            if bid in ds_of:
                dates, rows = loaded[ds_of[bid]]
                # resting orders meet the row of the tick after the one that admits them; past the end it is the last row
                at = min(pos[bid] + 1, len(dates) - 1) if rng.random() < 0.7 else rng.randrange(len(dates))
                q = rows[dates[at]].get(str(asset))
            o = gen_jclient_order(rng, asset, q)
        ops.append(dict(op="insert", id=bid, order=o))
        if bid in sent:
            sent[bid].append(o["asset"])

    def do_tick(bid):
        ops.append(dict(op="tick", id=bid))
        if bid in pos:
            pos[bid] += 1

    if not single:
        do_init(rng.choice(names))
    n_ops = n_ops or rng.randint(10, 60)
    batch_at = rng.randrange(n_ops) if big_batch else -1
    while len(ops) < n_ops:
        r = rng.random()
        bid = rng.choice(ids) if rng.random() < 0.92 else rng.choice([last + 1, 77, 0 if not single else 78])
        if len(ops) >= batch_at >= 0:
            batch_at = -1
            for o in exch.jura_batch(rng, rng.choice([21, 22, 33]), rng.choice(exch.ARRANGEMENTS)):
                do_insert(bid, o)
        elif r < 0.38:
            do_tick(bid)
        elif r < 0.45:
            ops.append(dict(op="fetch", id=bid))
        elif r < 0.74:
            do_insert(bid)
            if rng.random() < 0.35:      # admitted by the first tick, meets its quote on the second
                do_tick(bid)
                do_tick(bid)
        elif r < 0.85:
            n = len(sent.get(bid, []))
            k = rng.random()
            if k < 0.55 and n:
                oid = rng.randrange(n)
                asset = sent[bid][oid] if rng.random() < 0.7 else rng.choice(exch.ASSETS)   # right / wrong asset
            elif k < 0.7 and deleted:
                bid, asset, oid = rng.choice(deleted)                                       # stale: deleted before
            elif k < 0.85:
                oid, asset = n + rng.choice([0, 1, 2]), rng.choice(exch.ASSETS)            # not handed out yet
            else:
                oid, asset = rng.choice([n + 9, 2 ** 63]), rng.choice(exch.ASSETS + [5])
            ops.append(dict(op="delete", id=bid, asset=asset, order_id=oid))
            deleted.append((bid, asset, oid))
        elif r < 0.93:
            known = len(ids) < max_bt and rng.random() < 0.75
            do_init(rng.choice(names) if known else "ZZ")
        else:
            ops.append(dict(op="info", id=bid))
    return dict(kind="jhttpclient", start="single:A" if single else "create", datasets=dss, ops=ops)


def g_jclient_res(op, r):
    """observed response of the Jura client as an sres term (admitted orders carry no id on the wire: 0)"""
    o = op["op"]
    if isinstance(r, dict) and "panic" in r:
        return "RPanic"
    some = "some" in r
    val = r.get("some")
    if o == "tick":
        if not some:
            return gc("RTick", "None")
        out = gt(gl([exch.g_fill(f) for f in val["fills"]]),
                 gl([gt(gn(0), exch.g_jorder(x)) for x in val["admitted"]]),
                 gl([gn(i) for i in (val["triggered"] or [])]))
        return gc("RTick", "(Some %s)" % gt(gb(val["has_next"]), out))
    if o == "fetch":
        return gc("RFetch", go(val if some else None, g_row))
    if o == "init":
        return gc("RId", go(val if some else None, gn))
    if o in ("insert", "delete"):
        return gc("RUnit", "(Some tt)" if some else "None")
    if o == "info":
        return gc("RInfo", go(val["dataset"] if some else None, gs))
    raise ValueError(o)


def g_jclient_op(op, r):
    o = op["op"]
    if o == "tick":
        return gc("STick", gn(op["id"]), "[]")
    if o == "fetch":
        return gc("SFetch", gn(op["id"]))
    if o == "init":
        return gc("SInit", gs(op["name"]))
    if o == "insert":
        # prices and sizes are strings on the wire: the parsed form is what the code's own parse::<f64>() made of
        # the order that was sent
        return gc("SInsert", exch.g_jorder(r["inserted"]), gn(op["id"]))
    if o == "delete":
        return gc("SDelete", gt(gn(op["asset"]), gn(op["order_id"])), gn(op["id"]))
    if o == "info":
        return gc("SInfo", gn(op["id"]))
    raise ValueError(o)


def g_jcase(sc, tr):
    single = sc["start"].startswith("single:")
    dss = [d for d in sc["datasets"] if not single or d["name"] == sc["start"][7:]]
    data = gl([gt(gs(d["name"]), gl([gt(gf(q[0]), gf(q[1]), gz(q[2]), gs(q[3])) for q in d["quotes"]])) for d in dss])
    hist = []
    for op, r in zip(sc["ops"], tr["results"]):
        if isinstance(r, dict) and "panic" in r:
            break      # an order constructor panicked in the client process before any request: outside the model
        hist.append(gt(g_jclient_op(op, r), g_jclient_res(op, r)))
    return gc("mkJCase", gn(int(tr.get("order_size", 1))), gb(single), data, gl(hist))


def jclient_backtests(sc, tr):
    """{backtest id: dataset name} of the backtests the history knows to exist (the single one, and what init returned)"""
    bts = {0: sc["start"][7:]} if sc["start"].startswith("single:") else {}
    for op, r in zip(sc["ops"], tr["results"]):
        if op["op"] == "init" and "some" in r:
            bts[r["some"]] = op["name"]
    return bts


def strip_texts(x):
    return {k: v for k, v in x.items() if k != "inserted"} if isinstance(x, dict) else x


def oracle_jclient(prop, sc, tr, run_one):
    """direct readings on a Jura client history. C08: the responses for one backtest id do not depend on what is
    interleaved on other ids (the same history with the other ids' requests removed gives the same responses), unknown
    ids and datasets are rejected and init never hands out an id twice. C20: the same history in-process (AppState
    called directly) answers the same. C07 / C01: after k ticks `tick` reports has_next iff k < N and fetch_quotes
    shows the row of date index min(k, N-1)."""
    ops, res = sc["ops"], tr["results"]
    if any(isinstance(r, dict) and "panic" in r for r in res):
        return None
    created = jclient_backtests(sc, tr)
    known_ds = {d["name"] for d in sc["datasets"] if not sc["start"].startswith("single:") or d["name"] == sc["start"][7:]}
    if prop == "C08":
        seen = set(created) - {r["some"] for op, r in zip(ops, res) if op["op"] == "init" and "some" in r}
        for k, (op, r) in enumerate(zip(ops, res)):
            if op["op"] == "init":
                if ("some" in r) != (op["name"] in known_ds):
                    return dict(step=k, what="init on %s dataset answered %s" % ("a known" if op["name"] in known_ds else "an unknown", r), op=op)
                if "some" in r:
                    if r["some"] in seen:
                        return dict(step=k, what="init returned id %d which already names a backtest" % r["some"], op=op)
                    seen.add(r["some"])
            elif op["id"] not in seen and "some" in r:
                return dict(step=k, what="a request naming the unknown backtest %d was answered instead of rejected" % op["id"], op=op)
        for bid in sorted(created):
            proj = dict(sc, ops=[op for op in ops if op["op"] == "init" or op.get("id") == bid])
            tr2 = run_one(proj)
            if "results" not in tr2:
                return None
            a = client_responses_for(sc, tr, bid)
            b = client_responses_for(proj, tr2, bid)
            for j, ((k, _, x), (_, _, y)) in enumerate(zip(a, b)):
                if json.dumps(strip_texts(x), sort_keys=True) != json.dumps(strip_texts(y), sort_keys=True):
                    return dict(step=k, what="the response to request %d on backtest %d differs from the response to the same "
                                "request when the requests on other backtests are left out" % (j, bid),
                                with_others=x, alone=y, op=ops[k])
        return None
    if prop == "C20":
        d = dict(sc, kind="jura", mode="direct")
        td = run_one(d)
        if "results" not in td:
            return None
        for k, (op, rh, rd) in enumerate(zip(ops, res, td["results"])):
            if "panic" in rd:
                break
            if ("some" in rd) != ("some" in rh):
                return dict(step=k, op=op, what="the client got %s where the in-process call answered %s" % (
                    "a result" if "some" in rh else "an error", "a result" if "some" in rd else "None"))
            if "some" in rd:
                a, b = copy.deepcopy(rd["some"]), copy.deepcopy(rh["some"])
                if op["op"] == "info":
                    a, b = a["dataset"], b["dataset"]
                r = json_close(a, b)
                if r:
                    return dict(step=k, op=op, what="what the client decoded differs from the in-process result: " + r)
        return None
    # clock readings
    ticks = {}
    for k, (op, r) in enumerate(zip(ops, res)):
        bid = op.get("id")
        if bid not in created or "some" not in r:
            continue
        dates = script_dates(sc, created[bid])
        if dates != sorted(dates):
            continue
        N = len(dates)
        if op["op"] == "tick":
            ticks[bid] = ticks.get(bid, 0) + 1
            if r["some"]["has_next"] != (ticks[bid] < N):
                return dict(step=k, what="tick %d of a %d-date dataset reported has_next=%s" % (ticks[bid], N, r["some"]["has_next"]), op=op)
        if op["op"] == "fetch":
            want = dates[min(ticks.get(bid, 0), N - 1)]      # add_quote files every quote under its own date
            got = sorted({q["date"] for q in r["some"]})
            if got != [want]:
                return dict(step=k, what="after %d ticks fetch_quotes on backtest %d should show the row of date %d" % (
                    ticks.get(bid, 0), bid, want), got_dates=got, op=op)
    return None


def run_jclient_lockstep(res, prop, tier, seed, wd, replay=None):
    """-> coverage dict; reports a violation on res when the lockstep comparison fails"""
    rng = random.Random(seed + 29)
    n = tier_size(tier, 8, 120)
    if replay:
        scs = [json.load(open(replay))["scenario"]]
    else:
        scs = [gen_jclient_scenario(rng, big_batch=(i % 4 == 3)) for i in range(n)]
    trs = run_harness_sharded("server", scs, wd)
    skipped = [t.get("skipped") for t in trs if isinstance(t, dict) and "skipped" in t]
    rule = ("jurav1_client::Client (reqwest) against an actix HttpServer on 127.0.0.1 serving the jurav1_server handlers over "
            "AppState::single / AppState::create on Penelopes loaded from the scenario's scripts; requests through the "
            "JuraClient trait on 1-3 backtests (init), all order kinds placed around the quotes, compared response by "
            "response (has_next, fills, admitted orders, triggered ids; rows; ids; 400s) with the model running the "
            "WHOLE history from its own initial state (no re-synchronisation, no sort oracle: Model/ExchangeStd.v at "
            "size_of::<jura_v1::Order>())")
    if skipped or any("results" not in t for t in trs):
        return dict(jclient_lockstep_http="loopback HTTP unavailable in this environment (%s): the Jura reqwest client was not "
                    "exercised and nothing is concluded from it" % (skipped[0] if skipped else str(trs[0])[:120]),
                    jclient_lockstep_histories=0, jclient_lockstep_requests=0, jclient_lockstep_mismatching=0,
                    jclient_lockstep_rule=rule)
    terms = [g_jcase(sc, tr) for sc, tr in zip(scs, trs)]
    failing = eval_cases(wd, "jclient", IMPORTS_JCLIENT, terms, "jcase_ok", per_shard_min=3)
    mix, outcomes = {}, {}
    for sc, tr in zip(scs, trs):
        bts = jclient_backtests(sc, tr)
        for op, r in zip(sc["ops"], tr["results"]):
            mix[op["op"]] = mix.get(op["op"], 0) + 1
            if "some" not in r:
                key = "%s:rejected" % op["op"]
            elif op["op"] == "tick":
                v = r["some"]
                key = "tick:%s%s%s%s" % ("more" if v["has_next"] else "end", "+fills" if v["fills"] else "",
                                          "+admitted" if v["admitted"] else "", "+triggered" if v["triggered"] else "")
            elif op["op"] == "insert":
                ot = r["inserted"]["order_type"]
                key = "insert:%s" % (ot["Limit"]["tif"] if "Limit" in ot else
                                     "%s-%s" % (ot["Trigger"]["tpsl"], "market" if ot["Trigger"]["is_market"] else "limit"))
            else:
                key = "%s:ok" % op["op"]
            outcomes[key] = outcomes.get(key, 0) + 1
    cov = dict(jclient_lockstep_http="%d histories through jurav1_client::Client (reqwest) against an actix HttpServer on 127.0.0.1" % len(scs),
               jclient_lockstep_histories=len(scs), jclient_lockstep_requests=sum(len(t["results"]) for t in trs),
               jclient_lockstep_mismatching=len(failing), jclient_lockstep_op_mix=mix, jclient_lockstep_outcomes=outcomes,
               jclient_lockstep_fills=sum(len(r["some"]["fills"]) for t in trs for r in t["results"]
                                          if isinstance(r.get("some"), dict) and "fills" in r["some"]),
               jclient_lockstep_rule=rule)
    if failing:
        def run_one(sc):
            return run_harness("server", [sc], wd, tag="jw")[0]
        found = None
        for i in failing:
            f = oracle_jclient(prop, scs[i], trs[i], run_one)
            if f:
                found = (i, f)
                break
        i0 = failing[0]
        detail = eval_term(wd, "jclient_detail", IMPORTS_JCLIENT, "jcase_mismatches %s" % terms[i0])
        broken = dict(theorem="Props/%s.v" % prop, lockstep_mismatches_first_history=detail[-600:],
                      histories_mismatching=len(failing))
        if found:
            i, f = found
            res.violation(dict(kind="property-fails-on-implementation", component="jura-client", found_in="jura client history %d" % i,
                               failure=f, scenario=scs[i], correspondence=broken), "violation")
        else:
            res.violation(dict(kind="correspondence-or-refuted-theorem", component="jura-client", no_longer_checks=broken,
                               scenario=scs[i0]), "unproved", no_input=True)
    return cov


# ------------------------------------------------------------------------------------------------
# checks

SPROJ = {
    "C07": S_KIND | S_HASNEXT | S_FETCH | S_NOW | S_CLOCK | (1 << 12) | (1 << 13) | (1 << 14),
    "C08": S_KIND | S_ID | S_LAST | S_OTHERS | S_KEYS | S_INFO,
    "C01": S_KIND | S_HASNEXT | S_CLOCK | S_OUT | (1 << 12) | (1 << 13),
    "C20": S_KIND | S_HASNEXT | S_OUT | S_FETCH | S_ID | S_NOW | S_INFO | S_CLOCK | S_EXCH | S_OTHERS | S_LAST | S_KEYS,
}
SORACLE = {"C07": oracle_c07, "C08": oracle_c08, "C01": oracle_c01_server}


def gen_server_suite(prop, tier, rng):
    n = tier_size(tier, 60, 1200)
    scs = []
    for i in range(n):
        for kind in ("uist", "jura"):
            scs.append(gen_server_scenario(rng, kind, weird=(i % 5 == 4), multi=(prop != "C07" or i % 2 == 0),
                                           run_to_end=(i % 3 == 0), malformed=(i % 7 == 6)))
    return scs


def classify_server(sc, steps, tr):
    keys = set()
    ticks = {}
    for st in steps:
        op = st["op"]
        o = op["op"]
        if o in ("init", "new"):
            keys.add((sc["kind"], o, "ok" if st["some"] else "rejected"))
            continue
        b = find_bt(st["pre"], op["id"])
        if b is None:
            keys.add((sc["kind"], o, "unknown-backtest"))
            continue
        d = ds_dump(tr, b["dataset"])
        N = len(d["dates"]) if d else 0
        rel = "before-end" if b["pos"] + 1 < N else ("last" if b["pos"] + 1 == N else "past-end")
        keys.add((sc["kind"], o, "N=%d" % min(N, 4), rel, "panic" if st["panic"] else "ok"))
    return keys


def run_property(res, prop, tier, seed, replay, prop_files, extra=None):
    ob = obligations_or_violation(res, prop_files)
    wd = workdir(prop + "_srv")
    rng = random.Random(seed + 7)
    amask = SPROJ[prop]
    if replay and json.load(open(replay)).get("component") == "server":
        scs = [json.load(open(replay))["scenario"]]
    else:
        scs = [s for s in load_corpus(prop) if "datasets" in s] + gen_server_suite(prop, tier, rng)
    trs, defs, terms, steps = run_servers(wd, scs)

    def project(mism):
        return [(sc, st, smask_names(m & amask)) for sc, st, m in mism if m & amask]
    pterms = [dataset_terms(sc, tr) for sc, tr in zip(scs, trs)]
    eval_fn = make_eval(wd, scs, defs, terms, project, pterms=pterms)

    def run_witness(sc):
        tr = run_harness("server", [sc], wd, tag="w")[0]
        st = server_steps(sc, tr, 0)[2]
        st_tr[id(st)] = tr
        return st
    st_tr = {}
    for st, tr in zip(steps, trs):
        st_tr[id(st)] = tr
    base_oracle = SORACLE[prop]

    def oracle(sc, st):
        return base_oracle(sc, st, st_tr[id(st)])

    def shrink(sc, f):
        best, bestf = sc, f
        changed = True
        while changed and len(best["ops"]) > 1:
            changed = False
            for i in range(len(best["ops"]) - 1, -1, -1):
                cand = dict(best, ops=best["ops"][:i] + best["ops"][i + 1:])
                try:
                    ff = oracle(cand, run_witness(cand))
                except Exception:
                    ff = None
                if ff:
                    best, bestf, changed = cand, ff, True
                    break
        return best, bestf

    slice_verdict(res, prop, eval_fn=eval_fn, relevant=SERVER_FLAGS, scenarios=scs, traces_steps=steps,
                  oracle=oracle, run_witness=run_witness, component="server",
                  theorem_hint="Props/%s.v (theorems about Model/Server.v)" % prop, shrink=shrink)
    keys = set()
    n_steps = 0
    for sc, st, tr in zip(scs, steps, trs):
        keys |= classify_server(sc, st, tr)
        n_steps += len(st)
    s0 = scs[len(scs) // 2]
    cov = dict(
        evaluations=n_steps, distinct_nontrivial=len(keys),
        rule="seeded random request sequences over 1-3 datasets (1-8 dates, gaps, re-quoted and out-of-order "
             "dates in 1/5) and several backtests per server, both services, ticks past the end, unknown ids and "
             "datasets; each step compared with the model step from the implementation's own pre-state "
             "(projection: %s); on ticks a clone of the real exchange is ticked on the row of the current date and "
             "compared (shadow). distinct_nontrivial counts distinct (service, operation, dataset length class, "
             "clock position class, outcome) situations" % smask_names(amask),
        samples=[dict(kind=s0["kind"], start=s0["start"], datasets=[(d["name"], len(d["quotes"])) for d in s0["datasets"]],
                      ops=s0["ops"][:8])],
        traces_validated_against_impl=len(scs), scenarios=len(scs),
        op_mix={k: sum(1 for sc in scs for o in sc["ops"] if o["op"] == k)
                for k in ("tick", "fetch", "now", "insert", "delete", "init", "new", "info")},
        situations=sorted("/".join(str(x) for x in k) for k in keys))
    if prop in ("C07", "C08", "C01") and not replay:
        cov.update(run_client_lockstep(res, prop, tier, seed, wd))
        cov["evaluations"] += cov["client_lockstep_requests"]
    if prop in ("C07", "C08", "C01") and (not replay or json.load(open(replay)).get("component") == "jura-client"):
        cov.update(run_jclient_lockstep(res, prop, tier, seed, wd, replay=replay))
        cov["evaluations"] += cov["jclient_lockstep_requests"]
    if extra:
        extra(cov)
    res.coverage.update(cov)
    return ob
