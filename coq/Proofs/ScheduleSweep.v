(* ScheduleSweep.v — the two complete sweeps of C19 (kept apart: they take a couple of minutes).
   Both run over ONE FULL PERIOD of the Gregorian calendar (400 years = 146 097 days = 20 871 weeks exactly,
   days 0 … 146 096 = 1970-01-01 … 2369-12-31); Proofs/ScheduleProofs.v lifts them to every day in Z by
   periodicity. *)
From Coq Require Import ZArith List Bool Lia.
From Alator Require Import Model.Schedule.
Import ListNotations.
Local Open Scope Z_scope.

Definition lbd_look_day (d i : Z) : bool :=
  if is_weekend (d + i) then true
  else if month_of (d + i) =? month_of d then false else true.

Definition lbd_should_trade_day (d : Z) : bool :=
  if dom_of d <? 21 then false
  else if is_weekend d then false
  else lbd_look_day d 1 && lbd_look_day d 2 && lbd_look_day d 3.

(* Complete sweeps over one calendar period, evaluated by the kernel's VM. The calendar walk covers one more
   day than the period so that every day of the period also has its successor checked. *)
Lemma calendar_sweep :
  calendar_agrees (Z.to_nat (cycle_days + 1)) 0 (1970, 1, 1) = true.
Proof. vm_cast_no_check (eq_refl true). Qed.

Lemma spec_sweep :
  forallb (fun d => Bool.eqb (lbd_should_trade_day d) (spec_last_business_day d))
    (zrange (Z.to_nat cycle_days) 0) = true.
Proof. vm_cast_no_check (eq_refl true). Qed.
