(* C05, second sentence, as ONE theorem about the composition broker + eager client + Uist server + Uist exchange for an ARBITRARY client of the broker (Model/BrokerSys.v: deposits, withdrawals, liquidations, orders of all six types, checks, in any order). `outstanding y` are this broker's orders the exchange still holds (resting book, then buffer); `signed_outstanding y s` their signed quantity for symbol s. [R]. *)
From Coq Require Import ZArith NArith List Bool String Reals Floats.
From Flocq Require Import Raux.
From Alator Require Import Model.Num Model.Quirks Model.Cost Model.Exchange Model.Uist Model.Server Model.Broker
  Model.Strategy Model.BrokerSys Proofs.ServerProofs Proofs.ExchangeProofs Proofs.BrokerLedgerProofs Proofs.EndToEnd05
  Proofs.EndToEnd04 Proofs.EndToEndExamples.
Import ListNotations.
Local Existing Instance RNum.

(* One operation preserves the system invariant: pending(s) = signed quantity of the orders the exchange still holds for s, keys unique, and no entry at all for a symbol with no outstanding order. *)
Theorem c05s_step :
  forall (y : bsys R) (o : bsop R) (y' : bsys R),
         bs_inv y -> bs_step clean y o = Ok y' -> bs_inv y'.
Proof. exact @bs_step_inv. Qed.

(* … hence every history does. *)
Theorem c05s_pending_end_to_end :
  forall (y0 : bsys R) (ops : list (bsop R)) (y' : bsys R),
         bs_inv y0 -> bs_run clean y0 ops = Ok y' -> bs_inv y'.
Proof. exact @c05_pending_end_to_end. Qed.

(* END TO END from a fresh backtest and a broker with no pending exposure, every history: pending exposure per symbol equals the signed quantity of accepted but not yet filled orders, and the map is EMPTY as soon as the exchange holds none of this broker's orders. (Premise rows_total: every date of the dataset has a row — proved of every Penelope dataset, c07_dataset_row_iff_date.) *)
Theorem c05s_pending_from_fresh :
  forall (a : uapp) (id : N) (b : backtest (uexch R)) (d : dataset (quotes (quote R)))
           (brk : broker R) (ops : list (bsop R)) (y' : bsys R),
         SInv a ->
         nlookup (backtests a) id = Some b ->
         slookup (datasets a) (bt_dataset b) = Some d ->
         clock_ok d b 0 ->
         bt_exch b = exch_init ->
         rows_total d ->
         b_pending brk = [] ->
         bs_run clean {| bs_brkr := brk; bs_app := a; bs_id := id |} ops = Ok y' ->
         (forall s : string, pend (bs_brkr y') s = signed_outstanding y' s) /\
         (outstanding y' = [] -> b_pending (bs_brkr y') = []).
Proof. exact @c05_pending_from_fresh. Qed.

(* First sentence, END TO END: from a fresh start, after every history the broker's trade log IS the exchange's own trade log of its backtest — exactly those trades, in execution order. *)
Theorem c05s_log_is_exchange_log :
  forall (a : uapp) (id : N) (b : backtest (uexch R)) (d : dataset (quotes (quote R)))
           (brk : broker R) (ops : list (bsop R)) (y' : bsys R),
         SInv a ->
         nlookup (backtests a) id = Some b ->
         slookup (datasets a) (bt_dataset b) = Some d ->
         clock_ok d b 0 ->
         bt_exch b = exch_init ->
         rows_total d ->
         b_log brk = [] ->
         bs_run clean {| bs_brkr := brk; bs_app := a; bs_id := id |} ops = Ok y' ->
         exists b' : backtest (uexch R),
           nlookup (backtests (bs_app y')) (bs_id y') = Some b' /\
           b_log (bs_brkr y') = xlog (bt_exch b').
Proof. exact @c05_log_is_exchange_log. Qed.

(* … and holdings per symbol equal bought minus sold over the trades the exchange executed (its own log), no zero entry, keys unique. *)
Theorem c05s_holdings_from_exchange_log :
  forall (a : uapp) (id : N) (b : backtest (uexch R)) (d : dataset (quotes (quote R)))
           (brk : broker R) (ops : list (bsop R)) (y' : bsys R),
         SInv a ->
         nlookup (backtests a) id = Some b ->
         slookup (datasets a) (bt_dataset b) = Some d ->
         clock_ok d b 0 ->
         bt_exch b = exch_init ->
         rows_total d ->
         b_holdings brk = [] ->
         bs_run clean {| bs_brkr := brk; bs_app := a; bs_id := id |} ops = Ok y' ->
         exists b' : backtest (uexch R),
           nlookup (backtests (bs_app y')) (bs_id y') = Some b' /\
           (forall s : string,
            hget (b_holdings (bs_brkr y')) s = sumR (signed_qty s) (xlog (bt_exch b'))) /\
           no_zero (b_holdings (bs_brkr y')) /\ keys_nodup (b_holdings (bs_brkr y')).
Proof. exact @c05_holdings_from_exchange_log. Qed.

(* Non-vacuity, kernel-evaluated at the IEEE instance: a fresh backtest over a Penelope-loaded dataset, a deposit, two offsetting resting limit orders and a market buy, two checks — pending nets to +3 with three orders outstanding, then 0 with the entry gone while two still rest; the trade is in both logs. *)
Theorem c05s_example :
  @bind (bsys float) (smap float * nat) (@bs_run float FNx clean ex_b0 ex_ops1)
           (fun y : bsys float =>
            @Ok (smap float * nat)
              (pend_of y, @Datatypes.length (uorder float) (@outstanding float y))) =
         @Ok (list (string * float) * nat) ([("BCD", 3%float)], 3) /\
         @bind (bsys float) (smap float * list (otype * float) * smap float * float * nat * nat)
           (@bs_run float FNx clean ex_b0
              (ex_ops1 ++ [@BSCheck float [1; 0; 2] []; @BSCheck float [] ["BCD"]]))
           (fun y : bsys float =>
            @Ok (smap float * list (otype * float) * smap float * float * nat * nat)
              (pend_of y, out_of y, @b_holdings float (@bs_brkr float y),
               @b_cash float (@bs_brkr float y),
               @Datatypes.length (trade float) (@b_log float (@bs_brkr float y)),
               match
                 @nlookup (backtest (uexch float))
                   (@backtests (uexch float) (quotes (quote float)) (@bs_app float y)) 0
               with
               | Some b =>
                   @Datatypes.length (trade float)
                     (@xlog (uorder float) (trade float) (@bt_exch (uexch float) b))
               | None => 99
               end)) =
         @Ok
           (list (string * float) * list (otype * float) * list (string * float) * float * nat *
            nat)
           ([], [(LimitSell, 10%float); (LimitBuy, 10%float)], [("BCD", 3%float)], 9970%float, 1,
            1).
Proof. exact @c05_pending_observed_at_floats. Qed.

(* holdings-with-pending is holdings plus that signed quantity, and just the holdings for a symbol with nothing outstanding. *)
Theorem c05s_with_pending :
  forall (y : bsys R) (s : string),
         bs_inv y ->
         holdings_with_pending (bs_brkr y) s =
         match sget (b_holdings (bs_brkr y)) s with
         | Some _ => Some (hget (b_holdings (bs_brkr y)) s + signed_outstanding y s)%R
         | None =>
             match sget (b_pending (bs_brkr y)) s with
             | Some _ => Some (hget (b_holdings (bs_brkr y)) s + signed_outstanding y s)%R
             | None => None
             end
         end /\
         ((forall o : uorder R, In o (outstanding y) -> uo_symbol o <> s) ->
          holdings_with_pending (bs_brkr y) s = sget (b_holdings (bs_brkr y)) s).
Proof. exact @c05_with_pending_end_to_end. Qed.

Print Assumptions c05s_step.
Print Assumptions c05s_pending_end_to_end.
Print Assumptions c05s_pending_from_fresh.
Print Assumptions c05s_log_is_exchange_log.
Print Assumptions c05s_holdings_from_exchange_log.
Print Assumptions c05s_example.
Print Assumptions c05s_with_pending.
