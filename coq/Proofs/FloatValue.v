(* FloatValue.v — C11 (valuation) at the IEEE binary64 instance for whole-unit data: integer cash, integer bids,
   whole-share long positions, per-share and flat costs with non-negative integer parameters, everything below
   2^53. No rounding gap: every float computed is the float of an integer.
   Layout: (V1) [position_value_float]: quantity x last seen bid, exactly; a symbol that is not held has no value.
   (V2) [total_value_float]: cash + the worth of the positions for every iteration order; two orders give the same
   float, bit for bit [total_value_order_float]. (V3) [trade_impact_total_fst_any]: for per-share and flat costs
   the budget component only loses the flat fees, for ANY float price (the price pv / qty fed by
   [position_liquidation_value] is not integral in general); [position_liquidation_value_float],
   [liquidation_value_costs_float], [liquidation_le_total_float]: liquidation value <= total value, as integers
   and as the float comparison, equal exactly when no flat fee is charged on a held position.
   (V4) a kernel-evaluated example, with the theorems instantiated at it. Corollaries of FloatLiq.v, FloatCost.v. *)
From Coq Require Import ZArith NArith List Bool String Floats Reals Lra Lia Permutation.
From Flocq Require Import IEEE754.BinarySingleNaN IEEE754.PrimFloat.
From Alator Require Import Model.Num Model.Quirks Model.Cost Model.Exchange Model.Uist Model.Broker.
From Alator Require Import Proofs.BrokerLedgerProofs Proofs.BrokerLiqProofs Proofs.FloatExact Proofs.FloatCash
  Proofs.FloatWorth Proofs.FloatLiq Proofs.FloatFailed Proofs.FloatCost.
Import ListNotations.

Section AtFloatValue.
Context (tbl : libm_table).
Let NFl : Num float := FloatNum tbl.
Local Existing Instance NFl.
Local Open Scope num_scope.

(* the whole-unit last seen bid of each symbol *)
Variable zb : string -> Z.

(* ------------------------------------------------------------------------------------------- *)
(* (V1) a position is valued at quantity x the last seen bid                                     *)

Theorem position_value_float (b : broker float) zh s q :
  lrel zb b zh -> sget zh s = Some q ->
  exists v, position_value b s = Some v /\ int_float v (q * zb s).
Proof.
  intros W G. destruct (position_value_lrel tbl zb b zh s q W G) as (pv & E & Hpv).
  exists pv. split; [exact E |]. rewrite Z.mul_comm. exact Hpv.
Qed.

(* a symbol that is not held has no value *)
Lemma position_value_unheld (b : broker float) zh s :
  lrel zb b zh -> sget zh s = None -> position_value b s = None /\ position_liquidation_value b s = None.
Proof.
  intros [Hh _] G. pose proof (hrel_sget _ _ s Hh) as Gs. rewrite G in Gs.
  assert (E : position_value b s = None).
  { unfold position_value, position_qty.
    destruct (sget (b_holdings b) s); [contradiction |]. destruct (sget (b_quotes b) s); reflexivity. }
  split; [exact E |]. unfold position_liquidation_value. rewrite E. reflexivity.
Qed.

(* ------------------------------------------------------------------------------------------- *)
(* (V2) total value = cash + sum of the position values, for every iteration order               *)

Theorem total_value_float (b : broker float) zh zc ord :
  lrel zb b zh -> NoDup (map fst zh) -> int_float (b_cash b) zc -> is_order_of ord (b_holdings b) = true ->
  (Z.abs zc + zhsum zb zh < 2 ^ 53)%Z ->
  int_float (total_value b ord) (zc + zhsum zb zh).
Proof.
  intros W ND Hc Ho B. exact (proj1 (total_value_lrel tbl zb b zh zc ord W ND Hc Ho B)).
Qed.

(* the running sum is not -0 once a position has been added (a position is worth at least one unit), or when
   the starting value is not -0 *)
Lemma total_value_fold_poszero (b : broker float) zh : lrel zb b zh -> forall l v z, int_float v z ->
  (forall a, In a l -> sget zh a <> None) ->
  (Z.abs z + zpos_sum zb zh l < 2 ^ 53)%Z ->
  (poszero v \/ l <> []) ->
  poszero (fold_left (fun v a => match position_value b a with Some pv => v + pv | None => v end) l v).
Proof.
  intros W. induction l as [| a l IH]; intros v z Hv Hin B D; cbn [fold_left zpos_sum fold_right] in *.
  - destruct D as [D | D]; [exact D | congruence].
  - fold (zpos_sum zb zh l) in *. pose proof (zpos_sum_nonneg zb zh l (lrel_zlong zb b zh W)) as N.
    destruct (sget zh a) as [q |] eqn:G; [| exfalso; exact (Hin a (or_introl eq_refl) G)].
    destruct (position_value_lrel tbl zb b zh a q W G) as (pv & E & Hpv).
    destruct (proj2 W a q G) as (Q0 & B1 & _).
    unfold zcur in *. rewrite G in *.
    assert (Ppv : poszero pv).
    { intros R0. exfalso. rewrite (proj2 Hpv) in R0. apply (eq_IZR _ 0) in R0. nia. }
    replace (position_value b a) with (Some pv).
    apply (IH _ (z + zb a * q)%Z).
    + change (@fadd float NFl) with PrimFloat.add. apply add_int_exact_strong; [exact Hv | exact Hpv |]. nia.
    + intros x Hx. apply Hin. right. exact Hx.
    + nia.
    + left. change (@fadd float NFl) with PrimFloat.add.
      apply (add_int_poszero v pv z (zb a * q)); [exact Hv | exact Hpv | nia | exact Ppv].
Qed.

(* two iteration orders give the same float: [==] and, bit for bit, [=] *)
Theorem total_value_order_float (b : broker float) zh zc ord1 ord2 :
  lrel zb b zh -> NoDup (map fst zh) -> int_float (b_cash b) zc ->
  is_order_of ord1 (b_holdings b) = true -> is_order_of ord2 (b_holdings b) = true ->
  (Z.abs zc + zhsum zb zh < 2 ^ 53)%Z ->
  PrimFloat.eqb (total_value b ord1) (total_value b ord2) = true /\
  total_value b ord1 = total_value b ord2.
Proof.
  intros W ND Hc Ho1 Ho2 B.
  pose proof (total_value_float b zh zc ord1 W ND Hc Ho1 B) as T1.
  pose proof (total_value_float b zh zc ord2 W ND Hc Ho2 B) as T2.
  split; [rewrite (int_float_eqb _ _ _ _ T1 T2); apply Z.eqb_refl |].
  pose proof W as [Hh _].
  assert (Pm : forall ord, is_order_of ord (b_holdings b) = true -> Permutation ord (map fst zh)).
  { intros ord Ho. rewrite <- (hrel_keys _ _ Hh). apply is_order_of_perm; [| exact Ho].
    rewrite (hrel_keys _ _ Hh). exact ND. }
  destruct zh as [| kv zh'] eqn:Ezh.
  - (* no holdings: both orders are empty *)
    pose proof (Permutation_nil (Permutation_sym (Pm ord1 Ho1))) as E1.
    pose proof (Permutation_nil (Permutation_sym (Pm ord2 Ho2))) as E2.
    cbn [map] in E1, E2. rewrite E1, E2. reflexivity.
  - rewrite <- Ezh in *.
    assert (Pz : forall ord, is_order_of ord (b_holdings b) = true -> poszero (total_value b ord)).
    { intros ord Ho. unfold total_value.
      apply (total_value_fold_poszero b zh W ord (b_cash b) zc Hc).
      - intros a Ha. destruct (in_keys_sget zh a (Permutation_in _ (Pm ord Ho) Ha)) as [v Gv]. congruence.
      - rewrite (zpos_sum_perm zb zh _ _ (Pm ord Ho)), (zpos_sum_keys zb zh ND). exact B.
      - right. intros En. pose proof (Permutation_length (Pm ord Ho)) as L.
        rewrite En, Ezh in L. cbn in L. discriminate. }
    assert (Bw : (Z.abs (zc + zhsum zb zh) < 2 ^ 53)%Z).
    { assert (0 <= zhsum zb zh)%Z; [| lia].
      rewrite <- (zpos_sum_keys zb zh ND). apply zpos_sum_nonneg, (lrel_zlong zb b zh W). }
    rewrite (int_float_bits _ _ T1 Bw (Pz ord1 Ho1)), (int_float_bits _ _ T2 Bw (Pz ord2 Ho2)). reflexivity.
Qed.

(* ------------------------------------------------------------------------------------------- *)
(* (V3) liquidation value                                                                         *)

(* per-share and flat costs: the budget component only loses the flat fees — for ANY float price (finite or
   not, integral or not) and either direction *)
Lemma trade_impact_total_fst_any is_buy cs zcs : Forall2 cost_reads cs zcs ->
  forall (budget price : float) zbu, int_float budget zbu ->
  (zbu < 2 ^ 53)%Z -> (- 2 ^ 53 < zbu - zsum_flat zcs)%Z ->
  int_float (fst (trade_impact_total cs budget price is_buy)) (zbu - zsum_flat zcs).
Proof.
  unfold trade_impact_total.
  induction 1 as [| c zc cs zcs Hc Hcs IH]; intros budget price zbu Hb B1 B2;
    cbn [fold_left zsum_flat fold_right fst snd] in *.
  - replace (zbu - 0)%Z with zbu by lia. exact Hb.
  - fold (zsum_flat zcs) in *. destruct (zsums_nonneg cs zcs Hcs) as [_ Sf].
    destruct c as [v | p | v], zc as [z | z | z]; cbn [cost_reads] in Hc; try contradiction;
      destruct Hc as [Hv Hz]; cbn [trade_impact zc_flat fst snd] in *.
    + (* per share: the budget is not touched *)
      replace (zbu - (0 + zsum_flat zcs))%Z with (zbu - zsum_flat zcs)%Z in * by lia.
      apply IH; assumption.
    + (* flat *)
      replace (zbu - (z + zsum_flat zcs))%Z with ((zbu - z) - zsum_flat zcs)%Z in * by lia.
      apply IH; try lia.
      change (@fsub float NFl) with PrimFloat.sub. apply sub_int_exact_strong; [exact Hb | exact Hv | lia].
Qed.

(* a held position liquidates for quantity x bid minus the flat fees *)
Theorem position_liquidation_value_float (b : broker float) zh zcs s q :
  lrel zb b zh -> Forall2 cost_reads (b_costs b) zcs -> sget zh s = Some q ->
  (zsum_flat zcs <= 2 ^ 53)%Z ->
  exists v, position_liquidation_value b s = Some v /\ int_float v (q * zb s - zsum_flat zcs).
Proof.
  intros W Hk G Bf. destruct (position_value_lrel tbl zb b zh s q W G) as (pv & E & Hpv).
  destruct (proj2 W s q G) as (Q0 & B1 & Bv & _).
  pose proof (hrel_sget _ _ s (proj1 W)) as Gs. rewrite G in Gs.
  unfold position_liquidation_value, position_qty.
  replace (position_value b s) with (Some pv).
  destruct (sget (b_holdings b) s) as [x |]; [| contradiction].
  eexists. split; [reflexivity |].
  replace (q * zb s)%Z with (zb s * q)%Z by lia.
  apply trade_impact_total_fst_any; [exact Hk | exact Hpv | exact Bv | nia].
Qed.

(* the integer liquidation worth of the holdings: each position loses the flat fees [zf] *)
Definition zliqsum (zf : Z) (zh : smap Z) : Z :=
  fold_right (fun kv acc => (snd kv * zb (fst kv) - zf + acc)%Z) 0%Z zh.

Lemma zliqsum_eq zf zh : zliqsum zf zh = (zhsum zb zh - Z.of_nat (List.length zh) * zf)%Z.
Proof.
  induction zh as [| [k v] m IH]; cbn [zliqsum zhsum fold_right List.length fst snd]; [lia |].
  fold (zliqsum zf m). fold (zhsum zb m). rewrite IH, Nat2Z.inj_succ. lia.
Qed.

Lemma liquidation_value_fold (b : broker float) zh zcs : lrel zb b zh -> Forall2 cost_reads (b_costs b) zcs ->
  forall l v z, int_float v z -> (forall a, In a l -> sget zh a <> None) ->
  (Z.abs z + zpos_sum zb zh l + Z.of_nat (List.length l) * zsum_flat zcs < 2 ^ 53)%Z ->
  int_float (fold_left (fun v a => match position_liquidation_value b a with Some pv => v + pv | None => v end) l v)
            (z + zsumk (fun a => zcur zh a * zb a - zsum_flat zcs) l)%Z.
Proof.
  intros W Hk. destruct (zsums_nonneg _ _ Hk) as [_ Sf].
  induction l as [| a l IH]; intros v z Hv Hin B; cbn [fold_left zsumk fold_right zpos_sum List.length] in *.
  - replace (z + 0)%Z with z by lia. exact Hv.
  - fold (zpos_sum zb zh l) in *. fold (zsumk (fun a => (zcur zh a * zb a - zsum_flat zcs)%Z) l).
    pose proof (zpos_sum_nonneg zb zh l (lrel_zlong zb b zh W)) as N.
    rewrite Nat2Z.inj_succ, Z.mul_succ_l in B.
    assert (NL : (0 <= Z.of_nat (List.length l) * zsum_flat zcs)%Z) by nia.
    destruct (sget zh a) as [q |] eqn:G; [| exfalso; exact (Hin a (or_introl eq_refl) G)].
    destruct (proj2 W a q G) as (Q0 & B1 & _).
    assert (Ec : zcur zh a = q) by (unfold zcur; rewrite G; reflexivity). rewrite Ec in B |- *.
    destruct (position_liquidation_value_float b zh zcs a q W Hk G ltac:(nia)) as (pv & E & Hpv).
    replace (position_liquidation_value b a) with (Some pv).
    replace (z + (q * zb a - zsum_flat zcs + zsumk (fun a0 => zcur zh a0 * zb a0 - zsum_flat zcs) l))%Z
      with ((z + (q * zb a - zsum_flat zcs)) + zsumk (fun a0 => zcur zh a0 * zb a0 - zsum_flat zcs) l)%Z by lia.
    apply IH.
    + change (@fadd float NFl) with PrimFloat.add. apply add_int_exact_strong; [exact Hv | exact Hpv |]. nia.
    + intros x Hx. apply Hin. right. exact Hx.
    + nia.
Qed.

(* liquidation value = cash + sum over the positions of (quantity x bid - flat fees), every iteration order *)
Theorem liquidation_value_costs_float (b : broker float) zh zc zcs ord :
  lrel zb b zh -> NoDup (map fst zh) -> Forall2 cost_reads (b_costs b) zcs ->
  int_float (b_cash b) zc -> is_order_of ord (b_holdings b) = true ->
  (Z.abs zc + zhsum zb zh + Z.of_nat (List.length zh) * zsum_flat zcs < 2 ^ 53)%Z ->
  int_float (liquidation_value b ord) (zc + zliqsum (zsum_flat zcs) zh).
Proof.
  intros W ND Hk Hc Ho B. pose proof W as [Hh _].
  assert (Pm : Permutation ord (map fst zh)).
  { rewrite <- (hrel_keys _ _ Hh). apply is_order_of_perm; [| exact Ho]. rewrite (hrel_keys _ _ Hh). exact ND. }
  unfold liquidation_value, zliqsum.
  rewrite <- (zsumk_keys (fun v k => (v * zb k - zsum_flat zcs)%Z) zh ND), <- (zsumk_perm _ _ _ Pm).
  apply (liquidation_value_fold b zh zcs W Hk); [exact Hc | |].
  - intros a Ha. destruct (in_keys_sget zh a (Permutation_in _ Pm Ha)) as [v Gv]. congruence.
  - rewrite (zpos_sum_perm zb zh _ _ Pm), (zpos_sum_keys zb zh ND), (Permutation_length Pm), map_length. exact B.
Qed.

(* (V3) liquidation value never exceeds total value; they are equal when no flat fee is charged (in particular
   without costs, and with per-share costs only: the per-share costs move the price component, which the
   liquidation value does not use); strictly less when a flat fee is charged on a held position *)
Theorem liquidation_le_total_float (b : broker float) zh zc zcs ord :
  lrel zb b zh -> NoDup (map fst zh) -> Forall2 cost_reads (b_costs b) zcs ->
  int_float (b_cash b) zc -> is_order_of ord (b_holdings b) = true ->
  (Z.abs zc + zhsum zb zh + Z.of_nat (List.length zh) * zsum_flat zcs < 2 ^ 53)%Z ->
  let zf := zsum_flat zcs in
  let zliq := (zc + zliqsum zf zh)%Z in
  let ztot := (zc + zhsum zb zh)%Z in
  (* every held position liquidates for quantity x bid - flat fees *)
  (forall s q, sget zh s = Some q ->
     exists v, position_liquidation_value b s = Some v /\ int_float v (q * zb s - zf)) /\
  int_float (liquidation_value b ord) zliq /\
  int_float (total_value b ord) ztot /\
  zliq = (ztot - Z.of_nat (List.length zh) * zf)%Z /\
  (zliq <= ztot)%Z /\
  PrimFloat.leb (liquidation_value b ord) (total_value b ord) = true /\
  (* equality *)
  (b_costs b = [] -> zf = 0%Z) /\
  (zf = 0%Z \/ zh = [] ->
     zliq = ztot /\ PrimFloat.eqb (liquidation_value b ord) (total_value b ord) = true) /\
  (* strictness *)
  ((0 < zf)%Z -> zh <> [] ->
     (zliq < ztot)%Z /\ PrimFloat.ltb (liquidation_value b ord) (total_value b ord) = true).
Proof.
  intros W ND Hk Hc Ho B zf zliq ztot. destruct (zsums_nonneg _ _ Hk) as [_ Sf]. fold zf in Sf, B.
  assert (NL : (0 <= Z.of_nat (List.length zh) * zf)%Z) by nia.
  assert (Bt : (Z.abs zc + zhsum zb zh < 2 ^ 53)%Z) by lia.
  pose proof (liquidation_value_costs_float b zh zc zcs ord W ND Hk Hc Ho B) as L. fold zf zliq in L.
  pose proof (total_value_float b zh zc ord W ND Hc Ho Bt) as T. fold ztot in T.
  assert (E : zliq = (ztot - Z.of_nat (List.length zh) * zf)%Z).
  { unfold zliq, ztot. rewrite zliqsum_eq. lia. }
  split.
  { intros s q G. apply (position_liquidation_value_float b zh zcs s q W Hk G). fold zf.
    destruct zh as [| kv m]; [discriminate |]. cbn [List.length] in B. rewrite Nat2Z.inj_succ in B.
    assert (0 <= zhsum zb (kv :: m))%Z; [| nia].
    rewrite <- (zpos_sum_keys zb _ ND). apply zpos_sum_nonneg, (lrel_zlong zb b _ W). }
  split; [exact L |]. split; [exact T |]. split; [exact E |]. split; [lia |].
  split; [rewrite (int_float_leb _ _ _ _ L T); apply Z.leb_le; lia |].
  split.
  { intros Ek. rewrite Ek in Hk. inversion Hk; subst. reflexivity. }
  split.
  - intros D. assert (E0 : zliq = ztot).
    { destruct D as [D | D]; [rewrite D in E; lia |]. rewrite D in E. cbn [List.length] in E. lia. }
    split; [exact E0 |]. rewrite (int_float_eqb _ _ _ _ L T). apply Z.eqb_eq. exact E0.
  - intros Pf Nz. assert (Lt : (zliq < ztot)%Z).
    { destruct zh as [| kv m]; [congruence |]. cbn [List.length] in E. rewrite Nat2Z.inj_succ in E. nia. }
    split; [exact Lt |]. rewrite (int_float_ltb _ _ _ _ L T). apply Z.ltb_lt. exact Lt.
Qed.

(* without trade costs: liquidation value = total value *)
Corollary liquidation_eq_total_nocosts_float (b : broker float) zh zc ord :
  lrel zb b zh -> NoDup (map fst zh) -> b_costs b = [] ->
  int_float (b_cash b) zc -> is_order_of ord (b_holdings b) = true ->
  (Z.abs zc + zhsum zb zh < 2 ^ 53)%Z ->
  int_float (liquidation_value b ord) (zc + zhsum zb zh) /\
  int_float (total_value b ord) (zc + zhsum zb zh) /\
  PrimFloat.eqb (liquidation_value b ord) (total_value b ord) = true /\
  liquidation_value b ord = total_value b ord.
Proof.
  intros W ND Ek Hc Ho B.
  pose proof (liquidation_value_float tbl zb b zh zc ord W ND Ek Hc Ho B) as L.
  pose proof (total_value_float b zh zc ord W ND Hc Ho B) as T.
  split; [exact L |]. split; [exact T |].
  split; [exact (eq_trans (int_float_eqb _ _ _ _ L T) (Z.eqb_refl _)) |].
  exact (liq_eq_total_nocosts b ord Ek).
Qed.

End AtFloatValue.

(* ------------------------------------------------------------------------------------------- *)
(* (V4) non-vacuity, evaluated by the kernel                                                      *)

(* cash 165, ABC 5 @ bid 100, BCD 30 @ bid 10, costs [Flat 5; PerShare 1] *)
Definition exv_b : broker float :=
  mkBroker 165%float [("ABC"%string, 5%float); ("BCD"%string, 30%float)] []
           [("ABC"%string, exl_q "ABC" 100%float); ("BCD"%string, exl_q "BCD" 10%float)] []
           [Flat 5%float; PerShare 1%float] false.
Definition exv_zcs : list (cost Z) := [Flat 5%Z; PerShare 1%Z].
Definition exv_ord' : list string := ["BCD"%string; "ABC"%string].

(* the float run: position values 500 and 300, liquidation 495 and 295, total 965, liquidation 955, both orders *)
Example exv_run :
  position_value (NF := FloatNum []) exv_b "ABC" = Some 500%float /\
  position_value (NF := FloatNum []) exv_b "BCD" = Some 300%float /\
  position_value (NF := FloatNum []) exv_b "XYZ" = None /\
  position_liquidation_value (NF := FloatNum []) exv_b "ABC" = Some 495%float /\
  position_liquidation_value (NF := FloatNum []) exv_b "BCD" = Some 295%float /\
  total_value (NF := FloatNum []) exv_b exl_ord = 965%float /\
  total_value (NF := FloatNum []) exv_b exv_ord' = 965%float /\
  liquidation_value (NF := FloatNum []) exv_b exl_ord = 955%float /\
  liquidation_value (NF := FloatNum []) exv_b exv_ord' = 955%float /\
  PrimFloat.leb (liquidation_value (NF := FloatNum []) exv_b exl_ord)
                (total_value (NF := FloatNum []) exv_b exl_ord) = true.
Proof. vm_compute. repeat split; reflexivity. Qed.

(* the integer side *)
Example exv_zrun :
  zhsum exl_zb exl_zh = 800%Z /\ zsum_flat exv_zcs = 5%Z /\
  (165 + zhsum exl_zb exl_zh = 965)%Z /\ (165 + zliqsum exl_zb (zsum_flat exv_zcs) exl_zh = 955)%Z.
Proof. vm_compute. repeat split; reflexivity. Qed.

(* the premises of the theorems hold at the example *)
Example exv_lrel : lrel exl_zb exv_b exl_zh.
Proof. apply (lrel_frame exl_zb exl_b); [reflexivity | reflexivity | exact exl_lrel]. Qed.

Example exv_reads : Forall2 cost_reads (b_costs exv_b) exv_zcs.
Proof.
  constructor; [split; [exact (int_float_ofZ 5 eq_refl) | lia] |].
  constructor; [split; [exact int_float_one | lia] | constructor].
Qed.

Example exv_nodup : NoDup (map fst exl_zh).
Proof.
  constructor; [intros [H | []]; discriminate |]. constructor; [intros [] | constructor].
Qed.

(* (V3) at the example: its conclusion, with the integer side computed *)
Example exv_theorem_instance :
  int_float (liquidation_value (NF := FloatNum []) exv_b exl_ord) 955 /\
  int_float (total_value (NF := FloatNum []) exv_b exl_ord) 965 /\
  PrimFloat.leb (liquidation_value (NF := FloatNum []) exv_b exl_ord)
                (total_value (NF := FloatNum []) exv_b exl_ord) = true /\
  PrimFloat.ltb (liquidation_value (NF := FloatNum []) exv_b exl_ord)
                (total_value (NF := FloatNum []) exv_b exl_ord) = true /\
  total_value (NF := FloatNum []) exv_b exl_ord = total_value (NF := FloatNum []) exv_b exv_ord'.
Proof.
  pose proof (liquidation_le_total_float [] exl_zb exv_b exl_zh 165 exv_zcs exl_ord
                exv_lrel exv_nodup exv_reads (int_float_ofZ 165 eq_refl) eq_refl
                ltac:(vm_compute; reflexivity)) as H.
  cbv zeta in H.
  replace (zsum_flat exv_zcs) with 5%Z in H by reflexivity.
  replace (165 + zliqsum exl_zb 5 exl_zh)%Z with 955%Z in H by (vm_compute; reflexivity).
  replace (165 + zhsum exl_zb exl_zh)%Z with 965%Z in H by (vm_compute; reflexivity).
  destruct H as (_ & H1 & H2 & _ & _ & H3 & _ & _ & H4).
  split; [exact H1 |]. split; [exact H2 |]. split; [exact H3 |].
  split; [apply H4; [lia | discriminate] |].
  apply (total_value_order_float [] exl_zb exv_b exl_zh 165 exl_ord exv_ord'
           exv_lrel exv_nodup (int_float_ofZ 165 eq_refl) eq_refl eq_refl ltac:(vm_compute; reflexivity)).
Qed.

(* the price argument is not used by the budget component: an integral price, a fractional one (the binary64
   number nearest 0.1) and NaN give the same net budget 500 - 5; only the price component moves (100 - 1) *)
Example exv_price_not_used :
  fst (trade_impact_total (NF := FloatNum []) [Flat 5%float; PerShare 1%float] 500%float 100%float false) = 495%float /\
  fst (trade_impact_total (NF := FloatNum []) [Flat 5%float; PerShare 1%float] 500%float 0x1.999999999999ap-4%float false) = 495%float /\
  fst (trade_impact_total (NF := FloatNum []) [Flat 5%float; PerShare 1%float] 500%float nan false) = 495%float /\
  snd (trade_impact_total (NF := FloatNum []) [Flat 5%float; PerShare 1%float] 500%float 100%float false) = 99%float.
Proof. vm_compute. repeat split; reflexivity. Qed.

Print Assumptions position_value_float.
Print Assumptions total_value_float.
Print Assumptions total_value_order_float.
Print Assumptions trade_impact_total_fst_any.
Print Assumptions position_liquidation_value_float.
Print Assumptions liquidation_value_costs_float.
Print Assumptions liquidation_le_total_float.
Print Assumptions liquidation_eq_total_nocosts_float.
Print Assumptions exv_run.
Print Assumptions exv_theorem_instance.
