"""C12 — rebalancing orders. Theorems: Props/C12.v; slice: broker `diff` steps."""
import broker


def run(res, tier, seed, replay):
    return broker.run_property(res, "C12", tier, seed, replay, ["C12"])
