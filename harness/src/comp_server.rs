//! AppState of http/uist.rs and http/jura.rs, driven directly ("direct") or through the actix
//! handlers with real JSON bodies ("http"). A full snapshot of the AppState follows every step.
use crate::comp_exch::*;
use crate::util::*;
use actix_web::{test, web, App};
use rotala::http::jura as hj;
use rotala::http::uist as hu;
use rotala::input::penelope::Penelope;
use serde_json::{json, Value};
use std::collections::HashMap;
use std::sync::Mutex;

fn datasets_of(v: &Value) -> HashMap<String, Penelope> {
    let mut m = HashMap::new();
    for d in arr(v) {
        if let Some(raw) = d.get("raw") {
            // a dataset that arrives as JSON (Penelope derives Deserialize): the date list and the rows are given
            // separately, so a listed date may have no row — which add_quote can never produce
            let mut inner = serde_json::Map::new();
            for r in arr(&raw["rows"]) {
                let mut row = serde_json::Map::new();
                for q in arr(&r[1]) {
                    row.insert(s(&q[3]), json!({"bid": bf(&q[0]), "ask": bf(&q[1]), "symbol": s(&q[3]), "date": i(&q[2])}));
                }
                inner.insert(i(&r[0]).to_string(), Value::Object(row));
            }
            let p: Penelope = serde_json::from_value(json!({"dates": raw["dates"], "inner": Value::Object(inner)}))
                .expect("raw dataset");
            m.insert(s(&d["name"]), p);
            continue;
        }
        let mut p = Penelope::new();
        for q in arr(&d["quotes"]) {
            p.add_quote(bf(&q[0]), bf(&q[1]), i(&q[2]), s(&q[3]));
        }
        m.insert(s(&d["name"]), p);
    }
    m
}

/// what the code's own accessors say the dataset is: dates in order and rows by date
fn dataset_dump(p: &Penelope) -> Value {
    let mut dates = Vec::new();
    let mut pos = 0;
    while let Some(d) = p.get_date(pos) {
        dates.push(*d);
        pos += 1;
    }
    let mut rows = Vec::new();
    let mut seen = std::collections::HashSet::new();
    for d in &dates {
        if !seen.insert(*d) {
            continue;
        }
        if let Some(r) = p.get_quotes(d) {
            rows.push(json!({ "date": d, "row": row_json(r) }));
        }
    }
    json!({ "dates": dates, "rows": rows, "has_next_at_len": p.has_next(dates.len()), "has_next_before_len": dates.is_empty() || p.has_next(dates.len() - 1) })
}

pub fn row_json(r: &rotala::input::penelope::PenelopeQuoteByDate) -> Value {
    let mut v: Vec<Value> = r
        .iter()
        .map(|(k, q)| json!({ "key": k, "bid": fb(q.bid), "ask": fb(q.ask), "date": q.date, "symbol": q.symbol }))
        .collect();
    v.sort_by(|a, b| a["key"].as_str().unwrap().cmp(b["key"].as_str().unwrap()));
    Value::Array(v)
}

fn usnap(st: &hu::AppState) -> Value {
    let mut ids: Vec<&u64> = st.backtests.keys().collect();
    ids.sort();
    let bts: Vec<Value> = ids
        .iter()
        .map(|k| {
            let b = &st.backtests[k];
            json!({ "key": k, "id": b.id, "date": b.date, "pos": b.pos, "dataset": b.dataset_name, "exch": uist_snap(&b.exchange) })
        })
        .collect();
    json!({ "backtests": bts, "last": st.last })
}

fn jsnap(st: &hj::AppState) -> Value {
    let mut ids: Vec<&u64> = st.backtests.keys().collect();
    ids.sort();
    let bts: Vec<Value> = ids
        .iter()
        .map(|k| {
            let b = &st.backtests[k];
            json!({ "key": k, "id": b.id, "date": b.date, "pos": b.pos, "dataset": b.dataset_name, "exch": jura_snap(&b.exchange) })
        })
        .collect();
    json!({ "backtests": bts, "last": st.last })
}

/// a dataset name as one percent-encoded path segment (what a correct HTTP client sends for a name containing `/`, `%`,
/// `+`, spaces …); the route's extractor has to give the handler the decoded name back
fn path_segment(name: &str) -> String {
    percent_encoding::utf8_percent_encode(name, percent_encoding::NON_ALPHANUMERIC).to_string()
}

fn some_or_null(v: Option<Value>) -> Value {
    match v {
        Some(x) => json!({ "some": x }),
        None => json!({ "none": true }),
    }
}

// ---------------------------------------------------------------------------------------------
// Uist

fn u_tick_json(has_next: bool, trades: &[rotala::exchange::uist_v1::Trade], orders: &[rotala::exchange::uist_v1::Order]) -> Value {
    json!({ "has_next": has_next,
            "trades": trades.iter().map(uist_trade_json).collect::<Vec<_>>(),
            "admitted": orders.iter().map(uist_order_json).collect::<Vec<_>>() })
}

fn uist_direct(st: &Mutex<hu::AppState>, op: &Value) -> Value {
    let mut a = st.lock().unwrap();
    match s(&op["op"]).as_str() {
        "tick" => some_or_null(a.tick(u(&op["id"])).map(|r| u_tick_json(r.0, &r.1, &r.2))),
        "fetch" => some_or_null(a.fetch_quotes(u(&op["id"])).map(row_json)),
        "init" => some_or_null(a.init(s(&op["name"])).map(Value::from)),
        "new" => some_or_null(a.new_backtest(&s(&op["name"])).map(Value::from)),
        "insert" => some_or_null(a.insert_order(uist_order_of(&op["order"]), u(&op["id"])).map(|_| Value::Null)),
        "delete" => some_or_null(a.delete_order(u(&op["order_id"]), u(&op["id"])).map(|_| Value::Null)),
        "info" => some_or_null(a.backtests.get(&u(&op["id"])).map(|b| json!({"version": "v1", "dataset": b.dataset_name}))),
        _ => panic!("bad op"),
    }
}

async fn uist_http<S, B>(app: &S, op: &Value) -> Value
where
    S: actix_web::dev::Service<actix_http::Request, Response = actix_web::dev::ServiceResponse<B>, Error = actix_web::Error>,
    B: actix_web::body::MessageBody,
{
    use hu::uistv1_server::*;
    let o = s(&op["op"]);
    let req_text: Value = match o.as_str() {
        "insert" => Value::from(serde_json::to_string(&InsertOrderRequest { order: uist_order_of(&op["order"]) }).unwrap()),
        "delete" => Value::from(serde_json::to_string(&DeleteOrderRequest { order_id: u(&op["order_id"]) }).unwrap()),
        _ => Value::Null,
    };
    let req = match o.as_str() {
        "tick" => test::TestRequest::get().uri(&format!("/backtest/{}/tick", u(&op["id"]))),
        "fetch" => test::TestRequest::get().uri(&format!("/backtest/{}/fetch_quotes", u(&op["id"]))),
        "init" => test::TestRequest::get().uri(&format!("/init/{}", path_segment(&s(&op["name"])))),
        "info" => test::TestRequest::get().uri(&format!("/backtest/{}/info", u(&op["id"]))),
        "now" => test::TestRequest::get().uri(&format!("/backtest/{}/now", u(&op["id"]))),
        "insert" => test::TestRequest::post()
            .uri(&format!("/backtest/{}/insert_order", u(&op["id"])))
            .set_json(InsertOrderRequest { order: uist_order_of(&op["order"]) }),
        "delete" => test::TestRequest::post()
            .uri(&format!("/backtest/{}/delete_order", u(&op["id"])))
            .set_json(DeleteOrderRequest { order_id: u(&op["order_id"]) }),
        _ => panic!("bad op"),
    };
    let resp = test::call_service(app, req.to_request()).await;
    let status = resp.status().as_u16();
    let body = test::read_body(resp).await;
    if status != 200 {
        return json!({ "none": true, "status": status, "body": String::from_utf8_lossy(&body) });
    }
    let decoded = match o.as_str() {
        "tick" => {
            let r: TickResponse = serde_json::from_slice(&body).expect("TickResponse");
            u_tick_json(r.has_next, &r.executed_trades, &r.inserted_orders)
        }
        "fetch" => {
            let r: FetchQuotesResponse = serde_json::from_slice(&body).expect("FetchQuotesResponse");
            row_json(&r.quotes)
        }
        "init" => {
            let r: InitResponse = serde_json::from_slice(&body).expect("InitResponse");
            Value::from(r.backtest_id)
        }
        "info" => {
            let r: InfoResponse = serde_json::from_slice(&body).expect("InfoResponse");
            json!({"version": r.version, "dataset": r.dataset})
        }
        "now" => {
            let r: NowResponse = serde_json::from_slice(&body).expect("NowResponse");
            json!({"now": r.now, "has_next": r.has_next})
        }
        _ => {
            let _r: () = serde_json::from_slice(&body).expect("unit");
            Value::Null
        }
    };
    json!({ "some": decoded, "status": status, "text": String::from_utf8_lossy(&body), "req_text": req_text })
}

fn run_uist(sc: &Value) -> Value {
    let mut ds = datasets_of(&sc["datasets"]);
    let dumps: Vec<Value> = arr(&sc["datasets"]).iter().map(|d| json!({"name": d["name"], "dump": dataset_dump(&ds[&s(&d["name"])])})).collect();
    let start = s(&sc["start"]);
    let state = if let Some(name) = start.strip_prefix("single:") {
        hu::AppState::single(name, ds.remove(name).unwrap())
    } else {
        hu::AppState::create(&mut ds)
    };
    let http = sc["mode"].as_str() == Some("http");
    let data = web::Data::new(Mutex::new(state));
    let mut snaps = vec![usnap(&data.lock().unwrap())];
    let mut results = Vec::new();
    actix_web::rt::System::new().block_on(async {
        use hu::uistv1_server::*;
        let app = test::init_service(
            App::new().app_data(data.clone()).service(info).service(init).service(fetch_quotes)
                .service(tick).service(insert_order).service(delete_order).service(now),
        )
        .await;
        for op in arr(&sc["ops"]) {
            let o = s(&op["op"]);
            let via_http = (http && o != "new") || o == "now";
            // shadow: the real exchange of this backtest, cloned, ticked on the row of the current date
            let shadow = if o == "tick" {
                let a = data.lock().unwrap();
                a.backtests.get(&u(&op["id"])).and_then(|b| {
                    a.datasets.get(&b.dataset_name).and_then(|d| {
                        let mut x = b.exchange.clone();
                        catch(|| {
                            let out = match d.get_quotes(&b.date) {
                                Some(row) => { let r = x.tick(row); u_tick_json(false, &r.0, &r.1) }
                                None => u_tick_json(false, &[], &[]),
                            };
                            (out, uist_snap(&x))
                        }).ok()
                    })
                })
            } else { None };
            let r = if via_http {
                // handlers lock the same AppState
                catch_async(uist_http(&app, op)).await
            } else {
                catch(|| uist_direct(&data, op))
            };
            // `now` has no AppState method: the in-process answer (what uistv1_client::TestClient::now returns) is the
            // backtest's clock fields read directly; the handler's answer is compared with it by C20's direct reading
            let inproc = if o == "now" {
                let a = data.lock().unwrap();
                Some(some_or_null(a.backtests.get(&u(&op["id"])).and_then(|b| {
                    a.datasets.get(&b.dataset_name).map(|d| json!({"now": b.date, "has_next": d.has_next(b.pos)}))
                })))
            } else { None };
            let r = r.map(|mut v| {
                if let Some(ip) = inproc { v["inproc"] = ip; }
                if let (Some((out, snap)), Some(got)) = (&shadow, v.get("some").cloned()) {
                    let a = data.lock().unwrap();
                    let same = out["trades"] == got["trades"] && out["admitted"] == got["admitted"]
                        && a.backtests.get(&u(&op["id"])).map(|b| uist_snap(&b.exchange) == *snap).unwrap_or(false);
                    v["shadow_ok"] = Value::from(same);
                }
                v
            });
            match r {
                Ok(v) => {
                    results.push(v);
                    snaps.push(usnap(&data.lock().unwrap()));
                }
                Err(m) => {
                    results.push(panic_json(&m));
                    break;
                }
            }
        }
    });
    json!({ "snaps": snaps, "results": results, "datasets": dumps })
}

// ---------------------------------------------------------------------------------------------
// Jura

fn j_tick_json(has_next: bool, fills: &[rotala::exchange::jura_v1::Fill], orders: &[rotala::exchange::jura_v1::Order], trig: Option<&[u64]>) -> Value {
    json!({ "has_next": has_next,
            "fills": fills.iter().map(jura_fill_json).collect::<Vec<_>>(),
            "admitted": orders.iter().map(jura_order_json).collect::<Vec<_>>(),
            "triggered": trig })
}

fn jura_direct(st: &Mutex<hj::AppState>, op: &Value) -> Value {
    let mut a = st.lock().unwrap();
    match s(&op["op"]).as_str() {
        "tick" => some_or_null(a.tick(u(&op["id"])).map(|r| j_tick_json(r.0, &r.1, &r.2, Some(&r.3)))),
        "fetch" => some_or_null(a.fetch_quotes(u(&op["id"])).map(row_json)),
        "init" => some_or_null(a.init(s(&op["name"])).map(Value::from)),
        "new" => some_or_null(a.new_backtest(&s(&op["name"])).map(Value::from)),
        "insert" => some_or_null(a.insert_order(jura_order_of(&op["order"]), u(&op["id"])).map(|_| Value::Null)),
        "delete" => some_or_null(a.delete_order(u(&op["asset"]), u(&op["order_id"]), u(&op["id"])).map(|_| Value::Null)),
        "info" => some_or_null(a.backtests.get(&u(&op["id"])).map(|b| json!({"version": "v1", "dataset": b.dataset_name}))),
        _ => panic!("bad op"),
    }
}

async fn jura_http<S, B>(app: &S, op: &Value) -> Value
where
    S: actix_web::dev::Service<actix_http::Request, Response = actix_web::dev::ServiceResponse<B>, Error = actix_web::Error>,
    B: actix_web::body::MessageBody,
{
    use hj::jurav1_server::*;
    let o = s(&op["op"]);
    let req_text: Value = match o.as_str() {
        "insert" => Value::from(serde_json::to_string(&json!({"order": jura_order_wire_json(&op["order"])})).unwrap()),
        "delete" => Value::from(serde_json::to_string(&DeleteOrderRequest { asset: u(&op["asset"]), order_id: u(&op["order_id"]) }).unwrap()),
        _ => Value::Null,
    };
    let req = match o.as_str() {
        "tick" => test::TestRequest::get().uri(&format!("/backtest/{}/tick", u(&op["id"]))),
        "fetch" => test::TestRequest::get().uri(&format!("/backtest/{}/fetch_quotes", u(&op["id"]))),
        "init" => test::TestRequest::get().uri(&format!("/init/{}", path_segment(&s(&op["name"])))),
        "info" => test::TestRequest::get().uri(&format!("/backtest/{}/info", u(&op["id"]))),
        "insert" => test::TestRequest::post()
            .uri(&format!("/backtest/{}/insert_order", u(&op["id"])))
            .set_json(json!({"order": jura_order_wire_json(&op["order"])})),
        "delete" => test::TestRequest::post()
            .uri(&format!("/backtest/{}/delete_order", u(&op["id"])))
            .set_json(DeleteOrderRequest { asset: u(&op["asset"]), order_id: u(&op["order_id"]) }),
        _ => panic!("bad op"),
    };
    let resp = test::call_service(app, req.to_request()).await;
    let status = resp.status().as_u16();
    let body = test::read_body(resp).await;
    if status != 200 {
        return json!({ "none": true, "status": status, "body": String::from_utf8_lossy(&body) });
    }
    let decoded = match o.as_str() {
        "tick" => {
            let r: TickResponse = serde_json::from_slice(&body).expect("TickResponse");
            j_tick_json(r.has_next, &r.executed_trades, &r.inserted_orders, Some(&r.triggered_order_ids))
        }
        "fetch" => {
            let r: FetchQuotesResponse = serde_json::from_slice(&body).expect("FetchQuotesResponse");
            row_json(&r.quotes)
        }
        "init" => {
            let r: InitResponse = serde_json::from_slice(&body).expect("InitResponse");
            Value::from(r.backtest_id)
        }
        "info" => {
            let r: InfoResponse = serde_json::from_slice(&body).expect("InfoResponse");
            json!({"version": r.version, "dataset": r.dataset})
        }
        _ => {
            let _r: () = serde_json::from_slice(&body).expect("unit");
            Value::Null
        }
    };
    // what the crate's own Serialize makes of the request (the body actually sent for an order given as JSON is the
    // scenario's JSON itself): the serialisation has to keep the order's meaning whichever way the body was built
    let ser_text: Value = if o == "insert" {
        catch(|| serde_json::to_string(&InsertOrderRequest { order: jura_order_of(&op["order"]) }).unwrap()).map(Value::from).unwrap_or(Value::Null)
    } else { Value::Null };
    json!({ "some": decoded, "status": status, "text": String::from_utf8_lossy(&body), "req_text": req_text, "ser_text": ser_text })
}

fn run_jura(sc: &Value) -> Value {
    let mut ds = datasets_of(&sc["datasets"]);
    let dumps: Vec<Value> = arr(&sc["datasets"]).iter().map(|d| json!({"name": d["name"], "dump": dataset_dump(&ds[&s(&d["name"])])})).collect();
    let start = s(&sc["start"]);
    let state = if let Some(name) = start.strip_prefix("single:") {
        hj::AppState::single(name, ds.remove(name).unwrap())
    } else {
        hj::AppState::create(&mut ds)
    };
    let http = sc["mode"].as_str() == Some("http");
    let data = web::Data::new(Mutex::new(state));
    let mut snaps = vec![jsnap(&data.lock().unwrap())];
    let mut results = Vec::new();
    actix_web::rt::System::new().block_on(async {
        use hj::jurav1_server::*;
        let app = test::init_service(
            App::new().app_data(data.clone()).service(info).service(init).service(fetch_quotes)
                .service(tick).service(insert_order).service(delete_order),
        )
        .await;
        for op in arr(&sc["ops"]) {
            let o = s(&op["op"]);
            let via_http = http && o != "new";
            let shadow = if o == "tick" {
                let a = data.lock().unwrap();
                a.backtests.get(&u(&op["id"])).and_then(|b| {
                    a.datasets.get(&b.dataset_name).and_then(|d| {
                        let mut x = b.exchange.clone();
                        catch(|| {
                            let out = match d.get_quotes(&b.date) {
                                Some(row) => { let r = x.tick(row); j_tick_json(false, &r.0, &r.1, Some(&r.2)) }
                                None => j_tick_json(false, &[], &[], Some(&[])),
                            };
                            (out, jura_snap(&x))
                        }).ok()
                    })
                })
            } else { None };
            let r = if via_http { catch_async(jura_http(&app, op)).await } else { catch(|| jura_direct(&data, op)) };
            let r = r.map(|mut v| {
                if let (Some((out, snap)), Some(got)) = (&shadow, v.get("some").cloned()) {
                    let a = data.lock().unwrap();
                    let same = out["fills"] == got["fills"] && out["admitted"] == got["admitted"]
                        && (got["triggered"].is_null() || out["triggered"] == got["triggered"])
                        && a.backtests.get(&u(&op["id"])).map(|b| jura_snap(&b.exchange) == *snap).unwrap_or(false);
                    v["shadow_ok"] = Value::from(same);
                }
                v
            });
            match r {
                Ok(v) => {
                    results.push(v);
                    snaps.push(jsnap(&data.lock().unwrap()));
                }
                Err(m) => {
                    results.push(panic_json(&m));
                    break;
                }
            }
        }
    });
    json!({ "snaps": snaps, "results": results, "datasets": dumps })
}

/// The crate's own in-process client (uistv1_client::TestClient) driving one AppState::single through the
/// UistClient trait: only the responses are visible (its state is private), so the model follows in lockstep from
/// the loading script of the dataset, with no re-synchronisation and no oracle.
fn run_uclient(sc: &Value) -> Value {
    use hu::uistv1_client::{TestClient, UistClient};
    use crate::util::drive;
    let d = &sc["datasets"][0];
    let name = s(&d["name"]);
    let mut p = Penelope::new();
    for q in arr(&d["quotes"]) {
        p.add_quote(bf(&q[0]), bf(&q[1]), i(&q[2]), s(&q[3]));
    }
    let mut c = TestClient::single(&name, p);
    let mut results = Vec::new();
    for op in arr(&sc["ops"]) {
        let r = catch(|| match s(&op["op"]).as_str() {
            "tick" => some_or_null(drive(c.tick(u(&op["id"]))).ok().map(|r| u_tick_json(r.has_next, &r.executed_trades, &r.inserted_orders))),
            "fetch" => some_or_null(drive(c.fetch_quotes(u(&op["id"]))).ok().map(|r| row_json(&r.quotes))),
            "init" => some_or_null(drive(c.init(s(&op["name"]))).ok().map(|r| Value::from(r.backtest_id))),
            "insert" => some_or_null(drive(c.insert_order(uist_order_of(&op["order"]), u(&op["id"]))).ok().map(|_| Value::Null)),
            "delete" => some_or_null(drive(c.delete_order(u(&op["order_id"]), u(&op["id"]))).ok().map(|_| Value::Null)),
            "info" => some_or_null(drive(c.info(u(&op["id"]))).ok().map(|r| json!({"version": r.version, "dataset": r.dataset}))),
            "now" => some_or_null(drive(c.now(u(&op["id"]))).ok().map(|r| json!({"now": r.now, "has_next": r.has_next}))),
            _ => panic!("bad op"),
        });
        match r {
            Ok(v) => results.push(v),
            Err(m) => {
                results.push(panic_json(&m));
                break;
            }
        }
    }
    json!({ "results": results, "order_size": std::mem::size_of::<rotala::exchange::uist_v1::Order>() })
}

/// The crate's reqwest client (uistv1_client::Client) against a real HTTP server on the loopback interface serving
/// the crate's handlers over one AppState::single: URL building, request bodies and response decoding of the real
/// client are exercised; responses are compared in lockstep like run_uclient. If the loopback interface cannot be
/// used the trace says so ("skipped") and nothing is concluded.
fn run_uhttpclient(sc: &Value) -> Value {
    use hu::uistv1_client::{Client, UistClient};
    use hu::uistv1_server::*;
    let d = &sc["datasets"][0];
    let name = s(&d["name"]);
    let mut p = Penelope::new();
    for q in arr(&d["quotes"]) {
        p.add_quote(bf(&q[0]), bf(&q[1]), i(&q[2]), s(&q[3]));
    }
    let data = web::Data::new(Mutex::new(hu::AppState::single(&name, p)));
    let ops: Vec<Value> = arr(&sc["ops"]).clone();
    let out = actix_web::rt::System::new().block_on(async move {
        let data2 = data.clone();
        let srv = match actix_web::HttpServer::new(move || {
            App::new().app_data(data2.clone()).service(info).service(init).service(fetch_quotes)
                .service(tick).service(insert_order).service(delete_order).service(now)
        })
        .workers(1)
        .bind(("127.0.0.1", 0))
        {
            Ok(s) => s,
            Err(e) => return json!({ "skipped": format!("cannot bind loopback: {e}") }),
        };
        let port = srv.addrs()[0].port();
        let running = srv.run();
        let handle = running.handle();
        actix_web::rt::spawn(running);
        let mut c = Client::new(format!("http://127.0.0.1:{port}"));
        let mut results = Vec::new();
        for op in &ops {
            let r = match s(&op["op"]).as_str() {
                "tick" => some_or_null(c.tick(u(&op["id"])).await.ok().map(|r| u_tick_json(r.has_next, &r.executed_trades, &r.inserted_orders))),
                "fetch" => some_or_null(c.fetch_quotes(u(&op["id"])).await.ok().map(|r| row_json(&r.quotes))),
                "init" => some_or_null(c.init(s(&op["name"])).await.ok().map(|r| Value::from(r.backtest_id))),
                "insert" => some_or_null(c.insert_order(uist_order_of(&op["order"]), u(&op["id"])).await.ok().map(|_| Value::Null)),
                "delete" => some_or_null(c.delete_order(u(&op["order_id"]), u(&op["id"])).await.ok().map(|_| Value::Null)),
                "info" => some_or_null(c.info(u(&op["id"])).await.ok().map(|r| json!({"version": r.version, "dataset": r.dataset}))),
                "now" => some_or_null(c.now(u(&op["id"])).await.ok().map(|r| json!({"now": r.now, "has_next": r.has_next}))),
                _ => panic!("bad op"),
            };
            results.push(r);
        }
        handle.stop(false).await;
        json!({ "results": results, "order_size": std::mem::size_of::<rotala::exchange::uist_v1::Order>() })
    });
    out
}

/// The Jura service has one client only, the reqwest one (jurav1_client::Client; no in-process TestClient, no `now`
/// route). It is driven against a real HTTP server on the loopback interface serving every handler the module
/// exports over an AppState::single / AppState::create built from the scenario's loading scripts: only responses
/// are recorded (an Err of the client — HTTP 400 whose body does not decode, or a transport failure — in the same
/// canonical form as run_uhttpclient), so the model follows in lockstep from the loading scripts. Prices and sizes
/// are strings on the wire: next to every insert the trace carries what the code's own parse::<f64>() makes of the
/// order that was sent ("inserted", as the exchange-level Jura runner does). "skipped" when loopback is unavailable.
fn run_jhttpclient(sc: &Value) -> Value {
    use hj::jurav1_client::{Client, JuraClient};
    use hj::jurav1_server::*;
    let mut ds = datasets_of(&sc["datasets"]);
    let start = s(&sc["start"]);
    let state = if let Some(name) = start.strip_prefix("single:") {
        hj::AppState::single(name, ds.remove(name).unwrap())
    } else {
        hj::AppState::create(&mut ds)
    };
    let data = web::Data::new(Mutex::new(state));
    let ops: Vec<Value> = arr(&sc["ops"]).clone();
    let out = actix_web::rt::System::new().block_on(async move {
        let data2 = data.clone();
        let srv = match actix_web::HttpServer::new(move || {
            App::new().app_data(data2.clone()).service(info).service(init).service(fetch_quotes)
                .service(tick).service(insert_order).service(delete_order)
        })
        .workers(1)
        .bind(("127.0.0.1", 0))
        {
            Ok(s) => s,
            Err(e) => return json!({ "skipped": format!("cannot bind loopback: {e}") }),
        };
        let port = srv.addrs()[0].port();
        let running = srv.run();
        let handle = running.handle();
        actix_web::rt::spawn(running);
        let mut c = Client::new(format!("http://127.0.0.1:{port}"));
        let mut results = Vec::new();
        for op in &ops {
            let r = match s(&op["op"]).as_str() {
                "tick" => some_or_null(c.tick(u(&op["id"])).await.ok().map(|r| j_tick_json(r.has_next, &r.executed_trades, &r.inserted_orders, Some(&r.triggered_order_ids)))),
                "fetch" => some_or_null(c.fetch_quotes(u(&op["id"])).await.ok().map(|r| row_json(&r.quotes))),
                "init" => some_or_null(c.init(s(&op["name"])).await.ok().map(|r| Value::from(r.backtest_id))),
                "insert" => {
                    // a constructor panics on an unparsable price before any request is made: outside the model
                    let o = match catch(|| jura_order_of(&op["order"])) {
                        Ok(o) => o,
                        Err(m) => {
                            results.push(panic_json(&m));
                            break;
                        }
                    };
                    let sent = jura_order_json(&o);
                    let mut r = some_or_null(c.insert_order(o, u(&op["id"])).await.ok().map(|_| Value::Null));
                    r["inserted"] = sent;
                    r
                }
                "delete" => some_or_null(c.delete_order(u(&op["asset"]), u(&op["order_id"]), u(&op["id"])).await.ok().map(|_| Value::Null)),
                "info" => some_or_null(c.info(u(&op["id"])).await.ok().map(|r| json!({"version": r.version, "dataset": r.dataset}))),
                _ => panic!("bad op"),
            };
            results.push(r);
        }
        handle.stop(false).await;
        json!({ "results": results, "order_size": std::mem::size_of::<rotala::exchange::jura_v1::Order>() })
    });
    out
}

pub fn run(sc: &Value) -> Value {
    match s(&sc["kind"]).as_str() {
        "uclient" => run_uclient(sc),
        "uhttpclient" => run_uhttpclient(sc),
        "jhttpclient" => run_jhttpclient(sc),
        "uist" => run_uist(sc),
        "jura" => run_jura(sc),
        _ => panic!("bad kind"),
    }
}
