#!/bin/sh
# tools/seed_regress.sh [names…] — re-run the check of its own property against every recorded seeded change (or the
# named ones), one after the other; prints one line per change. Evidence of these runs goes to /tmp, not to evidence/.
cd /verif
names="$@"
[ -z "$names" ] && names=$(ls seeded)
for n in $names; do
  python3 tools/seed_recheck.py $n 2>&1 | grep -v -i conda | tail -1 | cut -c1-220
done
