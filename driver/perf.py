"""Perf slice (PerformanceCalculator::calculate): generators, libm table (the platform's ln/exp/powf on
exactly the arguments the model needs, obtained from the harness), correspondence, direct readings of C14/C15."""
import random
from fractions import Fraction

from common import *

IMPORTS = ("From Alator Require Import Model.Num Model.Quirks Model.Broker Model.Perf Check.Eqb Check.PerfCheck.")
PASPECTS = {0: "kind", 1: "returns", 2: "ret", 3: "cagr", 4: "vol", 5: "mdd", 6: "sharpe", 7: "dd_dates",
            8: "extremes", 9: "vectors", 10: "frequency"}
P_KIND, P_RETURNS, P_RET, P_CAGR, P_VOL, P_MDD, P_SHARPE, P_DDDATES, P_EXTREMES, P_VECTORS = [1 << i for i in range(10)]
PERF_FLAGS = ["q_maxdd_last_positions"]


def pmask_names(m):
    return [n for b, n in PASPECTS.items() if m & (1 << b)]


def gen_series(rng, malformed=False):
    n = rng.choice([2, 2, 3, 4, 5, 8, 12, 20, 40])
    if malformed and rng.random() < 0.3:
        n = rng.choice([0, 1])
    style = rng.choice(["walk", "walk", "drawdowns", "monotone", "ties", "flows", "steady", "flows_cancel"])
    growth = rng.choice([0.0001, 0.001, 0.01, 0.0])
    cancel_at = None
    v = rng.choice([100.0, 1000.0, 100000.0])
    ncf = v if rng.random() < 0.5 else 0.0
    date = 1633021200
    snaps = []
    for i in range(n):
        if i > 0:
            if style == "steady":
                # the same growth every period: near-identical returns, variance at the edge of cancellation
                v = v * (1.0 + growth)
            elif style == "flows_cancel":
                # money goes in and later comes out again by exactly the same amount: the cumulative cash flow of
                # the last snapshot equals that of the first although flows occurred
                v = max(1.0, v * rng.uniform(0.9, 1.12))
                if cancel_at is None and rng.random() < 0.5:
                    cancel_at = rng.choice([50.0, 1000.0, -30.0])
                    ncf += cancel_at
                    v += cancel_at
                elif cancel_at is not None and cancel_at != 0.0 and (rng.random() < 0.5 or i == n - 1):
                    ncf -= cancel_at
                    v = max(1.0, v - cancel_at)
                    cancel_at = 0.0
            elif style == "monotone":
                v = v * rng.choice([1.0, 1.01, 1.05])
            elif style == "ties":
                v = rng.choice([v, v, v * 0.9, v / 0.9, 100.0, 50.0])
            elif style == "drawdowns":
                v = v * rng.choice([0.5, 0.8, 0.95, 1.3, 2.0, 1.0])
            else:
                v = max(1.0, v * rng.uniform(0.85, 1.18))
            if style == "flows" and rng.random() < 0.4:
                f = rng.choice([100.0, -50.0, 1000.0])
                ncf += f
                v += f
        infl = 0.0 if rng.random() < 0.8 else rng.choice([0.01, 0.001, -0.005])
        vv = v
        if malformed and rng.random() < 0.1:
            vv = rng.choice([0.0, float("nan"), -v, float("inf")])
        snaps.append([date, f2b(vv), f2b(ncf), f2b(infl)])
        date += 86400
    # the annualised figures exist for daily data only: the two other frequencies make calculate panic
    return dict(snapshots=snaps, freq=rng.choice(["Daily"] * 9 + ["Second", "Fixed"]))


def py_returns(snaps):
    vals = [b2f(s[1]) for s in snaps]
    ncf = [b2f(s[2]) for s in snaps]
    infl = [b2f(s[3]) for s in snaps]
    cfs = [0.0] + [ncf[i] - ncf[i - 1] for i in range(1, len(snaps))]
    rets = []
    for i in range(1, len(snaps)):
        cap = vals[i - 1] + cfs[i]
        gain = vals[i] - (vals[i - 1] + cfs[i])
        if cap == 0.0:
            rets.append(0.0)
        else:
            rets.append((1.0 + gain / cap) / (1.0 + infl[i]) - 1.0)
    return rets


def fsum_left(l):
    s = 0.0
    for x in l:
        s = s + x
    return s


def libm_batch(wd, calls):
    """calls: list of (fn, xbits, ybits) -> list of result bits (from the harness = the code's own libm)"""
    if not calls:
        return []
    out = run_harness("perf", [dict(libm=[[f, x, y] for f, x, y in calls])], wd, tag="libm")[0]
    return out["libm"]


def build_tables(wd, scs):
    """-> per scenario list of table entries (fn, x, y, r) as bits"""
    rets = [py_returns(sc["snapshots"]) if len(sc["snapshots"]) >= 1 else [] for sc in scs]
    zero = f2b(0.0)
    # round 1: ln(1 + r)
    calls, where = [], []
    for i, rs in enumerate(rets):
        for r in rs:
            calls.append(("ln", f2b(1.0 + r), zero))
            where.append(i)
    res = libm_batch(wd, calls)
    tables = [[] for _ in scs]
    logs = [[] for _ in scs]
    for (f, x, y), r, i in zip(calls, res, where):
        tables[i].append((f, x, y, r))
        logs[i].append(b2f(r))
    # round 2: exp(sum logs), pow(r - mean, 2)
    calls, where, kind = [], [], []
    for i, rs in enumerate(rets):
        if not rs:
            continue
        calls.append(("exp", f2b(fsum_left(logs[i])), zero))
        where.append(i)
        n = float(len(rs))
        mean = fsum_left(rs) / n
        for r in rs:
            calls.append(("pow", f2b(r - mean), f2b(2.0)))
            where.append(i)
    res = libm_batch(wd, calls)
    exps = {}
    for (f, x, y), r, i in zip(calls, res, where):
        tables[i].append((f, x, y, r))
        if f == "exp":
            exps[i] = b2f(r)
    # round 3: pow(1 + total, 365 / n)
    calls, where = [], []
    for i, sc in enumerate(scs):
        if i in exps:
            n = float(len(sc["snapshots"]))
            calls.append(("pow", f2b(1.0 + (exps[i] - 1.0)), f2b(365.0 / n)))
            where.append(i)
    res = libm_batch(wd, calls)
    for (f, x, y), r, i in zip(calls, res, where):
        tables[i].append((f, x, y, r))
    return tables


LM = {"ln": "LmLn", "exp": "LmExp", "pow": "LmPow"}


def g_table(t):
    seen, out = set(), []
    for f, x, y, r in t:
        if (f, x, y) in seen:
            continue
        seen.add((f, x, y))
        out.append(gt(LM[f], gf(x), gf(y), gf(r)))
    return gl(out)


def g_output(o):
    return gc("mkOutput", gf(o["ret"]), gf(o["cagr"]), gf(o["vol"]), gf(o["mdd"]), gf(o["sharpe"]),
              gl([gf(x) for x in o["values"]]), gl([gf(x) for x in o["returns"]]), gl([gz(d) for d in o["dates"]]),
              gl([gf(x) for x in o["cash_flows"]]), gz(o["first_date"]), gz(o["last_date"]),
              gz(o["dd_start_date"]), gz(o["dd_end_date"]), gf(o["best"]), gf(o["worst"]))


def g_case(sc, tr, table):
    snaps = gl([gc("mkSnap", gz(s[0]), gf(s[1]), gf(s[2]), gf(s[3])) for s in sc["snapshots"]])
    obs = "None" if "panic" in tr else "(Some %s)" % g_output(tr["out"])
    freq = {"Daily": "FDaily", "Second": "FSecond"}.get(sc.get("freq", "Daily"), "FFixed")
    fname = gs("" if "panic" in tr else tr["out"]["frequency"])
    return gc("mkPCase", g_table(table), snaps, obs, freq, fname)


# ---- direct readings ------------------------------------------------------------------------------


def in_domain(sc):
    """C14/C15 domain: >= 2 snapshots, finite positive values, capital positive, inflation > -1"""
    snaps = sc["snapshots"]
    if len(snaps) < 2 or sc.get("freq", "Daily") != "Daily":
        return False
    vals = [b2f(s[1]) for s in snaps]
    if any(math.isnan(v) or math.isinf(v) or v <= 0 for v in vals):
        return False
    ncf = [b2f(s[2]) for s in snaps]
    for i in range(1, len(snaps)):
        if vals[i - 1] + (ncf[i] - ncf[i - 1]) <= 0 or b2f(snaps[i][3]) <= -1:
            return False
    return True


def cl(a, b, rel=1e-9, ab=1e-12):
    return abs(a - b) <= ab + rel * max(abs(a), abs(b))


def oracle_c14(sc, tr):
    if not in_domain(sc):
        return None
    if "panic" in tr:
        return dict(what="calculate panicked on a series inside the property's domain: " + tr["panic"])
    o = tr["out"]
    snaps = sc["snapshots"]
    n = len(snaps)
    vals = [b2f(s[1]) for s in snaps]
    ncf = [b2f(s[2]) for s in snaps]
    rets = [b2f(x) for x in o["returns"]]
    if len(o["values"]) != n or len(o["dates"]) != n or len(o["cash_flows"]) != n or len(rets) != n - 1:
        return dict(what="output vectors do not align one-to-one with the snapshots")
    if o["dates"] != [s[0] for s in snaps] or o["first_date"] != snaps[0][0] or o["last_date"] != snaps[-1][0]:
        return dict(what="dates differ from the snapshot dates")
    prod = 1.0
    for i in range(1, n):
        flow = ncf[i] - ncf[i - 1]
        r = rets[i - 1]
        want = (vals[i - 1] + flow) * (1 + r) * (1 + b2f(snaps[i][3]))
        if not cl(vals[i], want, 1e-9):
            return dict(what="period %d: value_next != (value_prev + flow) x (1 + r) x (1 + inflation)" % i,
                        value_next=vals[i], rhs=want)
        prod *= (1 + r)
    if not cl(b2f(o["ret"]), prod - 1, 1e-9, 1e-9):
        return dict(what="total return is not the compounded product of (1 + r) minus 1", got=b2f(o["ret"]), want=prod - 1)
    if b2f(o["best"]) != max(rets) or b2f(o["worst"]) != min(rets):
        return dict(what="best/worst are not the extreme period returns")
    mean = sum(rets) / len(rets)
    sd = math.sqrt(sum((r - mean) ** 2 for r in rets) / len(rets))
    if not cl(b2f(o["vol"]), math.sqrt(252) * sd, 1e-9, 1e-12):
        return dict(what="volatility is not sqrt(252) x population standard deviation", got=b2f(o["vol"]), want=math.sqrt(252) * sd)
    cagr = (1 + b2f(o["ret"])) ** (365.0 / n) - 1
    if not cl(b2f(o["cagr"]), cagr, 1e-9, 1e-12):
        return dict(what="CAGR is not (1 + total)^(365/n) - 1", got=b2f(o["cagr"]), want=cagr)
    vol = b2f(o["vol"])
    sh = b2f(o["cagr"]) if vol == 0 else b2f(o["cagr"]) / vol
    if not cl(b2f(o["sharpe"]), sh, 1e-9, 1e-12):
        return dict(what="Sharpe is not CAGR / volatility", got=b2f(o["sharpe"]), want=sh)
    return None


def oracle_c15(sc, tr):
    if not in_domain(sc) or "panic" in tr:
        return None
    o = tr["out"]
    rets = [Fraction(b2f(x)) for x in o["returns"]]
    if any(1 + r <= 0 for r in rets):
        return None
    idx = [Fraction(100000)]
    for r in rets:
        idx.append(idx[-1] * (1 + r))
    best = min(idx[j] / idx[i] - 1 for i in range(len(idx)) for j in range(i, len(idx)))
    mdd = b2f(o["mdd"])
    if not cl(mdd, float(best), 1e-9, 1e-12):
        return dict(what="reported maximum drawdown is not the minimum over i <= j of index_j / index_i - 1",
                    got=mdd, want=float(best))
    dates = o["dates"]
    if o["dd_start_date"] not in dates or o["dd_end_date"] not in dates:
        return dict(what="drawdown dates are not snapshot dates")
    s, e = dates.index(o["dd_start_date"]), dates.index(o["dd_end_date"])
    if s > e:
        return dict(what="drawdown start is after its end")
    real = float(idx[e] / idx[s] - 1)
    if not cl(real, mdd, 1e-9, 1e-12):
        return dict(what="the index values at the reported drawdown dates realise %r, not the reported maximum drawdown %r" % (real, mdd),
                    positions=[s, e], index=[float(x) for x in idx])
    return None


ORACLES = {"C14": oracle_c14, "C15": oracle_c15}
PPROJ = {"C14": P_KIND | P_RETURNS | P_RET | P_CAGR | P_VOL | P_SHARPE | P_EXTREMES | P_VECTORS | (1 << 10),
         "C15": P_KIND | P_MDD | P_DDDATES | P_RETURNS}


def run_property(res, prop, tier, seed, replay, prop_files):
    ob = obligations_or_violation(res, prop_files)
    wd = workdir(prop + "_perf")
    rng = random.Random(seed + 13)
    n = tier_size(tier, 400, 12000)
    if replay and json.load(open(replay)).get("component") == "perf":
        scs = [json.load(open(replay))["scenario"]]
    else:
        scs = [s for s in load_corpus(prop) if "snapshots" in s] + [gen_series(rng, malformed=(i % 8 == 7)) for i in range(n)]
    trs = run_harness_sharded("perf", scs, wd)
    tables = build_tables(wd, scs)
    terms = [g_case(sc, tr, t) for sc, tr, t in zip(scs, trs, tables)]
    amask = PPROJ[prop]
    cache = {}

    def eval_fn(val):
        val = frozenset(val)
        if val not in cache:
            r = eval_steps(wd, "p", IMPORTS, [[t] for t in terms], "pcase_mask %s" % g_quirks(val))
            cache[val] = [(sc, st, pmask_names(m & amask)) for sc, st, m in r if m & amask]
        return cache[val]
    orc = ORACLES[prop]

    def run_witness(sc):
        return run_harness("perf", [sc], wd, tag="w")[0]
    slice_verdict(res, prop, eval_fn=eval_fn, relevant=PERF_FLAGS, scenarios=scs, traces_steps=trs,
                  oracle=orc, run_witness=run_witness, component="perf",
                  theorem_hint="Props/%s.v (theorems about Model/Perf.v)" % prop)
    keys = set()
    for sc, tr in zip(scs, trs):
        if "panic" in tr:
            keys.add(("panic", min(len(sc["snapshots"]), 3)))
            continue
        o = tr["out"]
        rets = [b2f(x) for x in o["returns"]]
        n_dd = sum(1 for i in range(1, len(rets)) if rets[i] < 0 <= rets[i - 1])
        keys.add((min(len(rets), 12), min(n_dd, 4), "flows" if any(b2f(x) != 0 for x in o["cash_flows"]) else "noflows",
                  "mdd0" if b2f(o["mdd"]) == 0 else "mdd<0", "dom" if in_domain(sc) else "outside"))
    res.coverage.update(
        evaluations=len(scs), distinct_nontrivial=len(keys),
        rule="seeded snapshot series (2-40 snapshots; random walks, several drawdowns of different depth, recoveries "
             "to new highs, ties, monotone paths, cash-flow patterns, inflation; 1/8 malformed: 0/1 snapshots, zero, "
             "negative, NaN, inf values) through PerformanceCalculator::calculate; every output field compared "
             "bit-for-bit with the model at the IEEE instance, libm values (ln/exp/powf) taken from the platform's "
             "libm through the harness on exactly the arguments the model needs (projection: %s). distinct_nontrivial "
             "counts distinct (length class, number of separate drawdowns, flows?, mdd = 0?, in-domain?) situations"
             % pmask_names(amask),
        samples=[dict(snapshots=[[s[0], show_f(s[1]), show_f(s[2]), show_f(s[3])] for s in scs[len(scs) // 2]["snapshots"][:6]])],
        traces_validated_against_impl=len(scs), libm_calls=sum(len(t) for t in tables))
    res.assumptions += ["theorems are over the reals with the mathematical ln/exp/power/sqrt: IEEE rounding and the "
                        "platform libm's error are outside the theorems (the libm values are observed, not modelled)"]
    return ob
