(* C06 END TO END over the composition broker + eager client + Uist server + Uist exchange (Model/BrokerSys.v), for EVERY number type and every quirk valuation (no arithmetic law is used; all closed under the global context): what a send_order does to the WHOLE system. `outstanding y` are this broker's orders the exchange still holds (resting book, then buffer); `bt_frame` is everything of a backtest but its buffer. Statements only. *)
From Coq Require Import ZArith NArith List Bool String Permutation Sorted Reals Floats.
From Flocq Require Import Raux.
From Alator Require Import Model.Num Model.Quirks Model.Cost Model.Exchange Model.Uist Model.Server Model.Broker
  Model.Perf Model.Strategy Model.BrokerSys Proofs.ServerProofs Proofs.ExchangeProofs Proofs.BrokerLedgerProofs
  Proofs.BrokerLiqProofs Proofs.EndToEnd05 Proofs.EndToEnd04 Proofs.EndToEndExamples Proofs.EndToEnd0609.
Import ListNotations.
Local Open Scope list_scope.

(* A refused order leaves the whole system — broker (cash, holdings, pending, log, quotes, state) and server (every backtest, the exchange's book and buffer) — exactly as it was. *)
Theorem c06s_refused_inert :
  forall (F : Type) (NF : Num F) (qk : quirks) (y : bsys F) (o o' : uorder F)
           (b' : broker F) (fw : list (uorder F)),
         @send_order F NF qk (@bs_brkr F y) o =
         @Ok (broker F * order_event F * list (uorder F)) (b', @OrderInvalid F o', fw) ->
         @bs_step F NF qk y (@BSSend F o) = @Ok (bsys F) y.
Proof. exact @c06s_refused_inert. Qed.

(* A forwarded order reaches the exchange exactly once and unchanged: the broker's outstanding orders become outstanding ++ [o] (the END of its backtest's buffer), the resting book, ids, trade log and clock of that backtest and every OTHER backtest are untouched, and of the broker only the pending exposure moves. *)
Theorem c06s_forwarded_once :
  forall (F : Type) (NF : Num F) (qk : quirks) (y : bsys F) (o o' : uorder F)
           (b' : broker F) (fw : list (uorder F)) (bt : backtest (uexch F)),
         @send_order F NF qk (@bs_brkr F y) o =
         @Ok (broker F * order_event F * list (uorder F)) (b', @OrderSentToExchange F o', fw) ->
         @nlookup (backtest (uexch F)) (@backtests (uexch F) (quotes (quote F)) (@bs_app F y))
           (@bs_id F y) = @Some (backtest (uexch F)) bt ->
         exists y' : bsys F,
           @bs_step F NF qk y (@BSSend F o) = @Ok (bsys F) y' /\
           y' =
           {|
             bs_brkr := @add_pending F NF (@bs_brkr F y) o;
             bs_app :=
               @with_backtest (uexch F) (quotes (quote F)) (@bs_app F y) 
                 (@bs_id F y) (@bt_insert F bt o);
             bs_id := @bs_id F y
           |} /\
           o' = o /\
           fw = [o] /\
           @outstanding F y' = @outstanding F y ++ [o] /\
           @nlookup (backtest (uexch F)) (@backtests (uexch F) (quotes (quote F)) (@bs_app F y'))
             (@bs_id F y') = @Some (backtest (uexch F)) (@bt_insert F bt o) /\
           @buffer (uorder F) (trade F) (@bt_exch (uexch F) (@bt_insert F bt o)) =
           @buffer (uorder F) (trade F) (@bt_exch (uexch F) bt) ++ [o] /\
           @bt_frame F (@bt_insert F bt o) = @bt_frame F bt /\
           @bs_id F y' = @bs_id F y /\
           (forall j : N,
            j <> @bs_id F y ->
            @nlookup (backtest (uexch F))
              (@backtests (uexch F) (quotes (quote F)) (@bs_app F y')) j =
            @nlookup (backtest (uexch F)) (@backtests (uexch F) (quotes (quote F)) (@bs_app F y))
              j) /\
           @datasets (uexch F) (quotes (quote F)) (@bs_app F y') =
           @datasets (uexch F) (quotes (quote F)) (@bs_app F y) /\
           @last (uexch F) (quotes (quote F)) (@bs_app F y') =
           @last (uexch F) (quotes (quote F)) (@bs_app F y) /\
           @bs_brkr F y' = @add_pending F NF (@bs_brkr F y) o /\
           @b_cash F (@bs_brkr F y') = @b_cash F (@bs_brkr F y) /\
           @b_holdings F (@bs_brkr F y') = @b_holdings F (@bs_brkr F y) /\
           @b_log F (@bs_brkr F y') = @b_log F (@bs_brkr F y) /\
           @b_quotes F (@bs_brkr F y') = @b_quotes F (@bs_brkr F y) /\
           @b_costs F (@bs_brkr F y') = @b_costs F (@bs_brkr F y) /\
           @b_failed F (@bs_brkr F y') = @b_failed F (@bs_brkr F y).
Proof. exact @c06s_forwarded_once. Qed.

(* Whatever send_order answers: cash, holdings, log, quotes, costs and state of the broker are unchanged, and so is every backtest but for its buffer. *)
Theorem c06s_send_never_touches_other_state :
  forall (F : Type) (NF : Num F) (qk : quirks) (y : bsys F) (o : uorder F) (y' : bsys F),
         @bs_step F NF qk y (@BSSend F o) = @Ok (bsys F) y' ->
         @b_cash F (@bs_brkr F y') = @b_cash F (@bs_brkr F y) /\
         @b_holdings F (@bs_brkr F y') = @b_holdings F (@bs_brkr F y) /\
         @b_log F (@bs_brkr F y') = @b_log F (@bs_brkr F y) /\
         @b_failed F (@bs_brkr F y') = @b_failed F (@bs_brkr F y) /\
         @b_quotes F (@bs_brkr F y') = @b_quotes F (@bs_brkr F y) /\
         @b_costs F (@bs_brkr F y') = @b_costs F (@bs_brkr F y) /\
         @bs_id F y' = @bs_id F y /\
         (forall j : N,
          @option_map (backtest (uexch F))
            (Z * nat * string * list (entry (uorder F)) * N * list (trade F)) 
            (@bt_frame F)
            (@nlookup (backtest (uexch F))
               (@backtests (uexch F) (quotes (quote F)) (@bs_app F y')) j) =
          @option_map (backtest (uexch F))
            (Z * nat * string * list (entry (uorder F)) * N * list (trade F)) 
            (@bt_frame F)
            (@nlookup (backtest (uexch F))
               (@backtests (uexch F) (quotes (quote F)) (@bs_app F y)) j)) /\
         @datasets (uexch F) (quotes (quote F)) (@bs_app F y') =
         @datasets (uexch F) (quotes (quote F)) (@bs_app F y) /\
         @last (uexch F) (quotes (quote F)) (@bs_app F y') =
         @last (uexch F) (quotes (quote F)) (@bs_app F y).
Proof. exact @c06s_send_never_touches_other_state. Qed.

(* … and the next check() (one tick) admits it: it rests in the book under a fresh id larger than every id there, was not filled by that tick (the tick's trades are the fills of the book as it was BEFORE), and whatever that check left in the buffer are market sells its own cash rebalancing issued. *)
Theorem c06s_forwarded_then_admitted :
  forall (F : Type) (NF : Num F) (qk : quirks) (y : bsys F) (o o' : uorder F)
           (b' : broker F) (fw : list (uorder F)) (bt : backtest (uexch F))
           (d : dataset (quotes (quote F))) (row : quotes (quote F)) 
           (y1 : bsys F) (perm : list nat) (ord : list string) (y2 : bsys F),
         @send_order F NF qk (@bs_brkr F y) o =
         @Ok (broker F * order_event F * list (uorder F)) (b', @OrderSentToExchange F o', fw) ->
         @nlookup (backtest (uexch F)) (@backtests (uexch F) (quotes (quote F)) (@bs_app F y))
           (@bs_id F y) = @Some (backtest (uexch F)) bt ->
         @slookup (dataset (quotes (quote F)))
           (@datasets (uexch F) (quotes (quote F)) (@bs_app F y)) (@bt_dataset (uexch F) bt) =
         @Some (dataset (quotes (quote F))) d ->
         @get_quotes (quotes (quote F)) d (@bt_date (uexch F) bt) = @Some (quotes (quote F)) row ->
         @bs_step F NF qk y (@BSSend F o) = @Ok (bsys F) y1 ->
         @bs_step F NF qk y1 (@BSCheck F perm ord) = @Ok (bsys F) y2 ->
         exists
           (bt2 : backtest (uexch F)) (i : N) (resp : option
                                                        (list (trade F) * list (string * quote F))),
           @nlookup (backtest (uexch F)) (@backtests (uexch F) (quotes (quote F)) (@bs_app F y2))
             (@bs_id F y2) = @Some (backtest (uexch F)) bt2 /\
           @bs_id F y2 = @bs_id F y /\
           @In (entry (uorder F)) {| e_id := i; e_ord := o; e_flag := false |}
             (@book (uorder F) (trade F) (@bt_exch (uexch F) bt2)) /\
           @In (uorder F) o
             (@map (entry (uorder F)) (uorder F) (@e_ord (uorder F))
                (@book (uorder F) (trade F) (@bt_exch (uexch F) bt2))) /\
           (@next_id (uorder F) (trade F) (@bt_exch (uexch F) bt) <= i <
            @next_id (uorder F) (trade F) (@bt_exch (uexch F) bt2))%N /\
           @xlog (uorder F) (trade F) (@bt_exch (uexch F) bt2) =
           @xlog (uorder F) (trade F) (@bt_exch (uexch F) bt) ++
           @map (N * trade F) (trade F) (@snd N (trade F))
             (@flat_map (entry (uorder F)) (N * trade F) (@ExchangeCorollaries.utrade F NF row)
                (@book (uorder F) (trade F) (@bt_exch (uexch F) bt))) /\
           @check F NF qk (@bs_brkr F y1) resp ord =
           @Ok (broker F * list (uorder F))
             (@bs_brkr F y2, @buffer (uorder F) (trade F) (@bt_exch (uexch F) bt2)) /\
           @Forall (uorder F) (@liq_sell F)
             (@buffer (uorder F) (trade F) (@bt_exch (uexch F) bt2)) /\
           (~ @liq_sell F o ->
            ~ @In (uorder F) o (@buffer (uorder F) (trade F) (@bt_exch (uexch F) bt2))) /\
           ((@b_cash F (@booked F NF (@bs_brkr F y1) resp) <? @fzero F NF)%num = false ->
            @buffer (uorder F) (trade F) (@bt_exch (uexch F) bt2) = []) /\
           (@Inv (uorder F) (trade F) (@bt_exch (uexch F) bt) ->
            @Inv (uorder F) (trade F) (@bt_exch (uexch F) bt2) /\
            (forall e : entry (uorder F),
             @In (entry (uorder F)) e (@book (uorder F) (trade F) (@bt_exch (uexch F) bt)) ->
             (@e_id (uorder F) e < i)%N)).
Proof. exact @c06s_forwarded_then_admitted. Qed.

(* Why the last clause is phrased so: kernel-evaluated run in which the admitted order is a price-less market sell and the same check's rebalancing forwards an EQUAL one. *)
Theorem c06s_equal_order_reappears :
  @bind (bsys float) (bool * float * (list (uorder float) * list (uorder float)))
           (@bs_run float FNx clean gx_y0
              [@BSDeposit float 9950%float; @BSSend float (fx_o MarketBuy "ABC" 99);
               @BSCheck float [0] []; @BSSend float (fx_o MarketSell "ABC" 11);
               @BSCheck float [0] ["ABC"]])
           (fun y : bsys float =>
            @Ok (bool * float * (list (uorder float) * list (uorder float)))
              (@b_failed float (@bs_brkr float y), @b_cash float (@bs_brkr float y),
               match
                 @nlookup (backtest (uexch float))
                   (@backtests (uexch float) (quotes (quote float)) (@bs_app float y)) 0
               with
               | Some b =>
                   (@map (entry (uorder float)) (uorder float) (@e_ord (uorder float))
                      (@book (uorder float) (trade float) (@bt_exch (uexch float) b)),
                    @buffer (uorder float) (trade float) (@bt_exch (uexch float) b))
               | None => ([], [])
               end)) =
         @Ok (bool * float * (list (uorder float) * list (uorder float)))
           (false, (-49)%float, ([fx_o MarketSell "ABC" 11], [fx_o MarketSell "ABC" 11])).
Proof. exact @c06s_equal_order_reappears. Qed.

Print Assumptions c06s_refused_inert.
Print Assumptions c06s_forwarded_once.
Print Assumptions c06s_send_never_touches_other_state.
Print Assumptions c06s_forwarded_then_admitted.
Print Assumptions c06s_equal_order_reappears.
