(* C19 — the last-business-day schedule. Statements only; proofs in Proofs/. *)
From Coq Require Import ZArith List Bool.
From Alator Require Import Model.Schedule Proofs.ScheduleSweep Proofs.ScheduleProofs.
Local Open Scope Z_scope.

(* The answer depends only on the calendar date, not on the time of day: every timestamp,
   unbounded. *)
Theorem c19_date_only : forall t t' : Z,
  day_of_ts t = day_of_ts t' -> lbd_should_trade t = lbd_should_trade t'.
Proof. exact lbd_date_only. Qed.

(* For every timestamp from 1970-01-01T00:00:00 up to 2199-12-31T23:59:59 the schedule answers
   true iff the date is Monday–Friday and every later day of the same calendar month falls on a
   weekend.  (Bound stated: the equivalence is a complete sweep of the 84 006 days.) *)
Theorem c19_spec : forall t : Z,
  0 <= t < supported_days * 86400 ->
  let d := day_of_ts t in
  lbd_should_trade t = true <->
  (is_weekend d = false /\
   forall k, 1 <= k <= days_in_month (year_of d) (month_of d) - dom_of d ->
             is_weekend (d + k) = true).
Proof.
  intros t Ht d. rewrite (lbd_spec t Ht). exact (spec_last_business_day_iff d).
Qed.

(* The calendar used on both sides is the Gregorian calendar, day by day from 1970-01-01. *)
Theorem c19_calendar : forall d : Z,
  0 <= d < supported_days ->
  civil_from_days d = Nat.iter (Z.to_nat d) next_ymd (1970, 1, 1).
Proof. exact civil_is_gregorian. Qed.

Theorem c19_default_true : forall t : Z, default_should_trade t = true.
Proof. reflexivity. Qed.

(* Non-vacuity: 2021-09-30 17:00 (a Thursday, last weekday of the month) and 2021-10-31 (a Sunday) *)
Example c19_examples :
  lbd_should_trade 1633021200 = true /\ lbd_should_trade 1635670800 = false /\
  civil_from_days (day_of_ts 1633021200) = (2021, 9, 30).
Proof. vm_compute. repeat split. Qed.

Print Assumptions c19_date_only.
Print Assumptions c19_spec.
Print Assumptions c19_calendar.
Print Assumptions c19_default_true.
