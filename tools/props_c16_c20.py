import sys, os
sys.path.insert(0, os.path.dirname(os.path.abspath(__file__)))
from genprops import gen

IMP16 = """From Coq Require Import ZArith NArith List Bool String Reals Permutation Floats.
From Flocq Require Import Raux.
From Alator Require Import Model.Num Model.Quirks Model.Cost Model.Exchange Model.Uist Model.Server
  Model.Broker Model.Perf Model.Strategy
  Proofs.ServerProofs Proofs.BrokerLedgerProofs Proofs.BrokerLiqProofs Proofs.UistProofs
  Proofs.ExchangeProofs Proofs.ExchangeCorollaries Proofs.StrategyProofs Proofs.EndToEnd16
  Model.Penelope Proofs.PenelopeProofs Proofs.EndToEndCor Proofs.EndToEndExamples.
Import ListNotations.
Local Existing Instance RNum."""

gen("C16", "C16 — the strategy loop walks the whole dataset and records a faithful history. Statements only. The "
    "composition strategy + broker + eager client + Uist server + Uist exchange is Model/Strategy.v (sys_update, "
    "sys_run); the structural theorems hold for every Num F, the two ledgers at F := R.", IMP16, [
    ("c16_update_one_snapshot", "st_update_snapshot", "One update records exactly one snapshot: dated `now`, valued at the broker's total value at that moment, carrying the current net cash flow."),
    ("c16_update_is_one_tick", "sys_update_clock", "In the composition one update is exactly one tick of the strategy's backtest, and the snapshot is dated with the clock date after that tick."),
    ("c16_run_walks_dataset", "sys_run_count", "run() on a backtest that has done k <= N ticks: whenever it returns it has performed exactly N - k updates (N from a fresh backtest), recorded exactly that many snapshots, and snapshot m is dated with the clock after tick k+m+1 — d_{min(k+m+2, N)} in the property's numbering, hence non-decreasing for increasing datasets."),
    ("c16_run_fuel_irrelevant", "sys_run_fuel_irrelevant", "The fuel of the model's loop is only a device: any two fuels above N - k give the same result (the loop terminates after N - k updates; the out-of-fuel value is never what a sufficiently fuelled run returns)."),
    ("c16_only_updates_record", "st_init_history", "init records nothing …"),
    ("c16_withdraw_records_nothing", "st_withdraw_history", "… nor do withdrawals."),
    ("c16_deposit_ncf", "st_deposit_ncf", "A deposit adds its amount to net_cash_flow exactly when the broker accepts it."),
    ("c16_withdraw_ncf", "st_withdraw_ncf", "A withdrawal subtracts its amount exactly when it succeeds."),
    ("c16_cash_flow", "ncf_reconcile", "[R] Over ALL histories of init / update / withdraw / withdraw-with-liquidation: net_cash_flow = cumulative successful deposits - successful withdrawals; every snapshot carries that figure as of its update (c16_update_one_snapshot)."),
    ("c16_total_value_is_worth", "total_value_worth", "[R] With every held symbol priced at price(s) by its last seen bid, the broker's total value (any iteration order) is cash + sum of price x holding."),
    ("c16_fills_at_constant_price", "uist_fills_at_price", "[R] With ask = bid = price(symbol) on every quote of the row, every trade a Uist tick returns is valued price x quantity."),
    ("c16_trading_creates_no_value", "st_update_worth", "[R] Trading alone creates no value: an update whose executed trades are valued at price x quantity leaves cash + sum of price x holding unchanged — whatever the weights, costs and orders (costs are used for sizing only, never charged to cash)."),
    ("c16_booking_creates_no_value", "book_trades_worth", "[R] … because booking such trades does."),
    ("c16_init_value", "st_init_worth", "[R] init moves that worth by exactly the deposit (when accepted) …"),
    ("c16_withdraw_value", "st_withdraw_worth", "[R] … and a plain withdrawal by exactly its amount when it succeeds: with constant prices and zero spread every snapshot's value equals the cash deposited minus successful plain withdrawals."),
    ("c16_update_keeps_worth", "sys_update_const", "[R] END TO END, one update of the full composition (strategy + broker + eager client + Uist server + Uist exchange) on a dataset with constant zero-spread prices: the system invariant (the broker stores only such quotes, holds only quoted symbols, every order of its backtest still in the exchange is for a quoted symbol) is preserved, cash + sum of price x holding is unchanged, and the one snapshot recorded shows exactly that figure — whatever the weights, costs, hash orders and sort oracle; gaps (dates without a row, symbols coming and going) included."),
    ("c16_run_keeps_worth", "sys_run_const", "[R] … hence for the whole run(): every snapshot it records shows the worth the system had when it started."),
    ("c16_constant_prices_end_to_end", "c16_constant_prices_end_to_end", "[R] END TO END from a fresh start: a strategy over a broker that has seen the first date's quotes, init(c), run() on an N-date dataset with constant zero-spread prices: exactly N updates, N snapshots, EVERY snapshot's portfolio value equals the cash deposited c."),
    ("c16_constant_prices_with_withdrawals", "c16_constant_prices_with_withdrawals", "[R] … and with plain withdrawals interleaved between updates every snapshot shows the deposit minus the successful withdrawals so far."),
    ("c16_end_to_end_example", "c16_end_to_end_observed_at_floats", "Non-vacuity, kernel-evaluated at the IEEE instance: a 3-date constant zero-spread dataset with a gap, 1 % costs, two weights, deposit 1000: three updates, three snapshots each worth exactly 1000, positions opened along the way.", True),
    ("c16_dataset_constant_when_loaded_so", "load_dataset_const", "[R] The dataset premise holds of every Penelope loaded with bid = ask = price(symbol) on every add_quote call."),
    ("c16_refuted_q_strategy_ncf_self_add", "st_deposit_ncf_defect", "Refuted for the code as it was: deposit_cash did net_cash_flow += net_cash_flow, so the figure stayed 0 whatever was deposited."),
])

IMP20 = """From Coq Require Import ZArith NArith List Bool String.
From Alator Require Import Model.Num Model.Quirks Model.Exchange Model.Uist Model.Jura Model.Server Model.Json
  Proofs.JsonProofs Proofs.JsonJuraProofs.
Import ListNotations.
Local Open Scope string_scope."""

gen("C20", "C20 — the JSON server is a faithful transport for the in-process exchange. Statements only; for every "
    "number type (floats are leaves of the JSON tree). PARTIAL BY NATURE: the theorems cover the handler layer "
    "(Some -> 200 + body, None -> 400) and the JSON-tree conventions of every message type; serde_json's text layer "
    "(number printing/parsing), actix routing/extractors and the mutex are exercised by the correspondence run, not "
    "modelled.", IMP20, [
    ("c20_transport_faithful", "u_transport_faithful", "Uist service, every request sequence: the decoded response stream equals the in-process result stream.", True),
    ("c20_handler_faithful", "u_handler_faithful", "One request: after JSON decoding the client holds exactly what the in-process call returned.", True),
    ("c20_status_400_iff_none", "u_handler_400", "HTTP 400 exactly where the in-process call reports an unknown backtest or dataset.", True),
    ("c20_receive_respond", "receive_respond", "The handler layer in general (both services): for any message type whose decoder inverts its encoder.", True),
    ("c20_rt_uist_order", "rt_uorder", "Round trips — Uist order (order_id null or integer, price null or number, order_type by name) …", True),
    ("c20_rt_trade", "rt_trade", "… trade …", True),
    ("c20_rt_quote", "rt_quote", "… quote …", True),
    ("c20_rt_quotes_row", "rt_row", "… a row of quotes (a map as a JSON object) …", True),
    ("c20_rt_uist_tick", "rt_utick", "… Uist TickResponse …", True),
    ("c20_rt_init", "rt_init", "… InitResponse …", True),
    ("c20_rt_info", "rt_info", "… InfoResponse …", True),
    ("c20_rt_now", "rt_now", "… NowResponse …", True),
    ("c20_rt_insert_request", "rt_uinsert", "… InsertOrderRequest …", True),
    ("c20_rt_delete_request", "rt_udelete", "… DeleteOrderRequest …", True),
    ("c20_rt_jura_order_type", "rt_jtype", "… Jura order type (externally tagged enum) …", True),
    ("c20_rt_jura_order", "rt_jwire", "… Jura order (limit_px / sz as strings, cloid null or string) …", True),
    ("c20_rt_jura_fill", "rt_fwire", "… Jura fill …", True),
    ("c20_rt_jura_tick", "rt_jtick", "… Jura TickResponse including the ids of triggered child orders …", True),
    ("c20_rt_jura_insert_request", "rt_jinsert", "… Jura InsertOrderRequest …", True),
    ("c20_rt_jura_delete_request", "rt_jdelete", "… Jura DeleteOrderRequest.", True),
    ("c20_jura_transport_faithful", "j_transport_faithful", "Jura service, every request sequence over the endpoints http/jura.rs mounts (tick, fetch_quotes, init, info, insert_order, delete_order — it has no `now` and no new_backtest handler; those two operations are excluded by hypothesis), for EVERY exchange: the decoded response stream equals the in-process result stream (wire types: prices and sizes are strings on this service).", True),
    ("c20_jura_handler_faithful", "j_handler_faithful", "Jura, one request: after JSON decoding the client holds exactly what the in-process call returned.", True),
    ("c20_jura_status_400_iff_none", "j_status_400_iff_none", "Jura: HTTP 400 exactly where the in-process call reports an unknown backtest or dataset.", True),
    ("c20_refuted_q_jura_http_drops_triggered", "rt_jtick_defect", "Refuted for the code as it was: the Jura HTTP TickResponse had no field for the triggered child ids that the in-process tick returns — they are lost in transport.", True),
])
