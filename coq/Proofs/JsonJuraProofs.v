(* JsonJuraProofs.v — C20 for the Jura service: the handler layer of http/jura.rs (module
   jurav1_server) is faithful to the in-process AppState call, over whole request sequences, at the
   wire types (orders as jwire, fills as fwire, delete key (asset, order id)).
   The exact analogue of the Uist part of JsonProofs.v; the round trips (rt_jtick, rt_row, rt_init,
   rt_info, rt_unit) and the generic handler lemmas (receive_respond, respond_status, res_matches)
   are reused from there.

   Endpoints of jurav1_server: tick, fetch_quotes, init, info, insert_order, delete_order.
   There is NO `now` handler and NO handler for AppState::new_backtest in http/jura.rs, so the
   operations SNow and SNew have no endpoint: [j_receive] returns None for them and the theorems
   exclude them by the hypothesis [j_endpoint o = true]. *)
From Coq Require Import ZArith NArith List Bool String Lia.
From Alator Require Import Model.Num Model.Quirks Model.Exchange Model.Uist Model.Jura Model.Server Model.Json.
From Alator Require Import Proofs.JsonProofs.
Import ListNotations.
Local Open Scope string_scope.

Section JsonJuraProofs.
Context {F : Type}.

(* what a Jura tick returns in process, at wire types: fills, inserted orders, triggered ids *)
Notation jout := (list fwire * list (jwire F) * list N)%type.
Notation jres := (sres (quotes (quote F)) jout).
Notation jop := (sop (jwire F) (N * N)).

(* the operations that have a handler in jurav1_server *)
Definition j_endpoint (o : jop) : bool :=
  match o with
  | STick _ _ | SFetch _ | SInit _ | SInsert _ _ | SDelete _ _ | SInfo _ => true
  | SNew _ | SNow _ => false
  end.

(* the Jura service: response to each kind of result of the server model. A `now` result cannot
   arise from an operation that has an endpoint; it is given the shape the Uist service uses so that
   the status characterisation below is uniform. *)
Definition j_respond (r : jres) : response (F:=F) :=
  match r with
  | RTick x => respond (enc_jtick clean) "UnknownBacktest" x
  | RFetch x => respond enc_row "UnknownBacktest" x
  | RId x => respond enc_init "UnknownDataset" x
  | RUnit x => respond enc_unit "UnknownBacktest" x
  | RInfo x => respond enc_info "UnknownBacktest" x
  | RNow x => respond enc_now "UnknownBacktest" x
  | RPanic => (500%nat, JNull)
  end.

(* the client decodes according to the endpoint it called; no endpoint, nothing to decode *)
Definition j_receive (o : jop) (resp : response (F:=F)) : option jres :=
  match o with
  | STick _ _ => option_map (@RTick _ _) (receive dec_jtick resp)
  | SFetch _ => option_map (@RFetch _ _) (receive dec_row resp)
  | SInit _ => option_map (@RId _ _) (receive dec_init resp)
  | SInsert _ _ | SDelete _ _ => option_map (@RUnit _ _) (receive dec_unit resp)
  | SInfo _ => option_map (@RInfo _ _) (receive dec_info resp)
  | SNew _ | SNow _ => None
  end.

(* decoding the response to a result of the endpoint's kind gives the result back *)
Lemma j_receive_respond (o : jop) (r : jres) :
  res_matches o r -> r <> RPanic -> j_endpoint o = true -> j_receive o (j_respond r) = Some r.
Proof.
  intros Hm Hp He.
  destruct o, r; cbn [res_matches] in Hm; try contradiction; try congruence;
    cbn [j_endpoint] in He; try discriminate He;
    cbn [j_receive j_respond].
  - rewrite (receive_respond (enc_jtick clean) dec_jtick); [reflexivity | exact rt_jtick].
  - rewrite (receive_respond enc_row dec_row); [reflexivity | exact rt_row].
  - rewrite (receive_respond enc_init dec_init); [reflexivity | exact rt_init].
  - rewrite (receive_respond enc_unit dec_unit); [reflexivity | exact rt_unit].
  - rewrite (receive_respond enc_unit dec_unit); [reflexivity | exact rt_unit].
  - rewrite (receive_respond enc_info dec_info); [reflexivity | exact rt_info].
Qed.

Lemma j_respond_400 (r : jres) :
  r <> RPanic ->
  (fst (j_respond r) = 400%nat <->
   match r with
   | RTick None | RFetch None | RId None | RUnit None | RInfo None | RNow None => True
   | _ => False
   end).
Proof.
  intros Hp. destruct r as [x|x|x|x|x|x|]; try congruence;
    cbn [j_respond]; rewrite respond_status; destruct x; split; intros H;
    try discriminate; try contradiction; try exact I; reflexivity.
Qed.

(* the server, generic in the exchange: any state type, any tick/insert/delete *)
Context {X : Type}
        (x_init : X)
        (x_tick : X -> quotes (quote F) -> list nat -> option (X * jout))
        (x_insert : X -> jwire F -> X) (x_delete : X -> N * N -> X).
Notation jstep := (sstep x_init x_tick x_insert x_delete (([], [], []) : jout) clean true).
Notation jrun := (srun x_init x_tick x_insert x_delete (([], [], []) : jout) clean true).

Lemma jstep_shape s (o : jop) : res_matches o (snd (jstep s o)).
Proof.
  destruct o; cbn [sstep]; unfold create_backtest;
    repeat match goal with
           | |- context [match ?x with _ => _ end] => destruct x
           end; exact I.
Qed.

(* one request *)
Lemma j_handler_faithful s (o : jop) :
  j_endpoint o = true ->
  snd (jstep s o) <> RPanic -> j_receive o (j_respond (snd (jstep s o))) = Some (snd (jstep s o)).
Proof. intros He Hp. apply j_receive_respond; [apply jstep_shape | exact Hp | exact He]. Qed.

(* HTTP 400 exactly where the in-process call reports an unknown backtest or dataset *)
Lemma j_status_400_iff_none s (o : jop) :
  snd (jstep s o) <> RPanic ->
  (fst (j_respond (snd (jstep s o))) = 400%nat <->
   match snd (jstep s o) with
   | RTick None | RFetch None | RId None | RUnit None | RInfo None | RNow None => True
   | _ => False
   end).
Proof. apply j_respond_400. Qed.

(* every request sequence: the decoded response stream equals the in-process result stream *)
Fixpoint jzip_receive (ops : list jop) (rs : list (response (F:=F))) :=
  match ops, rs with
  | o :: ops', r :: rs' => j_receive o r :: jzip_receive ops' rs'
  | _, _ => []
  end.

Lemma j_transport_faithful s (ops : list jop) :
  Forall (fun o => j_endpoint o = true) ops ->
  Forall (fun r => r <> RPanic) (snd (jrun s ops)) ->
  jzip_receive ops (map j_respond (snd (jrun s ops))) = map Some (snd (jrun s ops)).
Proof.
  revert s. induction ops as [|o ops IH]; intros s He H; [reflexivity|].
  inversion He as [|? ? Heo Heops]; subst.
  cbn [srun] in *.
  pose proof (j_handler_faithful s o Heo) as Ho.
  destruct (jstep s o) as [s' x] eqn:Es.
  specialize (IH s' Heops).
  destruct (jrun s' ops) as [s'' xs] eqn:Er.
  cbn [fst snd map jzip_receive] in *.
  inversion H as [|? ? Hx Hxs]; subst.
  rewrite (Ho Hx), (IH Hxs). reflexivity.
Qed.

End JsonJuraProofs.

Check @j_respond.
Check @j_receive.
Check @j_endpoint.
Check @j_receive_respond.
Check @j_respond_400.
Check @j_handler_faithful.
Check @j_status_400_iff_none.
Check @j_transport_faithful.

Print Assumptions j_receive_respond.
Print Assumptions j_respond_400.
Print Assumptions j_handler_faithful.
Print Assumptions j_status_400_iff_none.
Print Assumptions j_transport_faithful.
