"""C18 — exchange slice; see driver/exch.py and Props/C18.v"""
import exch


def run(res, tier, seed, replay):
    return exch.run_property(res, "C18", tier, seed, replay, ["C18", "C18history"])
