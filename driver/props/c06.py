"""C06 — broker slice; see driver/broker.py and Props/C06.v"""
import broker


def run(res, tier, seed, replay):
    return broker.run_property(res, "C06", tier, seed, replay, ["C06", "C06sys"])
