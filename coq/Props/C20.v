(* C20 — the JSON server is a faithful transport for the in-process exchange. Statements only; for every number type (floats are leaves of the JSON tree). PARTIAL BY NATURE: the theorems cover the handler layer (Some -> 200 + body, None -> 400) and the JSON-tree conventions of every message type; serde_json's text layer (number printing/parsing), actix routing/extractors and the mutex are exercised by the correspondence run, not modelled. *)
From Coq Require Import ZArith NArith List Bool String.
From Alator Require Import Model.Num Model.Quirks Model.Exchange Model.Uist Model.Jura Model.Server Model.Json
  Proofs.JsonProofs Proofs.JsonJuraProofs.
Import ListNotations.
Local Open Scope string_scope.

(* Uist service, every request sequence: the decoded response stream equals the in-process result stream. *)
Theorem c20_transport_faithful :
  forall (F : Type) (x_init : uexch F)
           (x_tick : uexch F ->
                     quotes (quote F) ->
                     list nat -> option (uexch F * (list (trade F) * list (N * uorder F))))
           (x_insert : uexch F -> uorder F -> uexch F) (x_delete : uexch F -> N -> uexch F)
           (s : app (uexch F) (quotes (quote F))) (ops : list (sop (uorder F) N)),
         @Forall (sres (quotes (quote F)) (list (trade F) * list (N * uorder F)))
           (fun r : sres (quotes (quote F)) (list (trade F) * list (N * uorder F)) =>
            r <> @RPanic (quotes (quote F)) (list (trade F) * list (N * uorder F)))
           (@snd (app (uexch F) (quotes (quote F)))
              (list (sres (quotes (quote F)) (list (trade F) * list (N * uorder F))))
              (@srun (uexch F) (quotes (quote F)) (uorder F) N
                 (list (trade F) * list (N * uorder F)) x_init x_tick x_insert x_delete (
                 [], []) clean false s ops)) ->
         @zip_receive F ops
           (@map (sres (quotes (quote F)) (list (trade F) * list (N * uorder F))) 
              (@response F) (@u_respond F)
              (@snd (app (uexch F) (quotes (quote F)))
                 (list (sres (quotes (quote F)) (list (trade F) * list (N * uorder F))))
                 (@srun (uexch F) (quotes (quote F)) (uorder F) N
                    (list (trade F) * list (N * uorder F)) x_init x_tick x_insert x_delete
                    ([], []) clean false s ops))) =
         @map (sres (quotes (quote F)) (list (trade F) * list (N * uorder F)))
           (option (sres (quotes (quote F)) (list (trade F) * list (N * uorder F))))
           (@Some (sres (quotes (quote F)) (list (trade F) * list (N * uorder F))))
           (@snd (app (uexch F) (quotes (quote F)))
              (list (sres (quotes (quote F)) (list (trade F) * list (N * uorder F))))
              (@srun (uexch F) (quotes (quote F)) (uorder F) N
                 (list (trade F) * list (N * uorder F)) x_init x_tick x_insert x_delete (
                 [], []) clean false s ops)).
Proof. exact @u_transport_faithful. Qed.

(* One request: after JSON decoding the client holds exactly what the in-process call returned. *)
Theorem c20_handler_faithful :
  forall (F : Type) (x_init : uexch F)
           (x_tick : uexch F ->
                     quotes (quote F) ->
                     list nat -> option (uexch F * (list (trade F) * list (N * uorder F))))
           (x_insert : uexch F -> uorder F -> uexch F) (x_delete : uexch F -> N -> uexch F)
           (s : app (uexch F) (quotes (quote F))) (o : sop (uorder F) N),
         @snd (app (uexch F) (quotes (quote F)))
           (sres (quotes (quote F)) (list (trade F) * list (N * uorder F)))
           (@sstep (uexch F) (quotes (quote F)) (uorder F) N
              (list (trade F) * list (N * uorder F)) x_init x_tick x_insert x_delete (
              [], []) clean false s o) <>
         @RPanic (quotes (quote F)) (list (trade F) * list (N * uorder F)) ->
         @u_receive F o
           (@u_respond F
              (@snd (app (uexch F) (quotes (quote F)))
                 (sres (quotes (quote F)) (list (trade F) * list (N * uorder F)))
                 (@sstep (uexch F) (quotes (quote F)) (uorder F) N
                    (list (trade F) * list (N * uorder F)) x_init x_tick x_insert x_delete
                    ([], []) clean false s o))) =
         @Some (sres (quotes (quote F)) (list (trade F) * list (N * uorder F)))
           (@snd (app (uexch F) (quotes (quote F)))
              (sres (quotes (quote F)) (list (trade F) * list (N * uorder F)))
              (@sstep (uexch F) (quotes (quote F)) (uorder F) N
                 (list (trade F) * list (N * uorder F)) x_init x_tick x_insert x_delete (
                 [], []) clean false s o)).
Proof. exact @u_handler_faithful. Qed.

(* HTTP 400 exactly where the in-process call reports an unknown backtest or dataset. *)
Theorem c20_status_400_iff_none :
  forall (F : Type) (x_init : uexch F)
           (x_tick : uexch F ->
                     quotes (quote F) ->
                     list nat -> option (uexch F * (list (trade F) * list (N * uorder F))))
           (x_insert : uexch F -> uorder F -> uexch F) (x_delete : uexch F -> N -> uexch F)
           (s : app (uexch F) (quotes (quote F))) (o : sop (uorder F) N),
         @snd (app (uexch F) (quotes (quote F)))
           (sres (quotes (quote F)) (list (trade F) * list (N * uorder F)))
           (@sstep (uexch F) (quotes (quote F)) (uorder F) N
              (list (trade F) * list (N * uorder F)) x_init x_tick x_insert x_delete (
              [], []) clean false s o) <>
         @RPanic (quotes (quote F)) (list (trade F) * list (N * uorder F)) ->
         @fst nat (json F)
           (@u_respond F
              (@snd (app (uexch F) (quotes (quote F)))
                 (sres (quotes (quote F)) (list (trade F) * list (N * uorder F)))
                 (@sstep (uexch F) (quotes (quote F)) (uorder F) N
                    (list (trade F) * list (N * uorder F)) x_init x_tick x_insert x_delete
                    ([], []) clean false s o))) = 400 <->
         match
           @snd (app (uexch F) (quotes (quote F)))
             (sres (quotes (quote F)) (list (trade F) * list (N * uorder F)))
             (@sstep (uexch F) (quotes (quote F)) (uorder F) N
                (list (trade F) * list (N * uorder F)) x_init x_tick x_insert x_delete (
                [], []) clean false s o)
         with
         | RTick None | RFetch None | RId None | RUnit None | RInfo None | RNow None => True
         | _ => False
         end.
Proof. exact @u_handler_400. Qed.

(* The handler layer in general (both services): for any message type whose decoder inverts its encoder. *)
Theorem c20_receive_respond :
  forall (F A : Type) (e : A -> json F) (d : json F -> option A) 
           (err : string) (r : option A),
         (forall a : A, d (e a) = @Some A a) ->
         @receive F A d (@respond F A e err r) = @Some (option A) r.
Proof. exact @receive_respond. Qed.

(* Round trips — Uist order (order_id null or integer, price null or number, order_type by name) … *)
Theorem c20_rt_uist_order :
  forall (F : Type) (o : option N * uorder F),
         @dec_uorder F (@enc_uorder F o) = @Some (option N * uorder F) o.
Proof. exact @rt_uorder. Qed.

(* … trade … *)
Theorem c20_rt_trade :
  forall (F : Type) (t : trade F), @dec_trade F (@enc_trade F t) = @Some (trade F) t.
Proof. exact @rt_trade. Qed.

(* … quote … *)
Theorem c20_rt_quote :
  forall (F : Type) (q : quote F), @dec_quote F (@enc_quote F q) = @Some (quote F) q.
Proof. exact @rt_quote. Qed.

(* … a row of quotes (a map as a JSON object) … *)
Theorem c20_rt_quotes_row :
  forall (F : Type) (r : quotes (quote F)),
         @dec_row F (@enc_row F r) = @Some (quotes (quote F)) r.
Proof. exact @rt_row. Qed.

(* … Uist TickResponse … *)
Theorem c20_rt_uist_tick :
  forall (F : Type) (r : @utick F), @dec_utick F (@enc_utick F r) = @Some (@utick F) r.
Proof. exact @rt_utick. Qed.

(* … InitResponse … *)
Theorem c20_rt_init :
  forall (F : Type) (i : N), @dec_init F (@enc_init F i) = @Some N i.
Proof. exact @rt_init. Qed.

(* … InfoResponse … *)
Theorem c20_rt_info :
  forall (F : Type) (s : string), @dec_info F (@enc_info F s) = @Some string s.
Proof. exact @rt_info. Qed.

(* … NowResponse … *)
Theorem c20_rt_now :
  forall (F : Type) (r : Z * bool), @dec_now F (@enc_now F r) = @Some (Z * bool) r.
Proof. exact @rt_now. Qed.

(* … InsertOrderRequest … *)
Theorem c20_rt_insert_request :
  forall (F : Type) (o : uorder F), @dec_uinsert F (@enc_uinsert F o) = @Some (uorder F) o.
Proof. exact @rt_uinsert. Qed.

(* … DeleteOrderRequest … *)
Theorem c20_rt_delete_request :
  forall (F : Type) (i : N), @dec_udelete F (@enc_udelete F i) = @Some N i.
Proof. exact @rt_udelete. Qed.

(* … Jura order type (externally tagged enum) … *)
Theorem c20_rt_jura_order_type :
  forall (F : Type) (t : jtype F), @dec_jtype F (@enc_jtype F t) = @Some (jtype F) t.
Proof. exact @rt_jtype. Qed.

(* … Jura order (limit_px / sz as strings, cloid null or string) … *)
Theorem c20_rt_jura_order :
  forall (F : Type) (o : jwire F), @dec_jwire F (@enc_jwire F o) = @Some (jwire F) o.
Proof. exact @rt_jwire. Qed.

(* … Jura fill … *)
Theorem c20_rt_jura_fill :
  forall (F : Type) (x : fwire), @dec_fwire F (@enc_fwire F x) = @Some fwire x.
Proof. exact @rt_fwire. Qed.

(* … Jura TickResponse including the ids of triggered child orders … *)
Theorem c20_rt_jura_tick :
  forall (F : Type) (r : @jtick F),
         @dec_jtick F (@enc_jtick F clean r) = @Some (@jtick F) r.
Proof. exact @rt_jtick. Qed.

(* … Jura InsertOrderRequest … *)
Theorem c20_rt_jura_insert_request :
  forall (F : Type) (o : jwire F), @dec_jinsert F (@enc_jinsert F o) = @Some (jwire F) o.
Proof. exact @rt_jinsert. Qed.

(* … Jura DeleteOrderRequest. *)
Theorem c20_rt_jura_delete_request :
  forall (F : Type) (k : N * N), @dec_jdelete F (@enc_jdelete F k) = @Some (N * N) k.
Proof. exact @rt_jdelete. Qed.

(* Jura service, every request sequence over the endpoints http/jura.rs mounts (tick, fetch_quotes, init, info, insert_order, delete_order — it has no `now` and no new_backtest handler; those two operations are excluded by hypothesis), for EVERY exchange: the decoded response stream equals the in-process result stream (wire types: prices and sizes are strings on this service). *)
Theorem c20_jura_transport_faithful :
  forall (F X : Type) (x_init : X)
           (x_tick : X ->
                     quotes (quote F) ->
                     list nat -> option (X * (list fwire * list (jwire F) * list N)))
           (x_insert : X -> jwire F -> X) (x_delete : X -> N * N -> X)
           (s : app X (quotes (quote F))) (ops : list (sop (jwire F) (N * N))),
         @Forall (sop (jwire F) (N * N))
           (fun o : sop (jwire F) (N * N) => @j_endpoint F o = true) ops ->
         @Forall (sres (quotes (quote F)) (list fwire * list (jwire F) * list N))
           (fun r : sres (quotes (quote F)) (list fwire * list (jwire F) * list N) =>
            r <> @RPanic (quotes (quote F)) (list fwire * list (jwire F) * list N))
           (@snd (app X (quotes (quote F)))
              (list (sres (quotes (quote F)) (list fwire * list (jwire F) * list N)))
              (@srun X (quotes (quote F)) (jwire F) (N * N)
                 (list fwire * list (jwire F) * list N) x_init x_tick x_insert x_delete
                 ([], [], []) clean true s ops)) ->
         @jzip_receive F ops
           (@map (sres (quotes (quote F)) (list fwire * list (jwire F) * list N)) 
              (@response F) (@j_respond F)
              (@snd (app X (quotes (quote F)))
                 (list (sres (quotes (quote F)) (list fwire * list (jwire F) * list N)))
                 (@srun X (quotes (quote F)) (jwire F) (N * N)
                    (list fwire * list (jwire F) * list N) x_init x_tick x_insert x_delete
                    ([], [], []) clean true s ops))) =
         @map (sres (quotes (quote F)) (list fwire * list (jwire F) * list N))
           (option (sres (quotes (quote F)) (list fwire * list (jwire F) * list N)))
           (@Some (sres (quotes (quote F)) (list fwire * list (jwire F) * list N)))
           (@snd (app X (quotes (quote F)))
              (list (sres (quotes (quote F)) (list fwire * list (jwire F) * list N)))
              (@srun X (quotes (quote F)) (jwire F) (N * N)
                 (list fwire * list (jwire F) * list N) x_init x_tick x_insert x_delete
                 ([], [], []) clean true s ops)).
Proof. exact @j_transport_faithful. Qed.

(* Jura, one request: after JSON decoding the client holds exactly what the in-process call returned. *)
Theorem c20_jura_handler_faithful :
  forall (F X : Type) (x_init : X)
           (x_tick : X ->
                     quotes (quote F) ->
                     list nat -> option (X * (list fwire * list (jwire F) * list N)))
           (x_insert : X -> jwire F -> X) (x_delete : X -> N * N -> X)
           (s : app X (quotes (quote F))) (o : sop (jwire F) (N * N)),
         @j_endpoint F o = true ->
         @snd (app X (quotes (quote F)))
           (sres (quotes (quote F)) (list fwire * list (jwire F) * list N))
           (@sstep X (quotes (quote F)) (jwire F) (N * N) (list fwire * list (jwire F) * list N)
              x_init x_tick x_insert x_delete ([], [], []) clean true s o) <>
         @RPanic (quotes (quote F)) (list fwire * list (jwire F) * list N) ->
         @j_receive F o
           (@j_respond F
              (@snd (app X (quotes (quote F)))
                 (sres (quotes (quote F)) (list fwire * list (jwire F) * list N))
                 (@sstep X (quotes (quote F)) (jwire F) (N * N)
                    (list fwire * list (jwire F) * list N) x_init x_tick x_insert x_delete
                    ([], [], []) clean true s o))) =
         @Some (sres (quotes (quote F)) (list fwire * list (jwire F) * list N))
           (@snd (app X (quotes (quote F)))
              (sres (quotes (quote F)) (list fwire * list (jwire F) * list N))
              (@sstep X (quotes (quote F)) (jwire F) (N * N)
                 (list fwire * list (jwire F) * list N) x_init x_tick x_insert x_delete
                 ([], [], []) clean true s o)).
Proof. exact @j_handler_faithful. Qed.

(* Jura: HTTP 400 exactly where the in-process call reports an unknown backtest or dataset. *)
Theorem c20_jura_status_400_iff_none :
  forall (F X : Type) (x_init : X)
           (x_tick : X ->
                     quotes (quote F) ->
                     list nat -> option (X * (list fwire * list (jwire F) * list N)))
           (x_insert : X -> jwire F -> X) (x_delete : X -> N * N -> X)
           (s : app X (quotes (quote F))) (o : sop (jwire F) (N * N)),
         @snd (app X (quotes (quote F)))
           (sres (quotes (quote F)) (list fwire * list (jwire F) * list N))
           (@sstep X (quotes (quote F)) (jwire F) (N * N) (list fwire * list (jwire F) * list N)
              x_init x_tick x_insert x_delete ([], [], []) clean true s o) <>
         @RPanic (quotes (quote F)) (list fwire * list (jwire F) * list N) ->
         @fst nat (json F)
           (@j_respond F
              (@snd (app X (quotes (quote F)))
                 (sres (quotes (quote F)) (list fwire * list (jwire F) * list N))
                 (@sstep X (quotes (quote F)) (jwire F) (N * N)
                    (list fwire * list (jwire F) * list N) x_init x_tick x_insert x_delete
                    ([], [], []) clean true s o))) = 400 <->
         match
           @snd (app X (quotes (quote F)))
             (sres (quotes (quote F)) (list fwire * list (jwire F) * list N))
             (@sstep X (quotes (quote F)) (jwire F) (N * N)
                (list fwire * list (jwire F) * list N) x_init x_tick x_insert x_delete
                ([], [], []) clean true s o)
         with
         | RTick None | RFetch None | RId None | RUnit None | RInfo None | RNow None => True
         | _ => False
         end.
Proof. exact @j_status_400_iff_none. Qed.

(* Refuted for the code as it was: the Jura HTTP TickResponse had no field for the triggered child ids that the in-process tick returns — they are lost in transport. *)
Theorem c20_refuted_q_jura_http_drops_triggered :
  forall (F : Type) (qk : quirks) (r : @jtick F),
         q_jura_http_drops_triggered qk = true ->
         @dec_jtick F (@enc_jtick F qk r) =
         @Some (bool * (list fwire * list (jwire F) * list N))
           (@fst bool (list fwire * list (jwire F) * list N) r,
            (@fst (list fwire) (list (jwire F))
               (@fst (list fwire * list (jwire F)) (list N)
                  (@snd bool (list fwire * list (jwire F) * list N) r)),
             @snd (list fwire) (list (jwire F))
               (@fst (list fwire * list (jwire F)) (list N)
                  (@snd bool (list fwire * list (jwire F) * list N) r)), [])).
Proof. exact @rt_jtick_defect. Qed.

Print Assumptions c20_transport_faithful.
Print Assumptions c20_handler_faithful.
Print Assumptions c20_status_400_iff_none.
Print Assumptions c20_receive_respond.
Print Assumptions c20_rt_uist_order.
Print Assumptions c20_rt_trade.
Print Assumptions c20_rt_quote.
Print Assumptions c20_rt_quotes_row.
Print Assumptions c20_rt_uist_tick.
Print Assumptions c20_rt_init.
Print Assumptions c20_rt_info.
Print Assumptions c20_rt_now.
Print Assumptions c20_rt_insert_request.
Print Assumptions c20_rt_delete_request.
Print Assumptions c20_rt_jura_order_type.
Print Assumptions c20_rt_jura_order.
Print Assumptions c20_rt_jura_fill.
Print Assumptions c20_rt_jura_tick.
Print Assumptions c20_rt_jura_insert_request.
Print Assumptions c20_rt_jura_delete_request.
Print Assumptions c20_jura_transport_faithful.
Print Assumptions c20_jura_handler_faithful.
Print Assumptions c20_jura_status_400_iff_none.
Print Assumptions c20_refuted_q_jura_http_drops_triggered.
